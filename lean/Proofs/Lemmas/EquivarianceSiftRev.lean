/-
  Helper lemmas for C02 (phase 2) — time reversal through the sift model
  (`Sift.loop`, `getNextImfIx`, `peelLoop`), and the bridge from `Extrema.interpEnvelope_reverse'`.
-/
import Proofs.Lemmas.EquivarianceSift

namespace Sift

/-! ### signal algebra under reversal (equal lengths where two signals are combined) -/

theorem sub_reverse (a b : Sig) (h : a.length = b.length) : Sig.sub a.reverse b.reverse = (Sig.sub a b).reverse := by
  unfold Sig.sub; exact (List.reverse_zipWith h).symm

theorem add_reverse (a b : Sig) (h : a.length = b.length) : Sig.add a.reverse b.reverse = (Sig.add a b).reverse := by
  unfold Sig.add; exact (List.reverse_zipWith h).symm

theorem mean2_reverse (a b : Sig) (h : a.length = b.length) : Sig.mean2 a.reverse b.reverse = (Sig.mean2 a b).reverse := by
  unfold Sig.mean2; exact (List.reverse_zipWith h).symm

theorem smul_reverse (c : Rat) (a : Sig) : Sig.smul c a.reverse = (Sig.smul c a).reverse := by
  simp [Sig.smul]

theorem sum_append_one (l : Sig) (a : Rat) : Sig.sum (l ++ [a]) = Sig.sum l + a := by
  induction l with
  | nil => simp [Sig.sum]
  | cons b t ih =>
    simp only [Sig.sum, List.cons_append, List.foldr_cons] at ih ⊢
    rw [ih]; ring

theorem sum_reverse' (l : Sig) : Sig.sum l.reverse = Sig.sum l := by
  induction l with
  | nil => rfl
  | cons a t ih =>
    rw [List.reverse_cons, sum_append_one, ih]
    simp only [Sig.sum, List.foldr_cons]; ring

theorem sumSq_reverse (l : Sig) : Sig.sumSq l.reverse = Sig.sumSq l := by
  unfold Sig.sumSq; rw [List.map_reverse, sum_reverse']

theorem absSum_reverse (l : Sig) : Sig.absSum l.reverse = Sig.absSum l := by
  unfold Sig.absSum; rw [List.map_reverse, sum_reverse']

theorem zeros_reverse (n : Nat) : (Sig.zeros n).reverse = Sig.zeros n := by
  simp [Sig.zeros]

theorem foldl_add_reverse (n : Nat) (cols : List Sig) (hc : ∀ v ∈ cols, v.length = n) : ∀ acc : Sig, acc.length = n →
    (cols.map List.reverse).foldl Sig.add acc.reverse = (cols.foldl Sig.add acc).reverse := by
  induction cols with
  | nil => intro acc _; rfl
  | cons a t ih =>
    intro acc hacc
    have ha : a.length = n := hc a List.mem_cons_self
    simp only [List.map_cons, List.foldl_cons]
    rw [add_reverse acc a (by rw [hacc, ha])]
    exact ih (fun v hv => hc v (List.mem_cons_of_mem _ hv)) _ (by simp [hacc, ha])

theorem vsum_reverse (n : Nat) (cols : List Sig) (hc : ∀ v ∈ cols, v.length = n) :
    Sig.vsum n (cols.map List.reverse) = (Sig.vsum n cols).reverse := by
  unfold Sig.vsum
  rw [← foldl_add_reverse n cols hc (Sig.zeros n) (by simp), zeros_reverse]

/-! ### the stopping rules do not see the direction of time -/

theorem sdStop_reverse (thr : Rat) (h x1 : Sig) (hl : h.length = x1.length) :
    sdStop thr h.reverse x1.reverse = sdStop thr h x1 := by
  unfold sdStop
  rw [sub_reverse h x1 hl, sumSq_reverse, sumSq_reverse]

theorem rillingBig_reverse (sd : Rat) (U L : Sig) (hl : U.length = L.length) :
    rillingBig sd U.reverse L.reverse = (rillingBig sd U L).reverse := by
  unfold rillingBig; exact (List.reverse_zipWith hl).symm

theorem rillingStop_reverse (a b t : Rat) (U L : Sig) (hl : U.length = L.length) :
    rillingStop a b t U.reverse L.reverse = rillingStop a b t U L := by
  unfold rillingStop
  simp only [rillingBig_reverse _ U L hl, List.length_reverse, List.count_reverse, List.any_reverse]

theorem stopTest_reverse (r : StopRule) (k m : Nat) (h x1 U L : Sig) (h1 : h.length = x1.length) (h2 : U.length = L.length) :
    stopTest r k m h.reverse x1.reverse U.reverse L.reverse = stopTest r k m h x1 U L := by
  cases r with
  | sd thr => exact sdStop_reverse thr h x1 h1
  | rilling a b t => exact rillingStop_reverse a b t U L h2
  | fixed => rfl

/-! ### vocabulary -/

/-- `E'` is to the reversed signal what `E` is to the signal: both envelopes reversed -/
def EnvRev (E E' : Nat → Sig → Env) : Prop :=
  ∀ k h, E' k h.reverse = ((E k h).1.map List.reverse, (E k h).2.map List.reverse)

/-- the energy difference does not see the direction of time -/
def EnergyRev (D D' : Sig → Sig → Rat) : Prop := ∀ a b, D' a.reverse b.reverse = D a b

def Outcome.rev : Outcome → Outcome
  | .stopped k v => .stopped k v.reverse
  | .noExtrema k h => .noExtrema k h.reverse
  | .noConverge => .noConverge

def ImfResult.rev : ImfResult → ImfResult
  | .imf v f => .imf v.reverse f
  | .convergeError => .convergeError

theorem loop_reverse (E E' : Nat → Sig → Env) (hE : EnvRev E E') (hLen : EnvLen E) (o : ImfOpts) :
    ∀ (fuel k : Nat) (h : Sig), loop E' o fuel k h.reverse = (loop E o fuel k h).rev := by
  intro fuel
  induction fuel with
  | zero => intro k h; rfl
  | succ fuel ih =>
    intro k h
    unfold loop
    rw [hE k h]
    rcases hEk : E k h with ⟨_ | U, _ | L⟩
    · simp [Outcome.rev]
    · simp [Outcome.rev]
    · simp [Outcome.rev]
    · obtain ⟨hU, hL⟩ := hLen k h U L hEk
      have hUL : U.length = L.length := by rw [hU, hL]
      have hm : (Sig.mean2 U L).length = h.length := by simp [hU, hL]
      have hsm : (Sig.smul o.step (Sig.mean2 U L)).length = h.length := by simp [hU, hL]
      have hst := stopTest_reverse o.stop (k + 1) o.maxIters h (Sig.sub h (Sig.mean2 U L)) U L (by simp [hU, hL]) hUL
      simp only [Option.map_some, mean2_reverse U L hUL, sub_reverse h _ hm.symm, hst, smul_reverse,
        sub_reverse h _ hsm.symm, ih]
      split <;> simp [Outcome.rev]

theorem energyFlag_reverse (D D' : Sig → Sig → Rat) (hD : EnergyRev D D') (o : ImfOpts) (x v : Sig) (hl : x.length = v.length)
    (f : Bool) : energyFlag D' o x.reverse v.reverse f = energyFlag D o x v f := by
  unfold energyFlag
  cases o.energyThresh with
  | none => rfl
  | some t => simp only []; rw [sub_reverse x v hl, hD x (Sig.sub x v)]

theorem getNextImfIx_reverse (E E' : Nat → Sig → Env) (hE : EnvRev E E') (hLen : EnvLen E)
    (D D' : Sig → Sig → Rat) (hD : EnergyRev D D') (o : ImfOpts) (x : Sig) :
    getNextImfIx E' D' o x.reverse = (getNextImfIx E D o x).rev := by
  have hlen : ∀ v f, getNextImfIx E D o x = .imf v f → v.length = x.length := imf_length E hLen D o x
  unfold getNextImfIx run at hlen ⊢
  rw [loop_reverse E E' hE hLen o]
  cases hloop : loop E o (budget o) 0 x with
  | stopped k v =>
    have hl := hlen v _ (by rw [hloop]; rfl)
    simp only [Outcome.rev, finish, ImfResult.rev, energyFlag_reverse D D' hD o x v hl.symm]
  | noExtrema k h =>
    have hl := hlen h _ (by rw [hloop]; rfl)
    simp only [Outcome.rev, finish, ImfResult.rev, energyFlag_reverse D D' hD o x h hl.symm]
  | noConverge => rfl

/-! ### the outer loop -/

/-- on signals of length `n` the extraction of the reversed residual (given the reversed columns) is the
    reversed extraction -/
def PeelRev (n : Nat) (X X' : List Sig → Sig → Option (Sig × Bool)) : Prop :=
  ∀ cols p, p.length = n → X' (cols.map List.reverse) p.reverse = (X cols p).map fun r => (r.1.reverse, r.2)

/-- the extraction preserves the length -/
def PeelLen (n : Nat) (X : List Sig → Sig → Option (Sig × Bool)) : Prop :=
  ∀ cols p v f, p.length = n → X cols p = some (v, f) → v.length = n

theorem peelLoop_reverse (X X' : List Sig → Sig → Option (Sig × Bool)) (x : Sig) (hX : PeelRev x.length X X')
    (hLen : PeelLen x.length X) (thr : Rat) (cap : Option Nat) :
    ∀ (fuel : Nat) (cols : List Sig) (proto : Sig), proto.length = x.length → (∀ v ∈ cols, v.length = x.length) →
      peelLoop X' thr cap x.reverse fuel (cols.map List.reverse) proto.reverse
        = ((peelLoop X thr cap x fuel cols proto).1.map List.reverse, (peelLoop X thr cap x fuel cols proto).2) := by
  intro fuel
  induction fuel with
  | zero => intro cols proto _ _; rfl
  | succ fuel ih =>
    intro cols proto hp hcols
    unfold peelLoop
    rw [hX cols proto hp]
    cases hXc : X cols proto with
    | none => rfl
    | some r =>
      obtain ⟨v, cont⟩ := r
      have hv : v.length = x.length := hLen cols proto v cont hp hXc
      have hcols' : ∀ w ∈ cols ++ [v], w.length = x.length := by
        intro w hw
        rcases List.mem_append.mp hw with h | h
        · exact hcols w h
        · rw [List.mem_singleton.mp h]; exact hv
      have happ : cols.map List.reverse ++ [v.reverse] = (cols ++ [v]).map List.reverse := by simp
      have hvs : (Sig.vsum x.length (cols ++ [v])).length = x.length := vsum_length x.length _ hcols'
      simp only [Option.map_some, absSum_reverse, happ, List.length_map, List.length_reverse,
        vsum_reverse x.length _ hcols', sub_reverse x _ hvs.symm]
      split
      · exact ih _ _ (by simp [hvs]) hcols'
      · rfl

/-! ### the Extrema-model envelopes under reversal -/

theorem toOpt_mirror (n : Nat) (r : Extrema.EnvResult) :
    EnvResult.toOpt (Extrema.EnvResult.mirror n r) = (EnvResult.toOpt r).map List.reverse := by
  cases r <;> rfl

theorem extEnv_reverse (I : Extrema.Interp) (hI : I.Reversible) (w : Nat) (hw : 1 ≤ w) :
    EnvRev (fun _ => extEnv I w false) (fun _ => extEnv I w false) := by
  intro _ h
  simp only [extEnv, Extrema.interpEnvelope_reverse' I hI _ w hw h, toOpt_mirror]

theorem extEnv_len (I : Extrema.Interp) (w : Nat) (parab : Bool) : EnvLen (fun _ => extEnv I w parab) := by
  intro _ h U L hE
  simp only [extEnv, Prod.mk.injEq] at hE
  constructor
  · cases hu : Extrema.interpEnvelope I .upper w parab h with
    | ok env l e =>
      rw [hu] at hE
      have : env = U := by simpa [EnvResult.toOpt] using hE.1
      subst this
      exact (Extrema.interpEnvelope_ok I .upper w parab h env l e hu).2.2
    | none => rw [hu] at hE; simp [EnvResult.toOpt] at hE
    | valueError => rw [hu] at hE; simp [EnvResult.toOpt] at hE
    | fuel => rw [hu] at hE; simp [EnvResult.toOpt] at hE
  · cases hl : Extrema.interpEnvelope I .lower w parab h with
    | ok env l e =>
      rw [hl] at hE
      have : env = L := by simpa [EnvResult.toOpt] using hE.2
      subst this
      exact (Extrema.interpEnvelope_ok I .lower w parab h env l e hl).2.2
    | none => rw [hl] at hE; simp [EnvResult.toOpt] at hE
    | valueError => rw [hl] at hE; simp [EnvResult.toOpt] at hE
    | fuel => rw [hl] at hE; simp [EnvResult.toOpt] at hE

theorem extractorIx_reverse (E E' : Nat → Sig → Env) (hE : EnvRev E E') (hLen : EnvLen E)
    (D D' : Sig → Sig → Rat) (hD : EnergyRev D D') (o : ImfOpts) (p : Sig) :
    extractorIx E' D' o p.reverse = (extractorIx E D o p).map fun r => (r.1.reverse, r.2) := by
  unfold extractorIx
  rw [getNextImfIx_reverse E E' hE hLen D D' hD o p]
  cases getNextImfIx E D o p <;> rfl

end Sift
