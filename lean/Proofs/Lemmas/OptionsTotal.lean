/-
  Helper lemmas for the totality theorems of Proofs/C06.lean: when do the call chains of the option-routing
  model (`EmdModel.Options`) return, level by level (get_padded_extrema → interp_envelope → get_next_imf →
  the sift variants).
-/
import Proofs.Lemmas.OptionsRoutes

namespace Options
open Config

/-! ### vocabulary: acceptable option dictionaries -/

/-- IMF-extraction options: known names of `get_next_imf` (not its two pass-through dictionaries), each once -/
def GoodImf (a : Assoc) : Prop := (∀ p ∈ a.keys, p ∈ gniOwn.keys) ∧ noDup a.keys = true
/-- envelope options: known names of `interp_envelope`, each once, a valid interpolation method -/
def GoodEnv (a : Assoc) : Prop :=
  (∀ p ∈ a.keys, p ∈ ieOwn.keys) ∧ noDup a.keys = true ∧ ∀ v, a.lookup "interp_method".toList = some v → okMethod v = true
/-- extrema options: known names of `get_padded_extrema` (not `mode`), each once -/
def GoodExt (a : Assoc) : Prop := (∀ p ∈ a.keys, p ∈ gpeOwn.keys) ∧ noDup a.keys = true

/-- an option value as it travels down the chain: `None` or an acceptable dictionary -/
def GoodT (P : Assoc → Prop) (t : Tree) : Prop := t = none' ∨ ∃ a, t = .dict a ∧ P a

/-! ### binding succeeds -/

/-- a signature in which every parameter has a default -/
def noReq : Assoc → Bool
  | .nil => true
  | .cons _ d r => !isRequired d && noReq r

theorem noMissing_of_noReq : ∀ (sig all : Assoc), noReq sig = true → noMissing sig all = true
  | .nil, _, _ => rfl
  | .cons p d r, all, h => by
    simp only [noReq, Bool.and_eq_true, Bool.not_eq_true'] at h
    simp [noMissing, h.1, noMissing_of_noReq r all h.2]

theorem callWith_ok (sig all : Assoc) (hk : ∀ q ∈ all.keys, sig.contains q = true) (hd : noDup all.keys = true)
    (hm : noMissing sig all = true) : callWith sig all = .ok (resolve sig all) := by
  have : validCall sig all = true := by
    simp only [validCall, Bool.and_eq_true, List.all_eq_true]
    exact ⟨⟨hk, hd⟩, hm⟩
  simp [callWith, this]

theorem contains_of_mem_keys : ∀ (a : Assoc) (q : Key), q ∈ a.keys → a.contains q = true
  | .nil, _, h => by simp [Assoc.keys] at h
  | .cons p d r, q, h => by
    by_cases e : p = q
    · simp [Assoc.contains, Assoc.lookup, e]
    · have : q ∈ r.keys := by
        simp only [Assoc.keys, List.mem_cons] at h
        rcases h with h | h
        · exact absurd h.symm e
        · exact h
      have ih := contains_of_mem_keys r q this
      simpa [Assoc.contains, Assoc.lookup, e] using ih

theorem contains_of_sub (own sig : Assoc) (h : own.keys.all (fun q => sig.contains q) = true) (q : Key)
    (hq : q ∈ own.keys) : sig.contains q = true := by
  simp only [List.all_eq_true] at h
  exact h q hq

theorem noDup_cons_intro {x : Key} {xs : List Key} (h1 : x ∉ xs) (h2 : noDup xs = true) : noDup (x :: xs) = true := by
  simp [noDup, h1, h2]

theorem noDup_append_singleton {xs : List Key} {y : Key} (h1 : y ∉ xs) (h2 : noDup xs = true) :
    noDup (xs ++ [y]) = true := by
  induction xs with
  | nil => rfl
  | cons x xs ih =>
    obtain ⟨a, b⟩ := noDup_cons h2
    have hy : y ∉ xs := fun e => h1 (List.mem_cons_of_mem _ e)
    have hxy : x ≠ y := fun e => h1 (by simp [e])
    refine noDup_cons_intro (x := x) (xs := xs ++ [y]) ?_ (ih hy b)
    intro hm
    rcases List.mem_append.mp hm with hm | hm
    · exact a hm
    · exact hxy (List.mem_singleton.mp hm)

/-! ### get_padded_extrema, interp_envelope -/

theorem gpe_ok (m : Tree) (xoKw : Assoc) (h : GoodExt xoKw) :
    ∃ g, call gpeSig [] (.cons "mode".toList m xoKw) = .ok g := by
  rw [call_nil]
  refine ⟨_, callWith_ok _ _ ?_ ?_ (noMissing_of_noReq _ _ (by decide))⟩
  · intro q hq
    simp only [Assoc.keys, List.mem_cons] at hq
    rcases hq with rfl | hq
    · decide
    · exact contains_of_sub gpeOwn gpeSig (by decide) q (h.1 q hq)
  · apply noDup_cons_intro _ h.2
    intro hm
    exact not_mem_gpeOwn_mode (h.1 _ hm)

theorem goodExt_literal : GoodExt (dictOf ieExtremaLiteral) := ⟨by decide, by decide⟩

theorem extremaOrLiteral_ok (xo : Tree) (h : GoodT GoodExt xo) :
    ∃ xoKw, unpack (extremaOrLiteral xo) = .ok xoKw ∧ GoodExt xoKw := by
  rcases h with rfl | ⟨a, rfl, ha⟩
  · exact ⟨_, rfl, goodExt_literal⟩
  · cases a with
    | nil => exact ⟨_, rfl, goodExt_literal⟩
    | cons p d r => exact ⟨_, rfl, ha⟩

theorem lookup_ieKw_mode (m : String) (eoKw : Assoc) (xo : Tree) :
    (ieKw m eoKw xo).lookup "mode".toList = some (s m) := by
  simp [ieKw, Assoc.lookup]

theorem ieM_ok (m : String) (hm : m = "upper" ∨ m = "lower") (eoKw : Assoc) (he : GoodEnv eoKw) (xo : Tree)
    (hx : GoodT GoodExt xo) : ∃ cs, ieM (ieKw m eoKw xo) = .ok cs := by
  obtain ⟨h1, h2, h3⟩ := he
  have hmode : "mode".toList ∉ eoKw.keys := fun e => not_mem_ieOwn_mode (h1 _ e)
  have hext : "extrema_opts".toList ∉ eoKw.keys := fun e => not_mem_ieOwn_ext (h1 _ e)
  have hcall : call ieSig [] (ieKw m eoKw xo) = .ok (resolve ieSig (ieKw m eoKw xo)) := by
    rw [call_nil]
    apply callWith_ok _ _ _ _ (noMissing_of_noReq _ _ (by decide))
    · intro q hq
      simp only [ieKw, Assoc.keys, keys_append, List.mem_cons, List.mem_append, List.not_mem_nil, or_false] at hq
      rcases hq with rfl | hq | rfl
      · decide
      · exact contains_of_sub ieOwn ieSig (by decide) q (h1 q hq)
      · decide
    · simp only [ieKw, Assoc.keys, keys_append]
      apply noDup_cons_intro
      · simp only [List.mem_append, List.mem_singleton, not_or]
        exact ⟨hmode, by decide⟩
      · exact noDup_append_singleton hext h2
  have amode : arg (resolve ieSig (ieKw m eoKw xo)) "mode" = s m := by
    rw [arg_resolve ieSig _ "mode" (s "upper") rfl, lookup_ieKw_mode]; rfl
  have aext : arg (resolve ieSig (ieKw m eoKw xo)) "extrema_opts" = xo := by
    rw [arg_resolve ieSig _ "extrema_opts" none' rfl]
    have n1 : ¬ "mode".toList = "extrema_opts".toList := by decide
    simp [-String.reduceToList, ieKw, Assoc.lookup, n1, lookup_append, lookup_none_of_not_mem' hext]
  have ameth : okMethod (arg (resolve ieSig (ieKw m eoKw xo)) "interp_method") = true := by
    rw [arg_resolve ieSig _ "interp_method" (s "splrep") rfl]
    have n1 : ¬ "mode".toList = "interp_method".toList := by decide
    have n2 : ¬ "extrema_opts".toList = "interp_method".toList := by decide
    cases hl : eoKw.lookup "interp_method".toList with
    | none =>
      simp [-String.reduceToList, ieKw, Assoc.lookup, n1, n2, lookup_append, hl]
      decide
    | some v =>
      simp [-String.reduceToList, ieKw, Assoc.lookup, n1, lookup_append, hl]
      exact h3 v hl
  obtain ⟨xoKw, hu, hg⟩ := extremaOrLiteral_ok xo hx
  have hgm : ∃ m', gpeMode (s m) = .ok m' := by
    rcases hm with rfl | rfl
    · exact ⟨_, rfl⟩
    · exact ⟨_, rfl⟩
  obtain ⟨m', hm'⟩ := hgm
  obtain ⟨g, hgc⟩ := gpe_ok m' xoKw hg
  refine ⟨[⟨.ie, resolve ieSig (ieKw m eoKw xo)⟩, ⟨.gpe, g⟩], ?_⟩
  unfold ieM
  simp only [hcall, bind, Except.bind, ameth, amode, aext, hm', hu, hgc, Bool.not_true, Bool.false_eq_true, if_false,
    pure, Except.pure]

/-! ### get_next_imf and the chain below it -/

theorem goodEnv_nil : GoodEnv .nil := ⟨by simp [Assoc.keys], rfl, by simp [Assoc.lookup]⟩

theorem noneToEmpty_ok (P : Assoc → Prop) (hnil : P .nil) (t : Tree) (h : GoodT P t) :
    ∃ a, unpack (noneToEmpty t) = .ok a ∧ P a := by
  rcases h with rfl | ⟨a, rfl, ha⟩
  · exact ⟨_, rfl, hnil⟩
  · exact ⟨a, rfl, ha⟩

/-- the keywords `get_next_imf` is reached with by every variant -/
def chainKw (ioKw : Assoc) (eo xo : Tree) : Assoc :=
  .cons "envelope_opts".toList eo (.cons "extrema_opts".toList xo ioKw)

theorem gniM_ok (kw : Assoc) (hc : call gniSig [] kw = .ok (resolve gniSig kw))
    (he : GoodT GoodEnv (kwArg kw "envelope_opts")) (hx : GoodT GoodExt (kwArg kw "extrema_opts")) :
    ∃ cs, gniM [] kw = .ok cs ∧ cs ≠ [] := by
  have e1 : arg (resolve gniSig kw) "envelope_opts" = kwArg kw "envelope_opts" := kwArg_of_arg gniSig kw _ rfl
  have e2 : arg (resolve gniSig kw) "extrema_opts" = kwArg kw "extrema_opts" := kwArg_of_arg gniSig kw _ rfl
  obtain ⟨eoKw, hu, hg⟩ := noneToEmpty_ok GoodEnv goodEnv_nil _ he
  obtain ⟨up, hup⟩ := ieM_ok "upper" (Or.inl rfl) eoKw hg _ hx
  obtain ⟨lo, hlo⟩ := ieM_ok "lower" (Or.inr rfl) eoKw hg _ hx
  refine ⟨⟨.gni, resolve gniSig kw⟩ :: up ++ lo, ?_, by simp⟩
  unfold gniM
  simp only [hc, bind, Except.bind, e1, e2, hu, hup, hlo, pure, Except.pure]

theorem chain_ok (ioKw : Assoc) (hi : GoodImf ioKw) (eo xo : Tree) (he : GoodT GoodEnv eo) (hx : GoodT GoodExt xo) :
    ∃ cs, chain ioKw eo xo = .ok cs ∧ cs ≠ [] := by
  have n1 : "envelope_opts".toList ∉ ioKw.keys := fun e => not_mem_gniOwn_env (hi.1 _ e)
  have n2 : "extrema_opts".toList ∉ ioKw.keys := fun e => not_mem_gniOwn_ext (hi.1 _ e)
  have d1 : ¬ "envelope_opts".toList = "extrema_opts".toList := by decide
  unfold chain
  apply gniM_ok
  · rw [call_nil]
    apply callWith_ok _ _ _ _ (noMissing_of_noReq _ _ (by decide))
    · intro q hq
      simp only [Assoc.keys, List.mem_cons] at hq
      rcases hq with rfl | rfl | hq
      · decide
      · decide
      · exact contains_of_sub gniOwn gniSig (by decide) q (hi.1 q hq)
    · simp only [Assoc.keys]
      apply noDup_cons_intro
      · simp only [List.mem_cons, not_or]; exact ⟨d1, n1⟩
      · exact noDup_cons_intro n2 hi.2
  · simpa [-String.reduceToList, kwArg, Assoc.lookup] using he
  · simpa [-String.reduceToList, kwArg, Assoc.lookup, d1] using hx

/-! ### the variants, given that the binding of their own call succeeds -/

theorem goodImf_nil : GoodImf .nil := ⟨by simp [Assoc.keys], rfl⟩
theorem goodImf_literal : GoodImf (dictOf siftImfLiteral) := ⟨by decide, by decide⟩

theorem imfOrLiteral_ok (io : Tree) (h : GoodT GoodImf io) :
    ∃ ioKw, unpack (imfOrLiteral io) = .ok ioKw ∧ GoodImf ioKw := by
  rcases h with rfl | ⟨a, rfl, ha⟩
  · exact ⟨_, rfl, goodImf_literal⟩
  · cases a with
    | nil => exact ⟨_, rfl, goodImf_literal⟩
    | cons p d r => exact ⟨_, rfl, ha⟩

theorem siftM_ok (pos : List Tree) (kw a : Assoc) (hc : call siftSig pos kw = .ok a)
    (hi : GoodT GoodImf (arg a "imf_opts")) (he : GoodT GoodEnv (arg a "envelope_opts"))
    (hx : GoodT GoodExt (arg a "extrema_opts")) : ∃ cs, siftM pos kw = .ok cs ∧ cs ≠ [] := by
  obtain ⟨ioKw, hu, hg⟩ := imfOrLiteral_ok _ hi
  obtain ⟨cs, hcs, hne⟩ := chain_ok ioKw hg _ _ he hx
  refine ⟨cs, ?_, hne⟩
  unfold siftM
  simp only [hc, bind, Except.bind, hu, hcs]

theorem swnM_ok (x1 x2 x3 x4 x5 x6 io eo xo : Tree) (hi : GoodT GoodImf io) (he : GoodT GoodEnv eo)
    (hx : GoodT GoodExt xo) : ∃ cs, swnM [x1, x2, x3, x4, x5, x6, io, eo, xo] .nil = .ok cs ∧ cs ≠ [] := by
  have hc : ∃ a, call swnSig [x1, x2, x3, x4, x5, x6, io, eo, xo] .nil = .ok a := ⟨_, rfl⟩
  obtain ⟨a, hc⟩ := hc
  obtain ⟨e1, e2, e3⟩ := swn_pos hc
  have hc2 : ∃ a', call siftSig [] (mk [("sift_thresh", arg a "sift_thresh"), ("max_imfs", arg a "max_imfs"),
      ("imf_opts", arg a "imf_opts"), ("envelope_opts", arg a "envelope_opts"),
      ("extrema_opts", arg a "extrema_opts")]) = .ok a' := ⟨_, rfl⟩
  obtain ⟨a', hc2⟩ := hc2
  obtain ⟨g1, g2, g3⟩ := siftInner_args hc2
  obtain ⟨cs, hcs, hne⟩ := siftM_ok _ _ a' hc2 (by rw [g1, e1]; exact hi) (by rw [g2, e2]; exact he)
    (by rw [g3, e3]; exact hx)
  refine ⟨cs, ?_, hne⟩
  unfold swnM
  simp only [hc, bind, Except.bind, hcs]

theorem ensM_ok (kw : Assoc) (hc : call ensSig [] kw = .ok (resolve ensSig kw))
    (hn : okNoiseMode (arg (resolve ensSig kw) "noise_mode") = true)
    (hi : GoodT GoodImf (kwArg kw "imf_opts")) (he : GoodT GoodEnv (kwArg kw "envelope_opts"))
    (hx : GoodT GoodExt (kwArg kw "extrema_opts")) : ∃ cs, ensM kw = .ok cs ∧ cs ≠ [] := by
  rw [← kwArg_of_arg ensSig kw "imf_opts" rfl] at hi
  rw [← kwArg_of_arg ensSig kw "envelope_opts" rfl] at he
  rw [← kwArg_of_arg ensSig kw "extrema_opts" rfl] at hx
  obtain ⟨cs, hcs, hne⟩ := swnM_ok data none' (arg (resolve ensSig kw) "noise_mode") (arg (resolve ensSig kw) "sift_thresh")
    (arg (resolve ensSig kw) "max_imfs") data _ _ _ hi he hx
  refine ⟨cs, ?_, hne⟩
  unfold ensM
  simp only [hc, bind, Except.bind, hn, Bool.not_true, Bool.false_eq_true, if_false, hcs]

theorem cesM_ok (kw : Assoc) (hc : call ensSig [] kw = .ok (resolve ensSig kw))
    (hi : GoodT GoodImf (kwArg kw "imf_opts")) (he : GoodT GoodEnv (kwArg kw "envelope_opts"))
    (hx : GoodT GoodExt (kwArg kw "extrema_opts")) : ∃ cs, cesM kw = .ok cs ∧ cs ≠ [] := by
  rw [← kwArg_of_arg ensSig kw "imf_opts" rfl] at hi
  rw [← kwArg_of_arg ensSig kw "envelope_opts" rfl] at he
  rw [← kwArg_of_arg ensSig kw "extrema_opts" rfl] at hx
  obtain ⟨jobs, hj, hne⟩ := swnM_ok data data (arg (resolve ensSig kw) "noise_mode") (arg (resolve ensSig kw) "sift_thresh")
    (i 1) data _ _ _ hi he hx
  have hc2 : ∃ a', call siftSig [arg (resolve ensSig kw) "sift_thresh", i 1, none', arg (resolve ensSig kw) "imf_opts",
      arg (resolve ensSig kw) "envelope_opts", arg (resolve ensSig kw) "extrema_opts"] .nil = .ok a' := ⟨_, rfl⟩
  obtain ⟨a', hc2⟩ := hc2
  obtain ⟨g1, g2, g3⟩ := sift_pos hc2
  obtain ⟨noise, hn, _⟩ := siftM_ok _ _ a' hc2 (by rw [g1]; exact hi) (by rw [g2]; exact he) (by rw [g3]; exact hx)
  refine ⟨jobs ++ noise, ?_, by simp [hne]⟩
  unfold cesM
  simp only [hc, bind, Except.bind, hj, hn, pure, Except.pure]

theorem gnimM_ok (pos : List Tree) (kw a : Assoc) (hc : call gnimSig pos kw = .ok a)
    (hi : GoodT GoodImf (arg a "imf_opts")) (he : GoodT GoodEnv (arg a "envelope_opts"))
    (hx : GoodT GoodExt (arg a "extrema_opts")) : ∃ cs, gnimM pos kw = .ok cs ∧ cs ≠ [] := by
  obtain ⟨ioKw, hu, hg⟩ := noneToEmpty_ok GoodImf goodImf_nil _ hi
  obtain ⟨cs, hcs, hne⟩ := chain_ok ioKw hg _ _ he hx
  refine ⟨cs, ?_, hne⟩
  unfold gnimM
  simp only [hc, bind, Except.bind, hu, hcs]

theorem gmfM_ok (pos : List Tree) (kw a : Assoc) (hc : call gmfSig pos kw = .ok a)
    (hi : GoodT GoodImf (arg a "imf_opts")) (he : GoodT GoodEnv (arg a "envelope_opts"))
    (hx : GoodT GoodExt (arg a "extrema_opts")) :
    ∃ cs, gmfM pos kw = .ok cs ∧ (usesFirstImf (arg a "first_mask_mode") = true → cs ≠ []) := by
  obtain ⟨ioKw, hu, hg⟩ := noneToEmpty_ok GoodImf goodImf_nil _ hi
  obtain ⟨cs, hcs, hne⟩ := chain_ok ioKw hg _ _ he hx
  cases hf : usesFirstImf (arg a "first_mask_mode") with
  | true =>
    refine ⟨cs, ?_, fun _ => hne⟩
    unfold gmfM
    simp only [hc, bind, Except.bind, hu, hf, if_true, hcs]
  | false =>
    refine ⟨[], ?_, fun h => by cases h⟩
    unfold gmfM
    simp only [hc, bind, Except.bind, hu, hf, Bool.false_eq_true, if_false, pure, Except.pure]

theorem maskM_ok (kw : Assoc) (hc : call maskSig [] kw = .ok (resolve maskSig kw))
    (hi : GoodT GoodImf (kwArg kw "imf_opts")) (he : GoodT GoodEnv (kwArg kw "envelope_opts"))
    (hx : GoodT GoodExt (kwArg kw "extrema_opts")) : ∃ cs, maskM kw = .ok cs ∧ cs ≠ [] := by
  rw [← kwArg_of_arg maskSig kw "imf_opts" rfl] at hi
  rw [← kwArg_of_arg maskSig kw "envelope_opts" rfl] at he
  rw [← kwArg_of_arg maskSig kw "extrema_opts" rfl] at hx
  have hfirst : ∃ first, maskFirst (arg (resolve maskSig kw) "mask_freqs") (arg (resolve maskSig kw) "imf_opts")
      (arg (resolve maskSig kw) "envelope_opts") (arg (resolve maskSig kw) "extrema_opts") = .ok first := by
    unfold maskFirst
    split
    · have hc1 : ∃ a1, call gmfSig [arg (resolve maskSig kw) "mask_freqs"] (mk [("imf_opts", arg (resolve maskSig kw) "imf_opts"),
          ("envelope_opts", arg (resolve maskSig kw) "envelope_opts"),
          ("extrema_opts", arg (resolve maskSig kw) "extrema_opts")]) = .ok a1 := ⟨_, rfl⟩
      obtain ⟨a1, hc1⟩ := hc1
      obtain ⟨g1, g2, g3⟩ := gmf_pos hc1
      obtain ⟨cs, hcs, _⟩ := gmfM_ok _ _ a1 hc1 (by rw [g1]; exact hi) (by rw [g2]; exact he) (by rw [g3]; exact hx)
      exact ⟨cs, hcs⟩
    · exact ⟨[], rfl⟩
  obtain ⟨first, hf⟩ := hfirst
  have hc2 : ∃ a2, call gnimSig [data, data] (mk [("nphases", arg (resolve maskSig kw) "nphases"),
      ("nprocesses", arg (resolve maskSig kw) "nprocesses"), ("imf_opts", arg (resolve maskSig kw) "imf_opts"),
      ("envelope_opts", arg (resolve maskSig kw) "envelope_opts"),
      ("extrema_opts", arg (resolve maskSig kw) "extrema_opts")]) = .ok a2 := ⟨_, rfl⟩
  obtain ⟨a2, hc2⟩ := hc2
  obtain ⟨g1, g2, g3⟩ := gnim_pos hc2
  obtain ⟨rest, hr, hne⟩ := gnimM_ok _ _ a2 hc2 (by rw [g1]; exact hi) (by rw [g2]; exact he) (by rw [g3]; exact hx)
  refine ⟨first ++ rest, ?_, by simp [hne]⟩
  unfold maskM
  simp only [hc, bind, Except.bind, hf, hr, pure, Except.pure]

/-! ### keys of edited dictionaries -/

theorem mem_keys_insert (k : Key) (v : Tree) : ∀ (a : Assoc) (q : Key), q ∈ (a.insert k v).keys ↔ q ∈ a.keys ∨ q = k
  | .nil, q => by simp [Assoc.insert, Assoc.keys]
  | .cons k' v' r, q => by
    by_cases h0 : k' = k
    · subst h0
      simp only [Assoc.insert, if_true, Assoc.keys, List.mem_cons]
      constructor
      · intro h; exact Or.inl h
      · rintro (h | h)
        · exact h
        · exact Or.inl h
    · simp only [Assoc.insert, h0, if_false, Assoc.keys, List.mem_cons, mem_keys_insert k v r q]
      constructor
      · rintro (h | h | h)
        · exact Or.inl (Or.inl h)
        · exact Or.inl (Or.inr h)
        · exact Or.inr h
      · rintro ((h | h) | h)
        · exact Or.inl h
        · exact Or.inr (Or.inl h)
        · exact Or.inr (Or.inr h)

theorem noDup_insert (k : Key) (v : Tree) : ∀ (a : Assoc), noDup a.keys = true → noDup (a.insert k v).keys = true
  | .nil, _ => rfl
  | .cons k' v' r, h => by
    obtain ⟨h1, h2⟩ := noDup_cons (by simpa [Assoc.keys] using h)
    by_cases h0 : k' = k
    · simpa [Assoc.insert, h0, Assoc.keys] using h
    · simp only [Assoc.insert, h0, if_false, Assoc.keys]
      apply noDup_cons_intro _ (noDup_insert k v r h2)
      intro hm
      rcases (mem_keys_insert k v r k').mp hm with hm | hm
      · exact h1 hm
      · exact h0 hm

theorem mem_keys_assignA : ∀ (a s : Assoc) (q : Key), q ∈ (assignA s a).keys ↔ q ∈ s.keys ∨ q ∈ a.keys
  | .nil, s, q => by simp [assignA, Assoc.keys]
  | .cons p d r, s, q => by
    rw [assignA, mem_keys_assignA r (s.insert p d) q, mem_keys_insert]
    simp only [Assoc.keys, List.mem_cons]
    constructor
    · rintro ((h | h) | h)
      · exact Or.inl h
      · exact Or.inr (Or.inl h)
      · exact Or.inr (Or.inr h)
    · rintro (h | h | h)
      · exact Or.inl (Or.inl h)
      · exact Or.inl (Or.inr h)
      · exact Or.inr h

theorem noDup_assignA : ∀ (a s : Assoc), noDup s.keys = true → noDup (assignA s a).keys = true
  | .nil, _, h => h
  | .cons p d r, s, h => by rw [assignA]; exact noDup_assignA r _ (noDup_insert p d s h)

theorem noDup_of_nodup : ∀ {xs : List Key}, xs.Nodup → noDup xs = true
  | [], _ => rfl
  | x :: xs, h => by
    obtain ⟨h1, h2⟩ := List.nodup_cons.mp h
    exact noDup_cons_intro h1 (noDup_of_nodup h2)

theorem noDup_append' : ∀ {xs ys : List Key}, noDup xs = true → noDup ys = true → (∀ x ∈ xs, x ∉ ys) →
    noDup (xs ++ ys) = true
  | [], _, _, h2, _ => h2
  | x :: xs, ys, h1, h2, hd => by
    obtain ⟨a, b⟩ := noDup_cons h1
    refine noDup_cons_intro (x := x) (xs := xs ++ ys) ?_ (noDup_append' b h2 (fun y hy => hd y (List.mem_cons_of_mem _ hy)))
    intro hm
    rcases List.mem_append.mp hm with hm | hm
    · exact a hm
    · exact hd x (by simp) hm

/-! ### what the user supplies, by variant -/

/-- an option dictionary as a value: `None` when not supplied -/
def optT : Option Assoc → Tree
  | none => none'
  | some a => .dict a

/-- the other keywords a variant accepts (its signature without the data and the three option dictionaries) -/
def topKeys : Variant → List Key
  | .sift => ["sift_thresh".toList, "max_imfs".toList, "verbose".toList]
  | .ensemble => ["nensembles".toList, "ensemble_noise".toList, "noise_mode".toList, "nprocesses".toList,
      "sift_thresh".toList, "max_imfs".toList, "verbose".toList]
  | .complete => ["nensembles".toList, "ensemble_noise".toList, "noise_mode".toList, "nprocesses".toList,
      "sift_thresh".toList, "max_imfs".toList, "verbose".toList]
  | .mask => ["mask_amp".toList, "mask_amp_mode".toList, "mask_freqs".toList, "mask_step_factor".toList,
      "ret_mask_freq".toList, "max_imfs".toList, "sift_thresh".toList, "nphases".toList, "nprocesses".toList, "verbose".toList]
  | .maskSecond => ["mask_amp".toList, "mask_amp_mode".toList, "mask_freqs".toList, "mask_step_factor".toList,
      "ret_mask_freq".toList, "max_imfs".toList, "sift_thresh".toList, "nphases".toList, "nprocesses".toList, "verbose".toList]
  | .nextImfMask => ["nphases".toList, "nprocesses".toList]
  | .maskFreqs => ["first_mask_mode".toList]
  | .nextImf => gniOwn.keys
  | .second v => topKeys v

/-- **well-formed user options** for variant `v`: every name is a parameter of the function it is meant for, no name
    is given twice, the interpolation method and the noise mode (when given) are valid values, and — `get_next_imf`
    having no `imf_opts` parameter — IMF options for `get_next_imf` itself are given as its keywords.
    (That the three stage options are dictionaries or absent is the type of `User`; `WF`: they are not hidden among the
    other keywords and names contain no '/'.) -/
structure Known (v : Variant) (u : User) : Prop where
  wf : WF u
  topKnown : ∀ p ∈ u.top.keys, p ∈ topKeys v
  topNodup : NodupKeys u.top
  imfKnown : ∀ p ∈ (optA u.imf).keys, p ∈ gniOwn.keys
  envKnown : ∀ p ∈ (optA u.env).keys, p ∈ ieOwn.keys
  extKnown : ∀ p ∈ (optA u.ext).keys, p ∈ gpeOwn.keys
  method : ∀ m, (optA u.env).lookup "interp_method".toList = some m → okMethod m = true
  noiseMode : ∀ m, u.top.lookup "noise_mode".toList = some m → okNoiseMode m = true
  noImf : baseVariant v = .nextImf → u.imf = none

theorem goodT_optT (P : Assoc → Prop) (o : Option Assoc) (h : P (optA o)) : GoodT P (optT o) := by
  cases o with
  | none => exact Or.inl rfl
  | some a => exact Or.inr ⟨a, rfl, h⟩

theorem Known.goodImf {v : Variant} {u : User} (h : Known v u) : GoodImf (optA u.imf) :=
  ⟨h.imfKnown, noDup_of_nodup h.wf.imfNodup⟩
theorem Known.goodEnv {v : Variant} {u : User} (h : Known v u) : GoodEnv (optA u.env) :=
  ⟨h.envKnown, noDup_of_nodup h.wf.envNodup, h.method⟩
theorem Known.goodExt {v : Variant} {u : User} (h : Known v u) : GoodExt (optA u.ext) :=
  ⟨h.extKnown, noDup_of_nodup h.wf.extNodup⟩

/-- the three dictionaries as `kwargsDirect` passes them -/
theorem kwArgT_direct (u : User) (h : TopClean u.top) :
    kwArg (kwargsDirect u) "imf_opts" = optT u.imf ∧ kwArg (kwargsDirect u) "envelope_opts" = optT u.env ∧
    kwArg (kwargsDirect u) "extrema_opts" = optT u.ext := by
  have n1 : ¬ "imf_opts".toList = "envelope_opts".toList := by decide
  have n2 : ¬ "imf_opts".toList = "extrema_opts".toList := by decide
  have n3 : ¬ "envelope_opts".toList = "extrema_opts".toList := by decide
  have n4 : ¬ "envelope_opts".toList = "imf_opts".toList := by decide
  have n5 : ¬ "extrema_opts".toList = "imf_opts".toList := by decide
  have n6 : ¬ "extrema_opts".toList = "envelope_opts".toList := by decide
  obtain ⟨top, imf, env, ext⟩ := u
  simp only at h
  refine ⟨?_, ?_, ?_⟩ <;> cases imf <;> cases env <;> cases ext <;>
    simp [-String.reduceToList, kwargsDirect, kwArg, lookup_append, h.imf, h.env, h.ext, optEntry, Assoc.lookup,
      Assoc.append, optT, n1, n2, n3, n4, n5, n6, Tree.none, none']

/-- the names of the dictionaries actually supplied -/
def optNames (u : User) : List Key :=
  (optEntry "imf_opts" u.imf).keys ++ ((optEntry "envelope_opts" u.env).keys ++ (optEntry "extrema_opts" u.ext).keys)

theorem keys_kwargsDirect (u : User) : (kwargsDirect u).keys = u.top.keys ++ optNames u := by
  simp [kwargsDirect, keys_append, optNames]

theorem optNames_cases (u : User) (q : Key) (h : q ∈ optNames u) :
    (q = "imf_opts".toList ∧ u.imf.isSome) ∨ (q = "envelope_opts".toList ∧ u.env.isSome) ∨
    (q = "extrema_opts".toList ∧ u.ext.isSome) := by
  obtain ⟨top, imf, env, ext⟩ := u
  cases imf <;> cases env <;> cases ext <;>
    simp [-String.reduceToList, optNames, optEntry, Assoc.keys] at h ⊢ <;> grind

theorem noDup_optNames (u : User) : noDup (optNames u) = true := by
  obtain ⟨top, imf, env, ext⟩ := u
  cases imf <;> cases env <;> cases ext <;> rfl

/-- binding of a direct call: every keyword of a `Known` user is a parameter, none is repeated -/
theorem direct_keys_ok (sig : Assoc) (tk : List Key) (u : User) (htop : ∀ p ∈ u.top.keys, p ∈ tk)
    (hnd : NodupKeys u.top) (htk : ∀ q ∈ tk, sig.contains q = true)
    (h3 : "imf_opts".toList ∉ tk ∧ "envelope_opts".toList ∉ tk ∧ "extrema_opts".toList ∉ tk)
    (himf : u.imf.isSome → sig.contains "imf_opts".toList = true)
    (henv : sig.contains "envelope_opts".toList = true) (hext : sig.contains "extrema_opts".toList = true) :
    (∀ q ∈ (kwargsDirect u).keys, sig.contains q = true) ∧ noDup (kwargsDirect u).keys = true := by
  rw [keys_kwargsDirect]
  constructor
  · intro q hq
    rcases List.mem_append.mp hq with hq | hq
    · exact htk q (htop q hq)
    · rcases optNames_cases u q hq with ⟨rfl, hs⟩ | ⟨rfl, _⟩ | ⟨rfl, _⟩
      · exact himf hs
      · exact henv
      · exact hext
  · apply noDup_append' (noDup_of_nodup hnd) (noDup_optNames u)
    intro x hx hx'
    have := htop x hx
    rcases optNames_cases u x hx' with ⟨rfl, _⟩ | ⟨rfl, _⟩ | ⟨rfl, _⟩
    · exact h3.1 this
    · exact h3.2.1 this
    · exact h3.2.2 this

/-! ### the keyword arguments of the configuration routes, explicitly -/

def configKw (v : Variant) (u : User) : Assoc :=
  (((assignA (cfgStore v.name) u.top).insert "imf_opts".toList (.dict (assignA gniOwn (optA u.imf)))).insert
    "envelope_opts".toList (.dict (assignA envDefaults (optA u.env)))).insert
    "extrema_opts".toList (.dict (assignA extDefaults (optA u.ext)))

theorem kwargsConfig_explicit (v : Variant) (u : User)
    (hcfg : getConfig modelSigs v.name.toList = .ok ⟨.scalar (.str v.name.toList), .dict (cfgStore v.name)⟩)
    (h1 : (cfgStore v.name).lookup "imf_opts".toList = some (.dict gniOwn))
    (h2 : (cfgStore v.name).lookup "envelope_opts".toList = some (.dict envDefaults))
    (h3 : (cfgStore v.name).lookup "extrema_opts".toList = some (.dict extDefaults))
    (hc : TopClean u.top) (hts : ∀ p ∈ u.top.keys, '/' ∉ p)
    (hi : ∀ p ∈ (optA u.imf).keys, '/' ∉ p) (he : ∀ p ∈ (optA u.env).keys, '/' ∉ p)
    (hx : ∀ p ∈ (optA u.ext).keys, '/' ∉ p) :
    kwargsConfig v u = .ok (configKw v u) := by
  have n1 : "envelope_opts".toList ≠ "imf_opts".toList := by decide
  have n2 : "extrema_opts".toList ≠ "imf_opts".toList := by decide
  have n3 : "extrema_opts".toList ≠ "envelope_opts".toList := by decide
  have s1 : '/' ∉ "imf_opts".toList := by decide
  have s2 : '/' ∉ "envelope_opts".toList := by decide
  have s3 : '/' ∉ "extrema_opts".toList := by decide
  obtain ⟨S1, hS1⟩ : ∃ S1, S1 = assignA (cfgStore v.name) u.top := ⟨_, rfl⟩
  have e1 : editAll [] (.dict (cfgStore v.name)) u.top = .ok (.dict S1) := by
    rw [hS1]; exact editAll_nil_dict u.top _ hts
  have l1 : ∀ q, u.top.lookup q = none → S1.lookup q = (cfgStore v.name).lookup q := fun q hq => by
    rw [hS1]; exact lookup_assignA_not_mem _ _ q (not_mem_keys_of_lookup_none q _ hq)
  have a1 : S1.lookup "imf_opts".toList = some (.dict gniOwn) := by rw [l1 _ hc.imf, h1]
  obtain ⟨S2, hS2⟩ : ∃ S2, S2 = S1.insert "imf_opts".toList (.dict (assignA gniOwn (optA u.imf))) := ⟨_, rfl⟩
  have e2 : editStage (.dict S1) "imf_opts" u.imf = .ok (.dict S2) := by
    rw [hS2]; exact editStage_dict S1 gniOwn "imf_opts" s1 u.imf a1 hi
  have a2 : S2.lookup "envelope_opts".toList = some (.dict envDefaults) := by
    rw [hS2, Assoc.lookup_insert_other _ _ _ n1, l1 _ hc.env, h2]
  obtain ⟨S3, hS3⟩ : ∃ S3, S3 = S2.insert "envelope_opts".toList (.dict (assignA envDefaults (optA u.env))) := ⟨_, rfl⟩
  have e3 : editStage (.dict S2) "envelope_opts" u.env = .ok (.dict S3) := by
    rw [hS3]; exact editStage_dict S2 envDefaults "envelope_opts" s2 u.env a2 he
  have a3 : S3.lookup "extrema_opts".toList = some (.dict extDefaults) := by
    rw [hS3, Assoc.lookup_insert_other _ _ _ n3, hS2, Assoc.lookup_insert_other _ _ _ n2, l1 _ hc.ext, h3]
  have e4 : editStage (.dict S3) "extrema_opts" u.ext = .ok (.dict (configKw v u)) := by
    have : configKw v u = S3.insert "extrema_opts".toList (.dict (assignA extDefaults (optA u.ext))) := by
      rw [hS3, hS2, hS1]; rfl
    rw [this]; exact editStage_dict S3 extDefaults "extrema_opts" s3 u.ext a3 hx
  simp only [kwargsConfig, hcfg, e1, e2, e3, e4, bind, Except.bind, unpack]

theorem mem_keys_configKw (v : Variant) (u : User) (q : Key) (h : q ∈ (configKw v u).keys) :
    q ∈ (cfgStore v.name).keys ∨ q ∈ u.top.keys ∨ q = "imf_opts".toList ∨ q = "envelope_opts".toList ∨
      q = "extrema_opts".toList := by
  unfold configKw at h
  rw [mem_keys_insert, mem_keys_insert, mem_keys_insert, mem_keys_assignA] at h
  rcases h with (((h | h) | h) | h) | h
  · exact Or.inl h
  · exact Or.inr (Or.inl h)
  · exact Or.inr (Or.inr (Or.inl h))
  · exact Or.inr (Or.inr (Or.inr (Or.inl h)))
  · exact Or.inr (Or.inr (Or.inr (Or.inr h)))

theorem noDup_configKw (v : Variant) (u : User) (h : noDup (cfgStore v.name).keys = true) :
    noDup (configKw v u).keys = true :=
  noDup_insert _ _ _ (noDup_insert _ _ _ (noDup_insert _ _ _ (noDup_assignA _ _ h)))

theorem goodImf_assign (a : Assoc) (h : ∀ p ∈ a.keys, p ∈ gniOwn.keys) : GoodImf (assignA gniOwn a) :=
  ⟨fun p hp => by rcases (mem_keys_assignA a gniOwn p).mp hp with hp | hp; exact hp; exact h p hp,
   noDup_assignA a gniOwn (by decide)⟩

theorem goodExt_assign (a : Assoc) (h : ∀ p ∈ a.keys, p ∈ gpeOwn.keys) : GoodExt (assignA extDefaults a) :=
  ⟨fun p hp => by
    rcases (mem_keys_assignA a extDefaults p).mp hp with hp | hp
    · exact (by decide : ∀ q ∈ extDefaults.keys, q ∈ gpeOwn.keys) p hp
    · exact h p hp,
   noDup_assignA a extDefaults (by decide)⟩

theorem goodEnv_assign (a : Assoc) (h : GoodEnv a) (hn : NodupKeys a) : GoodEnv (assignA envDefaults a) := by
  refine ⟨fun p hp => ?_, noDup_assignA a envDefaults (by decide), fun v hv => ?_⟩
  · rcases (mem_keys_assignA a envDefaults p).mp hp with hp | hp
    · exact (by decide : ∀ q ∈ envDefaults.keys, q ∈ ieOwn.keys) p hp
    · exact h.1 p hp
  · rw [lookup_assignA a envDefaults _ hn] at hv
    cases hl : a.lookup "interp_method".toList with
    | some d => rw [hl] at hv; simp only [Option.some.injEq] at hv; subst hv; exact h.2.2 d hl
    | none =>
      rw [hl] at hv
      have : envDefaults.lookup "interp_method".toList = some (s "splrep") := rfl
      rw [this] at hv; simp only [Option.some.injEq] at hv; subst hv; decide

/-! ### a variant's call returns when its keywords bind and its three dictionaries are acceptable -/

def BindOK (sig kw : Assoc) : Prop := call sig [] kw = .ok (resolve sig kw)

def Good3 (kw : Assoc) : Prop :=
  GoodT GoodImf (kwArg kw "imf_opts") ∧ GoodT GoodEnv (kwArg kw "envelope_opts") ∧ GoodT GoodExt (kwArg kw "extrema_opts")

def KwOK : Variant → Assoc → Prop
  | .sift, kw => BindOK siftSig kw ∧ Good3 kw
  | .ensemble, kw => BindOK ensSig kw ∧ okNoiseMode (arg (resolve ensSig kw) "noise_mode") = true ∧ Good3 kw
  | .complete, kw => BindOK ensSig kw ∧ Good3 kw
  | .mask, kw => BindOK maskSig kw ∧ Good3 kw
  | .maskSecond, kw => BindOK maskSig (maskSecondArgs kw) ∧ Good3 kw
  | .nextImfMask, kw => (∃ a, call gnimSig [data, data] kw = .ok a) ∧ Good3 kw
  | .maskFreqs, kw => BindOK gmfSig kw ∧ Good3 kw
  | .nextImf, kw => BindOK gniSig kw ∧ GoodT GoodEnv (kwArg kw "envelope_opts") ∧ GoodT GoodExt (kwArg kw "extrema_opts")
  | .second v, kw => KwOK v kw

theorem runVariant_ok : ∀ (v : Variant) (kw : Assoc), KwOK v kw →
    ∃ cs, runVariant false v kw = .ok cs ∧ (baseVariant v ≠ .maskFreqs → cs ≠ [])
  | .sift, kw, ⟨hb, hi, he, hx⟩ => by
    obtain ⟨cs, h, hne⟩ := siftM_ok [] kw _ hb (by rw [kwArg_of_arg siftSig kw _ rfl]; exact hi)
      (by rw [kwArg_of_arg siftSig kw _ rfl]; exact he) (by rw [kwArg_of_arg siftSig kw _ rfl]; exact hx)
    exact ⟨cs, h, fun _ => hne⟩
  | .ensemble, kw, ⟨hb, hn, hi, he, hx⟩ => by
    obtain ⟨cs, h, hne⟩ := ensM_ok kw hb hn hi he hx
    exact ⟨cs, h, fun _ => hne⟩
  | .complete, kw, ⟨hb, hi, he, hx⟩ => by
    obtain ⟨cs, h, hne⟩ := cesM_ok kw hb hi he hx
    exact ⟨cs, h, fun _ => hne⟩
  | .mask, kw, ⟨hb, hi, he, hx⟩ => by
    obtain ⟨cs, h, hne⟩ := maskM_ok kw hb hi he hx
    exact ⟨cs, h, fun _ => hne⟩
  | .maskSecond, kw, ⟨hb, hi, he, hx⟩ => by
    obtain ⟨e1, e2, e3⟩ := kwArg_maskSecondArgs kw
    obtain ⟨cs, h, hne⟩ := maskM_ok (maskSecondArgs kw) hb (by rw [e1]; exact hi) (by rw [e2]; exact he)
      (by rw [e3]; exact hx)
    exact ⟨cs, h, fun _ => hne⟩
  | .nextImfMask, kw, ⟨⟨a, hc⟩, hi, he, hx⟩ => by
    obtain ⟨e1, e2, e3⟩ := gnimTop_args hc
    obtain ⟨cs, h, hne⟩ := gnimM_ok [data, data] kw a hc (by rw [e1]; exact hi) (by rw [e2]; exact he)
      (by rw [e3]; exact hx)
    exact ⟨cs, h, fun _ => hne⟩
  | .maskFreqs, kw, ⟨hb, hi, he, hx⟩ => by
    obtain ⟨cs, h, _⟩ := gmfM_ok [] kw _ hb (by rw [kwArg_of_arg gmfSig kw _ rfl]; exact hi)
      (by rw [kwArg_of_arg gmfSig kw _ rfl]; exact he) (by rw [kwArg_of_arg gmfSig kw _ rfl]; exact hx)
    exact ⟨cs, h, fun hne => absurd rfl hne⟩
  | .nextImf, kw, ⟨hb, he, hx⟩ => by
    obtain ⟨cs, h, hne⟩ := gniM_ok kw hb he hx
    exact ⟨cs, h, fun _ => hne⟩
  | .second v, kw, h => runVariant_ok v kw h

theorem bindOK_of_keys (sig kw : Assoc) (hr : noReq sig = true) (hk : ∀ q ∈ kw.keys, sig.contains q = true)
    (hd : noDup kw.keys = true) : BindOK sig kw := by
  unfold BindOK
  rw [call_nil]
  exact callWith_ok sig kw hk hd (noMissing_of_noReq _ _ hr)

theorem Known.second {v : Variant} {u : User} (h : Known (.second v) u) : Known v u :=
  ⟨h.wf, h.topKnown, h.topNodup, h.imfKnown, h.envKnown, h.extKnown, h.method, h.noiseMode, h.noImf⟩

theorem Known.good3_direct {v : Variant} {u : User} (h : Known v u) : Good3 (kwargsDirect u) := by
  obtain ⟨e1, e2, e3⟩ := kwArgT_direct u h.wf.clean
  unfold Good3
  rw [e1, e2, e3]
  exact ⟨goodT_optT _ _ h.goodImf, goodT_optT _ _ h.goodEnv, goodT_optT _ _ h.goodExt⟩

theorem okNoise_default (top : Assoc) (kwl : Option Tree) (hk : kwl = top.lookup "noise_mode".toList)
    (h : ∀ m, top.lookup "noise_mode".toList = some m → okNoiseMode m = true) :
    okNoiseMode (kwl.getD (s "single")) = true := by
  subst hk
  cases hl : top.lookup "noise_mode".toList with
  | none => decide
  | some m => exact h m hl

theorem maskSecondArgs_keys (kw : Assoc) (hk : ∀ q ∈ kw.keys, maskSig.contains q = true) (hd : noDup kw.keys = true) :
    (∀ q ∈ (maskSecondArgs kw).keys, maskSig.contains q = true) ∧ noDup (maskSecondArgs kw).keys = true := by
  unfold maskSecondArgs
  simp only []
  split
  · refine ⟨fun q hq => ?_, noDup_insert _ _ _ hd⟩
    rcases (mem_keys_insert _ _ _ q).mp hq with hq | rfl
    · exact hk q hq
    · decide
  · refine ⟨fun q hq => ?_, noDup_insert _ _ _ (noDup_insert _ _ _ hd)⟩
    rcases (mem_keys_insert _ _ _ q).mp hq with hq | rfl
    · rcases (mem_keys_insert _ _ _ q).mp hq with hq | rfl
      · exact hk q hq
      · decide
    · decide

theorem kwOK_direct : ∀ (v : Variant) (u : User), Known v u → KwOK v (kwargsDirect u)
  | .sift, u, h => by
    obtain ⟨k1, k2⟩ := direct_keys_ok siftSig (topKeys .sift) u h.topKnown h.topNodup (by decide) (by decide)
      (fun _ => by decide) (by decide) (by decide)
    exact ⟨bindOK_of_keys _ _ (by decide) k1 k2, h.good3_direct⟩
  | .ensemble, u, h => by
    obtain ⟨k1, k2⟩ := direct_keys_ok ensSig (topKeys .ensemble) u h.topKnown h.topNodup (by decide) (by decide)
      (fun _ => by decide) (by decide) (by decide)
    refine ⟨bindOK_of_keys _ _ (by decide) k1 k2, ?_, h.good3_direct⟩
    rw [arg_resolve ensSig _ "noise_mode" (s "single") rfl]
    exact okNoise_default u.top _ (lookup_direct_own u (by decide) (by decide) (by decide)) h.noiseMode
  | .complete, u, h => by
    obtain ⟨k1, k2⟩ := direct_keys_ok ensSig (topKeys .complete) u h.topKnown h.topNodup (by decide) (by decide)
      (fun _ => by decide) (by decide) (by decide)
    exact ⟨bindOK_of_keys _ _ (by decide) k1 k2, h.good3_direct⟩
  | .mask, u, h => by
    obtain ⟨k1, k2⟩ := direct_keys_ok maskSig (topKeys .mask) u h.topKnown h.topNodup (by decide) (by decide)
      (fun _ => by decide) (by decide) (by decide)
    exact ⟨bindOK_of_keys _ _ (by decide) k1 k2, h.good3_direct⟩
  | .maskSecond, u, h => by
    obtain ⟨k1, k2⟩ := direct_keys_ok maskSig (topKeys .maskSecond) u h.topKnown h.topNodup (by decide) (by decide)
      (fun _ => by decide) (by decide) (by decide)
    obtain ⟨m1, m2⟩ := maskSecondArgs_keys _ k1 k2
    exact ⟨bindOK_of_keys _ _ (by decide) m1 m2, h.good3_direct⟩
  | .maskFreqs, u, h => by
    obtain ⟨k1, k2⟩ := direct_keys_ok gmfSig (topKeys .maskFreqs) u h.topKnown h.topNodup (by decide) (by decide)
      (fun _ => by decide) (by decide) (by decide)
    exact ⟨bindOK_of_keys _ _ (by decide) k1 k2, h.good3_direct⟩
  | .nextImf, u, h => by
    have hn := h.noImf rfl
    obtain ⟨k1, k2⟩ := direct_keys_ok gniSig (topKeys .nextImf) u h.topKnown h.topNodup (by decide) (by decide)
      (fun hs => by rw [hn] at hs; cases hs) (by decide) (by decide)
    exact ⟨bindOK_of_keys _ _ (by decide) k1 k2, h.good3_direct.2⟩
  | .nextImfMask, u, h => by
    obtain ⟨k1, k2⟩ := direct_keys_ok gnimSig (topKeys .nextImfMask) u h.topKnown h.topNodup (by decide) (by decide)
      (fun _ => by decide) (by decide) (by decide)
    refine ⟨⟨resolve gnimSig
      ((Assoc.cons "z".toList data (.cons "amp".toList data .nil)).append (kwargsDirect u)), ?_⟩, h.good3_direct⟩
    have hz : "z".toList ∉ (kwargsDirect u).keys := by
      rw [keys_kwargsDirect]
      intro hm
      rcases List.mem_append.mp hm with hm | hm
      · exact absurd (h.topKnown _ hm) (by decide)
      · rcases optNames_cases u _ hm with ⟨e, _⟩ | ⟨e, _⟩ | ⟨e, _⟩ <;> exact absurd e (by decide)
    have ha : "amp".toList ∉ (kwargsDirect u).keys := by
      rw [keys_kwargsDirect]
      intro hm
      rcases List.mem_append.mp hm with hm | hm
      · exact absurd (h.topKnown _ hm) (by decide)
      · rcases optNames_cases u _ hm with ⟨e, _⟩ | ⟨e, _⟩ | ⟨e, _⟩ <;> exact absurd e (by decide)
    have hzp : zipPos gnimSig [data, data] = some (.cons "z".toList data (.cons "amp".toList data .nil)) := rfl
    unfold call
    rw [hzp]
    apply callWith_ok
    · intro q hq
      simp only [Assoc.append, Assoc.keys, List.mem_cons] at hq
      rcases hq with rfl | rfl | hq
      · decide
      · decide
      · exact k1 q hq
    · simp only [Assoc.append, Assoc.keys]
      apply noDup_cons_intro
      · simp only [List.mem_cons, not_or]; exact ⟨by decide, hz⟩
      · exact noDup_cons_intro ha k2
    · rfl
  | .second v, u, h => kwOK_direct v u h.second

/-! ### the configuration routes -/

theorem kwArg_configKw (v : Variant) (u : User) :
    kwArg (configKw v u) "imf_opts" = .dict (assignA gniOwn (optA u.imf)) ∧
    kwArg (configKw v u) "envelope_opts" = .dict (assignA envDefaults (optA u.env)) ∧
    kwArg (configKw v u) "extrema_opts" = .dict (assignA extDefaults (optA u.ext)) := by
  have n4 : "imf_opts".toList ≠ "envelope_opts".toList := by decide
  have n5 : "imf_opts".toList ≠ "extrema_opts".toList := by decide
  have n6 : "envelope_opts".toList ≠ "extrema_opts".toList := by decide
  refine ⟨?_, ?_, ?_⟩ <;> unfold kwArg configKw
  · rw [Assoc.lookup_insert_other _ _ _ n5, Assoc.lookup_insert_other _ _ _ n4, Assoc.lookup_insert_same]; rfl
  · rw [Assoc.lookup_insert_other _ _ _ n6, Assoc.lookup_insert_same]; rfl
  · rw [Assoc.lookup_insert_same]; rfl

theorem Known.good3_config {v : Variant} {u : User} (h : Known v u) (w : Variant) : Good3 (configKw w u) := by
  obtain ⟨e1, e2, e3⟩ := kwArg_configKw w u
  unfold Good3
  rw [e1, e2, e3]
  exact ⟨Or.inr ⟨_, rfl, goodImf_assign _ h.imfKnown⟩, Or.inr ⟨_, rfl, goodEnv_assign _ h.goodEnv h.wf.envNodup⟩,
    Or.inr ⟨_, rfl, goodExt_assign _ h.extKnown⟩⟩

/-- binding of a configuration-route call: the edited store has the signature's names, each once -/
theorem config_keys_ok (sig : Assoc) (w : Variant) (tk : List Key) (u : User) (htop : ∀ p ∈ u.top.keys, p ∈ tk)
    (htk : ∀ q ∈ tk, sig.contains q = true) (hst : ∀ q ∈ (cfgStore w.name).keys, sig.contains q = true)
    (hnd : noDup (cfgStore w.name).keys = true)
    (h3 : sig.contains "imf_opts".toList = true ∧ sig.contains "envelope_opts".toList = true ∧
      sig.contains "extrema_opts".toList = true) :
    (∀ q ∈ (configKw w u).keys, sig.contains q = true) ∧ noDup (configKw w u).keys = true := by
  refine ⟨fun q hq => ?_, noDup_configKw w u hnd⟩
  rcases mem_keys_configKw w u q hq with hq | hq | rfl | rfl | rfl
  · exact hst q hq
  · exact htk q (htop q hq)
  · exact h3.1
  · exact h3.2.1
  · exact h3.2.2

theorem lookup_configKw_other (w : Variant) (u : User) (q : Key) (hn : NodupKeys u.top) (h1 : q ≠ "imf_opts".toList)
    (h2 : q ≠ "envelope_opts".toList) (h3 : q ≠ "extrema_opts".toList) :
    (configKw w u).lookup q = (match u.top.lookup q with | some d => some d | none => (cfgStore w.name).lookup q) := by
  unfold configKw
  rw [Assoc.lookup_insert_other _ _ _ h3, Assoc.lookup_insert_other _ _ _ h2, Assoc.lookup_insert_other _ _ _ h1,
    lookup_assignA _ _ _ hn]
  cases u.top.lookup q <;> rfl

theorem kwOK_config : ∀ (v : Variant) (u : User), Known v u → Configurable v → KwOK v (configKw (baseVariant v) u)
  | .sift, u, h, _ => by
    obtain ⟨k1, k2⟩ := config_keys_ok siftSig .sift (topKeys .sift) u h.topKnown (by decide) (by decide) (by decide)
      (by decide)
    exact ⟨bindOK_of_keys _ _ (by decide) k1 k2, h.good3_config _⟩
  | .ensemble, u, h, _ => by
    obtain ⟨k1, k2⟩ := config_keys_ok ensSig .ensemble (topKeys .ensemble) u h.topKnown (by decide) (by decide) (by decide)
      (by decide)
    refine ⟨bindOK_of_keys _ _ (by decide) k1 k2, ?_, h.good3_config _⟩
    rw [arg_resolve ensSig _ "noise_mode" (s "single") rfl]
    show okNoiseMode (((configKw .ensemble u).lookup "noise_mode".toList).getD (s "single")) = true
    rw [lookup_configKw_other .ensemble u _ h.topNodup (by decide) (by decide) (by decide)]
    cases hl : u.top.lookup "noise_mode".toList with
    | none => decide
    | some m => exact h.noiseMode m hl
  | .complete, u, h, _ => by
    obtain ⟨k1, k2⟩ := config_keys_ok ensSig .complete (topKeys .complete) u h.topKnown (by decide) (by decide) (by decide)
      (by decide)
    exact ⟨bindOK_of_keys _ _ (by decide) k1 k2, h.good3_config _⟩
  | .mask, u, h, _ => by
    obtain ⟨k1, k2⟩ := config_keys_ok maskSig .mask (topKeys .mask) u h.topKnown (by decide) (by decide) (by decide)
      (by decide)
    exact ⟨bindOK_of_keys _ _ (by decide) k1 k2, h.good3_config _⟩
  | .maskSecond, u, h, _ => by
    obtain ⟨k1, k2⟩ := config_keys_ok maskSig .mask (topKeys .maskSecond) u h.topKnown (by decide) (by decide) (by decide)
      (by decide)
    obtain ⟨m1, m2⟩ := maskSecondArgs_keys _ k1 k2
    exact ⟨bindOK_of_keys _ _ (by decide) m1 m2, h.good3_config _⟩
  | .second v, u, h, hc => kwOK_config v u h.second hc
  | .nextImfMask, _, _, hc => by simp [Configurable, baseVariant] at hc
  | .maskFreqs, _, _, hc => by simp [Configurable, baseVariant] at hc
  | .nextImf, _, _, hc => by simp [Configurable, baseVariant] at hc

theorem kwargsConfig_known (v : Variant) (u : User) (h : Known v u) (hc : Configurable v) :
    kwargsConfig (baseVariant v) u = .ok (configKw (baseVariant v) u) := by
  obtain ⟨c1, c2, c3, c4⟩ := cfg_facts (baseVariant v) hc
  exact kwargsConfig_explicit (baseVariant v) u c1 c2 c3 c4 h.wf.clean h.wf.topSlash h.wf.imfSlash h.wf.envSlash
    h.wf.extSlash

/-! ### the converse: a chain that returns was given acceptable dictionaries -/

theorem call_nil_valid {sig kw a : Assoc} (h : call sig [] kw = .ok a) :
    (∀ q ∈ kw.keys, sig.contains q = true) ∧ noDup kw.keys = true := by
  have h' : callWith sig kw = .ok a := by rw [← call_nil]; exact h
  unfold callWith at h'
  cases hv : validCall sig kw with
  | false => simp [hv] at h'
  | true =>
    simp only [validCall, Bool.and_eq_true, List.all_eq_true] at hv
    exact ⟨hv.1.1, hv.1.2⟩

theorem split_keys (sig own : Assoc) (extra : List Key)
    (h : sig.keys.all (fun q => own.keys.contains q || extra.contains q) = true) (q : Key)
    (hq : sig.contains q = true) : q ∈ own.keys ∨ q ∈ extra := by
  have hm : q ∈ sig.keys := by
    unfold Assoc.contains at hq
    cases hl : sig.lookup q with
    | none => simp [hl] at hq
    | some d => exact mem_keys_of_lookup hl
  simp only [List.all_eq_true, Bool.or_eq_true, List.contains_iff_mem] at h
  exact h q hm

/-- what a returning `get_next_imf(X, **kw)` implies about its two pass-through dictionaries -/
theorem gniM_nil_inv {kw : Assoc} {cs : List StageCall} (h : gniM [] kw = .ok cs) :
    ((∀ q ∈ kw.keys, gniSig.contains q = true) ∧ noDup kw.keys = true) ∧
    (∀ a, kwArg kw "envelope_opts" = .dict a → GoodEnv a) ∧
    (∀ a, kwArg kw "extrema_opts" = .dict a → a ≠ .nil → GoodExt a) := by
  obtain ⟨a, eoKw, up, lo, hc, hu, hup, _, _⟩ := gniM_inv h
  obtain ⟨ha, _⟩ := call_nil_ok hc
  have aenv : arg a "envelope_opts" = kwArg kw "envelope_opts" := by rw [ha]; exact kwArg_of_arg gniSig kw _ rfl
  have aext : arg a "extrema_opts" = kwArg kw "extrema_opts" := by rw [ha]; exact kwArg_of_arg gniSig kw _ rfl
  rw [aenv] at hu
  rw [aext] at hup
  -- the envelope call
  obtain ⟨aU, mode, xoKw, g, hcU, hmeth, _, hux, hcg, _⟩ := ieM_inv hup
  obtain ⟨haU, _⟩ := call_nil_ok hcU
  obtain ⟨uk, ud⟩ := call_nil_valid hcU
  simp only [ieKw, Assoc.keys, keys_append] at uk ud
  obtain ⟨m1, ud2⟩ := noDup_cons ud
  have hextn : "extrema_opts".toList ∉ eoKw.keys := noDup_not_mem_of_append ud2
  have hmoden : "mode".toList ∉ eoKw.keys := fun e => m1 (List.mem_append_left _ e)
  have ge : GoodEnv eoKw := by
    refine ⟨fun p hp => ?_, ?_, fun v hv => ?_⟩
    · rcases split_keys ieSig ieOwn ["mode".toList, "extrema_opts".toList] (by decide) p
        (uk p (by simp [hp])) with h' | h'
      · exact h'
      · simp only [List.mem_cons, List.not_mem_nil, or_false] at h'
        rcases h' with rfl | rfl
        · exact absurd hp hmoden
        · exact absurd hp hextn
    · have : ∀ (xs : List Key) (y : Key), noDup (xs ++ [y]) = true → noDup xs = true := by
        intro xs y
        induction xs with
        | nil => intro _; rfl
        | cons x xs ih =>
          intro hh
          obtain ⟨c1, c2⟩ := noDup_cons (x := x) (xs := xs ++ [y]) (by simpa using hh)
          exact noDup_cons_intro (fun e => c1 (List.mem_append_left _ e)) (ih c2)
      exact this _ _ ud2
    · have n1' : ¬ "mode".toList = "interp_method".toList := by decide
      have : arg aU "interp_method" = v := by
        rw [haU, arg_resolve ieSig _ "interp_method" (s "splrep") rfl]
        simp [-String.reduceToList, ieKw, Assoc.lookup, n1', lookup_append, hv]
      rw [← this]; exact hmeth
  have aUext : arg aU "extrema_opts" = kwArg kw "extrema_opts" := by
    rw [haU, arg_resolve ieSig _ "extrema_opts" none' rfl]
    have n1' : ¬ "mode".toList = "extrema_opts".toList := by decide
    simp [-String.reduceToList, ieKw, Assoc.lookup, n1', lookup_append, lookup_none_of_not_mem' hextn]
  rw [aUext] at hux
  refine ⟨call_nil_valid hc, fun a' he => ?_, fun a' hx hne => ?_⟩
  · rw [he] at hu
    have : eoKw = a' := by
      have := unpack_ok hu
      simpa [noneToEmpty, isNone] using this.symm
    rw [← this]; exact ge
  · rw [hx] at hux
    have hxk : xoKw = a' := by
      have hf : falsy (Tree.dict a') = false := by
        cases a' with
        | nil => exact absurd rfl hne
        | cons _ _ _ => rfl
      have := unpack_ok hux
      simpa [extremaOrLiteral, hf] using this.symm
    subst hxk
    obtain ⟨gk, gd⟩ := call_nil_valid hcg
    simp only [Assoc.keys] at gk gd
    obtain ⟨g1, gd2⟩ := noDup_cons gd
    refine ⟨fun p hp => ?_, gd2⟩
    rcases split_keys gpeSig gpeOwn ["mode".toList] (by decide) p (gk p (by simp [hp])) with h' | h'
    · exact h'
    · simp only [List.mem_cons, List.not_mem_nil, or_false] at h'
      subst h'
      exact absurd hp g1

/-- what a returning chain implies about the values it was given -/
theorem chain_inv {ioKw : Assoc} {eo xo : Tree} {cs : List StageCall} (h : chain ioKw eo xo = .ok cs) :
    GoodImf ioKw ∧ (∀ a, eo = .dict a → GoodEnv a) ∧ (∀ a, xo = .dict a → a ≠ .nil → GoodExt a) := by
  unfold chain at h
  obtain ⟨⟨vk, vd⟩, he, hx⟩ := gniM_nil_inv h
  have d1 : ¬ "envelope_opts".toList = "extrema_opts".toList := by decide
  simp only [Assoc.keys] at vk vd
  obtain ⟨n1, vd2⟩ := noDup_cons vd
  obtain ⟨n2, vd3⟩ := noDup_cons vd2
  refine ⟨⟨fun p hp => ?_, vd3⟩, ?_, ?_⟩
  · rcases split_keys gniSig gniOwn ["envelope_opts".toList, "extrema_opts".toList] (by decide) p
      (vk p (by simp [hp])) with h' | h'
    · exact h'
    · simp only [List.mem_cons, List.not_mem_nil, or_false] at h'
      rcases h' with rfl | rfl
      · exact absurd (List.mem_cons_of_mem _ hp) n1
      · exact absurd hp n2
  · simpa [-String.reduceToList, kwArg, Assoc.lookup] using he
  · simpa [-String.reduceToList, kwArg, Assoc.lookup, d1] using hx

/-- the three dictionaries handed to a variant, as far as they are (non-empty) dictionaries, are acceptable -/
def InvGood (io eo xo : Tree) : Prop :=
  (∀ a, io = .dict a → a ≠ .nil → GoodImf a) ∧ (∀ a, eo = .dict a → GoodEnv a) ∧
    (∀ a, xo = .dict a → a ≠ .nil → GoodExt a)

theorem imfOrLiteral_inv {io : Tree} {ioKw : Assoc} (h : unpack (imfOrLiteral io) = .ok ioKw) (hg : GoodImf ioKw) :
    ∀ a, io = .dict a → a ≠ .nil → GoodImf a := by
  intro a hio hne
  subst hio
  have hf : falsy (Tree.dict a) = false := by
    cases a with
    | nil => exact absurd rfl hne
    | cons _ _ _ => rfl
  have := unpack_ok h
  have e : ioKw = a := by simpa [imfOrLiteral, hf] using this.symm
  rw [← e]; exact hg

theorem noneToEmpty_inv {io : Tree} {ioKw : Assoc} (h : unpack (noneToEmpty io) = .ok ioKw) (hg : GoodImf ioKw) :
    ∀ a, io = .dict a → a ≠ .nil → GoodImf a := by
  intro a hio _
  subst hio
  have := unpack_ok h
  have e : ioKw = a := by simpa [noneToEmpty, isNone] using this.symm
  rw [← e]; exact hg

theorem siftM_inv {pos : List Tree} {kw : Assoc} {cs : List StageCall} (h : siftM pos kw = .ok cs) :
    ∃ a, call siftSig pos kw = .ok a ∧ InvGood (arg a "imf_opts") (arg a "envelope_opts") (arg a "extrema_opts") := by
  unfold siftM at h
  cases h1 : call siftSig pos kw with
  | error e => simp [-String.reduceToList, h1, bind, Except.bind] at h
  | ok a =>
    cases h2 : unpack (imfOrLiteral (arg a "imf_opts")) with
    | error e => simp [-String.reduceToList, h1, h2, bind, Except.bind] at h
    | ok ioKw =>
      simp [-String.reduceToList, h1, h2, bind, Except.bind] at h
      obtain ⟨gi, ge, gx⟩ := chain_inv h
      exact ⟨a, rfl, imfOrLiteral_inv h2 gi, ge, gx⟩

theorem swnM_inv {x1 x2 x3 x4 x5 x6 io eo xo : Tree} {cs : List StageCall}
    (h : swnM [x1, x2, x3, x4, x5, x6, io, eo, xo] .nil = .ok cs) : InvGood io eo xo := by
  unfold swnM at h
  cases h1 : call swnSig [x1, x2, x3, x4, x5, x6, io, eo, xo] .nil with
  | error e => simp [-String.reduceToList, h1, bind, Except.bind] at h
  | ok a =>
    simp [-String.reduceToList, h1, bind, Except.bind] at h
    obtain ⟨a', h2, hg⟩ := siftM_inv h
    obtain ⟨e1, e2, e3⟩ := siftInner_args h2
    obtain ⟨f1, f2, f3⟩ := swn_pos h1
    rw [e1, e2, e3, f1, f2, f3] at hg
    exact hg

theorem gnimM_inv {pos : List Tree} {kw : Assoc} {cs : List StageCall} (h : gnimM pos kw = .ok cs) :
    ∃ a, call gnimSig pos kw = .ok a ∧ InvGood (arg a "imf_opts") (arg a "envelope_opts") (arg a "extrema_opts") := by
  unfold gnimM at h
  cases h1 : call gnimSig pos kw with
  | error e => simp [-String.reduceToList, h1, bind, Except.bind] at h
  | ok a =>
    cases h2 : unpack (noneToEmpty (arg a "imf_opts")) with
    | error e => simp [-String.reduceToList, h1, h2, bind, Except.bind] at h
    | ok ioKw =>
      simp [-String.reduceToList, h1, h2, bind, Except.bind] at h
      obtain ⟨gi, ge, gx⟩ := chain_inv h
      exact ⟨a, rfl, noneToEmpty_inv h2 gi, ge, gx⟩

theorem gmfM_inv {pos : List Tree} {kw : Assoc} {cs : List StageCall} (h : gmfM pos kw = .ok cs) (hne : cs ≠ []) :
    ∃ a, call gmfSig pos kw = .ok a ∧ InvGood (arg a "imf_opts") (arg a "envelope_opts") (arg a "extrema_opts") := by
  unfold gmfM at h
  cases h1 : call gmfSig pos kw with
  | error e => simp [-String.reduceToList, h1, bind, Except.bind] at h
  | ok a =>
    cases h2 : unpack (noneToEmpty (arg a "imf_opts")) with
    | error e => simp [-String.reduceToList, h1, h2, bind, Except.bind] at h
    | ok ioKw =>
      simp [-String.reduceToList, h1, h2, bind, Except.bind] at h
      cases h3 : usesFirstImf (arg a "first_mask_mode") with
      | true =>
        simp [-String.reduceToList, h3] at h
        obtain ⟨gi, ge, gx⟩ := chain_inv h
        exact ⟨a, rfl, noneToEmpty_inv h2 gi, ge, gx⟩
      | false =>
        simp [-String.reduceToList, h3, pure, Except.pure] at h
        exact absurd h hne

/-- every variant: a call that returns with a non-empty emission was given acceptable dictionaries -/
theorem runVariant_inv : ∀ (v : Variant) {kw : Assoc} {cs : List StageCall}, runVariant false v kw = .ok cs → cs ≠ [] →
    (baseVariant v ≠ .nextImf → ∀ a, kwArg kw "imf_opts" = .dict a → a ≠ .nil → GoodImf a) ∧
    (∀ a, kwArg kw "envelope_opts" = .dict a → GoodEnv a) ∧
    (∀ a, kwArg kw "extrema_opts" = .dict a → a ≠ .nil → GoodExt a)
  | .sift, kw, cs, h, _ => by
    obtain ⟨a, c, g1, g2, g3⟩ := siftM_inv (show siftM [] kw = .ok cs from h)
    obtain ⟨rfl, _⟩ := call_nil_ok c
    rw [kwArg_of_arg siftSig kw "imf_opts" rfl] at g1
    rw [kwArg_of_arg siftSig kw "envelope_opts" rfl] at g2
    rw [kwArg_of_arg siftSig kw "extrema_opts" rfl] at g3
    exact ⟨fun _ => g1, g2, g3⟩
  | .ensemble, kw, cs, h, _ => by
    have h := (show ensM kw = .ok cs from h)
    unfold ensM at h
    cases h1 : call ensSig [] kw with
    | error e => simp [-String.reduceToList, h1, bind, Except.bind] at h
    | ok a =>
      cases h2 : okNoiseMode (arg a "noise_mode") with
      | false => simp [-String.reduceToList, h1, h2, bind, Except.bind] at h
      | true =>
        simp [-String.reduceToList, h1, h2, bind, Except.bind] at h
        obtain ⟨rfl, _⟩ := call_nil_ok h1
        obtain ⟨g1, g2, g3⟩ := swnM_inv h
        rw [kwArg_of_arg ensSig kw "imf_opts" rfl] at g1
        rw [kwArg_of_arg ensSig kw "envelope_opts" rfl] at g2
        rw [kwArg_of_arg ensSig kw "extrema_opts" rfl] at g3
        exact ⟨fun _ => g1, g2, g3⟩
  | .complete, kw, cs, h, _ => by
    have h := (show cesM kw = .ok cs from h)
    unfold cesM at h
    cases h1 : call ensSig [] kw with
    | error e => simp [-String.reduceToList, h1, bind, Except.bind] at h
    | ok a =>
      obtain ⟨rfl, _⟩ := call_nil_ok h1
      cases hj : swnM [data, data, arg (resolve ensSig kw) "noise_mode", arg (resolve ensSig kw) "sift_thresh", i 1, data,
          arg (resolve ensSig kw) "imf_opts", arg (resolve ensSig kw) "envelope_opts",
          arg (resolve ensSig kw) "extrema_opts"] .nil with
      | error e => simp [-String.reduceToList, h1, hj, bind, Except.bind] at h
      | ok jobs =>
        obtain ⟨g1, g2, g3⟩ := swnM_inv hj
        rw [kwArg_of_arg ensSig kw "imf_opts" rfl] at g1
        rw [kwArg_of_arg ensSig kw "envelope_opts" rfl] at g2
        rw [kwArg_of_arg ensSig kw "extrema_opts" rfl] at g3
        exact ⟨fun _ => g1, g2, g3⟩
  | .mask, kw, cs, h, _ => maskM_inv (show maskM kw = .ok cs from h)
  | .maskSecond, kw, cs, h, _ => by
    obtain ⟨g1, g2, g3⟩ := maskM_inv (show maskM (maskSecondArgs kw) = .ok cs from h)
    obtain ⟨e1, e2, e3⟩ := kwArg_maskSecondArgs kw
    rw [e1] at g1; rw [e2] at g2; rw [e3] at g3
    exact ⟨g1, g2, g3⟩
  | .nextImfMask, kw, cs, h, _ => by
    obtain ⟨a, c, g1, g2, g3⟩ := gnimM_inv (show gnimM [data, data] kw = .ok cs from h)
    obtain ⟨e1, e2, e3⟩ := gnimTop_args c
    rw [e1] at g1; rw [e2] at g2; rw [e3] at g3
    exact ⟨fun _ => g1, g2, g3⟩
  | .maskFreqs, kw, cs, h, hne => by
    obtain ⟨a, c, g1, g2, g3⟩ := gmfM_inv (show gmfM [] kw = .ok cs from h) hne
    obtain ⟨rfl, _⟩ := call_nil_ok c
    rw [kwArg_of_arg gmfSig kw "imf_opts" rfl] at g1
    rw [kwArg_of_arg gmfSig kw "envelope_opts" rfl] at g2
    rw [kwArg_of_arg gmfSig kw "extrema_opts" rfl] at g3
    exact ⟨fun _ => g1, g2, g3⟩
  | .nextImf, kw, cs, h, _ => by
    obtain ⟨_, g2, g3⟩ := gniM_nil_inv (show gniM [] kw = .ok cs from h)
    exact ⟨fun hb => absurd rfl hb, g2, g3⟩
  | .second v, kw, cs, h, hne => runVariant_inv v (show runVariant false v kw = .ok cs from h) hne
where
  maskM_inv {kw : Assoc} {cs : List StageCall} (h : maskM kw = .ok cs) :
      (baseVariant .mask ≠ .nextImf → ∀ a, kwArg kw "imf_opts" = .dict a → a ≠ .nil → GoodImf a) ∧
      (∀ a, kwArg kw "envelope_opts" = .dict a → GoodEnv a) ∧
      (∀ a, kwArg kw "extrema_opts" = .dict a → a ≠ .nil → GoodExt a) := by
    unfold maskM at h
    cases h1 : call maskSig [] kw with
    | error e => simp [-String.reduceToList, h1, bind, Except.bind] at h
    | ok a =>
      obtain ⟨rfl, _⟩ := call_nil_ok h1
      cases hf : maskFirst (arg (resolve maskSig kw) "mask_freqs") (arg (resolve maskSig kw) "imf_opts")
          (arg (resolve maskSig kw) "envelope_opts") (arg (resolve maskSig kw) "extrema_opts") with
      | error e => simp [-String.reduceToList, h1, hf, bind, Except.bind] at h
      | ok first =>
        cases hr : gnimM [data, data] (mk [("nphases", arg (resolve maskSig kw) "nphases"),
            ("nprocesses", arg (resolve maskSig kw) "nprocesses"), ("imf_opts", arg (resolve maskSig kw) "imf_opts"),
            ("envelope_opts", arg (resolve maskSig kw) "envelope_opts"),
            ("extrema_opts", arg (resolve maskSig kw) "extrema_opts")]) with
        | error e => simp [-String.reduceToList, h1, hf, hr, bind, Except.bind] at h
        | ok rest =>
          obtain ⟨a2, c2, g1, g2, g3⟩ := gnimM_inv hr
          obtain ⟨e1, e2, e3⟩ := gnim_pos c2
          rw [e1, kwArg_of_arg maskSig kw "imf_opts" rfl] at g1
          rw [e2, kwArg_of_arg maskSig kw "envelope_opts" rfl] at g2
          rw [e3, kwArg_of_arg maskSig kw "extrema_opts" rfl] at g3
          exact ⟨fun _ => g1, g2, g3⟩

end Options
