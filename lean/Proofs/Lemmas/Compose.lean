/-
  Cross-model composition lemmas: the Sift model (C04/C01/C03) instantiated with the envelopes of
  the Extrema model (C05).  The two models were written independently; these lemmas show that they
  fit together, so that the sift-level theorems hold for the composed pipeline
  get_padded_extrema → interp_envelope → get_next_imf → sift with only the interpolant left abstract.
-/
import Proofs.C05
import Proofs.Lemmas.EquivarianceSiftRev

namespace Compose
open Sift

/-- the number of strict interior maxima does not depend on the index offset -/
theorem peaksFrom_length (i : Nat) (l : List Rat) :
    (Extrema.peaksFrom i l).length = Sift.peaks l := by
  induction l generalizing i with
  | nil => simp [Extrema.peaksFrom, Sift.peaks]
  | cons a t ih =>
    cases t with
    | nil => simp [Extrema.peaksFrom, Sift.peaks]
    | cons b t =>
      cases t with
      | nil => simp [Extrema.peaksFrom, Sift.peaks]
      | cons c t =>
        have := ih (i + 1)
        simp only [Extrema.peaksFrom, Sift.peaks]
        split
        · simp [this]; omega
        · simp [this]

/-- The extrema counter of the Sift model is the length of the Extrema model's peak list. -/
theorem peaks_eq (h : Sig) : Sift.peaks h = (Extrema.findPeaks h).length := by
  unfold Extrema.findPeaks; exact (peaksFrom_length 0 h).symm

theorem troughs_eq (h : Sig) : Sift.troughs h = (Extrema.findTroughs h).length := by
  unfold Sift.troughs Extrema.findTroughs; exact peaks_eq _

/-- values of the composed pipeline's envelopes (empty where there is none) -/
def envVals (I : Extrema.Interp) (w : Nat) (parab : Bool) : Nat → Sig → Sig × Sig := fun _ h =>
  ((EnvResult.toOpt (Extrema.interpEnvelope I .upper w parab h)).getD [],
   (EnvResult.toOpt (Extrema.interpEnvelope I .lower w parab h)).getD [])

/-- For pad width ≥ 1 the envelopes of the Extrema model are exactly of the form assumed by the
    Sift model: undefined iff fewer than two extrema of their kind, otherwise some values. -/
theorem extEnv_eq_envOf (I : Extrema.Interp) (w : Nat) (hw : 1 ≤ w) (parab : Bool) :
    (fun (_ : Nat) => extEnv I w parab) = envOf (envVals I w parab) := by
  funext k h
  have hu := C05.interpEnvelope_none_iff I .upper w parab h
  have hl := C05.interpEnvelope_none_iff I .lower w parab h
  have nu := C05.interpEnvelope_never_raises I .upper w hw parab h
  have nl := C05.interpEnvelope_never_raises I .lower w hw parab h
  simp only [Extrema.EMode.toMode, Extrema.modeSig] at hu hl
  rw [← peaks_eq] at hu
  have hl' : Extrema.interpEnvelope I .lower w parab h = .none ↔ Sift.troughs h < 2 := by
    rw [troughs_eq]; exact hl
  simp only [extEnv, envOf, envVals]
  congr 1
  · cases hr : Extrema.interpEnvelope I .upper w parab h with
    | none => simp [EnvResult.toOpt, hu.mp hr]
    | valueError => exact absurd hr nu.1
    | fuel => exact absurd hr nu.2
    | ok env l e =>
      have : ¬ Sift.peaks h < 2 := fun hlt => by rw [hu.mpr hlt] at hr; cases hr
      simp [EnvResult.toOpt, this]
  · cases hr : Extrema.interpEnvelope I .lower w parab h with
    | none => simp [EnvResult.toOpt, hl'.mp hr]
    | valueError => exact absurd hr nl.1
    | fuel => exact absurd hr nl.2
    | ok env l e =>
      have : ¬ Sift.troughs h < 2 := fun hlt => by rw [hl'.mpr hlt] at hr; cases hr
      simp [EnvResult.toOpt, this]

/-- For pad width ≥ 1 the totalisation in `extEnv` (raising envelope ↦ "no envelope") is never
    exercised: a component is `none` exactly when `interp_envelope` returned None. -/
theorem extEnv_faithful (I : Extrema.Interp) (w : Nat) (hw : 1 ≤ w) (parab : Bool) (h : Sig) :
    ((extEnv I w parab h).1 = none ↔ Extrema.interpEnvelope I .upper w parab h = .none) ∧
    ((extEnv I w parab h).2 = none ↔ Extrema.interpEnvelope I .lower w parab h = .none) := by
  have nu := C05.interpEnvelope_never_raises I .upper w hw parab h
  have nl := C05.interpEnvelope_never_raises I .lower w hw parab h
  simp only [extEnv]
  constructor
  · cases hr : Extrema.interpEnvelope I .upper w parab h with
    | none => simp [EnvResult.toOpt]
    | valueError => exact absurd hr nu.1
    | fuel => exact absurd hr nu.2
    | ok env l e => simp [EnvResult.toOpt]
  · cases hr : Extrema.interpEnvelope I .lower w parab h with
    | none => simp [EnvResult.toOpt]
    | valueError => exact absurd hr nl.1
    | fuel => exact absurd hr nl.2
    | ok env l e => simp [EnvResult.toOpt]

/-- At pad width 0 the totalisation IS exercised: on every signal with ≥ 2 peaks the code's
    `interp_envelope` raises while `extEnv` answers "no upper envelope". -/
theorem extEnv_pad0_artifact (I : Extrema.Interp) (parab : Bool) (h : Sig) (hp : 2 ≤ Sift.peaks h) :
    (extEnv I 0 parab h).1 = none ∧ Extrema.interpEnvelope I .upper 0 parab h = .valueError := by
  have := (C05.interpEnvelope_pad0_raises I .upper parab h).1
    (by simpa [Extrema.EMode.toMode, Extrema.modeSig, ← peaks_eq] using hp)
  simp [extEnv, this, EnvResult.toOpt]

end Compose
