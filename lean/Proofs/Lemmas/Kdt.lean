/- Helper lemmas about EmdModel.Kdt: the marker matrix, the loop invariant, winner extraction. -/
import EmdModel.Kdt

namespace Kdt

/-! ### generic list facts -/

theorem filterMap_length_of_isSome {α β : Type} (f : α → Option β) (l : List α)
    (h : ∀ x ∈ l, (f x).isSome = true) : (l.filterMap f).length = l.length := by
  induction l with
  | nil => rfl
  | cons a t ih =>
    have ha := h a (by simp)
    obtain ⟨b, hb⟩ := Option.isSome_iff_exists.mp ha
    simp [List.filterMap_cons, hb, ih (fun x hx => h x (by simp [hx]))]

theorem zip_filterMap_of_isSome {α β : Type} (f : α → Option β) (l : List α)
    (h : ∀ x ∈ l, (f x).isSome = true) : ∀ p ∈ l.zip (l.filterMap f), f p.1 = some p.2 := by
  induction l with
  | nil => simp
  | cons a t ih =>
    have ha := h a (by simp)
    obtain ⟨b, hb⟩ := Option.isSome_iff_exists.mp ha
    intro p hp
    simp only [List.filterMap_cons, hb, List.zip_cons_cons, List.mem_cons] at hp
    rcases hp with rfl | hp
    · exact hb
    · exact ih (fun x hx => h x (by simp [hx])) p hp

/-! ### the marker matrix -/

@[simp] theorem default_listBool : (default : List Bool) = [] := rfl

/-- `II[r, c]` of the processed part (false outside) -/
def M (cols : List (List Bool)) (c r : Nat) : Bool := (cols[c]!)[r]!

theorem M_lt {cols : List (List Bool)} {c r : Nat} (h : M cols c r = true) : c < cols.length := by
  unfold M at h
  by_cases hc : c < cols.length
  · exact hc
  · simp [List.getElem!_eq_getElem?_getD, List.getElem?_eq_none (Nat.le_of_not_lt hc)] at h

theorem M_append (cols : List (List Bool)) (nc : List Bool) (c r : Nat) :
    M (cols ++ [nc]) c r = if c < cols.length then M cols c r else if c = cols.length then nc[r]! else false := by
  unfold M
  by_cases h1 : c < cols.length
  · simp [h1, List.getElem!_eq_getElem?_getD, List.getElem?_append_left h1]
  · by_cases h2 : c = cols.length
    · subst h2
      simp [List.getElem!_eq_getElem?_getD]
    · have : cols.length + 1 ≤ c := by omega
      simp [h1, h2, List.getElem!_eq_getElem?_getD, List.getElem?_eq_none, this]

theorem rowMarks_getElem! (cols : List (List Bool)) (c r : Nat) : (rowMarks cols r)[c]! = M cols c r := by
  unfold rowMarks M
  by_cases hc : c < cols.length
  · simp [List.getElem!_eq_getElem?_getD, List.getElem?_map, List.getElem?_eq_getElem hc]
  · simp [List.getElem!_eq_getElem?_getD, List.getElem?_eq_none (Nat.le_of_not_lt hc)]

theorem earlier_iff (cols : List (List Bool)) (r : Nat) :
    earlier cols r = true ↔ ∃ c, M cols c r = true := by
  unfold earlier
  rw [List.any_eq_true]
  constructor
  · rintro ⟨colm, hm, h⟩
    obtain ⟨c, hc, rfl⟩ := List.getElem_of_mem hm
    exact ⟨c, by simpa [M, List.getElem!_eq_getElem?_getD, List.getElem?_eq_getElem hc] using h⟩
  · rintro ⟨c, h⟩
    have hc := M_lt h
    exact ⟨cols[c], List.getElem_mem hc, by simpa [M, List.getElem!_eq_getElem?_getD, List.getElem?_eq_getElem hc] using h⟩

theorem map_range_getElem! (f : Nat → Bool) (n r : Nat) :
    ((List.range n).map f)[r]! = (decide (r < n) && f r) := by
  by_cases h : r < n
  · simp [h]
  · simp [h]

/-! ### closest claimant -/

theorem closestFrom_mem (d : Nat → Dist) (best : Nat) (rs : List Nat) :
    closestFrom d best rs = best ∨ closestFrom d best rs ∈ rs := by
  induction rs generalizing best with
  | nil => simp [closestFrom]
  | cons r rs ih =>
    simp only [closestFrom, List.mem_cons]
    rcases ih (if dlt (d r) (d best) then r else best) with h | h
    · rw [h]; split <;> simp
    · exact Or.inr (Or.inr h)

theorem closest_mem {d : Nat → Dist} {occ : List Nat} {r : Nat} (h : closest d occ = some r) : r ∈ occ := by
  cases occ with
  | nil => simp [closest] at h
  | cons a t =>
    simp only [closest, Option.some.injEq] at h
    subst h
    rcases closestFrom_mem d a t with h | h <;> simp [h]

/-! ### what the loop needs from `_unique_inds` -/

/-- The occurrence lists returned by the lookup are row numbers of the column that hold the value,
    and the occurrence list is a function of the value. -/
structure OccSound (U : List Nat → List (Nat × List Nat)) : Prop where
  holds : ∀ col p, p ∈ U col → ∀ r ∈ p.2, col[r]? = some p.1
  func : ∀ col p q, p ∈ U col → q ∈ U col → p.1 = q.1 → p.2 = q.2

theorem mem_positionsOf (ar : List Nat) (v p : Nat) : p ∈ positionsOf ar v ↔ ar[p]? = some v := by
  unfold positionsOf
  simp only [List.mem_filterMap, Prod.exists]
  constructor
  · rintro ⟨a, i, hm, h⟩
    split at h
    · rename_i hav
      simp only [Option.some.injEq] at h
      subst h
      have := List.mem_zipIdx_iff_getElem?.mp hm
      simp at hav this
      simp [this, hav]
    · simp at h
  · intro h
    exact ⟨v, p, List.mem_zipIdx_iff_getElem?.mpr (by simpa using h), by simp⟩

theorem uniqueInds_occSound : OccSound uniqueInds where
  holds := by
    intro col p hp r hr
    unfold uniqueInds at hp
    obtain ⟨v, _, rfl⟩ := List.mem_map.mp hp
    exact (mem_positionsOf col v r).mp hr
  func := by
    intro col p q hp hq h
    unfold uniqueInds at hp hq
    obtain ⟨v, _, rfl⟩ := List.mem_map.mp hp
    obtain ⟨w, _, rfl⟩ := List.mem_map.mp hq
    simp only at h
    subst h
    rfl

/-- a row chosen as closest claimant holds the value it claims, and is determined by that value -/
theorem closestRows_spec {U : List Nat → List (Nat × List Nat)} (hU : OccSound U) (nx : Nat) (col : Nat → Nat)
    (d : Nat → Dist) {r : Nat} (h : r ∈ closestRows U nx col d) :
    r < nx ∧ ∃ p ∈ U ((List.range nx).map col), p.1 = col r ∧ closest d p.2 = some r := by
  unfold closestRows at h
  obtain ⟨p, hp, hc⟩ := List.mem_filterMap.mp h
  have hr := hU.holds _ p hp r (closest_mem hc)
  have hlt : r < nx := by
    have := (List.getElem?_eq_some_iff.mp hr).1
    simpa using this
  refine ⟨hlt, p, hp, ?_, hc⟩
  simpa [List.getElem?_map, List.getElem?_range hlt] using hr.symm

theorem closestRows_inj {U : List Nat → List (Nat × List Nat)} (hU : OccSound U) (nx : Nat) (col : Nat → Nat)
    (d : Nat → Dist) {r r' : Nat} (h : r ∈ closestRows U nx col d) (h' : r' ∈ closestRows U nx col d)
    (hv : col r = col r') : r = r' := by
  obtain ⟨_, p, hp, hp1, hpc⟩ := closestRows_spec hU nx col d h
  obtain ⟨_, q, hq, hq1, hqc⟩ := closestRows_spec hU nx col d h'
  have := hU.func _ p q hp hq (by rw [hp1, hq1, hv])
  rw [this, hqc] at hpc
  exact (Option.some.inj hpc).symm

/-! ### the loop invariant: marks form a partial injection rows ↔ selected values -/

structure Inv (nx : Nat) (iA : Nat → Nat → Nat) (s : St) : Prop where
  /-- marks sit on rows of `x` -/
  lt_nx : ∀ c r, M s.cols c r = true → r < nx
  /-- a row is marked in at most one column -/
  one : ∀ c c' r, M s.cols c r = true → M s.cols c' r = true → c = c'
  /-- the value under a mark has been recorded in `selected` -/
  sel : ∀ c r, M s.cols c r = true → iA r c ∈ s.selected
  /-- no value is marked for two different rows -/
  inj : ∀ c c' r r', M s.cols c r = true → M s.cols c' r' = true → iA r c = iA r' c' → r = r'

theorem Inv_init (nx : Nat) (iA : Nat → Nat → Nat) : Inv nx iA ⟨[], []⟩ := by
  have hno : ∀ c r, M ([] : List (List Bool)) c r = true → False := by
    intro c r h
    have := M_lt h
    simp at this
  constructor
  · intro c r h; exact (hno c r h).elim
  · intro c c' r h; exact (hno c r h).elim
  · intro c r h; exact (hno c r h).elim
  · intro c c' r r' h; exact (hno c r h).elim

theorem markNow_iff (cr fv : List Nat) (cols : List (List Bool)) (col : Nat → Nat) (r : Nat) :
    markNow cr fv cols col r = true ↔ r ∈ cr ∧ col r ∈ fv ∧ ∀ c, M cols c r = false := by
  unfold markNow
  have : (earlier cols r = false) ↔ ∀ c, M cols c r = false := by
    constructor
    · intro h c
      cases hm : M cols c r
      · rfl
      · have := (earlier_iff cols r).mpr ⟨c, hm⟩
        simp [h] at this
    · intro h
      cases he : earlier cols r
      · rfl
      · obtain ⟨c, hc⟩ := (earlier_iff cols r).mp he
        simp [h c] at hc
  simp [this, and_assoc]

theorem not_mem_of_mem_freeVals {U : List Nat → List (Nat × List Nat)} {nx : Nat} {col : Nat → Nat} {sel : List Nat}
    {v : Nat} (h : v ∈ freeVals U nx col sel) : v ∉ sel := by
  unfold freeVals at h
  have := (List.mem_filter.mp h).2
  simpa using this

/-- the marks after one more column: the old ones, plus the rows marked now -/
theorem M_stepCol_iff (U : List Nat → List (Nat × List Nat)) (nx : Nat) (col : Nat → Nat) (d : Nat → Dist) (s : St)
    (c r : Nat) :
    M (stepCol U nx col d s).cols c r = true ↔
      M s.cols c r = true ∨
      (c = s.cols.length ∧ r < nx ∧ r ∈ closestRows U nx col d ∧ col r ∈ freeVals U nx col s.selected ∧
        ∀ c', M s.cols c' r = false) := by
  unfold stepCol
  simp only [M_append, map_range_getElem!]
  by_cases h1 : c < s.cols.length
  · simp only [h1, if_true]
    constructor
    · exact Or.inl
    · rintro (h | ⟨h, _⟩)
      · exact h
      · omega
  · have hold : M s.cols c r = true ↔ False := ⟨fun h => h1 (M_lt h), False.elim⟩
    by_cases h2 : c = s.cols.length
    · subst h2
      simp only [Nat.lt_irrefl, if_false, if_true, Bool.and_eq_true, decide_eq_true_eq, markNow_iff, true_and]
      rw [hold, false_or]
    · simp [h1, h2, hold]

theorem Inv_step {U : List Nat → List (Nat × List Nat)} (hU : OccSound U) {nx : Nat} {iA : Nat → Nat → Nat}
    (d : Nat → Dist) {s : St} (h : Inv nx iA s) :
    Inv nx iA (stepCol U nx (fun r => iA r s.cols.length) d s) := by
  have hsel : ∀ r, r < nx → r ∈ closestRows U nx (fun r => iA r s.cols.length) d →
      iA r s.cols.length ∈ freeVals U nx (fun r => iA r s.cols.length) s.selected →
      (∀ c', M s.cols c' r = false) →
      iA r s.cols.length ∈ (stepCol U nx (fun r => iA r s.cols.length) d s).selected := by
    intro r h1 h2 h3 h4
    unfold stepCol
    simp only [List.mem_append, List.mem_map, List.mem_filter, List.mem_range]
    exact Or.inr ⟨r, ⟨h1, (markNow_iff _ _ _ _ _).mpr ⟨h2, h3, h4⟩⟩, rfl⟩
  have hold : ∀ v, v ∈ s.selected → v ∈ (stepCol U nx (fun r => iA r s.cols.length) d s).selected := by
    intro v hv
    unfold stepCol
    simp [hv]
  constructor
  · intro c r hm
    rcases (M_stepCol_iff ..).mp hm with hm | ⟨_, h1, _⟩
    · exact h.lt_nx c r hm
    · exact h1
  · intro c c' r hm hm'
    rcases (M_stepCol_iff ..).mp hm with hm | ⟨hc, _, _, _, hno⟩ <;>
    rcases (M_stepCol_iff ..).mp hm' with hm' | ⟨hc', _, _, _, hno'⟩
    · exact h.one c c' r hm hm'
    · simp [hno' c] at hm
    · simp [hno c'] at hm'
    · omega
  · intro c r hm
    rcases (M_stepCol_iff ..).mp hm with hm | ⟨hc, h1, h2, h3, h4⟩
    · exact hold _ (h.sel c r hm)
    · subst hc
      exact hsel r h1 h2 h3 h4
  · intro c c' r r' hm hm' hv
    rcases (M_stepCol_iff ..).mp hm with hm | ⟨hc, _, h2, h3, _⟩ <;>
    rcases (M_stepCol_iff ..).mp hm' with hm' | ⟨hc', _, h2', h3', _⟩
    · exact h.inj c c' r r' hm hm' hv
    · subst hc'
      have := h.sel c r hm
      rw [hv] at this
      exact absurd this (not_mem_of_mem_freeVals h3')
    · subst hc
      have := h.sel c' r' hm'
      rw [← hv] at this
      exact absurd this (not_mem_of_mem_freeVals h3)
    · subst hc; subst hc'
      exact closestRows_inj hU nx _ d h2 h2' hv

theorem runCols_succ (U : List Nat → List (Nat × List Nat)) (nx : Nat) (iA : Nat → Nat → Nat) (dA : Nat → Nat → Dist)
    (K : Nat) :
    runCols U nx iA dA (K + 1) = stepCol U nx (fun r => iA r K) (fun r => dA r K) (runCols U nx iA dA K) := by
  simp [runCols, List.range_succ, List.foldl_append]

theorem runCols_length (U : List Nat → List (Nat × List Nat)) (nx : Nat) (iA : Nat → Nat → Nat) (dA : Nat → Nat → Dist)
    (K : Nat) : (runCols U nx iA dA K).cols.length = K := by
  induction K with
  | zero => simp [runCols]
  | succ K ih => rw [runCols_succ]; simp [stepCol, ih]

theorem Inv_runCols {U : List Nat → List (Nat × List Nat)} (hU : OccSound U) (nx : Nat) (iA : Nat → Nat → Nat)
    (dA : Nat → Nat → Dist) (K : Nat) : Inv nx iA (runCols U nx iA dA K) := by
  induction K with
  | zero => exact Inv_init nx iA
  | succ K ih =>
    rw [runCols_succ]
    have := Inv_step hU (fun r => dA r K) ih
    rwa [runCols_length] at this

/-! ### winner extraction -/

/-- a row that survives the final test has a mark in its winner column, which is the value returned -/
theorem finalOf_some {ny : Nat} {iA : Nat → Nat → Nat} {cols : List (List Bool)} {r y : Nat}
    (h : finalOf ny iA cols r = some y) :
    ∃ c, M cols c r = true ∧ c < cols.length ∧ c < ny ∧ iA r c = y ∧ y < ny := by
  unfold finalOf at h
  simp only [Bool.and_eq_true, beq_iff_eq, decide_eq_true_eq] at h
  split at h
  · rename_i hc
    obtain ⟨⟨hcnt, hw⟩, hy⟩ := hc
    simp only [Option.some.injEq] at h
    have hmem : true ∈ rowMarks cols r := List.count_pos_iff.mp (by omega)
    have hwin : winner (rowMarks cols r) = (rowMarks cols r).idxOf true := by
      unfold winner; simp [hmem]
    have hlt : (rowMarks cols r).idxOf true < (rowMarks cols r).length := List.idxOf_lt_length_of_mem hmem
    have hget : (rowMarks cols r)[(rowMarks cols r).idxOf true]! = true := by
      rw [getElem!_pos (rowMarks cols r) _ hlt]; exact List.getElem_idxOf hlt
    rw [rowMarks_getElem!] at hget
    refine ⟨winner (rowMarks cols r), ?_, ?_, hw, h, ?_⟩
    · rw [hwin]; exact hget
    · rw [hwin]; simpa [rowMarks] using hlt
    · rw [← h]; exact hy
  · simp at h

/-- the output of the matching, as seen from one returned pair -/
theorem matchWith_pair {U : List Nat → List (Nat × List Nat)} {nx ny K : Nat} {iA : Nat → Nat → Nat}
    {dA : Nat → Nat → Dist} {p : Nat × Nat}
    (hp : p ∈ (matchWith U nx ny K iA dA).1.zip (matchWith U nx ny K iA dA).2) :
    p.1 < nx ∧ finalOf ny iA (runCols U nx iA dA K).cols p.1 = some p.2 := by
  unfold matchWith at hp
  simp only at hp
  have hall : ∀ x ∈ (List.range nx).filter (fun r => (finalOf ny iA (runCols U nx iA dA K).cols r).isSome),
      (finalOf ny iA (runCols U nx iA dA K).cols x).isSome = true := fun x hx => (List.mem_filter.mp hx).2
  refine ⟨?_, zip_filterMap_of_isSome _ _ hall p hp⟩
  have := (List.of_mem_zip hp).1
  exact List.mem_range.mp (List.mem_filter.mp this).1

theorem matchWith_len (U : List Nat → List (Nat × List Nat)) (nx ny K : Nat) (iA : Nat → Nat → Nat)
    (dA : Nat → Nat → Dist) :
    (matchWith U nx ny K iA dA).1.length = (matchWith U nx ny K iA dA).2.length := by
  unfold matchWith
  simp only
  exact (filterMap_length_of_isSome _ _ (fun x hx => (List.mem_filter.mp hx).2)).symm

theorem matchWith_x_sorted (U : List Nat → List (Nat × List Nat)) (nx ny K : Nat) (iA : Nat → Nat → Nat)
    (dA : Nat → Nat → Dist) :
    (matchWith U nx ny K iA dA).1.Pairwise (· < ·) ∧ ∀ x ∈ (matchWith U nx ny K iA dA).1, x < nx := by
  unfold matchWith
  simp only
  exact ⟨List.Pairwise.filter _ List.pairwise_lt_range, fun x hx => List.mem_range.mp (List.mem_filter.mp hx).1⟩

theorem matchWith_y_mem {U : List Nat → List (Nat × List Nat)} {nx ny K : Nat} {iA : Nat → Nat → Nat}
    {dA : Nat → Nat → Dist} {y : Nat} (hy : y ∈ (matchWith U nx ny K iA dA).2) :
    ∃ x, x < nx ∧ finalOf ny iA (runCols U nx iA dA K).cols x = some y := by
  unfold matchWith at hy
  simp only at hy
  obtain ⟨x, hx, h⟩ := List.mem_filterMap.mp hy
  exact ⟨x, List.mem_range.mp (List.mem_filter.mp hx).1, h⟩

theorem matchWith_y_nodup {U : List Nat → List (Nat × List Nat)} (hU : OccSound U) (nx ny K : Nat)
    (iA : Nat → Nat → Nat) (dA : Nat → Nat → Dist) : (matchWith U nx ny K iA dA).2.Nodup := by
  have hinv := Inv_runCols hU nx iA dA K
  unfold matchWith
  simp only
  refine List.Pairwise.filterMap _ ?_ (List.Pairwise.filter _ List.nodup_range)
  intro a a' hne b hb b' hb' hbb
  obtain ⟨c, hm, _, _, hv, _⟩ := finalOf_some hb
  obtain ⟨c', hm', _, _, hv', _⟩ := finalOf_some hb'
  exact hne (hinv.inj c c' a a' hm hm' (by rw [hv, hv', hbb]))

/-! ### the contract of the query oracle -/

/-- What `cKDTree(y).query(x, k=K, distance_upper_bound=bound)` returns (validated on the real library on
    every run through `wfCheck`, which is this predicate in executable form). -/
structure WFQuery (D : List (List Dist)) (inds : List (List Nat)) (ny K : Nat) (bound : Dist) : Prop where
  rows : D.length = inds.length
  widthD : ∀ r, r < inds.length → (D[r]!).length = K
  widthI : ∀ r, r < inds.length → (inds[r]!).length = K
  /-- an index is a row of `y` or the padding value `ny` -/
  le_ny : ∀ r c, r < inds.length → c < K → indsAt inds r c ≤ ny
  /-- real neighbours have finite distances, padding has distance `inf` -/
  finite_iff : ∀ r c, r < inds.length → c < K → (indsAt inds r c < ny ↔ (dAt D r c).isSome = true)
  nonneg : ∀ r c, r < inds.length → c < K → dle (some 0) (dAt D r c) = true
  /-- no reported neighbour is farther away than the bound -/
  within : ∀ r c, r < inds.length → c < K → (dAt D r c).isSome = true → dle (dAt D r c) bound = true
  /-- distances do not decrease along a row (padding last) -/
  sorted : ∀ r c, r < inds.length → c + 1 < K → dle (dAt D r c) (dAt D r (c + 1)) = true
  /-- the real neighbours of a row are distinct -/
  distinct : ∀ r c c', r < inds.length → c' < c → c < K → indsAt inds r c' < ny → indsAt inds r c' ≠ indsAt inds r c


theorem wfCheck_iff (D : List (List Dist)) (inds : List (List Nat)) (ny K : Nat) (bound : Dist) :
    wfCheck D inds ny K bound = true ↔ WFQuery D inds ny K bound := by
  unfold wfCheck rowOk
  simp only [Bool.and_eq_true, beq_iff_eq, List.all_eq_true, List.mem_range, decide_eq_true_eq,
    Bool.or_eq_true, bne_iff_ne, ne_eq]
  constructor
  · rintro ⟨h0, h⟩
    refine ⟨h0, fun r hr => (h r hr).1.1, fun r hr => (h r hr).1.2, ?_, ?_, ?_, ?_, ?_, ?_⟩
    all_goals intro r c
    · intro hr hc; exact ((h r hr).2 c hc).1.1.1.1.1
    · intro hr hc
      have := ((h r hr).2 c hc).1.1.1.1.2
      unfold indsAt dAt
      rw [← this]; simp
    · intro hr hc; exact ((h r hr).2 c hc).1.1.1.2
    · intro hr hc hs
      have := ((h r hr).2 c hc).1.1.2
      unfold dAt at hs ⊢
      generalize (D[r]!)[c]! = x at this hs ⊢
      cases x with
      | none => simp at hs
      | some v => simpa using this
    · intro hr hc
      exact ((h r hr).2 c (by omega)).1.2 hc
    · intro c' hr hc' hc hlt
      exact ((h r hr).2 c hc).2 c' hc' hlt
  · intro w
    refine ⟨w.rows, fun r hr => ⟨⟨w.widthD r hr, w.widthI r hr⟩, fun c hc => ⟨⟨⟨⟨⟨?_, ?_⟩, ?_⟩, ?_⟩, ?_⟩, ?_⟩⟩⟩
    · exact w.le_ny r c hr hc
    · have := w.finite_iff r c hr hc
      unfold indsAt dAt at this
      generalize ((D[r]!)[c]!).isSome = b at this ⊢
      cases b <;> simp_all
    · exact w.nonneg r c hr hc
    · have := w.within r c hr hc
      unfold dAt at this
      generalize (D[r]!)[c]! = x at this ⊢
      cases x with
      | none => simp
      | some v => right; simpa using this
    · exact w.sorted r c hr
    · intro c' hc'
      exact w.distinct r c c' hr hc' hc

/-! ### at most one mark per row -/

theorem count_true_le_one (m : List Bool) (h : ∀ i j : Nat, m[i]! = true → m[j]! = true → i = j) : m.count true ≤ 1 := by
  induction m with
  | nil => simp
  | cons a t ih =>
    have ht : ∀ i j : Nat, t[i]! = true → t[j]! = true → i = j := by
      intro i j hi hj
      have := h (i + 1) (j + 1) (by simpa using hi) (by simpa using hj)
      omega
    cases a with
    | false => simpa using ih ht
    | true =>
      have : true ∉ t := by
        intro hm
        obtain ⟨i, hi, he⟩ := List.getElem_of_mem hm
        have := h 0 (i + 1) (by simp) (by simp [List.getElem?_eq_getElem hi, he])
        omega
      simp [List.count_eq_zero.mpr this]

/-! ### completeness of the winner extraction -/

theorem mem_zip_filterMap_of_isSome {α β : Type} (f : α → Option β) (l : List α)
    (h : ∀ x ∈ l, (f x).isSome = true) {a : α} {b : β} (ha : a ∈ l) (hb : f a = some b) :
    (a, b) ∈ l.zip (l.filterMap f) := by
  induction l with
  | nil => simp at ha
  | cons a' t ih =>
    have ha' := h a' (by simp)
    obtain ⟨b', hb'⟩ := Option.isSome_iff_exists.mp ha'
    simp only [List.filterMap_cons, hb', List.zip_cons_cons, List.mem_cons]
    rcases List.mem_cons.mp ha with rfl | hat
    · left; rw [hb] at hb'; rw [Option.some.inj hb']
    · right; exact ih (fun x hx => h x (by simp [hx])) hat

theorem finalOf_of_mark {nx ny : Nat} {iA : Nat → Nat → Nat} {s : St} (hinv : Inv nx iA s) {x c y : Nat}
    (hm : M s.cols c x = true) (hc : c < ny) (hv : iA x c = y) (hy : y < ny) :
    finalOf ny iA s.cols x = some y := by
  have hlen : c < (rowMarks s.cols x).length := by simpa [rowMarks] using M_lt hm
  have hget : (rowMarks s.cols x)[c] = true := by
    have := rowMarks_getElem! s.cols c x
    rw [getElem!_pos (rowMarks s.cols x) c hlen] at this
    rw [this]; exact hm
  have hmem : true ∈ rowMarks s.cols x := by
    rw [← hget]; exact List.getElem_mem hlen
  have hle : (rowMarks s.cols x).count true ≤ 1 := by
    apply count_true_le_one
    intro i j hi hj
    rw [rowMarks_getElem!] at hi hj
    exact hinv.one i j x hi hj
  have hge : 1 ≤ (rowMarks s.cols x).count true := List.one_le_count_iff.mpr hmem
  have hlt : (rowMarks s.cols x).idxOf true < (rowMarks s.cols x).length := List.idxOf_lt_length_of_mem hmem
  have hidx : (rowMarks s.cols x).idxOf true = c := by
    have h1 : (rowMarks s.cols x)[(rowMarks s.cols x).idxOf true]! = true := by
      rw [getElem!_pos (rowMarks s.cols x) _ hlt]; exact List.getElem_idxOf hlt
    rw [rowMarks_getElem!] at h1
    exact hinv.one _ _ x h1 hm
  have hwin : winner (rowMarks s.cols x) = c := by
    unfold winner; simp [hmem, hidx]
  unfold finalOf
  simp only [hwin, hv]
  have : (rowMarks s.cols x).count true = 1 := by omega
  simp [this, hc, hy]

theorem mem_zip_of_mark {U : List Nat → List (Nat × List Nat)} {nx ny K : Nat} {iA : Nat → Nat → Nat}
    {dA : Nat → Nat → Dist} (hinv : Inv nx iA (runCols U nx iA dA K)) {x c y : Nat} (hx : x < nx)
    (hm : M (runCols U nx iA dA K).cols c x = true) (hc : c < ny) (hv : iA x c = y) (hy : y < ny) :
    (x, y) ∈ (matchWith U nx ny K iA dA).1.zip (matchWith U nx ny K iA dA).2 := by
  have hf := finalOf_of_mark hinv hm hc hv hy
  unfold matchWith
  simp only
  refine mem_zip_filterMap_of_isSome _ _ (fun x hx => (List.mem_filter.mp hx).2) ?_ hf
  exact List.mem_filter.mpr ⟨List.mem_range.mpr hx, by simp [hf]⟩

end Kdt
