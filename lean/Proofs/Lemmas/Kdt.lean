/- Helper lemmas about EmdModel.Kdt: the marker matrix, the loop invariant, winner extraction. -/
import EmdModel.Kdt

namespace Kdt

/-! ### generic list facts -/

theorem filterMap_length_of_isSome {α β : Type} (f : α → Option β) (l : List α)
    (h : ∀ x ∈ l, (f x).isSome = true) : (l.filterMap f).length = l.length := by
  induction l with
  | nil => rfl
  | cons a t ih =>
    have ha := h a (by simp)
    obtain ⟨b, hb⟩ := Option.isSome_iff_exists.mp ha
    simp [List.filterMap_cons, hb, ih (fun x hx => h x (by simp [hx]))]

theorem zip_filterMap_of_isSome {α β : Type} (f : α → Option β) (l : List α)
    (h : ∀ x ∈ l, (f x).isSome = true) : ∀ p ∈ l.zip (l.filterMap f), f p.1 = some p.2 := by
  induction l with
  | nil => simp
  | cons a t ih =>
    have ha := h a (by simp)
    obtain ⟨b, hb⟩ := Option.isSome_iff_exists.mp ha
    intro p hp
    simp only [List.filterMap_cons, hb, List.zip_cons_cons, List.mem_cons] at hp
    rcases hp with rfl | hp
    · exact hb
    · exact ih (fun x hx => h x (by simp [hx])) p hp

/-! ### the marker matrix -/

@[simp] theorem default_listBool : (default : List Bool) = [] := rfl

/-- `II[r, c]` of the processed part (false outside) -/
def M (cols : List (List Bool)) (c r : Nat) : Bool := (cols[c]!)[r]!

theorem M_lt {cols : List (List Bool)} {c r : Nat} (h : M cols c r = true) : c < cols.length := by
  unfold M at h
  by_cases hc : c < cols.length
  · exact hc
  · simp [List.getElem!_eq_getElem?_getD, List.getElem?_eq_none (Nat.le_of_not_lt hc)] at h

theorem M_append (cols : List (List Bool)) (nc : List Bool) (c r : Nat) :
    M (cols ++ [nc]) c r = if c < cols.length then M cols c r else if c = cols.length then nc[r]! else false := by
  unfold M
  by_cases h1 : c < cols.length
  · simp [h1, List.getElem!_eq_getElem?_getD, List.getElem?_append_left h1]
  · by_cases h2 : c = cols.length
    · subst h2
      simp [List.getElem!_eq_getElem?_getD]
    · have : cols.length + 1 ≤ c := by omega
      simp [h1, h2, List.getElem!_eq_getElem?_getD, List.getElem?_eq_none, this]

theorem rowMarks_getElem! (cols : List (List Bool)) (c r : Nat) : (rowMarks cols r)[c]! = M cols c r := by
  unfold rowMarks M
  by_cases hc : c < cols.length
  · simp [List.getElem!_eq_getElem?_getD, List.getElem?_map, List.getElem?_eq_getElem hc]
  · simp [List.getElem!_eq_getElem?_getD, List.getElem?_eq_none (Nat.le_of_not_lt hc)]

theorem earlier_iff (cols : List (List Bool)) (r : Nat) :
    earlier cols r = true ↔ ∃ c, M cols c r = true := by
  unfold earlier
  rw [List.any_eq_true]
  constructor
  · rintro ⟨colm, hm, h⟩
    obtain ⟨c, hc, rfl⟩ := List.getElem_of_mem hm
    exact ⟨c, by simpa [M, List.getElem!_eq_getElem?_getD, List.getElem?_eq_getElem hc] using h⟩
  · rintro ⟨c, h⟩
    have hc := M_lt h
    exact ⟨cols[c], List.getElem_mem hc, by simpa [M, List.getElem!_eq_getElem?_getD, List.getElem?_eq_getElem hc] using h⟩

theorem map_range_getElem! (f : Nat → Bool) (n r : Nat) :
    ((List.range n).map f)[r]! = (decide (r < n) && f r) := by
  by_cases h : r < n
  · simp [h]
  · simp [h]

/-! ### closest claimant -/

theorem closestFrom_mem (d : Nat → Dist) (best : Nat) (rs : List Nat) :
    closestFrom d best rs = best ∨ closestFrom d best rs ∈ rs := by
  induction rs generalizing best with
  | nil => simp [closestFrom]
  | cons r rs ih =>
    simp only [closestFrom, List.mem_cons]
    rcases ih (if dlt (d r) (d best) then r else best) with h | h
    · rw [h]; split <;> simp
    · exact Or.inr (Or.inr h)

theorem closest_mem {d : Nat → Dist} {occ : List Nat} {r : Nat} (h : closest d occ = some r) : r ∈ occ := by
  cases occ with
  | nil => simp [closest] at h
  | cons a t =>
    simp only [closest, Option.some.injEq] at h
    subst h
    rcases closestFrom_mem d a t with h | h <;> simp [h]

/-! ### what the loop needs from `_unique_inds` -/

/-- The occurrence lists returned by the lookup are row numbers of the column that hold the value,
    and the occurrence list is a function of the value. -/
structure OccSound (U : List Nat → List (Nat × List Nat)) : Prop where
  holds : ∀ col p, p ∈ U col → ∀ r ∈ p.2, col[r]? = some p.1
  func : ∀ col p q, p ∈ U col → q ∈ U col → p.1 = q.1 → p.2 = q.2

theorem mem_positionsOf (ar : List Nat) (v p : Nat) : p ∈ positionsOf ar v ↔ ar[p]? = some v := by
  unfold positionsOf
  simp only [List.mem_filterMap, Prod.exists]
  constructor
  · rintro ⟨a, i, hm, h⟩
    split at h
    · rename_i hav
      simp only [Option.some.injEq] at h
      subst h
      have := List.mem_zipIdx_iff_getElem?.mp hm
      simp at hav this
      simp [this, hav]
    · simp at h
  · intro h
    exact ⟨v, p, List.mem_zipIdx_iff_getElem?.mpr (by simpa using h), by simp⟩

theorem uniqueInds_occSound : OccSound uniqueInds where
  holds := by
    intro col p hp r hr
    unfold uniqueInds at hp
    obtain ⟨v, _, rfl⟩ := List.mem_map.mp hp
    exact (mem_positionsOf col v r).mp hr
  func := by
    intro col p q hp hq h
    unfold uniqueInds at hp hq
    obtain ⟨v, _, rfl⟩ := List.mem_map.mp hp
    obtain ⟨w, _, rfl⟩ := List.mem_map.mp hq
    simp only at h
    subst h
    rfl

/-- a row chosen as closest claimant holds the value it claims, and is determined by that value -/
theorem closestRows_spec {U : List Nat → List (Nat × List Nat)} (hU : OccSound U) (nx : Nat) (col : Nat → Nat)
    (d : Nat → Dist) {r : Nat} (h : r ∈ closestRows U nx col d) :
    r < nx ∧ ∃ p ∈ U ((List.range nx).map col), p.1 = col r ∧ closest d p.2 = some r := by
  unfold closestRows at h
  obtain ⟨p, hp, hc⟩ := List.mem_filterMap.mp h
  have hr := hU.holds _ p hp r (closest_mem hc)
  have hlt : r < nx := by
    have := (List.getElem?_eq_some_iff.mp hr).1
    simpa using this
  refine ⟨hlt, p, hp, ?_, hc⟩
  simpa [List.getElem?_map, List.getElem?_range hlt] using hr.symm

theorem closestRows_inj {U : List Nat → List (Nat × List Nat)} (hU : OccSound U) (nx : Nat) (col : Nat → Nat)
    (d : Nat → Dist) {r r' : Nat} (h : r ∈ closestRows U nx col d) (h' : r' ∈ closestRows U nx col d)
    (hv : col r = col r') : r = r' := by
  obtain ⟨_, p, hp, hp1, hpc⟩ := closestRows_spec hU nx col d h
  obtain ⟨_, q, hq, hq1, hqc⟩ := closestRows_spec hU nx col d h'
  have := hU.func _ p q hp hq (by rw [hp1, hq1, hv])
  rw [this, hqc] at hpc
  exact (Option.some.inj hpc).symm

/-! ### the loop invariant: marks form a partial injection rows ↔ selected values -/

structure Inv (nx : Nat) (iA : Nat → Nat → Nat) (s : St) : Prop where
  /-- marks sit on rows of `x` -/
  lt_nx : ∀ c r, M s.cols c r = true → r < nx
  /-- a row is marked in at most one column -/
  one : ∀ c c' r, M s.cols c r = true → M s.cols c' r = true → c = c'
  /-- the value under a mark has been recorded in `selected` -/
  sel : ∀ c r, M s.cols c r = true → iA r c ∈ s.selected
  /-- no value is marked for two different rows -/
  inj : ∀ c c' r r', M s.cols c r = true → M s.cols c' r' = true → iA r c = iA r' c' → r = r'
  /-- `selected` holds nothing but values under marks -/
  from_mark : ∀ v ∈ s.selected, ∃ c r, M s.cols c r = true ∧ iA r c = v

theorem Inv_init (nx : Nat) (iA : Nat → Nat → Nat) : Inv nx iA ⟨[], []⟩ := by
  have hno : ∀ c r, M ([] : List (List Bool)) c r = true → False := by
    intro c r h
    have := M_lt h
    simp at this
  constructor
  · intro c r h; exact (hno c r h).elim
  · intro c c' r h; exact (hno c r h).elim
  · intro c r h; exact (hno c r h).elim
  · intro c c' r r' h; exact (hno c r h).elim
  · intro v hv; simp at hv

theorem markNow_iff (cr fv : List Nat) (cols : List (List Bool)) (col : Nat → Nat) (r : Nat) :
    markNow cr fv cols col r = true ↔ r ∈ cr ∧ col r ∈ fv ∧ ∀ c, M cols c r = false := by
  unfold markNow
  have : (earlier cols r = false) ↔ ∀ c, M cols c r = false := by
    constructor
    · intro h c
      cases hm : M cols c r
      · rfl
      · have := (earlier_iff cols r).mpr ⟨c, hm⟩
        simp [h] at this
    · intro h
      cases he : earlier cols r
      · rfl
      · obtain ⟨c, hc⟩ := (earlier_iff cols r).mp he
        simp [h c] at hc
  simp [this, and_assoc]

theorem not_mem_of_mem_freeVals {U : List Nat → List (Nat × List Nat)} {nx : Nat} {col : Nat → Nat} {sel : List Nat}
    {v : Nat} (h : v ∈ freeVals U nx col sel) : v ∉ sel := by
  unfold freeVals at h
  have := (List.mem_filter.mp h).2
  simpa using this

/-- the marks after one more column: the old ones, plus the rows marked now -/
theorem M_stepCol_iff (U : List Nat → List (Nat × List Nat)) (nx : Nat) (col : Nat → Nat) (d : Nat → Dist) (s : St)
    (c r : Nat) :
    M (stepCol U nx col d s).cols c r = true ↔
      M s.cols c r = true ∨
      (c = s.cols.length ∧ r < nx ∧ r ∈ closestRows U nx col d ∧ col r ∈ freeVals U nx col s.selected ∧
        ∀ c', M s.cols c' r = false) := by
  unfold stepCol
  simp only [M_append, map_range_getElem!]
  by_cases h1 : c < s.cols.length
  · simp only [h1, if_true]
    constructor
    · exact Or.inl
    · rintro (h | ⟨h, _⟩)
      · exact h
      · omega
  · have hold : M s.cols c r = true ↔ False := ⟨fun h => h1 (M_lt h), False.elim⟩
    by_cases h2 : c = s.cols.length
    · subst h2
      simp only [Nat.lt_irrefl, if_false, if_true, Bool.and_eq_true, decide_eq_true_eq, markNow_iff, true_and]
      rw [hold, false_or]
    · simp [h1, h2, hold]

theorem Inv_step {U : List Nat → List (Nat × List Nat)} (hU : OccSound U) {nx : Nat} {iA : Nat → Nat → Nat}
    (d : Nat → Dist) {s : St} (h : Inv nx iA s) :
    Inv nx iA (stepCol U nx (fun r => iA r s.cols.length) d s) := by
  have hsel : ∀ r, r < nx → r ∈ closestRows U nx (fun r => iA r s.cols.length) d →
      iA r s.cols.length ∈ freeVals U nx (fun r => iA r s.cols.length) s.selected →
      (∀ c', M s.cols c' r = false) →
      iA r s.cols.length ∈ (stepCol U nx (fun r => iA r s.cols.length) d s).selected := by
    intro r h1 h2 h3 h4
    unfold stepCol
    simp only [List.mem_append, List.mem_map, List.mem_filter, List.mem_range]
    exact Or.inr ⟨r, ⟨h1, (markNow_iff _ _ _ _ _).mpr ⟨h2, h3, h4⟩⟩, rfl⟩
  have hold : ∀ v, v ∈ s.selected → v ∈ (stepCol U nx (fun r => iA r s.cols.length) d s).selected := by
    intro v hv
    unfold stepCol
    simp [hv]
  constructor
  · intro c r hm
    rcases (M_stepCol_iff ..).mp hm with hm | ⟨_, h1, _⟩
    · exact h.lt_nx c r hm
    · exact h1
  · intro c c' r hm hm'
    rcases (M_stepCol_iff ..).mp hm with hm | ⟨hc, _, _, _, hno⟩ <;>
    rcases (M_stepCol_iff ..).mp hm' with hm' | ⟨hc', _, _, _, hno'⟩
    · exact h.one c c' r hm hm'
    · simp [hno' c] at hm
    · simp [hno c'] at hm'
    · omega
  · intro c r hm
    rcases (M_stepCol_iff ..).mp hm with hm | ⟨hc, h1, h2, h3, h4⟩
    · exact hold _ (h.sel c r hm)
    · subst hc
      exact hsel r h1 h2 h3 h4
  · intro c c' r r' hm hm' hv
    rcases (M_stepCol_iff ..).mp hm with hm | ⟨hc, _, h2, h3, _⟩ <;>
    rcases (M_stepCol_iff ..).mp hm' with hm' | ⟨hc', _, h2', h3', _⟩
    · exact h.inj c c' r r' hm hm' hv
    · subst hc'
      have := h.sel c r hm
      rw [hv] at this
      exact absurd this (not_mem_of_mem_freeVals h3')
    · subst hc
      have := h.sel c' r' hm'
      rw [← hv] at this
      exact absurd this (not_mem_of_mem_freeVals h3)
    · subst hc; subst hc'
      exact closestRows_inj hU nx _ d h2 h2' hv
  · intro v hv
    unfold stepCol at hv
    simp only [List.mem_append, List.mem_map, List.mem_filter, List.mem_range] at hv
    rcases hv with hv | ⟨r, ⟨h1, hmk⟩, rfl⟩
    · obtain ⟨c, r, hm, hv⟩ := h.from_mark v hv
      exact ⟨c, r, (M_stepCol_iff ..).mpr (Or.inl hm), hv⟩
    · obtain ⟨h2, h3, h4⟩ := (markNow_iff _ _ _ _ _).mp hmk
      exact ⟨s.cols.length, r, (M_stepCol_iff ..).mpr (Or.inr ⟨rfl, h1, h2, h3, h4⟩), rfl⟩

theorem runCols_succ (U : List Nat → List (Nat × List Nat)) (nx : Nat) (iA : Nat → Nat → Nat) (dA : Nat → Nat → Dist)
    (K : Nat) :
    runCols U nx iA dA (K + 1) = stepCol U nx (fun r => iA r K) (fun r => dA r K) (runCols U nx iA dA K) := by
  simp [runCols, List.range_succ, List.foldl_append]

theorem runCols_length (U : List Nat → List (Nat × List Nat)) (nx : Nat) (iA : Nat → Nat → Nat) (dA : Nat → Nat → Dist)
    (K : Nat) : (runCols U nx iA dA K).cols.length = K := by
  induction K with
  | zero => simp [runCols]
  | succ K ih => rw [runCols_succ]; simp [stepCol, ih]

theorem Inv_runCols {U : List Nat → List (Nat × List Nat)} (hU : OccSound U) (nx : Nat) (iA : Nat → Nat → Nat)
    (dA : Nat → Nat → Dist) (K : Nat) : Inv nx iA (runCols U nx iA dA K) := by
  induction K with
  | zero => exact Inv_init nx iA
  | succ K ih =>
    rw [runCols_succ]
    have := Inv_step hU (fun r => dA r K) ih
    rwa [runCols_length] at this

/-! ### winner extraction -/

/-- a row that survives the final test has a mark in its winner column, which is the value returned -/
theorem finalOf_some {ny : Nat} {iA : Nat → Nat → Nat} {cols : List (List Bool)} {r y : Nat}
    (h : finalOf ny iA cols r = some y) :
    ∃ c, M cols c r = true ∧ c < cols.length ∧ c < ny ∧ iA r c = y ∧ y < ny := by
  unfold finalOf at h
  simp only [Bool.and_eq_true, beq_iff_eq, decide_eq_true_eq] at h
  split at h
  · rename_i hc
    obtain ⟨⟨hcnt, hw⟩, hy⟩ := hc
    simp only [Option.some.injEq] at h
    have hmem : true ∈ rowMarks cols r := List.count_pos_iff.mp (by omega)
    have hwin : winner (rowMarks cols r) = (rowMarks cols r).idxOf true := by
      unfold winner; simp [hmem]
    have hlt : (rowMarks cols r).idxOf true < (rowMarks cols r).length := List.idxOf_lt_length_of_mem hmem
    have hget : (rowMarks cols r)[(rowMarks cols r).idxOf true]! = true := by
      rw [getElem!_pos (rowMarks cols r) _ hlt]; exact List.getElem_idxOf hlt
    rw [rowMarks_getElem!] at hget
    refine ⟨winner (rowMarks cols r), ?_, ?_, hw, h, ?_⟩
    · rw [hwin]; exact hget
    · rw [hwin]; simpa [rowMarks] using hlt
    · rw [← h]; exact hy
  · simp at h

/-- the output of the matching, as seen from one returned pair -/
theorem matchWith_pair {U : List Nat → List (Nat × List Nat)} {nx ny K : Nat} {iA : Nat → Nat → Nat}
    {dA : Nat → Nat → Dist} {p : Nat × Nat}
    (hp : p ∈ (matchWith U nx ny K iA dA).1.zip (matchWith U nx ny K iA dA).2) :
    p.1 < nx ∧ finalOf ny iA (runCols U nx iA dA K).cols p.1 = some p.2 := by
  unfold matchWith at hp
  simp only at hp
  have hall : ∀ x ∈ (List.range nx).filter (fun r => (finalOf ny iA (runCols U nx iA dA K).cols r).isSome),
      (finalOf ny iA (runCols U nx iA dA K).cols x).isSome = true := fun x hx => (List.mem_filter.mp hx).2
  refine ⟨?_, zip_filterMap_of_isSome _ _ hall p hp⟩
  have := (List.of_mem_zip hp).1
  exact List.mem_range.mp (List.mem_filter.mp this).1

theorem matchWith_len (U : List Nat → List (Nat × List Nat)) (nx ny K : Nat) (iA : Nat → Nat → Nat)
    (dA : Nat → Nat → Dist) :
    (matchWith U nx ny K iA dA).1.length = (matchWith U nx ny K iA dA).2.length := by
  unfold matchWith
  simp only
  exact (filterMap_length_of_isSome _ _ (fun x hx => (List.mem_filter.mp hx).2)).symm

theorem matchWith_x_sorted (U : List Nat → List (Nat × List Nat)) (nx ny K : Nat) (iA : Nat → Nat → Nat)
    (dA : Nat → Nat → Dist) :
    (matchWith U nx ny K iA dA).1.Pairwise (· < ·) ∧ ∀ x ∈ (matchWith U nx ny K iA dA).1, x < nx := by
  unfold matchWith
  simp only
  exact ⟨List.Pairwise.filter _ List.pairwise_lt_range, fun x hx => List.mem_range.mp (List.mem_filter.mp hx).1⟩

theorem matchWith_y_mem {U : List Nat → List (Nat × List Nat)} {nx ny K : Nat} {iA : Nat → Nat → Nat}
    {dA : Nat → Nat → Dist} {y : Nat} (hy : y ∈ (matchWith U nx ny K iA dA).2) :
    ∃ x, x < nx ∧ finalOf ny iA (runCols U nx iA dA K).cols x = some y := by
  unfold matchWith at hy
  simp only at hy
  obtain ⟨x, hx, h⟩ := List.mem_filterMap.mp hy
  exact ⟨x, List.mem_range.mp (List.mem_filter.mp hx).1, h⟩

theorem matchWith_y_nodup {U : List Nat → List (Nat × List Nat)} (hU : OccSound U) (nx ny K : Nat)
    (iA : Nat → Nat → Nat) (dA : Nat → Nat → Dist) : (matchWith U nx ny K iA dA).2.Nodup := by
  have hinv := Inv_runCols hU nx iA dA K
  unfold matchWith
  simp only
  refine List.Pairwise.filterMap _ ?_ (List.Pairwise.filter _ List.nodup_range)
  intro a a' hne b hb b' hb' hbb
  obtain ⟨c, hm, _, _, hv, _⟩ := finalOf_some hb
  obtain ⟨c', hm', _, _, hv', _⟩ := finalOf_some hb'
  exact hne (hinv.inj c c' a a' hm hm' (by rw [hv, hv', hbb]))

/-! ### the contract of the query oracle -/

/-- What `cKDTree(y).query(x, k=K, distance_upper_bound=bound)` returns (validated on the real library on
    every run through `wfCheck`, which is this predicate in executable form). -/
structure WFQuery (D : List (List Dist)) (inds : List (List Nat)) (ny K : Nat) (bound : Dist) : Prop where
  rows : D.length = inds.length
  widthD : ∀ r, r < inds.length → (D[r]!).length = K
  widthI : ∀ r, r < inds.length → (inds[r]!).length = K
  /-- an index is a row of `y` or the padding value `ny` -/
  le_ny : ∀ r c, r < inds.length → c < K → indsAt inds r c ≤ ny
  /-- real neighbours have finite distances, padding has distance `inf` -/
  finite_iff : ∀ r c, r < inds.length → c < K → (indsAt inds r c < ny ↔ (dAt D r c).isSome = true)
  nonneg : ∀ r c, r < inds.length → c < K → dle (some 0) (dAt D r c) = true
  /-- no reported neighbour is farther away than the bound -/
  within : ∀ r c, r < inds.length → c < K → (dAt D r c).isSome = true → dle (dAt D r c) bound = true
  /-- distances do not decrease along a row (padding last) -/
  sorted : ∀ r c, r < inds.length → c + 1 < K → dle (dAt D r c) (dAt D r (c + 1)) = true
  /-- the real neighbours of a row are distinct -/
  distinct : ∀ r c c', r < inds.length → c' < c → c < K → indsAt inds r c' < ny → indsAt inds r c' ≠ indsAt inds r c


theorem wfCheck_iff (D : List (List Dist)) (inds : List (List Nat)) (ny K : Nat) (bound : Dist) :
    wfCheck D inds ny K bound = true ↔ WFQuery D inds ny K bound := by
  unfold wfCheck rowOk
  simp only [Bool.and_eq_true, beq_iff_eq, List.all_eq_true, List.mem_range, decide_eq_true_eq,
    Bool.or_eq_true, bne_iff_ne, ne_eq]
  constructor
  · rintro ⟨h0, h⟩
    refine ⟨h0, fun r hr => (h r hr).1.1, fun r hr => (h r hr).1.2, ?_, ?_, ?_, ?_, ?_, ?_⟩
    all_goals intro r c
    · intro hr hc; exact ((h r hr).2 c hc).1.1.1.1.1
    · intro hr hc
      have := ((h r hr).2 c hc).1.1.1.1.2
      unfold indsAt dAt
      rw [← this]; simp
    · intro hr hc; exact ((h r hr).2 c hc).1.1.1.2
    · intro hr hc hs
      have := ((h r hr).2 c hc).1.1.2
      unfold dAt at hs ⊢
      generalize (D[r]!)[c]! = x at this hs ⊢
      cases x with
      | none => simp at hs
      | some v => simpa using this
    · intro hr hc
      exact ((h r hr).2 c (by omega)).1.2 hc
    · intro c' hr hc' hc hlt
      exact ((h r hr).2 c hc).2 c' hc' hlt
  · intro w
    refine ⟨w.rows, fun r hr => ⟨⟨w.widthD r hr, w.widthI r hr⟩, fun c hc => ⟨⟨⟨⟨⟨?_, ?_⟩, ?_⟩, ?_⟩, ?_⟩, ?_⟩⟩⟩
    · exact w.le_ny r c hr hc
    · have := w.finite_iff r c hr hc
      unfold indsAt dAt at this
      generalize ((D[r]!)[c]!).isSome = b at this ⊢
      cases b <;> simp_all
    · exact w.nonneg r c hr hc
    · have := w.within r c hr hc
      unfold dAt at this
      generalize (D[r]!)[c]! = x at this ⊢
      cases x with
      | none => simp
      | some v => right; simpa using this
    · exact w.sorted r c hr
    · intro c' hc'
      exact w.distinct r c c' hr hc' hc

/-! ### at most one mark per row -/

theorem count_true_le_one (m : List Bool) (h : ∀ i j : Nat, m[i]! = true → m[j]! = true → i = j) : m.count true ≤ 1 := by
  induction m with
  | nil => simp
  | cons a t ih =>
    have ht : ∀ i j : Nat, t[i]! = true → t[j]! = true → i = j := by
      intro i j hi hj
      have := h (i + 1) (j + 1) (by simpa using hi) (by simpa using hj)
      omega
    cases a with
    | false => simpa using ih ht
    | true =>
      have : true ∉ t := by
        intro hm
        obtain ⟨i, hi, he⟩ := List.getElem_of_mem hm
        have := h 0 (i + 1) (by simp) (by simp [List.getElem?_eq_getElem hi, he])
        omega
      simp [List.count_eq_zero.mpr this]

/-! ### completeness of the winner extraction -/

theorem mem_zip_filterMap_of_isSome {α β : Type} (f : α → Option β) (l : List α)
    (h : ∀ x ∈ l, (f x).isSome = true) {a : α} {b : β} (ha : a ∈ l) (hb : f a = some b) :
    (a, b) ∈ l.zip (l.filterMap f) := by
  induction l with
  | nil => simp at ha
  | cons a' t ih =>
    have ha' := h a' (by simp)
    obtain ⟨b', hb'⟩ := Option.isSome_iff_exists.mp ha'
    simp only [List.filterMap_cons, hb', List.zip_cons_cons, List.mem_cons]
    rcases List.mem_cons.mp ha with rfl | hat
    · left; rw [hb] at hb'; rw [Option.some.inj hb']
    · right; exact ih (fun x hx => h x (by simp [hx])) hat

theorem finalOf_of_mark {nx ny : Nat} {iA : Nat → Nat → Nat} {s : St} (hinv : Inv nx iA s) {x c y : Nat}
    (hm : M s.cols c x = true) (hc : c < ny) (hv : iA x c = y) (hy : y < ny) :
    finalOf ny iA s.cols x = some y := by
  have hlen : c < (rowMarks s.cols x).length := by simpa [rowMarks] using M_lt hm
  have hget : (rowMarks s.cols x)[c] = true := by
    have := rowMarks_getElem! s.cols c x
    rw [getElem!_pos (rowMarks s.cols x) c hlen] at this
    rw [this]; exact hm
  have hmem : true ∈ rowMarks s.cols x := by
    rw [← hget]; exact List.getElem_mem hlen
  have hle : (rowMarks s.cols x).count true ≤ 1 := by
    apply count_true_le_one
    intro i j hi hj
    rw [rowMarks_getElem!] at hi hj
    exact hinv.one i j x hi hj
  have hge : 1 ≤ (rowMarks s.cols x).count true := List.one_le_count_iff.mpr hmem
  have hlt : (rowMarks s.cols x).idxOf true < (rowMarks s.cols x).length := List.idxOf_lt_length_of_mem hmem
  have hidx : (rowMarks s.cols x).idxOf true = c := by
    have h1 : (rowMarks s.cols x)[(rowMarks s.cols x).idxOf true]! = true := by
      rw [getElem!_pos (rowMarks s.cols x) _ hlt]; exact List.getElem_idxOf hlt
    rw [rowMarks_getElem!] at h1
    exact hinv.one _ _ x h1 hm
  have hwin : winner (rowMarks s.cols x) = c := by
    unfold winner; simp [hmem, hidx]
  unfold finalOf
  simp only [hwin, hv]
  have : (rowMarks s.cols x).count true = 1 := by omega
  simp [this, hc, hy]

theorem mem_zip_of_mark {U : List Nat → List (Nat × List Nat)} {nx ny K : Nat} {iA : Nat → Nat → Nat}
    {dA : Nat → Nat → Dist} (hinv : Inv nx iA (runCols U nx iA dA K)) {x c y : Nat} (hx : x < nx)
    (hm : M (runCols U nx iA dA K).cols c x = true) (hc : c < ny) (hv : iA x c = y) (hy : y < ny) :
    (x, y) ∈ (matchWith U nx ny K iA dA).1.zip (matchWith U nx ny K iA dA).2 := by
  have hf := finalOf_of_mark hinv hm hc hv hy
  unfold matchWith
  simp only
  refine mem_zip_filterMap_of_isSome _ _ (fun x hx => (List.mem_filter.mp hx).2) ?_ hf
  exact List.mem_filter.mpr ⟨List.mem_range.mpr hx, by simp [hf]⟩

/-! ### order on distances, minimality of the closest claimant -/

theorem dle_refl (a : Dist) : dle a a = true := by
  cases a with
  | none => rfl
  | some x => simp [dle, dlt, Rat.lt_irrefl]

theorem dle_trans {a b c : Dist} (h1 : dle a b = true) (h2 : dle b c = true) : dle a c = true := by
  cases a <;> cases b <;> cases c <;> simp_all [dle, dlt]
  rename_i x y z
  exact Rat.not_lt.mpr (Rat.le_trans (Rat.not_lt.mp h1) (Rat.not_lt.mp h2))

theorem dle_of_dlt {a b : Dist} (h : dlt a b = true) : dle a b = true := by
  cases a <;> cases b <;> simp_all [dle, dlt]
  rename_i x y
  grind

theorem closestFrom_min (d : Nat → Dist) (best : Nat) (rs : List Nat) :
    ∀ x ∈ best :: rs, dle (d (closestFrom d best rs)) (d x) = true := by
  induction rs generalizing best with
  | nil => intro x hx; simp at hx; subst hx; exact dle_refl _
  | cons r rs ih =>
    intro x hx
    simp only [closestFrom]
    have ih' := ih (if dlt (d r) (d best) then r else best)
    have hb := ih' _ (List.mem_cons_self)
    simp only [List.mem_cons] at hx
    rcases hx with rfl | rfl | hx
    · refine dle_trans hb ?_
      split
      · rename_i h; exact dle_of_dlt h
      · exact dle_refl _
    · refine dle_trans hb ?_
      split
      · exact dle_refl _
      · rename_i h; simpa [dle] using h
    · exact ih' x (List.mem_cons_of_mem _ hx)

theorem closest_min {d : Nat → Dist} {occ : List Nat} {r : Nat} (h : closest d occ = some r) :
    ∀ x ∈ occ, dle (d r) (d x) = true := by
  cases occ with
  | nil => simp [closest] at h
  | cons a t =>
    simp only [closest, Option.some.injEq] at h
    subst h
    exact closestFrom_min d a t

theorem mem_insertSorted (v x : Nat) (l : List Nat) : x ∈ insertSorted v l ↔ x = v ∨ x ∈ l := by
  fun_induction insertSorted v l <;> simp_all <;> grind

theorem mem_isort (x : Nat) (l : List Nat) : x ∈ isort l ↔ x ∈ l := by
  fun_induction isort l <;> simp_all [mem_insertSorted]

theorem mem_dedupAdj (x : Nat) (l : List Nat) : x ∈ dedupAdj l ↔ x ∈ l := by
  fun_induction dedupAdj l <;> simp_all

theorem mem_uniqueVals (v : Nat) (col : List Nat) : v ∈ uniqueVals col ↔ v ∈ col := by
  unfold uniqueVals; rw [mem_dedupAdj, mem_isort]

/-! ### the repaired loop, declaratively -/

/-- column `c` of the index table as the list the code passes to `_unique_inds` -/
def colList (nx : Nat) (iA : Nat → Nat → Nat) (c : Nat) : List Nat := (List.range nx).map fun r => iA r c

/-- the closest claimant of candidate `v` in column `c`: among the rows whose `c`-th neighbour is `v`,
    the (first) one at the smallest distance -/
def claimant (nx : Nat) (iA : Nat → Nat → Nat) (dA : Nat → Nat → Dist) (c v : Nat) : Option Nat :=
  closest (fun r => dA r c) (positionsOf (colList nx iA c) v)

theorem mem_colList {nx : Nat} {iA : Nat → Nat → Nat} {c r : Nat} (h : r < nx) : iA r c ∈ colList nx iA c :=
  List.mem_map.mpr ⟨r, List.mem_range.mpr h, rfl⟩

theorem mem_positionsOf_colList (nx : Nat) (iA : Nat → Nat → Nat) (c v r : Nat) :
    r ∈ positionsOf (colList nx iA c) v ↔ r < nx ∧ iA r c = v := by
  rw [mem_positionsOf]
  unfold colList
  by_cases h : r < nx
  · simp [h]
  · simp [h]

theorem mem_closestRows_uniqueInds (nx : Nat) (iA : Nat → Nat → Nat) (dA : Nat → Nat → Dist) (c r : Nat) :
    r ∈ closestRows uniqueInds nx (fun r => iA r c) (fun r => dA r c) ↔
      r < nx ∧ claimant nx iA dA c (iA r c) = some r := by
  constructor
  · intro h
    obtain ⟨hlt, p, hp, hp1, hpc⟩ := closestRows_spec uniqueInds_occSound nx _ _ h
    refine ⟨hlt, ?_⟩
    unfold uniqueInds at hp
    obtain ⟨v, _, rfl⟩ := List.mem_map.mp hp
    simp only at hp1 hpc
    unfold claimant colList
    rw [← hp1]; exact hpc
  · rintro ⟨hlt, hc⟩
    unfold closestRows
    refine List.mem_filterMap.mpr ⟨(iA r c, positionsOf (colList nx iA c) (iA r c)), ?_, hc⟩
    unfold uniqueInds
    exact List.mem_map.mpr ⟨iA r c, (mem_uniqueVals _ _).mpr (mem_colList hlt), rfl⟩

theorem mem_freeVals_uniqueInds (nx : Nat) (iA : Nat → Nat → Nat) (c : Nat) (sel : List Nat) (v : Nat) :
    v ∈ freeVals uniqueInds nx (fun r => iA r c) sel ↔ v ∈ colList nx iA c ∧ v ∉ sel := by
  unfold freeVals uniqueInds colList
  simp [List.map_map, Function.comp_def, mem_uniqueVals]

/-- one column of the repaired loop, declaratively: a row is marked now iff it is the closest claimant of
    its candidate, the candidate is not under any earlier mark, and the row holds no earlier mark -/
theorem M_stepCol_uniqueInds {nx : Nat} {iA : Nat → Nat → Nat} (dA : Nat → Nat → Dist) {s : St}
    (h : Inv nx iA s) (c r : Nat) :
    M (stepCol uniqueInds nx (fun r => iA r s.cols.length) (fun r => dA r s.cols.length) s).cols c r = true ↔
      M s.cols c r = true ∨
      (c = s.cols.length ∧ r < nx ∧ claimant nx iA dA c (iA r c) = some r ∧
        (∀ c' r', M s.cols c' r' = true → iA r' c' ≠ iA r c) ∧ ∀ c', M s.cols c' r = false) := by
  rw [M_stepCol_iff]
  constructor
  · rintro (hm | ⟨hc, h1, h2, h3, h4⟩)
    · exact Or.inl hm
    · subst hc
      refine Or.inr ⟨rfl, h1, ((mem_closestRows_uniqueInds ..).mp h2).2, ?_, h4⟩
      intro c' r' hm' heq
      exact ((mem_freeVals_uniqueInds ..).mp h3).2 (heq ▸ h.sel c' r' hm')
  · rintro (hm | ⟨hc, h1, h2, h3, h4⟩)
    · exact Or.inl hm
    · subst hc
      refine Or.inr ⟨rfl, h1, (mem_closestRows_uniqueInds ..).mpr ⟨h1, h2⟩, ?_, h4⟩
      refine (mem_freeVals_uniqueInds ..).mpr ⟨mem_colList h1, ?_⟩
      intro hsel
      obtain ⟨c', r', hm', hv⟩ := h.from_mark _ hsel
      exact h3 c' r' hm' hv

/-- columns already written are never changed -/
theorem M_runCols_succ_of_lt (U : List Nat → List (Nat × List Nat)) (nx : Nat) (iA : Nat → Nat → Nat)
    (dA : Nat → Nat → Dist) {K c : Nat} (hc : c < K) (r : Nat) :
    M (runCols U nx iA dA (K + 1)).cols c r = M (runCols U nx iA dA K).cols c r := by
  rw [runCols_succ]
  unfold stepCol
  simp only [M_append, runCols_length, hc, if_true]

theorem M_runCols_stable (U : List Nat → List (Nat × List Nat)) (nx : Nat) (iA : Nat → Nat → Nat)
    (dA : Nat → Nat → Dist) {K K' c : Nat} (hc : c < K') (hK : K' ≤ K) (r : Nat) :
    M (runCols U nx iA dA K).cols c r = M (runCols U nx iA dA K').cols c r := by
  induction K with
  | zero => have : K' = 0 := by omega
            subst this; rfl
  | succ K ih =>
    by_cases h : K' = K + 1
    · subst h; rfl
    · rw [M_runCols_succ_of_lt U nx iA dA (by omega) r]
      exact ih (by omega)

/-- The marker matrix of the repaired loop, declaratively (greedy specification): row `r` is marked in
    column `c` iff it is the closest claimant of its `c`-th neighbour, that neighbour is under no mark of an
    earlier column, and `r` holds no mark in an earlier column. -/
theorem M_runCols_greedy (nx : Nat) (iA : Nat → Nat → Nat) (dA : Nat → Nat → Dist) {K c : Nat} (hc : c < K)
    (r : Nat) :
    M (runCols uniqueInds nx iA dA K).cols c r = true ↔
      r < nx ∧ claimant nx iA dA c (iA r c) = some r ∧
      (∀ c' r', c' < c → M (runCols uniqueInds nx iA dA K).cols c' r' = true → iA r' c' ≠ iA r c) ∧
      ∀ c', c' < c → M (runCols uniqueInds nx iA dA K).cols c' r = false := by
  rw [M_runCols_stable uniqueInds nx iA dA (Nat.lt_succ_self c) (by omega) r, runCols_succ]
  have hinv := Inv_runCols uniqueInds_occSound nx iA dA c
  have hstep := M_stepCol_uniqueInds dA hinv c r
  rw [runCols_length] at hstep
  rw [hstep]
  have hold : ∀ c' r', M (runCols uniqueInds nx iA dA c).cols c' r' = true → c' < c := by
    intro c' r' h
    have := M_lt h
    rwa [runCols_length] at this
  have heq : ∀ c' r', c' < c →
      M (runCols uniqueInds nx iA dA K).cols c' r' = M (runCols uniqueInds nx iA dA c).cols c' r' :=
    fun c' r' h => M_runCols_stable uniqueInds nx iA dA h (by omega) r'
  constructor
  · rintro (hm | ⟨_, h1, h2, h3, h4⟩)
    · exact absurd (hold c r hm) (Nat.lt_irrefl c)
    · refine ⟨h1, h2, ?_, ?_⟩
      · intro c' r' hlt hm'
        rw [heq c' r' hlt] at hm'
        exact h3 c' r' hm'
      · intro c' hlt
        rw [heq c' r hlt]
        exact h4 c'
  · rintro ⟨h1, h2, h3, h4⟩
    refine Or.inr ⟨rfl, h1, h2, ?_, ?_⟩
    · intro c' r' hm'
      have hlt := hold c' r' hm'
      rw [← heq c' r' hlt] at hm'
      exact h3 c' r' hlt hm'
    · intro c'
      by_cases hlt : c' < c
      · rw [← heq c' r hlt]; exact h4 c' hlt
      · cases hm : M (runCols uniqueInds nx iA dA c).cols c' r
        · rfl
        · exact absurd (hold c' r hm) hlt

theorem closest_isSome_of_mem {d : Nat → Dist} {occ : List Nat} {r : Nat} (h : r ∈ occ) :
    ∃ x, closest d occ = some x := by
  cases occ with
  | nil => simp at h
  | cons a t => exact ⟨_, rfl⟩

/-! ### real neighbours sit in the first `ny` columns (pigeonhole) -/

theorem length_le_of_nodup_lt (n : Nat) : ∀ (l : List Nat), l.Nodup → (∀ x ∈ l, x < n) → l.length ≤ n := by
  induction n with
  | zero =>
    intro l _ h
    cases l with
    | nil => simp
    | cons a t => exact absurd (h a (by simp)) (Nat.not_lt_zero a)
  | succ n ih =>
    intro l hnd h
    have hnd' : (l.erase n).Nodup := hnd.sublist List.erase_sublist
    have hlt : ∀ x ∈ l.erase n, x < n := by
      intro x hx
      have := (List.Nodup.mem_erase_iff hnd).mp hx
      have := h x this.2
      omega
    have := ih _ hnd' hlt
    have hl := List.length_erase (a := n) (l := l)
    split at hl <;> omega

/-- under the oracle contract, finite entries form a prefix of each row -/
theorem finite_prefix {D : List (List Dist)} {inds : List (List Nat)} {ny K : Nat} {bound : Dist}
    (h : WFQuery D inds ny K bound) {r c : Nat} (hr : r < inds.length) (hc : c < K)
    (hf : (dAt D r c).isSome = true) : ∀ c', c' ≤ c → (dAt D r c').isSome = true := by
  induction c with
  | zero => intro c' hc'; have : c' = 0 := by omega
            subst this; exact hf
  | succ c ih =>
    intro c' hc'
    by_cases he : c' = c + 1
    · subst he; exact hf
    · have hs := h.sorted r c hr hc
      have : (dAt D r c).isSome = true := by
        cases hd : dAt D r c with
        | some v => rfl
        | none =>
          rw [hd] at hs
          obtain ⟨v, hv⟩ := Option.isSome_iff_exists.mp hf
          rw [hv] at hs
          simp [dle, dlt] at hs
      exact ih (by omega) this c' (by omega)

/-- a real neighbour can only sit in one of the first `ny` columns -/
theorem col_lt_ny_of_real {D : List (List Dist)} {inds : List (List Nat)} {ny K : Nat} {bound : Dist}
    (h : WFQuery D inds ny K bound) {r c : Nat} (hr : r < inds.length) (hc : c < K)
    (hv : indsAt inds r c < ny) : c < ny := by
  have hf := (h.finite_iff r c hr hc).mp hv
  have hpre := finite_prefix h hr hc hf
  have hreal : ∀ c', c' ≤ c → indsAt inds r c' < ny :=
    fun c' hc' => (h.finite_iff r c' hr (by omega)).mpr (hpre c' hc')
  have hnd : ((List.range (c + 1)).map (indsAt inds r)).Nodup := by
    refine List.Pairwise.map _ ?_ (List.Pairwise.and_mem.mp List.pairwise_lt_range)
    intro a b ⟨_, hb, hab⟩
    have hb' := List.mem_range.mp hb
    exact h.distinct r b a hr hab (by omega) (hreal a (by omega))
  have hlen := length_le_of_nodup_lt ny _ hnd (by
    intro x hx
    obtain ⟨c', hc', rfl⟩ := List.mem_map.mp hx
    exact hreal c' (by have := List.mem_range.mp hc'; omega))
  simp at hlen
  omega

end Kdt
