/- Helper lemmas about EmdModel.Phase: numpy's unwrap inverts wrap on slowly varying phase. -/
import Proofs.Lemmas.Phase

namespace Phase

/-- consecutive samples differ by less than `h` in absolute value -/
def Slow (h : Rat) : List Rat → Prop
  | a :: b :: t => absR (b - a) < h ∧ Slow h (b :: t)
  | _ => True

theorem absR_lt {x h : Rat} : absR x < h ↔ -h < x ∧ x < h := by
  unfold absR
  split
  · constructor
    · intro hh; constructor <;> linarith
    · intro ⟨a, _⟩; linarith
  · constructor
    · intro hh; constructor <;> linarith
    · intro ⟨_, b⟩; exact b

theorem int_eq_zero_of_mul_lt {k : Int} {m : Rat} (hm : 0 < m) (h1 : (k : Rat) * m < m)
    (h2 : -m < (k : Rat) * m) : k = 0 := by
  have a : (k : Rat) < 1 := by
    by_contra hc
    have : (1 : Rat) ≤ k := not_lt.mp hc
    nlinarith
  have b : (-1 : Rat) < k := by
    by_contra hc
    have : (k : Rat) ≤ -1 := not_lt.mp hc
    nlinarith
  have a' : k < 1 := by exact_mod_cast a
  have b' : -1 < k := by exact_mod_cast b
  omega

/-- the correction numpy's unwrap applies between two wrapped samples restores their true
    difference, provided the true difference is below half a period -/
theorem unwrapCorr_wrap {m : Rat} (hm : 0 < m) (u v : Rat) (hd : absR (v - u) < m / 2) :
    unwrapCorr m (wrap m v - wrap m u) = (v - u) - (wrap m v - wrap m u) := by
  obtain ⟨hlo, hhi⟩ := absR_lt.mp hd
  -- the wrapped difference is the true difference minus an integer number of periods
  let k : Int := (v / m).floor - (u / m).floor
  have hk : wrap m v - wrap m u = (v - u) - (k : Rat) * m := by
    have a := wrap_decomp m v
    have b := wrap_decomp m u
    simp only [k]; push_cast; linarith
  have hw : wrap m (wrap m v - wrap m u + m / 2) = (v - u) + m / 2 := by
    apply wrap_unique (-k)
    · linarith
    · linarith
    · rw [hk]; push_cast; ring
  unfold unwrapCorr
  simp only [hw]
  have hne : ¬ ((v - u) + m / 2 - m / 2 = -(m / 2) ∧ 0 < wrap m v - wrap m u) := by
    intro ⟨h, _⟩; linarith
  simp only [hne, ite_false]
  split
  · rename_i hsmall
    obtain ⟨slo, shi⟩ := absR_lt.mp hsmall
    have : k = 0 := by
      apply int_eq_zero_of_mul_lt hm <;> linarith
    rw [hk, this]; simp
  · ring

theorem diff_cons_cons (a b : Rat) (t : List Rat) : diff (a :: b :: t) = (b - a) :: diff (b :: t) := rfl

theorem unwrap_aux {m : Rat} (hm : 0 < m) (t : List Rat) :
    ∀ (acc u : Rat), Slow (m / 2) (u :: t) →
      List.zipWith (· + ·) (t.map (wrap m))
        (cumsumFrom acc ((diff ((u :: t).map (wrap m))).map (unwrapCorr m)))
      = t.map (fun v => v + (acc - (u - wrap m u))) := by
  induction t with
  | nil => intro acc u _; simp
  | cons v t ih =>
    intro acc u hs
    obtain ⟨h1, h2⟩ := hs
    have hc := unwrapCorr_wrap hm u v h1
    simp only [List.map_cons, diff_cons_cons, cumsumFrom, List.zipWith_cons_cons, hc]
    have := ih (acc + ((v - u) - (wrap m v - wrap m u))) v h2
    simp only [List.map_cons] at this
    rw [this]
    congr 1
    · ring
    · apply List.map_congr_left
      intro w _
      ring

/-- numpy's `unwrap` recovers a slowly varying phase from its wrapped version, up to the
    whole number of periods removed from the first sample -/
theorem unwrap_wrap_list {m : Rat} (hm : 0 < m) (U : List Rat) (hs : Slow (m / 2) U) :
    unwrap m (U.map (wrap m)) = U.map (fun v => v - (U.headD 0 - wrap m (U.headD 0))) := by
  cases U with
  | nil => rfl
  | cons u t =>
    simp only [List.map_cons, unwrap, List.headD_cons, cumsum]
    have := unwrap_aux hm t 0 u hs
    simp only [List.map_cons] at this
    rw [this]
    congr 1
    · ring
    · apply List.map_congr_left
      intro w _
      ring

theorem slow_add_const (h c : Rat) (U : List Rat) (hs : Slow h U) : Slow h (U.map fun u => u + c) := by
  induction U with
  | nil => trivial
  | cons a t ih =>
    cases t with
    | nil => trivial
    | cons b t' =>
      obtain ⟨h1, h2⟩ := hs
      refine ⟨?_, ih h2⟩
      have : b + c - (a + c) = b - a := by ring
      rw [this]; exact h1

end Phase
