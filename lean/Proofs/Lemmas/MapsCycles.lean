/- Link between the cycle detector's model (C12) and the well-formedness hypothesis of C16:
   every label vector produced by `paint (cvSegs …)` is `WF`. -/
import Proofs.C12
import Proofs.Lemmas.MapsIndex

namespace Maps
open Cycles

theorem append_cons_range_gt {a b : List Nat} {k n : Nat} (h : a ++ k :: b = List.range n) :
    ∀ x ∈ b, k < x := by
  have hp : (a ++ k :: b).Pairwise (· < ·) := by rw [h]; exact List.pairwise_lt_range
  have := (List.pairwise_append.mp hp).2.1
  exact (List.pairwise_cons.mp this).1

/-- where an index into `A ++ R ++ B` lands -/
theorem getElem?_three (A R B : List Int) (i : Nat) (v : Int) (h : (A ++ R ++ B)[i]? = some v) :
    (i < A.length ∧ v ∈ A) ∨ (A.length ≤ i ∧ i < A.length + R.length ∧ v ∈ R) ∨
    (A.length + R.length ≤ i ∧ v ∈ B) := by
  by_cases h1 : i < A.length
  · left
    rw [List.append_assoc, List.getElem?_append_left h1] at h
    exact ⟨h1, List.mem_of_getElem? h⟩
  · right
    by_cases h2 : i < A.length + R.length
    · left
      rw [List.getElem?_append_left (by simp; omega), List.getElem?_append_right (by omega)] at h
      exact ⟨by omega, h2, List.mem_of_getElem? h⟩
    · right
      rw [List.getElem?_append_right (by simp; omega)] at h
      exact ⟨by omega, List.mem_of_getElem? h⟩

variable {α : Type}

/-- block decomposition of the label vector around cycle k, with the labels after it larger -/
theorem label_block (w : α → α → Bool) (acc : List α → Bool) (xs : List α) (k : Nat)
    (hk : k < nCycles (cvSegs w acc xs)) :
    ∃ (A B : List Int) (n : Nat), 0 < n ∧
      paint (cvSegs w acc xs) = A ++ List.replicate n (k : Int) ++ B ∧
      (k : Int) ∉ A ∧ (k : Int) ∉ B ∧ ∀ x ∈ B, x = -1 ∨ (k : Int) < x := by
  obtain ⟨pre, run, post, hseg, hne, hpaint, hnpre, hnpost⟩ := C12.cv_label_block w acc xs k hk
  refine ⟨paint pre, paint post, run.length, List.length_pos_iff.mpr hne, hpaint, hnpre, hnpost, ?_⟩
  have hl := C12.labels_sequential w acc xs
  rw [hseg] at hl
  simp only [List.filterMap_append, List.filterMap_cons] at hl
  have hgt := append_cons_range_gt hl
  intro x hx
  obtain ⟨s, hs, rfl⟩ := mem_paint hx
  cases h2 : s.2 with
  | none => left; rfl
  | some j =>
    right
    have : j ∈ post.filterMap (·.2) := List.mem_filterMap.mpr ⟨s, hs, h2⟩
    have := hgt j this
    simp [labelInt]; omega

/-- Every output of the cycle detector's model is a well-formed cycle vector with
    K = number of labelled cycles. -/
theorem paint_cvSegs_wf (w : α → α → Bool) (acc : List α → Bool) (xs : List α) :
    WF (paint (cvSegs w acc xs)) (nCycles (cvSegs w acc xs)) := by
  have hval := C12.cv_values w acc xs
  -- a non-negative entry is a valid cycle number
  have hnat : ∀ (i : Nat) (a : Int), (paint (cvSegs w acc xs))[i]? = some a → 0 ≤ a →
      a.toNat < nCycles (cvSegs w acc xs) ∧ ((a.toNat : Nat) : Int) = a := by
    intro i a ha h0
    rcases hval a (List.mem_of_getElem? ha) with h | h
    · omega
    · exact ⟨by omega, by omega⟩
  refine ⟨?_, ?_, ?_, ?_⟩
  · intro l hl
    rcases hval l hl with h | h <;> omega
  · intro k hk
    obtain ⟨A, B, n, hn, hp, _⟩ := label_block w acc xs k hk
    rw [hp]
    have : (k : Int) ∈ List.replicate n (k : Int) := List.mem_replicate.mpr ⟨by omega, rfl⟩
    simp [this]
  · intro i j a b hij ha hb h0a h0b
    obtain ⟨hk, hka⟩ := hnat i a ha h0a
    obtain ⟨A, B, n, hn, hp, hA, hB, hBgt⟩ := label_block w acc xs a.toNat hk
    rw [hka] at hp hA hB hBgt
    rw [hp] at ha hb
    have hi : A.length ≤ i := by
      rcases getElem?_three A _ B i a ha with ⟨_, h⟩ | ⟨h, _⟩ | ⟨h, _⟩
      · exact absurd h hA
      · exact h
      · omega
    rcases getElem?_three A _ B j b hb with ⟨h, _⟩ | ⟨_, _, h⟩ | ⟨_, h⟩
    · omega
    · have := (List.mem_replicate.mp h).2; omega
    · rcases hBgt b h with h | h <;> omega
  · intro i m j a him hmj ha hb h0
    obtain ⟨hk, hka⟩ := hnat i a ha h0
    obtain ⟨A, B, n, hn, hp, hA, hB, _⟩ := label_block w acc xs a.toNat hk
    rw [hka] at hp hA hB
    rw [hp] at ha hb ⊢
    have hi : A.length ≤ i := by
      rcases getElem?_three A _ B i a ha with ⟨_, h⟩ | ⟨h, _⟩ | ⟨h, _⟩
      · exact absurd h hA
      · exact h
      · omega
    have hj : j < A.length + (List.replicate n a).length := by
      rcases getElem?_three A _ B j a hb with ⟨h, _⟩ | ⟨_, h, _⟩ | ⟨_, h⟩
      · omega
      · exact h
      · exact absurd h hB
    simp only [List.length_replicate] at hj
    rw [List.getElem?_append_left (by simp; omega), List.getElem?_append_right (by omega),
      List.getElem?_replicate, if_pos (by omega)]

end Maps
