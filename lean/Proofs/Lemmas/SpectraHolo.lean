/-
  Helper lemmas for C11 (holospectrum): fold/unfold arithmetic, C-order reshape and the
  `[1:-1, 1:-1]` trim as index maps on tables, column sums of a table, and the declarative
  specification `holoSpec`.
-/
import Proofs.Lemmas.Spectra

namespace Spectra

/-! ### fold / unfold -/

theorem unfold_fold (L1 d1 d2 : Nat) (h : d1 ≤ L1) :
    foldIdx L1 d1 d2 / (L1 + 1) = d2 ∧ foldIdx L1 d1 d2 % (L1 + 1) = d1 := by
  unfold foldIdx
  constructor
  · rw [Nat.add_mul_div_right _ _ (by omega), Nat.div_eq_of_lt (by omega)]; omega
  · rw [Nat.add_mul_mod_self_right, Nat.mod_eq_of_lt (by omega)]

theorem foldIdx_eq_iff (L1 d1 d2 c a : Nat) (h1 : d1 ≤ L1) (hc : c ≤ L1) :
    foldIdx L1 d1 d2 = foldIdx L1 c a ↔ d1 = c ∧ d2 = a := by
  constructor
  · intro h
    have u1 := unfold_fold L1 d1 d2 h1
    have u2 := unfold_fold L1 c a hc
    rw [h] at u1
    exact ⟨u1.2.symm.trans u2.2, u1.1.symm.trans u2.1⟩
  · rintro ⟨rfl, rfl⟩; rfl

theorem foldIdx_lt (L1 L2 d1 d2 : Nat) (h1 : d1 ≤ L1) (h2 : d2 ≤ L2) :
    foldIdx L1 d1 d2 < (L1 + 1) * (L2 + 1) := by
  unfold foldIdx
  have : d2 * (L1 + 1) ≤ L2 * (L1 + 1) := Nat.mul_le_mul_right _ h2
  have e : (L1 + 1) * (L2 + 1) = L2 * (L1 + 1) + (L1 + 1) := by
    rw [Nat.mul_comm (L1 + 1) (L2 + 1), Nat.succ_mul]
  omega

/-! ### reshape and trim as index maps -/

theorem trim_map_range {α : Type} (n : Nat) (g : Nat → α) :
    trim ((List.range n).map g) = (List.range (n - 2)).map fun i => g (i + 1) := by
  unfold trim
  apply List.ext_getElem
  · simp; omega
  · intro i h1 h2
    simp [List.getElem_dropLast]

theorem reshape2_map_range (nr nc : Nat) (h : Nat → Rat) :
    reshape2 nr nc ((List.range (nr * nc)).map h) = tab nr nc fun i j => h (i * nc + j) := by
  unfold reshape2 tab
  apply List.map_congr_left
  intro i hi
  have hi' : i + 1 ≤ nr := List.mem_range.mp hi
  have hm : (i + 1) * nc ≤ nr * nc := Nat.mul_le_mul_right nc hi'
  rw [Nat.succ_mul] at hm
  apply List.ext_getElem
  · simp; omega
  · intro j h1 h2
    simp [List.getElem_take, List.getElem_drop]

theorem trim2_tab (nr nc : Nat) (g : Nat → Nat → Rat) :
    trim2 (tab nr nc g) = tab (nr - 2) (nc - 2) fun r c => g (r + 1) (c + 1) := by
  unfold trim2 tab
  rw [List.map_map]
  have : (trim ∘ fun r => (List.range nc).map fun c => g r c) =
      fun r => (List.range (nc - 2)).map fun c => g r (c + 1) := by
    funext r; exact trim_map_range nc (g r)
  rw [this, trim_map_range]

/-- reshape to `(L2+1, L1+1)` and trim: cell `(a, c)` of the result is the folded column
    `(c+1) + (a+1)·(L1+1)` -/
theorem unfoldTrim_map_range (e1 e2 : List Rat) (h : Nat → Rat) :
    unfoldTrim e1 e2 ((List.range (holoCols e1 e2)).map h) =
      tab (e2.length - 1) (e1.length - 1) fun a c => h (foldIdx e1.length (c + 1) (a + 1)) := by
  unfold unfoldTrim holoCols
  rw [Nat.mul_comm, reshape2_map_range, trim2_tab]
  apply tab_congr
  intro a c _ _
  unfold foldIdx
  rw [Nat.add_comm]

/-! ### tables: cells, column sums -/

/-- the entry `[a][c]` of a matrix (0 outside) -/
def cellAt (m : List (List Rat)) (a c : Nat) : Rat := ((m[a]?).bind (·[c]?)).getD 0

theorem cellAt_tab (nr nc : Nat) (g : Nat → Nat → Rat) (a c : Nat) (ha : a < nr) (hc : c < nc) :
    cellAt (tab nr nc g) a c = g a c := by
  unfold cellAt tab
  simp [ha, hc]

theorem colSums_tab (nr nc : Nat) (g : Nat → Nat → Rat) :
    colSums nc (tab nr nc g) = (List.range nc).map fun c => ((List.range nr).map fun r => g r c).sum := by
  unfold colSums tab
  apply List.map_congr_left
  intro c hc
  have hc' := List.mem_range.mp hc
  rw [List.map_map]
  apply sum_map_congr
  intro r _
  simp [hc']

/-! ### declarative specification of the holospectrum -/

/-- weight one time row sends to (AM bin `a`, carrier bin `c`):
    Σ_j Σ_k w(a2[j][k])·[f2[j][k] ∈ AM bin a]·[f1[j] ∈ carrier bin c] -/
def holoRowSpec (e1 e2 : List Rat) (energy : Bool) (r : HoloRow) (a c : Nat) : Rat :=
  ((List.zip r.f1 (List.zip r.f2 r.a2)).map fun x =>
    ((List.zip x.2.1 x.2.2).map fun fa =>
      if inBin e2 a fa.1 && inBin e1 c x.1 then weight energy fa.2 else 0).sum).sum

/-- SPEC of the full holospectrum `[time × AM bins × carrier bins]` -/
def holoSpec (e1 e2 : List Rat) (energy : Bool) (rows : List HoloRow) : List (List (List Rat)) :=
  rows.map fun r => tab (e2.length - 1) (e1.length - 1) (holoRowSpec e1 e2 energy r)

theorem holoRowTrips_row {e1 e2 : List Rat} {energy : Bool} {t : Nat} {r : HoloRow} {x : Trip}
    (h : x ∈ holoRowTrips e1 e2 energy t r) : x.row = t := by
  unfold holoRowTrips at h
  obtain ⟨y, _, h2⟩ := List.mem_flatMap.mp h
  obtain ⟨fa, _, h3⟩ := List.mem_map.mp h2
  rw [← h3]

theorem holoRowTrips_col {e1 e2 : List Rat} {energy : Bool} {t : Nat} {r : HoloRow} {x : Trip}
    (h : x ∈ holoRowTrips e1 e2 energy t r) : x.col < holoCols e1 e2 := by
  unfold holoRowTrips at h
  obtain ⟨y, _, h2⟩ := List.mem_flatMap.mp h
  obtain ⟨fa, _, h3⟩ := List.mem_map.mp h2
  rw [← h3]
  exact foldIdx_lt _ _ _ _ (digitizeF_le_length e1 y.1) (digitizeF_le_length e2 fa.1)

/-- the weight one time row sends to the folded column of (AM bin `a`, carrier bin `c`) -/
theorem sumIf_holoRowTrips (e1 e2 : List Rat) (he1 : e1.Pairwise (· ≤ ·)) (he2 : e2.Pairwise (· ≤ ·))
    (energy : Bool) (t : Nat) (r : HoloRow) (a c : Nat) (ha : a + 1 < e2.length) (hc : c + 1 < e1.length) :
    sumIf (holoRowTrips e1 e2 energy t r) t (foldIdx e1.length (c + 1) (a + 1)) =
      holoRowSpec e1 e2 energy r a c := by
  unfold holoRowTrips holoRowSpec sumIf
  induction List.zip r.f1 (List.zip r.f2 r.a2) with
  | nil => rfl
  | cons x rest ih =>
    rw [List.flatMap_cons, sumP_append, ih, List.map_cons, List.sum_cons]
    congr 1
    induction List.zip x.2.1 x.2.2 with
    | nil => rfl
    | cons fa rest2 ih2 =>
      rw [List.map_cons, sumP_cons, ih2, List.map_cons, List.sum_cons]
      congr 1
      have hf := foldIdx_eq_iff e1.length (digitizeF e1 x.1) (digitizeF e2 fa.1) (c + 1) (a + 1)
        (digitizeF_le_length e1 x.1) (by omega)
      have h1 := digitizeF_eq_iff e1 he1 x.1 c hc
      have h2 := digitizeF_eq_iff e2 he2 fa.1 a ha
      by_cases hh : inBin e2 a fa.1 = true ∧ inBin e1 c x.1 = true
      · have : foldIdx e1.length (digitizeF e1 x.1) (digitizeF e2 fa.1) = foldIdx e1.length (c + 1) (a + 1) :=
          hf.mpr ⟨h1.mpr hh.2, h2.mpr hh.1⟩
        simp [this, hh.1, hh.2]
      · have : ¬ foldIdx e1.length (digitizeF e1 x.1) (digitizeF e2 fa.1) = foldIdx e1.length (c + 1) (a + 1) := by
          intro hfe
          have := hf.mp hfe
          exact hh ⟨h2.mp this.2, h1.mp this.1⟩
        have hb : (inBin e2 a fa.1 && inBin e1 c x.1) = false := by
          cases h3 : inBin e2 a fa.1 <;> cases h4 : inBin e1 c x.1 <;> simp_all
        simp [this, hb]

theorem sumIf_holoCoo (e1 e2 : List Rat) (energy : Bool) (rows : List HoloRow) (t i : Nat) :
    sumIf (holoCoo e1 e2 energy rows) t i =
      ((rows[t]?).map fun r => sumIf (holoRowTrips e1 e2 energy t r) t i).getD 0 := by
  unfold holoCoo sumIf
  rw [sumP_cooFrom (holoRowTrips e1 e2 energy) _ (·.row) t (by intro x hx; simp at hx; exact hx.1)
    (fun t' r x hx => holoRowTrips_row hx) 0 rows]
  simp

/-- the flat matrix, row by row -/
theorem holoFlat_eq (e1 e2 : List Rat) (energy : Bool) (rows : List HoloRow) :
    holoFlat e1 e2 energy rows =
      (List.range rows.length).map fun t =>
        (List.range (holoCols e1 e2)).map fun i => sumIf (holoCoo e1 e2 energy rows) t i := by
  unfold holoFlat
  rw [toDense_eq_tab]; rfl

/-- the full output, time row by time row, as a table of per-cell sums of the sparse entries -/
theorem holo3d_eq (e1 e2 : List Rat) (energy : Bool) (rows : List HoloRow) :
    holo3d e1 e2 energy rows =
      (List.range rows.length).map fun t =>
        tab (e2.length - 1) (e1.length - 1) fun a c =>
          sumIf (holoCoo e1 e2 energy rows) t (foldIdx e1.length (c + 1) (a + 1)) := by
  unfold holo3d
  rw [holoFlat_eq, List.map_map]
  apply List.map_congr_left
  intro t _
  exact unfoldTrim_map_range e1 e2 _

theorem sum3_comm {α β γ : Type} (l : List γ) (m : List α) (n : α → List β) (f : γ → α → β → Rat) :
    (l.map fun c => (m.map fun x => ((n x).map fun y => f c x y).sum).sum).sum =
      (m.map fun x => ((n x).map fun y => (l.map fun c => f c x y).sum).sum).sum := by
  rw [sum_map_comm]
  apply sum_map_congr
  intro x _
  rw [sum_map_comm]

/-- a sample is counted in exactly one (AM bin, carrier bin) cell when both frequencies are in range,
    and in none otherwise (weighted form) -/
theorem sum_cells_inBin (e1 e2 : List Rat) (he1 : e1.Pairwise (· ≤ ·)) (he2 : e2.Pairwise (· ≤ ·))
    (f1 f2 : Freq) (w : Rat) :
    ((List.range (e2.length - 1)).map fun a => ((List.range (e1.length - 1)).map fun c =>
        if inBin e2 a f2 && inBin e1 c f1 then w else 0).sum).sum =
      if inRange e2 f2 && inRange e1 f1 then w else 0 := by
  have h1 : ∀ a, ((List.range (e1.length - 1)).map fun c =>
        if inBin e2 a f2 && inBin e1 c f1 then w else 0).sum =
      if inBin e2 a f2 then (if inRange e1 f1 then w else 0) else 0 := by
    intro a
    cases h : inBin e2 a f2 with
    | true => simp only [Bool.true_and, ite_true]; exact sum_bins_inBin e1 he1 f1 w
    | false => simp [sum_map_zero]
  simp only [h1]
  rw [sum_bins_inBin e2 he2 f2]
  cases inRange e2 f2 <;> cases inRange e1 f1 <;> simp

/-- total of one time row of the SPEC -/
theorem holoRowSpec_total (e1 e2 : List Rat) (he1 : e1.Pairwise (· ≤ ·)) (he2 : e2.Pairwise (· ≤ ·))
    (energy : Bool) (r : HoloRow) :
    ((tab (e2.length - 1) (e1.length - 1) (holoRowSpec e1 e2 energy r)).map List.sum).sum =
      ((List.zip r.f1 (List.zip r.f2 r.a2)).map fun x =>
        ((List.zip x.2.1 x.2.2).map fun fa =>
          if inRange e2 fa.1 && inRange e1 x.1 then weight energy fa.2 else 0).sum).sum := by
  unfold tab holoRowSpec
  simp only [List.map_map, Function.comp_def]
  have h1 : ∀ a, ((List.range (e1.length - 1)).map fun c =>
        ((List.zip r.f1 (List.zip r.f2 r.a2)).map fun x =>
          ((List.zip x.2.1 x.2.2).map fun fa =>
            if (inBin e2 a fa.1 && inBin e1 c x.1) = true then weight energy fa.2 else 0).sum).sum).sum =
      ((List.zip r.f1 (List.zip r.f2 r.a2)).map fun x =>
          ((List.zip x.2.1 x.2.2).map fun fa => ((List.range (e1.length - 1)).map fun c =>
            if (inBin e2 a fa.1 && inBin e1 c x.1) = true then weight energy fa.2 else 0).sum).sum).sum :=
    fun a => sum3_comm _ _ _ _
  simp only [h1]
  rw [sum3_comm]
  apply sum_map_congr
  intro x _
  apply sum_map_congr
  intro fa _
  exact sum_cells_inBin e1 e2 he1 he2 x.1 fa.1 _

/-- the same time row with every second-level amplitude squared -/
def sqRow (r : HoloRow) : HoloRow := ⟨r.f1, r.f2, r.a2.map fun l => l.map fun a => a * a⟩

theorem holoRowTrips_sq (e1 e2 : List Rat) (t : Nat) (r : HoloRow) :
    holoRowTrips e1 e2 true t r = holoRowTrips e1 e2 false t (sqRow r) := by
  unfold holoRowTrips sqRow
  simp only [List.zip_map_right, List.flatMap_map, List.map_map, Function.comp_def, Prod.map, id, weight]
  rfl

theorem holoCoo_sq (e1 e2 : List Rat) (rows : List HoloRow) :
    holoCoo e1 e2 true rows = holoCoo e1 e2 false (rows.map sqRow) := by
  unfold holoCoo
  rw [cooFrom_map]
  apply cooFrom_congr
  intro t r
  exact holoRowTrips_sq e1 e2 t r

end Spectra
