/-
  Helper lemmas for C11 (holospectrum): fold/unfold arithmetic, C-order reshape and the
  `[1:-1, 1:-1]` trim as index maps on tables, column sums of a table, and the declarative
  specification `holoSpec`.
-/
import Proofs.Lemmas.Spectra

namespace Spectra

/-! ### fold / unfold -/

theorem unfold_fold (L1 d1 d2 : Nat) (h : d1 ≤ L1) :
    foldIdx L1 d1 d2 / (L1 + 1) = d2 ∧ foldIdx L1 d1 d2 % (L1 + 1) = d1 := by
  unfold foldIdx
  constructor
  · rw [Nat.add_mul_div_right _ _ (by omega), Nat.div_eq_of_lt (by omega)]; omega
  · rw [Nat.add_mul_mod_self_right, Nat.mod_eq_of_lt (by omega)]

theorem foldIdx_eq_iff (L1 d1 d2 c a : Nat) (h1 : d1 ≤ L1) (hc : c ≤ L1) :
    foldIdx L1 d1 d2 = foldIdx L1 c a ↔ d1 = c ∧ d2 = a := by
  constructor
  · intro h
    have u1 := unfold_fold L1 d1 d2 h1
    have u2 := unfold_fold L1 c a hc
    rw [h] at u1
    exact ⟨u1.2.symm.trans u2.2, u1.1.symm.trans u2.1⟩
  · rintro ⟨rfl, rfl⟩; rfl

theorem foldIdx_lt (L1 L2 d1 d2 : Nat) (h1 : d1 ≤ L1) (h2 : d2 ≤ L2) :
    foldIdx L1 d1 d2 < (L1 + 1) * (L2 + 1) := by
  unfold foldIdx
  have : d2 * (L1 + 1) ≤ L2 * (L1 + 1) := Nat.mul_le_mul_right _ h2
  have e : (L1 + 1) * (L2 + 1) = L2 * (L1 + 1) + (L1 + 1) := by
    rw [Nat.mul_comm (L1 + 1) (L2 + 1), Nat.succ_mul]
  omega

/-! ### reshape and trim as index maps -/

theorem trim_map_range {α : Type} (n : Nat) (g : Nat → α) :
    trim ((List.range n).map g) = (List.range (n - 2)).map fun i => g (i + 1) := by
  unfold trim
  apply List.ext_getElem
  · simp; omega
  · intro i h1 h2
    simp [List.getElem_dropLast]

theorem reshape2_map_range (nr nc : Nat) (h : Nat → Rat) :
    reshape2 nr nc ((List.range (nr * nc)).map h) = tab nr nc fun i j => h (i * nc + j) := by
  unfold reshape2 tab
  apply List.map_congr_left
  intro i hi
  have hi' : i + 1 ≤ nr := List.mem_range.mp hi
  have hm : (i + 1) * nc ≤ nr * nc := Nat.mul_le_mul_right nc hi'
  rw [Nat.succ_mul] at hm
  apply List.ext_getElem
  · simp; omega
  · intro j h1 h2
    simp [List.getElem_take, List.getElem_drop]

theorem trim2_tab (nr nc : Nat) (g : Nat → Nat → Rat) :
    trim2 (tab nr nc g) = tab (nr - 2) (nc - 2) fun r c => g (r + 1) (c + 1) := by
  unfold trim2 tab
  rw [List.map_map]
  have : (trim ∘ fun r => (List.range nc).map fun c => g r c) =
      fun r => (List.range (nc - 2)).map fun c => g r (c + 1) := by
    funext r; exact trim_map_range nc (g r)
  rw [this, trim_map_range]

/-- reshape to `(L2+1, L1+1)` and trim: cell `(a, c)` of the result is the folded column
    `(c+1) + (a+1)·(L1+1)` -/
theorem unfoldTrim_map_range (e1 e2 : List Rat) (h : Nat → Rat) :
    unfoldTrim e1 e2 ((List.range (holoCols e1 e2)).map h) =
      tab (e2.length - 1) (e1.length - 1) fun a c => h (foldIdx e1.length (c + 1) (a + 1)) := by
  unfold unfoldTrim holoCols
  rw [Nat.mul_comm, reshape2_map_range, trim2_tab]
  apply tab_congr
  intro a c _ _
  unfold foldIdx
  rw [Nat.add_comm]

/-! ### tables: cells, column sums -/

/-- the entry `[a][c]` of a matrix (0 outside) -/
def cellAt (m : List (List Rat)) (a c : Nat) : Rat := ((m[a]?).bind (·[c]?)).getD 0

theorem cellAt_tab (nr nc : Nat) (g : Nat → Nat → Rat) (a c : Nat) (ha : a < nr) (hc : c < nc) :
    cellAt (tab nr nc g) a c = g a c := by
  unfold cellAt tab
  simp [ha, hc]

theorem colSums_tab (nr nc : Nat) (g : Nat → Nat → Rat) :
    colSums nc (tab nr nc g) = (List.range nc).map fun c => ((List.range nr).map fun r => g r c).sum := by
  unfold colSums tab
  apply List.map_congr_left
  intro c hc
  have hc' := List.mem_range.mp hc
  rw [List.map_map]
  apply sum_map_congr
  intro r _
  simp [hc']

/-! ### declarative specification of the holospectrum -/

/-- weight one time row sends to (AM bin `a`, carrier bin `c`):
    Σ_j Σ_k w(a2[j][k])·[f2[j][k] ∈ AM bin a]·[f1[j] ∈ carrier bin c] -/
def holoRowSpec (e1 e2 : List Rat) (energy : Bool) (r : HoloRow) (a c : Nat) : Rat :=
  ((List.zip r.f1 (List.zip r.f2 r.a2)).map fun x =>
    ((List.zip x.2.1 x.2.2).map fun fa =>
      if inBin e2 a fa.1 && inBin e1 c x.1 then weight energy fa.2 else 0).sum).sum

/-- SPEC of the full holospectrum `[time × AM bins × carrier bins]` -/
def holoSpec (e1 e2 : List Rat) (energy : Bool) (rows : List HoloRow) : List (List (List Rat)) :=
  rows.map fun r => tab (e2.length - 1) (e1.length - 1) (holoRowSpec e1 e2 energy r)

/-! ### `np.digitize` on edges of either orientation -/

theorem sortedLe_of_pairwise (e : List Rat) (h : e.Pairwise (· ≤ ·)) : sortedLe e = true := by
  induction e with
  | nil => rfl
  | cons a t ih =>
    cases t with
    | nil => rfl
    | cons b t =>
      have h1 := List.pairwise_cons.mp h
      simp only [sortedLe, Bool.and_eq_true, decide_eq_true_eq]
      exact ⟨h1.1 b (by simp), ih h1.2⟩

theorem digitizeM_of_pairwise (e : List Rat) (h : e.Pairwise (· ≤ ·)) (f : Freq) : digitizeM e f = digitizeF e f := by
  simp [digitizeM, sortedLe_of_pairwise e h]

theorem digitizeDecF_le_length (e : List Rat) (f : Freq) : digitizeDecF e f ≤ e.length := by
  cases f with
  | none => simp [digitizeDecF]
  | some v => exact List.countP_le_length

theorem digitizeM_le_length (e : List Rat) (f : Freq) : digitizeM e f ≤ e.length := by
  unfold digitizeM
  split
  · exact digitizeF_le_length e f
  · exact digitizeDecF_le_length e f

theorem pairwise_ge_of_sortedGe (e : List Rat) (h : sortedGe e = true) : e.Pairwise (· ≥ ·) := by
  induction e with
  | nil => simp
  | cons a t ih =>
    cases t with
    | nil => simp
    | cons b t =>
      simp only [sortedGe, Bool.and_eq_true, decide_eq_true_eq] at h
      have ht := ih h.2
      refine List.pairwise_cons.mpr ⟨?_, ht⟩
      intro x hx
      rcases List.mem_cons.mp hx with rfl | hx
      · exact h.1
      · have := (List.pairwise_cons.mp ht).1 x hx
        grind

/-- on decreasing edges the digitised index is `b + 1` exactly for `e[b+1] ≤ v < e[b]` -/
theorem digitizeDec_spec (e : List Rat) (he : e.Pairwise (· ≥ ·)) (v : Rat) (b : Nat) (hb : b + 1 < e.length) :
    digitizeDec e v = b + 1 ↔ e[b + 1] ≤ v ∧ v < e[b] := by
  induction e generalizing b with
  | nil => simp at hb
  | cons a t ih =>
    have h1 := List.pairwise_cons.mp he
    simp only [digitizeDec, List.countP_cons]
    by_cases hva : v < a
    · simp only [hva, decide_true, ite_true]
      cases b with
      | zero =>
        simp only [Nat.zero_add, List.getElem_cons_zero, List.getElem_cons_succ, hva, and_true]
        constructor
        · intro h
          have h0 : t.countP (v < ·) = 0 := by omega
          have hlt : 0 < t.length := by simpa using hb
          have := (List.countP_eq_zero.mp h0) t[0] (List.getElem_mem hlt)
          simp at this
          grind
        · intro h
          have : t.countP (v < ·) = 0 := by
            apply List.countP_eq_zero.mpr
            intro x hx
            obtain ⟨i, hi, rfl⟩ := List.mem_iff_getElem.mp hx
            have hle : t[i] ≤ t[0]'(by omega) := by
              cases i with
              | zero => grind
              | succ i' =>
                have := List.pairwise_iff_getElem.mp h1.2 0 (i' + 1) (by omega) hi (by omega)
                exact this
            simp; grind
          omega
      | succ b' =>
        have := ih h1.2 b' (by simpa using hb)
        simp only [digitizeDec] at this
        simp only [List.getElem_cons_succ]
        rw [← this]
        omega
    · simp only [hva, decide_false, Bool.false_eq_true, ite_false, Nat.add_zero]
      have hz : t.countP (v < ·) = 0 := by
        apply List.countP_eq_zero.mpr
        intro x hx
        have := h1.1 x hx
        simp; grind
      constructor
      · intro h; omega
      · rintro ⟨_, h2⟩
        exfalso
        cases b with
        | zero => exact hva (by simpa using h2)
        | succ b' =>
          have hlt : b' < t.length := by simp at hb; omega
          have := h1.1 t[b'] (List.getElem_mem hlt)
          simp only [List.getElem_cons_succ] at h2
          grind

theorem holoRowTrips_row {e1 e2 : List Rat} {energy : Bool} {t : Nat} {r : HoloRow} {x : Trip}
    (h : x ∈ holoRowTrips e1 e2 energy t r) : x.row = t := by
  unfold holoRowTrips at h
  obtain ⟨y, _, h2⟩ := List.mem_flatMap.mp h
  obtain ⟨fa, _, h3⟩ := List.mem_map.mp h2
  rw [← h3]

theorem holoRowTrips_col {e1 e2 : List Rat} {energy : Bool} {t : Nat} {r : HoloRow} {x : Trip}
    (h : x ∈ holoRowTrips e1 e2 energy t r) : x.col < holoCols e1 e2 := by
  unfold holoRowTrips at h
  obtain ⟨y, _, h2⟩ := List.mem_flatMap.mp h
  obtain ⟨fa, _, h3⟩ := List.mem_map.mp h2
  rw [← h3]
  exact foldIdx_lt _ _ _ _ (digitizeM_le_length e1 y.1) (digitizeM_le_length e2 fa.1)

/-- the weight one time row sends to the folded column of (AM bin `a`, carrier bin `c`) -/
theorem sumIf_holoRowTrips (e1 e2 : List Rat) (he1 : e1.Pairwise (· ≤ ·)) (he2 : e2.Pairwise (· ≤ ·))
    (energy : Bool) (t : Nat) (r : HoloRow) (a c : Nat) (ha : a + 1 < e2.length) (hc : c + 1 < e1.length) :
    sumIf (holoRowTrips e1 e2 energy t r) t (foldIdx e1.length (c + 1) (a + 1)) =
      holoRowSpec e1 e2 energy r a c := by
  unfold holoRowTrips holoRowSpec sumIf
  simp only [digitizeM_of_pairwise e1 he1, digitizeM_of_pairwise e2 he2]
  induction List.zip r.f1 (List.zip r.f2 r.a2) with
  | nil => rfl
  | cons x rest ih =>
    rw [List.flatMap_cons, sumP_append, ih, List.map_cons, List.sum_cons]
    congr 1
    induction List.zip x.2.1 x.2.2 with
    | nil => rfl
    | cons fa rest2 ih2 =>
      rw [List.map_cons, sumP_cons, ih2, List.map_cons, List.sum_cons]
      congr 1
      have hf := foldIdx_eq_iff e1.length (digitizeF e1 x.1) (digitizeF e2 fa.1) (c + 1) (a + 1)
        (digitizeF_le_length e1 x.1) (by omega)
      have h1 := digitizeF_eq_iff e1 he1 x.1 c hc
      have h2 := digitizeF_eq_iff e2 he2 fa.1 a ha
      by_cases hh : inBin e2 a fa.1 = true ∧ inBin e1 c x.1 = true
      · have : foldIdx e1.length (digitizeF e1 x.1) (digitizeF e2 fa.1) = foldIdx e1.length (c + 1) (a + 1) :=
          hf.mpr ⟨h1.mpr hh.2, h2.mpr hh.1⟩
        simp [this, hh.1, hh.2]
      · have : ¬ foldIdx e1.length (digitizeF e1 x.1) (digitizeF e2 fa.1) = foldIdx e1.length (c + 1) (a + 1) := by
          intro hfe
          have := hf.mp hfe
          exact hh ⟨h2.mp this.2, h1.mp this.1⟩
        have hb : (inBin e2 a fa.1 && inBin e1 c x.1) = false := by
          cases h3 : inBin e2 a fa.1 <;> cases h4 : inBin e1 c x.1 <;> simp_all
        simp [this, hb]

theorem sumIf_holoCoo (e1 e2 : List Rat) (energy : Bool) (rows : List HoloRow) (t i : Nat) :
    sumIf (holoCoo e1 e2 energy rows) t i =
      ((rows[t]?).map fun r => sumIf (holoRowTrips e1 e2 energy t r) t i).getD 0 := by
  unfold holoCoo sumIf
  rw [sumP_cooFrom (holoRowTrips e1 e2 energy) _ (·.row) t (by intro x hx; simp at hx; exact hx.1)
    (fun t' r x hx => holoRowTrips_row hx) 0 rows]
  simp

/-- the flat matrix, row by row -/
theorem holoFlat_eq (e1 e2 : List Rat) (energy : Bool) (rows : List HoloRow) :
    holoFlat e1 e2 energy rows =
      (List.range rows.length).map fun t =>
        (List.range (holoCols e1 e2)).map fun i => sumIf (holoCoo e1 e2 energy rows) t i := by
  unfold holoFlat
  rw [toDense_eq_tab]; rfl

/-- the full output, time row by time row, as a table of per-cell sums of the sparse entries -/
theorem holo3d_eq (e1 e2 : List Rat) (energy : Bool) (rows : List HoloRow) :
    holo3d e1 e2 energy rows =
      (List.range rows.length).map fun t =>
        tab (e2.length - 1) (e1.length - 1) fun a c =>
          sumIf (holoCoo e1 e2 energy rows) t (foldIdx e1.length (c + 1) (a + 1)) := by
  unfold holo3d
  rw [holoFlat_eq, List.map_map]
  apply List.map_congr_left
  intro t _
  exact unfoldTrim_map_range e1 e2 _

theorem sum3_comm {α β γ : Type} (l : List γ) (m : List α) (n : α → List β) (f : γ → α → β → Rat) :
    (l.map fun c => (m.map fun x => ((n x).map fun y => f c x y).sum).sum).sum =
      (m.map fun x => ((n x).map fun y => (l.map fun c => f c x y).sum).sum).sum := by
  rw [sum_map_comm]
  apply sum_map_congr
  intro x _
  rw [sum_map_comm]

/-- a sample is counted in exactly one (AM bin, carrier bin) cell when both frequencies are in range,
    and in none otherwise (weighted form) -/
theorem sum_cells_inBin (e1 e2 : List Rat) (he1 : e1.Pairwise (· ≤ ·)) (he2 : e2.Pairwise (· ≤ ·))
    (f1 f2 : Freq) (w : Rat) :
    ((List.range (e2.length - 1)).map fun a => ((List.range (e1.length - 1)).map fun c =>
        if inBin e2 a f2 && inBin e1 c f1 then w else 0).sum).sum =
      if inRange e2 f2 && inRange e1 f1 then w else 0 := by
  have h1 : ∀ a, ((List.range (e1.length - 1)).map fun c =>
        if inBin e2 a f2 && inBin e1 c f1 then w else 0).sum =
      if inBin e2 a f2 then (if inRange e1 f1 then w else 0) else 0 := by
    intro a
    cases h : inBin e2 a f2 with
    | true => simp only [Bool.true_and, ite_true]; exact sum_bins_inBin e1 he1 f1 w
    | false => simp [sum_map_zero]
  simp only [h1]
  rw [sum_bins_inBin e2 he2 f2]
  cases inRange e2 f2 <;> cases inRange e1 f1 <;> simp

/-- total of one time row of the SPEC -/
theorem holoRowSpec_total (e1 e2 : List Rat) (he1 : e1.Pairwise (· ≤ ·)) (he2 : e2.Pairwise (· ≤ ·))
    (energy : Bool) (r : HoloRow) :
    ((tab (e2.length - 1) (e1.length - 1) (holoRowSpec e1 e2 energy r)).map List.sum).sum =
      ((List.zip r.f1 (List.zip r.f2 r.a2)).map fun x =>
        ((List.zip x.2.1 x.2.2).map fun fa =>
          if inRange e2 fa.1 && inRange e1 x.1 then weight energy fa.2 else 0).sum).sum := by
  unfold tab holoRowSpec
  simp only [List.map_map, Function.comp_def]
  have h1 : ∀ a, ((List.range (e1.length - 1)).map fun c =>
        ((List.zip r.f1 (List.zip r.f2 r.a2)).map fun x =>
          ((List.zip x.2.1 x.2.2).map fun fa =>
            if (inBin e2 a fa.1 && inBin e1 c x.1) = true then weight energy fa.2 else 0).sum).sum).sum =
      ((List.zip r.f1 (List.zip r.f2 r.a2)).map fun x =>
          ((List.zip x.2.1 x.2.2).map fun fa => ((List.range (e1.length - 1)).map fun c =>
            if (inBin e2 a fa.1 && inBin e1 c x.1) = true then weight energy fa.2 else 0).sum).sum).sum :=
    fun a => sum3_comm _ _ _ _
  simp only [h1]
  rw [sum3_comm]
  apply sum_map_congr
  intro x _
  apply sum_map_congr
  intro fa _
  exact sum_cells_inBin e1 e2 he1 he2 x.1 fa.1 _

/-- the same time row with every second-level amplitude squared -/
def sqRow (r : HoloRow) : HoloRow := ⟨r.f1, r.f2, r.a2.map fun l => l.map fun a => a * a⟩

theorem holoRowTrips_sq (e1 e2 : List Rat) (t : Nat) (r : HoloRow) :
    holoRowTrips e1 e2 true t r = holoRowTrips e1 e2 false t (sqRow r) := by
  unfold holoRowTrips sqRow
  simp only [List.zip_map_right, List.flatMap_map, List.map_map, Function.comp_def, Prod.map, id, weight]
  rfl

theorem holoCoo_sq (e1 e2 : List Rat) (rows : List HoloRow) :
    holoCoo e1 e2 true rows = holoCoo e1 e2 false (rows.map sqRow) := by
  unfold holoCoo
  rw [cooFrom_map]
  apply cooFrom_congr
  intro t r
  exact holoRowTrips_sq e1 e2 t r

/-! ### one sparse entry per sample -/

theorem countP_cooFrom {ρ : Type} (mk : Nat → ρ → List Trip) (p : Trip → Bool) (n : ρ → Nat)
    (h : ∀ t r, (mk t r).countP p = n r) :
    ∀ (t0 : Nat) (rows : List ρ), (cooFrom mk t0 rows).countP p = (rows.map n).sum := by
  intro t0 rows
  induction rows generalizing t0 with
  | nil => rfl
  | cons r rs ih => simp [cooFrom, List.countP_append, ih, h]

/-- number of second-level samples of one time row (ragged rows: what `zip` pairs up) -/
def rowSamples (r : HoloRow) : Nat :=
  ((List.zip r.f1 (List.zip r.f2 r.a2)).map fun x => (List.zip x.2.1 x.2.2).length).sum

theorem length_holoRowTrips (e1 e2 : List Rat) (energy : Bool) (t : Nat) (r : HoloRow) :
    (holoRowTrips e1 e2 energy t r).length = rowSamples r := by
  unfold holoRowTrips rowSamples
  induction List.zip r.f1 (List.zip r.f2 r.a2) with
  | nil => rfl
  | cons x rest ih => simp [List.flatMap_cons, ih]

/-- the sparse entry lies in a cell that survives the trim `[1:-1, 1:-1]` of the unfolded matrix -/
def interior (e1 e2 : List Rat) (x : Trip) : Bool :=
  decide (1 ≤ x.col % (e1.length + 1) ∧ x.col % (e1.length + 1) ≤ e1.length - 1 ∧
          1 ≤ x.col / (e1.length + 1) ∧ x.col / (e1.length + 1) ≤ e2.length - 1)

theorem countP_interior_holoRowTrips (e1 e2 : List Rat) (he1 : e1.Pairwise (· ≤ ·)) (he2 : e2.Pairwise (· ≤ ·))
    (energy : Bool) (t : Nat) (r : HoloRow) :
    (holoRowTrips e1 e2 energy t r).countP (interior e1 e2) =
      ((List.zip r.f1 (List.zip r.f2 r.a2)).map fun x =>
        (List.zip x.2.1 x.2.2).countP fun fa => inRange e2 fa.1 && inRange e1 x.1).sum := by
  unfold holoRowTrips
  simp only [digitizeM_of_pairwise e1 he1, digitizeM_of_pairwise e2 he2]
  induction List.zip r.f1 (List.zip r.f2 r.a2) with
  | nil => rfl
  | cons x rest ih =>
    rw [List.flatMap_cons, List.countP_append, ih, List.map_cons, List.sum_cons]
    congr 1
    rw [List.countP_map]
    apply List.countP_congr
    intro fa _
    have hu := unfold_fold e1.length (digitizeF e1 x.1) (digitizeF e2 fa.1) (digitizeF_le_length e1 x.1)
    have h1 := inRange_iff e1 he1 x.1
    have h2 := inRange_iff e2 he2 fa.1
    simp only [Function.comp, interior, hu.1, hu.2, decide_eq_true_eq, Bool.and_eq_true, h1, h2]
    omega

/-- rectangular input `[T × M]`, `[T × M × K]`, `[T × M × K]` -/
def Rect (M K : Nat) (rows : List HoloRow) : Prop :=
  ∀ r ∈ rows, r.f1.length = M ∧ r.f2.length = M ∧ r.a2.length = M ∧
    (∀ l ∈ r.f2, l.length = K) ∧ (∀ l ∈ r.a2, l.length = K)

theorem sum_map_const {α : Type} (l : List α) (g : α → Nat) (c : Nat) (h : ∀ x ∈ l, g x = c) :
    (l.map g).sum = l.length * c := by
  induction l with
  | nil => simp
  | cons a t ih =>
    rw [List.map_cons, List.sum_cons, h a (by simp), ih (fun x hx => h x (by simp [hx])), List.length_cons]
    rw [Nat.add_mul]; omega

theorem rowSamples_rect (M K : Nat) (r : HoloRow) (h1 : r.f1.length = M) (h2 : r.f2.length = M) (h3 : r.a2.length = M)
    (h4 : ∀ l ∈ r.f2, l.length = K) (h5 : ∀ l ∈ r.a2, l.length = K) : rowSamples r = M * K := by
  unfold rowSamples
  rw [sum_map_const _ _ K]
  · simp [h1, h2, h3]
  · intro x hx
    have hz := (List.of_mem_zip hx).2
    have := List.of_mem_zip hz
    simp [h4 _ this.1, h5 _ this.2]

end Spectra
