/-
  Helper lemmas about the logger state machine (used by Proofs/C20.lean).
-/
import EmdModel.Logger

namespace Logger

@[simp] theorem setLevel_console_none (s : LogState) (l : Level) (h : s.console = none) :
    setLevel s l = s := by
  unfold setLevel; simp [h]

theorem setLevel_of_some (s : LogState) (l c : Level) (h : s.console = some c) :
    setLevel s l = { s with console := some l } := by
  unfold setLevel; simp [h]

/-- setting the level twice is setting it to the second value -/
theorem setLevel_setLevel (s : LogState) (a b : Level) :
    setLevel (setLevel s a) b = setLevel s b := by
  cases h : s.console with
  | none => simp [h]
  | some c => simp [setLevel, h]

/-- setting the level to the one already in place changes nothing -/
theorem setLevel_same (s : LogState) (c : Level) (h : s.console = some c) : setLevel s c = s := by
  cases s; simp_all [setLevel]

@[simp] theorem setLevel_disabled (s : LogState) (l : Level) : (setLevel s l).disabled = s.disabled := by
  unfold setLevel; split <;> rfl

theorem setLevel_console (s : LogState) (l : Level) :
    (setLevel s l).console = s.console.map (fun _ => l) := by
  unfold setLevel; split <;> simp_all

/-- the repaired wrapper leaves the whole state as it found it -/
theorem wrapVerbose_state (s : LogState) (v : Option Level) (o : Outcome) :
    (wrapVerbose s v o).1 = s := by
  unfold wrapVerbose
  cases v with
  | none => rfl
  | some tmp =>
    cases h : s.console with
    | none => simp [h]
    | some c => simp only [setLevel_setLevel]; exact setLevel_same s c h

theorem wrapVerbose_result (s : LogState) (v : Option Level) (o : Outcome) :
    (wrapVerbose s v o).2.result = ownResult o := by
  unfold wrapVerbose; cases v <;> rfl

theorem step_call_state (s : LogState) (v : Option Level) (o : Outcome) :
    (step s (.call v o)).1 = s := wrapVerbose_state s v o

theorem wrapVerboseBad_state (s : LogState) (o : Outcome) : (wrapVerboseBad s o).1 = s := by
  unfold wrapVerboseBad; split <;> rfl

theorem step_callBad_state (s : LogState) (o : Outcome) : (step s (.callBad o)).1 = s :=
  wrapVerboseBad_state s o

theorem step_isCall_state (s : LogState) (op : Op) (h : op.isCall = true) : (step s op).1 = s := by
  cases op <;> simp [Op.isCall] at h
  · exact step_call_state s _ _
  · exact step_callBad_state s _

/-- a non-call operation shows no call result -/
theorem step_nonCall_obs (s : LogState) (op : Op) (h : op.isCall = false) : (step s op).2 = none := by
  cases op <;> simp [Op.isCall] at h <;> rfl

theorem traj_length (s : LogState) (ops : List Op) : (traj s ops).length = ops.length + 1 := by
  induction ops generalizing s with
  | nil => rfl
  | cons op ops ih => simp [traj, ih]

theorem observe_length (s : LogState) (ops : List Op) : (observe s ops).length = ops.length := by
  induction ops generalizing s with
  | nil => rfl
  | cons op ops ih => simp [observe, ih]

theorem traj_getLast (s : LogState) (ops : List Op) : (traj s ops).getLast? = some (run s ops) := by
  induction ops generalizing s with
  | nil => rfl
  | cons op ops ih =>
    have hne : traj (step s op).1 ops ≠ [] := by
      intro h; have := traj_length (step s op).1 ops; simp [h] at this
    simp only [traj, run, List.foldl_cons]
    rw [List.getLast?_cons_of_ne_nil hne]
    exact ih _

end Logger
