/-
  Helper lemmas about the energy threshold of `get_next_imf` (C04) and what it means for the outer
  sift loop (C01): the continue flag with `energy_thresh` set, and the anatomy of a regular exit of
  `sift` over `get_next_imf` for EVERY option record (with or without energy threshold).
-/
import Proofs.Lemmas.SiftOuter

namespace Sift

/-- the energy rule fires on the extraction of `c` from `p`:
    `energy_thresh` is set and `_energy_difference(p, p - c) > energy_thresh` -/
def EnergyFires (D : Sig → Sig → Rat) (o : ImfOpts) (p c : Sig) : Prop :=
  ∃ t, o.energyThresh = some t ∧ t < D p (Sig.sub p c)

/-- the energy rule fired on the LAST extraction of a sift of `x` that returned `cols` -/
def LastEnergyFires (D : Sig → Sig → Rat) (o : ImfOpts) (x : Sig) (cols : List Sig) : Prop :=
  ∃ init c, cols = init ++ [c] ∧ EnergyFires D o (resid x init) c

theorem energyFires_none {D : Sig → Sig → Rat} {o : ImfOpts} {p c : Sig} (he : o.energyThresh = none) :
    ¬ EnergyFires D o p c := by
  rintro ⟨t, ht, _⟩; rw [he] at ht; cases ht

theorem energyFlag_false_iff' (D : Sig → Sig → Rat) (o : ImfOpts) (x c : Sig) (f : Bool) :
    energyFlag D o x c f = false ↔ f = false ∨ EnergyFires D o x c := by
  unfold energyFlag EnergyFires
  cases he : o.energyThresh with
  | none => simp
  | some t =>
    simp only [Bool.and_eq_false_iff, Bool.not_eq_false', decide_eq_true_eq, Option.some.injEq, exists_eq_left']

theorem not_continues_zero {E : Nat → Sig → Env} {o : ImfOpts} {x : Sig}
    (hn : (E 0 x).1 = none ∨ (E 0 x).2 = none) : ¬ Continues E o x 0 := by
  rintro ⟨h, U, L, h1, h2, _⟩
  simp only [iter, Option.some.injEq] at h1
  subst h1
  rw [h2] at hn; simp at hn

theorem not_fires_zero {E : Nat → Sig → Env} {o : ImfOpts} {x c : Sig}
    (hn : (E 0 x).1 = none ∨ (E 0 x).2 = none) : ¬ Fires E o x 0 c := by
  rintro ⟨h, U, L, h1, h2, _⟩
  simp only [iter, Option.some.injEq] at h1
  subst h1
  rw [h2] at hn; simp at hn

/-- The continue flag, for every option record: it is cleared exactly when the input itself has an
    undefined envelope (and is returned unmodified) or the energy rule fires on the result. -/
theorem flag_iff_energy' (E : Nat → Sig → Env) (D : Sig → Sig → Rat) (o : ImfOpts) (x c : Sig) (f : Bool)
    (h : getNextImfIx E D o x = .imf c f) :
    f = false ↔ (c = x ∧ ((E 0 x).1 = none ∨ (E 0 x).2 = none)) ∨ EnergyFires D o x c := by
  have hs := run_spec' E o x
  unfold getNextImfIx at h
  cases hr : run E o x with
  | stopped k c' =>
    rw [hr] at h hs
    simp only [finish, ImfResult.imf.injEq] at h
    obtain ⟨rfl, hf⟩ := h
    obtain ⟨_, hc, hfire⟩ := hs
    have hno : ¬ (c' = x ∧ ((E 0 x).1 = none ∨ (E 0 x).2 = none)) := by
      rintro ⟨_, hn⟩
      cases k with
      | zero => exact not_fires_zero hn hfire
      | succ k => exact not_continues_zero hn (hc 0 (by omega))
    rw [← hf, energyFlag_false_iff']
    simp [hno]
  | noExtrema k g =>
    rw [hr] at h hs
    simp only [finish, ImfResult.imf.injEq] at h
    obtain ⟨rfl, hf⟩ := h
    obtain ⟨_, hc, h1, h2⟩ := hs
    have hk : ((k != 0) = false) ↔ (g = x ∧ ((E 0 x).1 = none ∨ (E 0 x).2 = none)) := by
      constructor
      · intro hk
        have hk0 : k = 0 := by simpa using hk
        subst hk0
        simp only [iter, Option.some.injEq] at h1
        subst h1
        exact ⟨rfl, h2⟩
      · rintro ⟨_, hn⟩
        cases k with
        | zero => rfl
        | succ k => exact absurd (hc 0 (by omega)) (not_continues_zero hn)
    rw [← hf, energyFlag_false_iff', hk]
  | noConverge => rw [hr] at h; simp [finish] at h

/-! ### the outer loop over `get_next_imf`, any option record -/

/-- column lengths need only the length half of the extractor contract -/
theorem peelLoop_lengths_of_len (X : List Sig → Sig → Option (Sig × Bool)) (thr : Rat) (cap : Option Nat) (x : Sig)
    (hlen : ∀ cols p c f, p.length = x.length → X cols p = some (c, f) → c.length = x.length) :
    ∀ (fuel : Nat) (cols : List Sig) (proto : Sig), proto = resid x cols → (∀ c ∈ cols, c.length = x.length) →
      ∀ c ∈ (peelLoop X thr cap x fuel cols proto).1, c.length = x.length := by
  intro fuel
  induction fuel with
  | zero => intro cols proto _ hl; simpa [peelLoop] using hl
  | succ fuel ih =>
    intro cols proto hp hl
    cases hx : X cols proto with
    | none => rw [peelLoop_none hx]; simpa using hl
    | some r =>
      obtain ⟨c, cont⟩ := r
      have hc : c.length = x.length := hlen _ proto c cont (by rw [hp]; exact resid_length x cols hl) hx
      have hl' : ∀ d ∈ cols ++ [c], d.length = x.length := by
        intro d hd
        simp only [List.mem_append, List.mem_singleton] at hd
        rcases hd with hd | rfl
        · exact hl d hd
        · exact hc
      rw [peelLoop_some hx]
      split
      · exact ih _ _ rfl hl'
      · exact hl'

theorem extractorIx_imf {E : Nat → Sig → Env} {D : Sig → Sig → Rat} {o : ImfOpts} {p c : Sig} {f : Bool}
    (h : extractorIx E D o p = some (c, f)) : getNextImfIx E D o p = .imf c f := by
  unfold extractorIx at h
  cases hr : getNextImfIx E D o p with
  | imf c' f' =>
    rw [hr] at h; simp only [Option.some.injEq, Prod.mk.injEq] at h
    obtain ⟨rfl, rfl⟩ := h; rfl
  | convergeError => rw [hr] at h; cases h

/-- all columns of `sift` over `get_next_imf` have the input's length — with or without energy threshold -/
theorem sift_gni_lengths (E : Nat → Sig → Env) (hE : EnvLen E) (D : Sig → Sig → Rat) (o : ImfOpts)
    (thr : Rat) (cap : Option Nat) (x : Sig) (fuel : Nat) :
    ∀ c ∈ (sift (extractorIx E D o) thr cap x fuel).1, c.length = x.length := by
  apply peelLoop_lengths_of_len _ thr cap x _ fuel [] x (resid_nil x).symm (by simp)
  intro _ p c f hp h
  rw [imf_length E hE D o p c f (extractorIx_imf h), hp]

/-- anatomy of a regular exit of `sift` over `get_next_imf`, any option record -/
theorem sift_gni_done (E : Nat → Sig → Env) (hE : EnvLen E) (D : Sig → Sig → Rat) (o : ImfOpts)
    (thr : Rat) (cap : Option Nat) (x : Sig) (fuel : Nat) (cols : List Sig) (fl cp th : Bool)
    (h : sift (extractorIx E D o) thr cap x fuel = (cols, .done fl cp th)) :
    ∃ init c, cols = init ++ [c] ∧ (∀ d ∈ init, d.length = x.length) ∧
      getNextImfIx E D o (resid x init) = .imf c (!fl) ∧
      cp = (cap == some (init.length + 1)) ∧ th = decide (Sig.absSum c < thr) ∧
      (fl = true ∨ cp = true ∨ th = true) := by
  obtain ⟨init, c, rfl, _, hc, hcp, hth, hor⟩ :=
    siftLoop_done (fun _ => extractorIx E D o) thr cap x fuel [] x cols fl cp th (resid_nil x).symm h
  have hl := sift_gni_lengths E hE D o thr cap x fuel
  rw [h] at hl
  exact ⟨init, c, rfl, fun d hd => hl d (by simp [hd]), extractorIx_imf hc, hcp, hth, hor⟩

/-- a sift that ends with the flag cleared: the last column is the residual itself (the columns sum
    to the input) or the energy rule fired on the last extraction -/
theorem sift_gni_flag_exit (E : Nat → Sig → Env) (hE : EnvLen E) (D : Sig → Sig → Rat) (o : ImfOpts)
    (thr : Rat) (cap : Option Nat) (x : Sig) (fuel : Nat) (cols : List Sig) (cp th : Bool)
    (h : sift (extractorIx E D o) thr cap x fuel = (cols, .done true cp th)) :
    ∃ init c, cols = init ++ [c] ∧ (∀ d ∈ init, d.length = x.length) ∧
      ((c = resid x init ∧ (((E 0 c).1 = none ∨ (E 0 c).2 = none)) ∧ Sig.vsum x.length cols = x) ∨
        EnergyFires D o (resid x init) c) := by
  obtain ⟨init, c, rfl, hinit, hg, _⟩ := sift_gni_done E hE D o thr cap x fuel cols true cp th h
  refine ⟨init, c, rfl, hinit, ?_⟩
  rcases (flag_iff_energy' E D o _ c _ hg).mp (by simp) with ⟨hc, hn⟩ | hfire
  · left
    refine ⟨hc, by rw [hc]; exact hn, ?_⟩
    rw [hc]; exact vsum_append_resid x init hinit
  · right; exact hfire

end Sift
