/-
  Helper lemmas for C02 (phase 2) — rescaling / sign flip through the sift model
  (`Sift.sdStop`, `rillingStop`, `loop`, `getNextImfIx`, `peelLoop`) and the bridge from the
  Extrema-model envelopes (`Extrema.interpEnvelope`) to the envelope oracle of `Sift.getNextImf`.
-/
import Proofs.Lemmas.EquivarianceReverse
import Proofs.Lemmas.SiftOuter

namespace Sift
open Extrema (abs'_mul abs'_pos_of_ne abs'_of_pos abs'_of_neg smul_smul)

/-! ### signal algebra -/

theorem zipWith_map_both {α β : Type} (f : α → α → β) (f' : α → α → β) (g : α → α) (g' : β → β)
    (hf : ∀ a b, f' (g a) (g b) = g' (f a b)) :
    ∀ (a b : List α), List.zipWith f' (a.map g) (b.map g) = (List.zipWith f a b).map g' := by
  intro a
  induction a with
  | nil => intro b; simp
  | cons x a ih =>
    intro b
    cases b with
    | nil => simp
    | cons y b => simp [hf, ih]

theorem smul_add (c : Rat) (a b : Sig) : Sig.add (Sig.smul c a) (Sig.smul c b) = Sig.smul c (Sig.add a b) :=
  zipWith_map_both (· + ·) (· + ·) (c * ·) (c * ·) (fun x y => by ring) a b

theorem smul_sub (c : Rat) (a b : Sig) : Sig.sub (Sig.smul c a) (Sig.smul c b) = Sig.smul c (Sig.sub a b) :=
  zipWith_map_both (· - ·) (· - ·) (c * ·) (c * ·) (fun x y => by ring) a b

theorem smul_mean2 (c : Rat) (a b : Sig) : Sig.mean2 (Sig.smul c a) (Sig.smul c b) = Sig.smul c (Sig.mean2 a b) :=
  zipWith_map_both (fun u l => (u + l) / 2) (fun u l => (u + l) / 2) (c * ·) (c * ·) (fun x y => by ring) a b

theorem zipWith_comm' {α β : Type} (f : α → α → β) (hf : ∀ a b, f a b = f b a) :
    ∀ (a b : List α), List.zipWith f a b = List.zipWith f b a := by
  intro a
  induction a with
  | nil => intro b; cases b <;> simp
  | cons x a ih =>
    intro b
    cases b with
    | nil => simp
    | cons y b => simp [hf x y, ih b]

theorem mean2_comm (a b : Sig) : Sig.mean2 a b = Sig.mean2 b a :=
  zipWith_comm' _ (fun x y => by ring) a b

theorem add_comm' (a b : Sig) : Sig.add a b = Sig.add b a := zipWith_comm' _ (fun x y => by ring) a b

theorem add_assoc' : ∀ (a b c : Sig), Sig.add (Sig.add a b) c = Sig.add a (Sig.add b c) := by
  intro a
  induction a with
  | nil => intro b c; simp [Sig.add]
  | cons x a ih =>
    intro b c
    cases b with
    | nil => simp [Sig.add]
    | cons y b =>
      cases c with
      | nil => simp [Sig.add]
      | cons z c =>
        have := ih b c
        simp only [Sig.add, List.zipWith_cons_cons, List.cons.injEq] at this ⊢
        exact ⟨by ring, this⟩

theorem smul_step (c s : Rat) (a : Sig) : Sig.smul s (Sig.smul c a) = Sig.smul c (Sig.smul s a) := by
  rw [smul_smul, smul_smul, mul_comm]

theorem sum_smul (c : Rat) (v : Sig) : Sig.sum (v.map (c * ·)) = c * Sig.sum v := by
  induction v with
  | nil => simp [Sig.sum]
  | cons a t ih =>
    simp only [Sig.sum, List.map_cons, List.foldr_cons] at ih ⊢
    rw [ih]; ring

theorem sumSq_smul (c : Rat) (v : Sig) : Sig.sumSq (Sig.smul c v) = (c * c) * Sig.sumSq v := by
  unfold Sig.sumSq Sig.smul
  rw [List.map_map, ← sum_smul, List.map_map]
  congr 1
  apply List.map_congr_left; intro x _
  simp only [Function.comp]; ring

theorem absSum_smul (c : Rat) (v : Sig) : Sig.absSum (Sig.smul c v) = Rat.abs' c * Sig.absSum v := by
  unfold Sig.absSum Sig.smul
  rw [List.map_map, ← sum_smul, List.map_map]
  congr 1
  apply List.map_congr_left; intro x _
  simp only [Function.comp]
  exact abs'_mul c x

theorem smul_zeros (c : Rat) (n : Nat) : Sig.smul c (Sig.zeros n) = Sig.zeros n := by
  simp [Sig.smul, Sig.zeros]

theorem foldl_add_smul (c : Rat) (cols : List Sig) : ∀ acc : Sig,
    (cols.map (Sig.smul c)).foldl Sig.add (Sig.smul c acc) = Sig.smul c (cols.foldl Sig.add acc) := by
  induction cols with
  | nil => intro acc; rfl
  | cons a t ih =>
    intro acc
    simp only [List.map_cons, List.foldl_cons, smul_add, ih]

theorem vsum_smul (c : Rat) (n : Nat) (cols : List Sig) :
    Sig.vsum n (cols.map (Sig.smul c)) = Sig.smul c (Sig.vsum n cols) := by
  unfold Sig.vsum
  rw [← foldl_add_smul, smul_zeros]

theorem abs'_sub_comm (a b : Rat) : Rat.abs' (a - b) = Rat.abs' (b - a) := by
  have : a - b = (-1) * (b - a) := by ring
  rw [this, abs'_mul]
  have : Rat.abs' (-1) = 1 := by decide +kernel
  rw [this]; ring

/-! ### the stopping rules are scale-free -/

theorem sdStop_smul' (c : Rat) (hc : c ≠ 0) (thr : Rat) (h x1 : Sig) :
    sdStop thr (Sig.smul c h) (Sig.smul c x1) = sdStop thr h x1 := by
  unfold sdStop
  rw [smul_sub, sumSq_smul, sumSq_smul]
  have hcc : 0 < c * c := mul_self_pos.mpr hc
  apply decide_eq_decide.mpr
  constructor
  · intro hlt
    have : c * c * Sig.sumSq (Sig.sub h x1) < c * c * (thr * Sig.sumSq h) := by linarith
    exact lt_of_mul_lt_mul_left this (le_of_lt hcc)
  · intro hlt
    have := mul_lt_mul_of_pos_left hlt hcc
    linarith

theorem rillingBig_smul (c : Rat) (hc : c ≠ 0) (sd : Rat) (U L : Sig) :
    rillingBig sd (Sig.smul c U) (Sig.smul c L) = rillingBig sd U L := by
  unfold rillingBig Sig.smul
  rw [List.zipWith_map_left, List.zipWith_map_right]
  congr 1
  funext u l
  have hpos := abs'_pos_of_ne c hc
  have e1 : Rat.abs' (c * u - c * l) = Rat.abs' c * Rat.abs' (u - l) := by rw [← abs'_mul]; congr 1; ring
  have e2 : Rat.abs' ((c * u + c * l) / 2) = Rat.abs' c * Rat.abs' ((u + l) / 2) := by rw [← abs'_mul]; congr 1; ring
  rw [e1, e2]
  apply decide_eq_decide.mpr
  constructor
  · intro hlt
    have : Rat.abs' c * (sd * (Rat.abs' (u - l) / 2)) < Rat.abs' c * Rat.abs' ((u + l) / 2) := by linarith
    exact lt_of_mul_lt_mul_left this (le_of_lt hpos)
  · intro hlt
    have := mul_lt_mul_of_pos_left hlt hpos
    linarith

theorem rillingBig_swap (sd : Rat) (U L : Sig) : rillingBig sd L U = rillingBig sd U L := by
  unfold rillingBig
  apply zipWith_comm'
  intro u l
  rw [abs'_sub_comm u l, add_comm u l]

theorem rillingStop_smul' (c : Rat) (hc : c ≠ 0) (a b t : Rat) (U L : Sig) :
    rillingStop a b t (Sig.smul c U) (Sig.smul c L) = rillingStop a b t U L := by
  unfold rillingStop
  simp only [rillingBig_smul c hc]

theorem rillingStop_swap (a b t : Rat) (U L : Sig) : rillingStop a b t L U = rillingStop a b t U L := by
  unfold rillingStop
  simp only [rillingBig_swap]

theorem stopTest_smul (c : Rat) (hc : c ≠ 0) (r : StopRule) (k m : Nat) (h x1 U L : Sig) :
    stopTest r k m (Sig.smul c h) (Sig.smul c x1) (Sig.smul c U) (Sig.smul c L) = stopTest r k m h x1 U L ∧
    stopTest r k m (Sig.smul c h) (Sig.smul c x1) (Sig.smul c L) (Sig.smul c U) = stopTest r k m h x1 U L := by
  cases r with
  | sd thr => exact ⟨sdStop_smul' c hc thr h x1, sdStop_smul' c hc thr h x1⟩
  | rilling a b t =>
    exact ⟨rillingStop_smul' c hc a b t U L, by
      show rillingStop a b t (Sig.smul c L) (Sig.smul c U) = rillingStop a b t U L
      rw [rillingStop_smul' c hc, rillingStop_swap]⟩
  | fixed => exact ⟨rfl, rfl⟩

/-! ### vocabulary: scaled outcomes, equivariant oracles -/

/-- what a rescaling does to a pair of envelopes: both scale; for `c < 0` upper and lower trade places -/
def envSmul (c : Rat) (e : Env) : Env :=
  if 0 < c then (e.1.map (Sig.smul c), e.2.map (Sig.smul c)) else (e.2.map (Sig.smul c), e.1.map (Sig.smul c))

/-- `E'` is to `c • h` what `E` is to `h` (the code's oracle: `E' = E`) -/
def EnvSmul (c : Rat) (E E' : Nat → Sig → Env) : Prop := ∀ k h, E' k (Sig.smul c h) = envSmul c (E k h)

/-- the energy difference in dB is a ratio of energies: scale-free -/
def EnergySmul (c : Rat) (D D' : Sig → Sig → Rat) : Prop := ∀ a b, D' (Sig.smul c a) (Sig.smul c b) = D a b

def Outcome.smul (c : Rat) : Outcome → Outcome
  | .stopped k v => .stopped k (Sig.smul c v)
  | .noExtrema k h => .noExtrema k (Sig.smul c h)
  | .noConverge => .noConverge

def ImfResult.smul (c : Rat) : ImfResult → ImfResult
  | .imf v f => .imf (Sig.smul c v) f
  | .convergeError => .convergeError

theorem loop_smul (c : Rat) (hc : c ≠ 0) (E E' : Nat → Sig → Env) (hE : EnvSmul c E E') (o : ImfOpts) :
    ∀ (fuel k : Nat) (h : Sig), loop E' o fuel k (Sig.smul c h) = (loop E o fuel k h).smul c := by
  intro fuel
  induction fuel with
  | zero => intro k h; rfl
  | succ fuel ih =>
    intro k h
    unfold loop
    rw [hE k h]
    rcases hEk : E k h with ⟨_ | U, _ | L⟩
    · by_cases hpos : 0 < c <;> simp [envSmul, hpos, Outcome.smul]
    · by_cases hpos : 0 < c <;> simp [envSmul, hpos, Outcome.smul]
    · by_cases hpos : 0 < c <;> simp [envSmul, hpos, Outcome.smul]
    · have hst := stopTest_smul c hc o.stop (k + 1) o.maxIters h (Sig.sub h (Sig.mean2 U L)) U L
      by_cases hpos : 0 < c
      · simp only [envSmul, hpos, if_true, Option.map_some, smul_mean2, smul_sub, hst.1, smul_step c o.step, ih]
        split <;> simp [Outcome.smul]
      · simp only [envSmul, hpos, if_false, Option.map_some, smul_mean2, mean2_comm L U, smul_sub, hst.2,
          smul_step c o.step, ih]
        split <;> simp [Outcome.smul]

theorem energyFlag_smul (c : Rat) (D D' : Sig → Sig → Rat) (hD : EnergySmul c D D') (o : ImfOpts) (x v : Sig) (f : Bool) :
    energyFlag D' o (Sig.smul c x) (Sig.smul c v) f = energyFlag D o x v f := by
  unfold energyFlag
  cases o.energyThresh with
  | none => rfl
  | some t => simp only []; rw [smul_sub, hD x (Sig.sub x v)]

theorem getNextImfIx_smul (c : Rat) (hc : c ≠ 0) (E E' : Nat → Sig → Env) (hE : EnvSmul c E E')
    (D D' : Sig → Sig → Rat) (hD : EnergySmul c D D') (o : ImfOpts) (x : Sig) :
    getNextImfIx E' D' o (Sig.smul c x) = (getNextImfIx E D o x).smul c := by
  unfold getNextImfIx run
  rw [loop_smul c hc E E' hE o]
  cases loop E o (budget o) 0 x with
  | stopped k v => simp only [Outcome.smul, finish, ImfResult.smul, energyFlag_smul c D D' hD]
  | noExtrema k h => simp only [Outcome.smul, finish, ImfResult.smul, energyFlag_smul c D D' hD]
  | noConverge => rfl

/-! ### the outer loop -/

/-- the extraction of `c • proto` (given the scaled columns) is the scaled extraction of `proto` -/
def PeelSmul (c : Rat) (X X' : List Sig → Sig → Option (Sig × Bool)) : Prop :=
  ∀ cols p, X' (cols.map (Sig.smul c)) (Sig.smul c p) = (X cols p).map fun r => (Sig.smul c r.1, r.2)

theorem peelLoop_smul (c : Rat) (hc : c ≠ 0) (X X' : List Sig → Sig → Option (Sig × Bool)) (hX : PeelSmul c X X')
    (thr : Rat) (cap : Option Nat) (x : Sig) :
    ∀ (fuel : Nat) (cols : List Sig) (proto : Sig),
      peelLoop X' (Rat.abs' c * thr) cap (Sig.smul c x) fuel (cols.map (Sig.smul c)) (Sig.smul c proto)
        = ((peelLoop X thr cap x fuel cols proto).1.map (Sig.smul c), (peelLoop X thr cap x fuel cols proto).2) := by
  intro fuel
  induction fuel with
  | zero => intro cols proto; rfl
  | succ fuel ih =>
    intro cols proto
    unfold peelLoop
    rw [hX cols proto]
    cases hXc : X cols proto with
    | none => rfl
    | some r =>
      obtain ⟨v, cont⟩ := r
      have hpos := abs'_pos_of_ne c hc
      have hthr : decide (Sig.absSum (Sig.smul c v) < Rat.abs' c * thr) = decide (Sig.absSum v < thr) := by
        rw [absSum_smul]
        apply decide_eq_decide.mpr
        constructor
        · intro h; exact lt_of_mul_lt_mul_left h (le_of_lt hpos)
        · intro h; exact mul_lt_mul_of_pos_left h hpos
      have hcols : cols.map (Sig.smul c) ++ [Sig.smul c v] = (cols ++ [v]).map (Sig.smul c) := by simp
      simp only [Option.map_some, hthr, hcols, List.length_map, length_smul, vsum_smul, smul_sub, ih]
      split <;> rfl

/-- changing the threshold does not change a run in which the threshold test gives the same answers
    on every column the run produces -/
theorem peelLoop_thr_congr (X : List Sig → Sig → Option (Sig × Bool)) (thr thr' : Rat) (cap : Option Nat) (x : Sig) :
    ∀ (fuel : Nat) (cols : List Sig) (proto : Sig),
      (∀ v ∈ ((peelLoop X thr cap x fuel cols proto).1).drop cols.length,
        decide (Sig.absSum v < thr) = decide (Sig.absSum v < thr')) →
      peelLoop X thr' cap x fuel cols proto = peelLoop X thr cap x fuel cols proto := by
  intro fuel
  induction fuel with
  | zero => intro cols proto _; rfl
  | succ fuel ih =>
    intro cols proto hall
    cases hXc : X cols proto with
    | none => rw [peelLoop_none hXc, peelLoop_none hXc]
    | some r =>
      obtain ⟨v, cont⟩ := r
      rw [peelLoop_some hXc] at hall
      rw [peelLoop_some hXc, peelLoop_some hXc]
      by_cases hgo : (cont && !(cap == some (cols.length + 1)) && !(decide (Sig.absSum v < thr))) = true
      · rw [if_pos hgo] at hall
        obtain ⟨t, ht⟩ := peelLoop_prefix X thr cap x fuel (cols ++ [v]) (resid x (cols ++ [v]))
        have hv : decide (Sig.absSum v < thr) = decide (Sig.absSum v < thr') := by
          apply hall
          rw [← ht]; simp
        rw [← hv, if_pos hgo, if_pos hgo]
        apply ih
        intro w hw
        apply hall
        rw [← ht] at hw ⊢
        simp only [List.length_append, List.length_singleton, List.append_assoc] at hw ⊢
        rw [List.drop_append] at hw ⊢
        simp at hw ⊢
        rcases hw with hw | hw
        · exact absurd hw (by simp [List.drop_eq_nil_of_le])
        · exact Or.inr hw
      · rw [if_neg hgo] at hall
        have hv : decide (Sig.absSum v < thr) = decide (Sig.absSum v < thr') := by
          apply hall; simp
        rw [← hv, if_neg hgo, if_neg hgo]

/-! ### the Extrema-model envelopes as the envelope oracle of `getNextImf` -/

open Extrema in
def EnvResult.toOpt : Extrema.EnvResult → Option Sig
  | .ok env _ _ => some env
  | _ => none

/-- `interp_envelope(h, 'upper')`, `interp_envelope(h, 'lower')` of the Extrema model (None ↦ none) -/
def extEnv (I : Extrema.Interp) (w : Nat) (parab : Bool) : Sig → Env := fun h =>
  (EnvResult.toOpt (Extrema.interpEnvelope I .upper w parab h), EnvResult.toOpt (Extrema.interpEnvelope I .lower w parab h))

theorem toOpt_smul (c : Rat) (r : Extrema.EnvResult) :
    EnvResult.toOpt (Extrema.EnvResult.smul c r) = (EnvResult.toOpt r).map (Sig.smul c) := by
  cases r <;> rfl

theorem extEnv_smul (I : Extrema.Interp) (hI : I.Homogeneous) (c : Rat) (hc : c ≠ 0) (w : Nat) (parab : Bool) :
    EnvSmul c (fun _ => extEnv I w parab) (fun _ => extEnv I w parab) := by
  intro _ h
  rcases lt_or_gt_of_ne hc with hneg | hpos
  · have hnp : ¬ 0 < c := not_lt.mpr (le_of_lt hneg)
    obtain ⟨h1, h2⟩ := Extrema.interpEnvelope_smul_neg' I hI c hneg w parab h
    simp only [extEnv, envSmul, hnp, if_false, h1, h2, toOpt_smul]
  · simp only [extEnv, envSmul, hpos, if_true, Extrema.interpEnvelope_smul_pos' I hI c hpos, toOpt_smul]

/-- `get_next_imf` as the extractor of `sift` is equivariant when its oracles are -/
theorem extractorIx_smul (c : Rat) (hc : c ≠ 0) (E E' : Nat → Sig → Env) (hE : EnvSmul c E E')
    (D D' : Sig → Sig → Rat) (hD : EnergySmul c D D') (o : ImfOpts) (p : Sig) :
    extractorIx E' D' o (Sig.smul c p) = (extractorIx E D o p).map fun r => (Sig.smul c r.1, r.2) := by
  unfold extractorIx
  rw [getNextImfIx_smul c hc E E' hE D D' hD o p]
  cases getNextImfIx E D o p <;> rfl

end Sift
