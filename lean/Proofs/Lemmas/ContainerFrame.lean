/- Helper lemmas about EmdModel.Container: which metrics an operation writes (frame), the
   `chain_position` metric, and the IndexError of the label-lookup route on a short value vector. -/
import Proofs.Lemmas.ContainerRun

namespace Container

/-! ### frame: an operation changes only the metrics it names -/

def chainPositionName : Name := "chain_position".toList

/-- every metric name an operation can write: the names it stores under, and `chain_ind` for a selection -/
def Op.writes : Op → List Name
  | .pickSubset _ => [chainIndName]
  | op => op.stores

theorem addMetric_sget_other (s : State) (name n : Name) (v : List Val) (h : n ≠ name) :
    sget (addMetric s name v).1.metrics n = sget s.metrics n := by
  unfold addMetric
  split
  · exact sget_sset_other _ _ _ _ h
  · rfl

theorem computeMetric_sget_other (s : State) (name n : Name) (vals : List Rat) (f : List Rat → Rat) (mode : Mode)
    (h : n ≠ name) : sget (computeMetric s name vals f mode).1.metrics n = sget s.metrics n :=
  computeMetric_preserves (fun t => sget t.metrics n = sget s.metrics n) _ _ _ _ _ rfl
    (fun _ => addMetric_sget_other _ _ _ _ h)

theorem computeChainMetric_sget_other (s : State) (name n : Name) (vals : List Rat) (f : List Rat → Rat) (asInt : Bool)
    (h : n ≠ name) : sget (computeChainMetric s name vals f asInt).1.metrics n = sget s.metrics n := by
  unfold computeChainMetric
  split
  · rfl
  · exact addMetric_sget_other _ _ _ _ h

theorem computePositionInChain_sget_other (s : State) (n : Name) (h : n ≠ chainPositionName) :
    sget (computePositionInChain s).1.metrics n = sget s.metrics n := by
  unfold computePositionInChain
  split
  · rfl
  · exact sget_sset_other _ _ _ _ h

theorem seqOps_sget (n : Name) (ops : List (State → State × Except Err Out))
    (hops : ∀ o ∈ ops, ∀ s, sget (o s).1.metrics n = sget s.metrics n) (s : State) :
    sget (seqOps s ops).1.metrics n = sget s.metrics n :=
  seqOps_preserves (fun t => sget t.metrics n = sget s.metrics n) ops
    (fun o ho t ht => (hops o ho t).trans ht) s rfl

/-- **Frame.**  A metric whose name the operation does not write is the same before and after. -/
theorem step_sget_other (F : List Char → Option Rat) (s : State) (op : Op) (n : Name) (hn : n ∉ op.writes) :
    sget (step F s op).1.metrics n = sget s.metrics n := by
  cases op with
  | computeMetric name vals f mode =>
    exact computeMetric_sget_other _ _ _ _ _ _ (by intro e; exact hn (by simp [Op.writes, Op.stores, e]))
  | addMetric name vals =>
    exact addMetric_sget_other _ _ _ _ (by intro e; exact hn (by simp [Op.writes, Op.stores, e]))
  | addFromInt name src =>
    exact addFromInt_preserves (fun u => sget u.metrics n = sget s.metrics n) _ _ _ rfl
      (fun _ => addMetric_sget_other _ _ _ _ (by intro e; exact hn (by simp [Op.writes, Op.stores, e])))
  | computeTimings =>
    simp only [Op.writes, Op.stores, List.mem_cons, List.not_mem_nil, or_false, not_or] at hn
    apply seqOps_sget
    intro o ho s'
    simp only [List.mem_cons, List.not_mem_nil, or_false] at ho
    rcases ho with rfl | rfl | rfl
    · exact computeMetric_sget_other _ _ _ _ _ _ hn.1
    · exact computeMetric_sget_other _ _ _ _ _ _ hn.2.1
    · exact computeMetric_sget_other _ _ _ _ _ _ hn.2.2
  | pickSubset conds =>
    simp only [Op.writes, List.mem_cons, List.not_mem_nil, or_false] at hn
    simp only [step, pickSubset]
    split
    · rfl
    · exact addMetric_sget_other _ _ _ _ hn
  | computeChainMetric name vals f asInt =>
    exact computeChainMetric_sget_other _ _ _ _ _ _ (by intro e; exact hn (by simp [Op.writes, Op.stores, e]))
  | computeChainTimings =>
    simp only [Op.writes, Op.stores, List.mem_cons, List.not_mem_nil, or_false, not_or] at hn
    apply seqOps_sget
    intro o ho s'
    simp only [List.mem_cons, List.not_mem_nil, or_false] at ho
    rcases ho with rfl | rfl | rfl | rfl | rfl
    · exact computeChainMetric_sget_other _ _ _ _ _ _ hn.1
    · exact computeChainMetric_sget_other _ _ _ _ _ _ hn.2.1
    · exact computeChainMetric_sget_other _ _ _ _ _ _ hn.2.2.1
    · exact computeChainMetric_sget_other _ _ _ _ _ _ hn.2.2.2.1
    · exact computePositionInChain_sget_other _ _ hn.2.2.2.2
  | «export» m => simp only [step]; split <;> rfl
  | «matching» conds => simp only [step]; split <;> rfl

theorem run_sget_other (F : List Char → Option Rat) (s : State) (ops : List Op) (n : Name)
    (hn : ∀ op ∈ ops, n ∉ op.writes) : sget (run F s ops).metrics n = sget s.metrics n := by
  induction ops generalizing s with
  | nil => rfl
  | cons o t ih =>
    rw [run_cons, ih _ (fun op hop => hn op (by simp [hop]))]
    exact step_sget_other F s o n (hn o (by simp))

/-- Only a selection changes the selection. -/
theorem step_sel_other (F : List Char → Option Rat) (s : State) (op : Op) (hp : ∀ c, op ≠ .pickSubset c) :
    (step F s op).1.sel = s.sel := by
  have hcm : ∀ (t : State) name vals f mode, (computeMetric t name vals f mode).1.sel = t.sel := fun t name vals f mode =>
    computeMetric_preserves (fun u => u.sel = t.sel) _ _ _ _ _ rfl (fun _ => addMetric_sel _ _ _)
  have hcc : ∀ (t : State) name vals f asInt, (computeChainMetric t name vals f asInt).1.sel = t.sel := by
    intro t name vals f asInt
    unfold computeChainMetric
    split
    · rfl
    · exact addMetric_sel _ _ _
  have hpos : ∀ t : State, (computePositionInChain t).1.sel = t.sel := by
    intro t; unfold computePositionInChain; split <;> rfl
  cases op with
  | computeMetric name vals f mode => exact hcm _ _ _ _ _
  | addMetric name vals => exact addMetric_sel _ _ _
  | addFromInt name src => exact addFromInt_preserves (fun u => u.sel = s.sel) _ _ _ rfl (fun _ => addMetric_sel _ _ _)
  | computeTimings =>
    apply seqOps_preserves (fun t => t.sel = s.sel) _ _ s rfl
    intro o ho s' hs'
    simp only [List.mem_cons, List.not_mem_nil, or_false] at ho
    rcases ho with rfl | rfl | rfl <;> exact (hcm _ _ _ _ _).trans hs'
  | pickSubset conds => exact absurd rfl (hp conds)
  | computeChainMetric name vals f asInt => exact hcc _ _ _ _ _
  | computeChainTimings =>
    apply seqOps_preserves (fun t => t.sel = s.sel) _ _ s rfl
    intro o ho s' hs'
    simp only [List.mem_cons, List.not_mem_nil, or_false] at ho
    rcases ho with rfl | rfl | rfl | rfl | rfl
    · exact (hcc _ _ _ _ _).trans hs'
    · exact (hcc _ _ _ _ _).trans hs'
    · exact (hcc _ _ _ _ _).trans hs'
    · exact (hcc _ _ _ _ _).trans hs'
    · exact (hpos _).trans hs'
  | «export» m => simp only [step]; split <;> rfl
  | «matching» conds => simp only [step]; split <;> rfl

/-! ### position in chain -/

theorem posInChainFrom_getElem? (seen chain : List Nat) (j c : Nat) (h : chain[j]? = some c) :
    (posInChainFrom seen chain)[j]? = some (seen.count c + (chain.take j).count c) := by
  induction chain generalizing seen j with
  | nil => simp at h
  | cons x t ih =>
    cases j with
    | zero =>
      simp only [List.getElem?_cons_zero, Option.some.injEq] at h
      subst h
      simp only [posInChainFrom, List.getElem?_cons_zero, List.take_zero, Option.some.injEq, List.count_eq_length_filter]
      have e : (fun y => decide (y = x)) = (fun y => y == x) := by funext y; by_cases hy : y = x <;> simp [hy]
      rw [e]
      simp
    | succ j' =>
      simp only [List.getElem?_cons_succ] at h
      simp only [posInChainFrom, List.getElem?_cons_succ, ih (x :: seen) j' h, List.take_succ_cons, List.count_cons]
      congr 1
      omega

theorem posInChain_getElem? (chain : List Nat) (j c : Nat) (h : chain[j]? = some c) :
    (posInChain chain)[j]? = some ((chain.take j).count c) := by
  simpa [posInChain] using posInChainFrom_getElem? [] chain j c h

theorem posInChainFrom_length (seen chain : List Nat) : (posInChainFrom seen chain).length = chain.length := by
  induction chain generalizing seen with
  | nil => rfl
  | cons x t ih => simp [posInChainFrom, ih]

/-- the vector `compute_position_in_chain` stores -/
def chainPosition (sel : Sel) : List Val :=
  nanToMinusOne (projSubsetToCycles ((posInChain sel.chain).map fun (p : Nat) => some (p : Rat)) sel.subset)

theorem chainPosition_getElem? (sel : Sel) (k : Nat) (j : Int) (h : sel.subset[k]? = some j) :
    (chainPosition sel)[k]? = some (some (if 0 ≤ j then
        (match sel.chain[j.toNat]? with
         | some c => (((sel.chain.take j.toNat).count c : Nat) : Rat)
         | none => -1)
      else -1)) := by
  simp only [chainPosition, nanToMinusOne, projSubsetToCycles, List.getElem?_map, h, Option.map_some]
  by_cases h0 : 0 ≤ j
  · simp only [h0, ite_true]
    cases hc : sel.chain[j.toNat]? with
    | none =>
      have : (posInChain sel.chain)[j.toNat]? = none := by
        rw [List.getElem?_eq_none_iff] at hc ⊢
        simpa [posInChain, posInChainFrom_length] using hc
      simp [this]
    | some c => simp [posInChain_getElem? _ _ _ hc]
  · simp [h0]

theorem computePositionInChain_ok (s : State) (sel : Sel) (hs : s.sel = some sel) :
    computePositionInChain s = ({ s with metrics := sset s.metrics chainPositionName (chainPosition sel) }, .ok .done) := by
  unfold computePositionInChain
  rw [hs]
  rfl

theorem computeChainMetric_ok (s : State) (h : Inv s) (sel : Sel) (hs : s.sel = some sel) (name : Name) (vals : List Rat)
    (f : List Rat → Rat) (asInt : Bool) :
    ∃ v, computeChainMetric s name vals f asInt = ({ s with metrics := sset s.metrics name v }, .ok .done) := by
  unfold computeChainMetric
  split
  · rename_i hn; rw [hs] at hn; cases hn
  · rename_i sel' hs'
    have e : sel' = sel := by rw [hs] at hs'; exact (Option.some.inj hs').symm
    subst e
    refine ⟨_, addMetric_ok _ _ _ ?_⟩
    cases asInt <;> simp [toIntVals, projChainToCycles, projSubsetToCycles, (h.sel sel' hs).len]

/-- a sequence whose leading operations all succeed ends with its last operation -/
theorem seqOps_append_last (P : State → Prop) (ops : List (State → State × Except Err Out)) (last : State → State × Except Err Out)
    (hops : ∀ o ∈ ops, ∀ s, P s → P (o s).1 ∧ ∃ x, (o s).2 = .ok x) (s : State) (hs : P s) :
    P (seqOps s ops).1 ∧ (seqOps s (ops ++ [last])).1 = (last (seqOps s ops).1).1 ∧
      ((last (seqOps s ops).1).2 = .ok .done → (seqOps s (ops ++ [last])).2 = .ok .done) := by
  induction ops generalizing s with
  | nil =>
    refine ⟨hs, ?_, ?_⟩
    · simp only [List.nil_append, seqOps]
      cases hl : last s with
      | mk s' r => cases r <;> rfl
    · intro h
      have h' : (last s).2 = .ok .done := h
      simp only [List.nil_append, seqOps]
      cases hl : last s with
      | mk s' r =>
        rw [hl] at h'
        simp only [] at h'
        subst h'
        rfl
  | cons o t ih =>
    obtain ⟨hp, x, hx⟩ := hops o (by simp) s hs
    have hos : o s = ((o s).1, .ok x) := by rw [← hx]
    have := ih (fun o' ho' => hops o' (by simp [ho'])) (o s).1 hp
    simp only [List.cons_append, seqOps]
    rw [hos]
    exact this

/-- After `compute_chain_timings` the `chain_position` metric is the vector of `compute_position_in_chain`
    for the current selection, and the call succeeds whenever there is a selection. -/
theorem chainTimings_position (s : State) (h : Inv s) (sel : Sel) (hs : s.sel = some sel) :
    (computeChainTimings s).2 = .ok .done ∧
      sget (computeChainTimings s).1.metrics chainPositionName = some (chainPosition sel) := by
  have key := seqOps_append_last (fun t => Inv t ∧ t.sel = some sel)
    [fun s => computeChainMetric s "chain_start".toList (arange s.cv.length) fFirst true,
     fun s => computeChainMetric s "chain_end".toList (arange s.cv.length) fLast true,
     fun s => computeChainMetric s "chain_len_samples".toList (cvRat s.cv) fLen true,
     fun s => computeChainMetric s "chain_len_cycles".toList (cvRat s.cv) fNunique true]
    computePositionInChain ?_ s ⟨h, hs⟩
  · obtain ⟨⟨_, hsel⟩, h1, h2⟩ := key
    have e : computeChainTimings s = seqOps s ([fun s => computeChainMetric s "chain_start".toList (arange s.cv.length) fFirst true,
      fun s => computeChainMetric s "chain_end".toList (arange s.cv.length) fLast true,
      fun s => computeChainMetric s "chain_len_samples".toList (cvRat s.cv) fLen true,
      fun s => computeChainMetric s "chain_len_cycles".toList (cvRat s.cv) fNunique true] ++ [computePositionInChain]) := rfl
    rw [e, h1]
    rw [computePositionInChain_ok _ sel hsel] at h2 ⊢
    exact ⟨h2 rfl, sget_sset_same _ _ _⟩
  · intro o ho t ht
    have hcm : ∀ name vals f, (Inv (computeChainMetric t name vals f true).1 ∧ (computeChainMetric t name vals f true).1.sel = some sel) ∧
        ∃ x, (computeChainMetric t name vals f true).2 = .ok x := by
      intro name vals f
      obtain ⟨v, hv⟩ := computeChainMetric_ok t ht.1 sel ht.2 name vals f true
      refine ⟨⟨computeChainMetric_inv _ _ _ _ _ ht.1, ?_⟩, .done, ?_⟩
      · rw [hv]; exact ht.2
      · rw [hv]
    simp only [List.mem_cons, List.not_mem_nil, or_false] at ho
    rcases ho with rfl | rfl | rfl | rfl <;> exact hcm _ _ _

/-! ### the lookup route on a short value vector -/

/-- With at least one cycle, the label-lookup route (`use_cache=False`, cycle mode) raises IndexError on
    every value vector shorter than the record, and stores nothing. -/
theorem computeMetric_short_raises (s : State) (h : Inv s) (hc : s.cache = false) (hK : 0 < s.K) (name : Name)
    (vals : List Rat) (f : List Rat → Rat) (hv : vals.length < s.cv.length) :
    computeMetric s name vals f .cycle = (s, .error .index) := by
  have hn : s.cv.length - 1 < s.cv.length := by omega
  have hl := List.getElem?_eq_getElem hn
  have hmem : s.cv[s.cv.length - 1] ∈ s.cv := List.getElem_mem hn
  have h0 : 0 ≤ s.cv[s.cv.length - 1] := h.cv.2 hK _ hmem
  have hlt := mem_cv_label h.cv.1 hmem h0
  have hi : s.cv.length - 1 ∈ indicesOf s.cv ((s.cv[s.cv.length - 1].toNat : Nat) : Int) := by
    refine (mem_indicesFrom _ 0 s.cv _).mpr ⟨s.cv.length - 1, _, by omega, hl, ?_⟩
    simp; omega
  have := lookupStatE_short f s.cv vals (s.cv.length - 1) s.cv[s.cv.length - 1].toNat
    (by rw [nLabels_eq h.cv.1]; omega) hi (by omega)
  unfold computeMetric
  rw [hc]
  simp only [cycleStat, this]

/-- The augmented lookup route raises IndexError when an augmented segment reaches past the values. -/
theorem lookupAugStatE_short (f : List Rat → Rat) (thr : Rat) (ph : List Rat) (cv : List Int) (vals : List Rat) (k : Nat)
    (hk : k < nLabels cv) (seg : Nat × Nat) (hs : augInds thr ph cv k = some seg) (h1 : seg.1 < seg.2)
    (h2 : vals.length < seg.2) : lookupAugStatE f thr ph cv vals = .error .index := by
  unfold lookupAugStatE
  apply collect_index
  · refine List.mem_map.mpr ⟨k, by simpa using hk, ?_⟩
    simp only [hs]
    rw [fancy_error vals _ (seg.2 - 1) (by simp [List.mem_range'_1]; omega) (by omega)]; rfl
  · intro x hx e he
    obtain ⟨k', _, rfl⟩ := List.mem_map.mp hx
    cases ha : augInds thr ph cv k' with
    | none => simp [ha] at he
    | some s' =>
      simp only [ha] at he
      exact fancy_error_kind _ _ e _ he

theorem exState_aug1 : augInds exState.thr exState.phase exState.cv 1 = some (1, 5) := by decide +kernel

end Container
