/- Helper lemmas about EmdModel.Ensemble (draws, member traces, means, complete ensemble). -/
import EmdModel.Ensemble
import Proofs.Lemmas.EnsemblePool
import Proofs.Lemmas.MaskSig

namespace Ensemble
open Pool
variable {ρ : Type}

theorem nthDraw_succ (draw : ρ → Sig × ρ) (g : ρ) (k : Nat) :
    nthDraw draw g (k + 1) = nthDraw draw (draw g).2 k := rfl

theorem drawN_eq_map (draw : ρ → Sig × ρ) (N : Nat) (g : ρ) :
    drawN draw N g = (List.range N).map (nthDraw draw g) := by
  induction N generalizing g with
  | zero => rfl
  | succ k ih =>
    simp only [drawN, ih, List.range_succ_eq_map, List.map_cons, List.map_map]
    rfl

theorem length_drawN (draw : ρ → Sig × ρ) (N : Nat) (g : ρ) : (drawN draw N g).length = N := by
  simp [drawN_eq_map]

/-- the repaired ensemble under any valid schedule: member `i` = (i-th draw of the parent, its decomposition) -/
theorem ensembleTrace_eq (σ : Schedule) (p : Nat) (draw : ρ → Sig × ρ) (g : ρ) (S : Sig → List Sig)
    (mode : Mode) (N : Nat) (scale : Rat) (x : Sig) (hσ : σ.Valid N p) :
    ensembleTrace σ draw g S mode N scale x
      = (List.range N).map fun i => (nthDraw draw g i, siftWithNoise S mode (some scale) x (nthDraw draw g i)) := by
  unfold ensembleTrace
  rw [runPool_eq_map σ N p _ _ (length_drawN draw N g) hσ, drawN_eq_map, List.map_map]
  rfl

/-- the decomposition of member `i` (repaired code) -/
def member (draw : ρ → Sig × ρ) (g : ρ) (S : Sig → List Sig) (mode : Mode) (scale : Rat) (x : Sig) (i : Nat) : List Sig :=
  siftWithNoise S mode (some scale) x (nthDraw draw g i)

/-- number of columns of the ensemble result: those of the widest member (members are capped by their sift) -/
def width (draw : ρ → Sig × ρ) (g : ρ) (S : Sig → List Sig) (mode : Mode) (N : Nat) (scale : Rat) (x : Sig) : Nat :=
  maxWidth ((List.range N).map (member draw g S mode scale x))

/-- the driver's counter generator hands out `[g]`, `[g+1]`, … -/
theorem nthDraw_counter (g k : Nat) : nthDraw counterDraw g k = [((g + k : Nat) : Rat)] := by
  induction k generalizing g with
  | zero => rfl
  | succ k ih =>
    rw [nthDraw_succ]
    simp only [counterDraw]
    rw [ih]
    congr 2; omega
/-! ### fork-draw (pinned code) -/

/-- generator state after `k` draws -/
def advance (draw : ρ → Sig × ρ) : Nat → ρ → ρ
  | 0, g => g
  | k + 1, g => advance draw k (draw g).2

theorem nthDraw_eq_advance (draw : ρ → Sig × ρ) (g : ρ) (k : Nat) :
    nthDraw draw g k = (draw (advance draw k g)).1 := by
  induction k generalizing g with
  | zero => rfl
  | succ k ih => simp [nthDraw, advance, ih]

theorem advance_succ' (draw : ρ → Sig × ρ) (g : ρ) (k : Nat) :
    advance draw (k + 1) g = (draw (advance draw k g)).2 := by
  induction k generalizing g with
  | zero => rfl
  | succ k ih => simp only [advance] at ih ⊢; rw [ih]

/-- number of jobs of `l` (valid indices) that run on worker `w` -/
def jobsOn (worker : Nat → Nat) (N : Nat) (w : Nat) (l : List Nat) : Nat :=
  (l.filter fun i => decide (i < N) && decide (worker i = w)).length

/-- every job draws once: after the jobs in `pre`, worker `w`'s generator has advanced by the number of its jobs -/
theorem stateAfter_forkdraw {β : Type} (draw : ρ → Sig × ρ) (out : Sig → β) (worker : Nat → Nat) (N : Nat)
    (st : Nat → ρ) (pre : List Nat) (w : Nat) :
    stateAfter (fun gw (_ : Nat) => (out (draw gw).1, (draw gw).2)) (List.range N) worker st pre w
      = advance draw (jobsOn worker N w pre) (st w) := by
  induction pre generalizing st with
  | nil => rfl
  | cons j rest ih =>
    unfold stateAfter
    by_cases hj : j < N
    · have : (List.range N)[j]? = some j := by simp [hj]
      simp only [this]
      rw [ih]
      by_cases hw : worker j = w
      · subst hw
        have : jobsOn worker N (worker j) (j :: rest) = jobsOn worker N (worker j) rest + 1 := by
          simp [jobsOn, hj]
        rw [this]
        simp only [upd, if_true, advance]
      · have : jobsOn worker N w (j :: rest) = jobsOn worker N w rest := by
          simp [jobsOn, hj, hw]
        rw [this]
        have hw' : w ≠ worker j := fun e => hw e.symm
        simp [upd, hw']
    · have : (List.range N)[j]? = none := by simp [hj]
      simp only [this]
      rw [ih]
      have : jobsOn worker N w (j :: rest) = jobsOn worker N w rest := by
        simp [jobsOn, hj]
      rw [this]

/-- rank of job `j` among the jobs of its own worker, in execution order -/
def rankInWorker (σ : Schedule) (N : Nat) (j : Nat) : Nat :=
  jobsOn σ.worker N (σ.worker j) (σ.order.takeWhile (· != j))

/-- the pinned ensemble under any valid schedule: member `j` receives the draw numbered by its rank in its worker -/
theorem ensembleTraceForkDraw_eq (σ : Schedule) (p : Nat) (draw : ρ → Sig × ρ) (g : ρ) (S : Sig → List Sig)
    (mode : Mode) (N : Nat) (scale : Rat) (x : Sig) (hσ : σ.Valid N p) :
    ensembleTraceForkDraw σ draw g S mode N scale x
      = (List.range N).map fun j => (nthDraw draw g (rankInWorker σ N j),
          siftWithNoise S mode (some scale) x (nthDraw draw g (rankInWorker σ N j))) := by
  unfold ensembleTraceForkDraw runPoolFork
  rw [List.length_range]
  apply collect_eq_map
  intro j hj
  obtain ⟨hsplit, hpre⟩ := takeWhile_dropWhile_split σ.order j ((hσ.mem j).mpr hj)
  have hargs : (List.range N)[j]? = some j := by simp [hj]
  rw [hsplit, lookup_exec_split _ _ _ _ _ _ j j hpre hargs]
  have := stateAfter_forkdraw draw (fun ν => (ν, siftWithNoise S mode (some scale) x ν)) σ.worker N
    (fun _ => g) (σ.order.takeWhile (· != j)) (σ.worker j)
  rw [this]
  simp only [rankInWorker, nthDraw_eq_advance]

/-! ### columns, flip halves, means -/

theorem length_colOr (n : Nat) (r : List Sig) (j : Nat) (hr : ∀ c, c ∈ r → c.length = n) :
    (colOr n r j).length = n := by
  unfold colOr
  cases h : r[j]? with
  | none => simp
  | some c => simpa using hr c (List.mem_of_getElem? h)

theorem colOr_of_lt (n : Nat) (r : List Sig) (j : Nat) (c : Sig) (h : r[j]? = some c) : colOr n r j = c := by
  simp [colOr, h]

theorem colOr_of_ge (n : Nat) (r : List Sig) (j : Nat) (h : r.length ≤ j) : colOr n r j = Sig.zeros n := by
  simp [colOr, List.getElem?_eq_none h]

theorem length_half (a : Sig) : (half a).length = a.length := by simp [half]

theorem sval_half (a : Sig) (t : Nat) (ht : t < a.length) : Sig.sval (half a) t = Sig.sval a t / 2 := by
  simp [half, Sig.sval, List.getElem?_map, List.getElem?_eq_getElem ht]

theorem length_flipMean (n : Nat) (a b : List Sig) : (flipMean n a b).length = max a.length b.length := by
  simp [flipMean]

theorem mem_flipMean_length (n : Nat) (a b : List Sig) (ha : ∀ c, c ∈ a → c.length = n) (hb : ∀ c, c ∈ b → c.length = n) :
    ∀ c, c ∈ flipMean n a b → c.length = n := by
  intro c hc
  obtain ⟨j, _, rfl⟩ := List.mem_map.mp hc
  simp [length_half, length_colOr n a j ha, length_colOr n b j hb]

/-- column `j` of a flip member, sample `t`: the mean of the +noise and −noise columns (absent = 0) -/
theorem sval_flipMean (n : Nat) (a b : List Sig) (j t : Nat) (ht : t < n)
    (ha : ∀ c, c ∈ a → c.length = n) (hb : ∀ c, c ∈ b → c.length = n) :
    Sig.sval (colOr n (flipMean n a b) j) t = (Sig.sval (colOr n a j) t + Sig.sval (colOr n b j) t) / 2 := by
  by_cases hj : j < max a.length b.length
  · have : (flipMean n a b)[j]? = some (half (Sig.add (colOr n a j) (colOr n b j))) := by
      simp [flipMean, hj]
    rw [colOr_of_lt _ _ _ _ this, sval_half _ _ (by simp [length_colOr n a j ha, length_colOr n b j hb]; exact ht),
      Sig.sval_add _ _ _ (by rw [length_colOr n a j ha]; exact ht) (by rw [length_colOr n b j hb]; exact ht)]
  · have h1 : a.length ≤ j := by omega
    have h2 : b.length ≤ j := by omega
    rw [colOr_of_ge _ _ _ (by rw [length_flipMean]; omega), colOr_of_ge _ _ _ h1, colOr_of_ge _ _ _ h2, Sig.sval_zeros]
    grind

theorem half_add_self (c : Sig) : half (Sig.add c c) = c := by
  unfold half Sig.add
  induction c with
  | nil => rfl
  | cons a t ih =>
    have : (a + a) / 2 = a := by grind
    simpa [this] using ih

/-- equal decompositions: the flip mean is the decomposition itself -/
theorem flipMean_self (n : Nat) (a : List Sig) : flipMean n a a = a := by
  unfold flipMean
  apply List.ext_getElem?
  intro j
  by_cases hj : j < a.length
  · simp [hj, colOr, half_add_self]
  · simp [hj]

theorem siftWithNoise_zero (S : Sig → List Sig) (mode : Mode) (x ν : Sig) (hν : ν.length = x.length) :
    siftWithNoise S mode (some 0) x ν = S x := by
  have h1 : Sig.add x (Sig.smul 0 ν) = x := by rw [Sig.smul_zero_eq, hν, Sig.add_zeros]
  have h2 : Sig.sub x (Sig.smul 0 ν) = x := by rw [Sig.smul_zero_eq, hν, Sig.sub_zeros]
  cases mode with
  | single => simp [siftWithNoise, h1]
  | flip => simp [siftWithNoise, h1, h2, flipMean_self]

theorem mem_siftWithNoise_length (S : Sig → List Sig) (mode : Mode) (scale : Option Rat) (x ν : Sig)
    (hS : ∀ y c, c ∈ S y → c.length = x.length) : ∀ c, c ∈ siftWithNoise S mode scale x ν → c.length = x.length := by
  cases mode with
  | single => intro c hc; exact hS _ c hc
  | flip => exact mem_flipMean_length _ _ _ (hS _) (hS _)

theorem maxWidth_replicate (N : Nat) (r : List Sig) (hN : 0 < N) : maxWidth (List.replicate N r) = r.length := by
  induction N with
  | zero => omega
  | succ k ih =>
    cases k with
    | zero => simp [maxWidth]
    | succ k =>
      have := ih (by omega)
      simp only [maxWidth] at this ⊢
      rw [List.replicate_succ, List.foldr_cons, this]
      omega

theorem map_colOr_range (n : Nat) (r : List Sig) : (List.range r.length).map (colOr n r) = r := by
  apply List.ext_getElem?
  intro j
  by_cases hj : j < r.length
  · simp [hj, colOr]
  · simp [hj]

/-! ### complete ensemble -/

/-- one fan-out, schedule removed: member `i` gets column `i` -/
theorem ceemdMembers_eq (σ : Schedule) (p : Nat) (F : Sig → Sig) (mode : Mode) (scale : Option Rat) (proto : Sig)
    (noise : List Sig) (hσ : σ.Valid noise.length p) :
    ceemdMembers σ F mode scale proto noise
      = noise.map fun ν => (ν, siftWithNoise (fun y => [F y]) mode scale proto ν) := by
  unfold ceemdMembers
  exact runPool_eq_map σ noise.length p _ noise rfl hσ

/-- the stage IMF as a plain mean over the columns of the noise matrix -/
def stageImf (F : Sig → Sig) (mode : Mode) (scale : Option Rat) (proto : Sig) (noise : List Sig) : Sig :=
  meanOver proto.length (noise.map fun ν => colOr proto.length (siftWithNoise (fun y => [F y]) mode scale proto ν) 0)

theorem ceemdImf_eq (σ : Schedule) (p : Nat) (F : Sig → Sig) (mode : Mode) (scale : Option Rat) (proto : Sig)
    (noise : List Sig) (hσ : σ.Valid noise.length p) :
    ceemdImf σ F mode scale proto noise = stageImf F mode scale proto noise := by
  unfold ceemdImf stageImf
  rw [ceemdMembers_eq σ p F mode scale proto noise hσ, List.map_map]
  rfl

/-- removing the first IMF of a noise column -/
def noiseResidual (Fn : Sig → Sig) (ν : Sig) : Sig := Sig.sub ν (Fn ν)

theorem ceemdNoiseStep_eq (σ : Schedule) (p : Nat) (Fn : Sig → Sig) (noise : List Sig) (hσ : σ.Valid noise.length p) :
    ceemdNoiseStep σ Fn noise = noise.map (noiseResidual Fn) := by
  unfold ceemdNoiseStep
  rw [runPool_eq_map σ noise.length p Fn noise rfl hσ, List.zipWith_map_right, List.zipWith_self]
  rfl

/-- `k`-fold residual -/
def residualPow (Fn : Sig → Sig) : Nat → Sig → Sig
  | 0, ν => ν
  | k + 1, ν => residualPow Fn k (noiseResidual Fn ν)

/-- the loop without pools: stage IMFs are means over the members, member `i` using column `i` -/
def specLoop (F Fn : Sig → Sig) (mode : Mode) (x : Sig) : Nat → List Sig → List Sig → List Sig × List Sig
  | 0, imf, noise => (imf, noise)
  | s + 1, imf, noise =>
    specLoop F Fn mode x s
      (imf ++ [stageImf F mode none (Sig.sub x (Sig.vsum x.length imf)) noise])
      (noise.map (noiseResidual Fn))

theorem ceemdLoop_eq (σ : Nat → Schedule) (p : Nat → Nat) (F Fn : Sig → Sig) (mode : Mode) (x : Sig) (N : Nat)
    (hσ : ∀ c, (σ c).Valid N (p c)) (s c : Nat) (imf noise : List Sig) (hn : noise.length = N) :
    ceemdLoop σ F Fn mode x s c imf noise = specLoop F Fn mode x s imf noise := by
  induction s generalizing c imf noise with
  | zero => rfl
  | succ s ih =>
    unfold ceemdLoop specLoop
    simp only []
    rw [ceemdImf_eq (σ c) (p c) F mode none _ noise (hn ▸ hσ c),
      ceemdNoiseStep_eq (σ (c + 1)) (p (c + 1)) Fn noise (hn ▸ hσ (c + 1))]
    exact ih (c + 2) _ _ (by simp [hn])

theorem specLoop_noise (F Fn : Sig → Sig) (mode : Mode) (x : Sig) (s : Nat) (imf noise : List Sig) :
    (specLoop F Fn mode x s imf noise).2 = noise.map (residualPow Fn s) := by
  induction s generalizing imf noise with
  | zero => simp [specLoop, residualPow]
  | succ s ih =>
    unfold specLoop
    rw [ih, List.map_map]
    rfl

theorem specLoop_length (F Fn : Sig → Sig) (mode : Mode) (x : Sig) (s : Nat) (imf noise : List Sig) :
    (specLoop F Fn mode x s imf noise).1.length = imf.length + s := by
  induction s generalizing imf noise with
  | zero => simp [specLoop]
  | succ s ih =>
    unfold specLoop
    rw [ih]; simp; omega

theorem specLoop_prefix (F Fn : Sig → Sig) (mode : Mode) (x : Sig) (s : Nat) (imf noise : List Sig) :
    ∃ rest, (specLoop F Fn mode x s imf noise).1 = imf ++ rest := by
  induction s generalizing imf noise with
  | zero => exact ⟨[], by simp [specLoop]⟩
  | succ s ih =>
    unfold specLoop
    obtain ⟨rest, h⟩ := ih (imf ++ [stageImf F mode none (Sig.sub x (Sig.vsum x.length imf)) noise])
      (noise.map (noiseResidual Fn))
    exact ⟨stageImf F mode none (Sig.sub x (Sig.vsum x.length imf)) noise :: rest, by rw [h]; simp⟩

/-- unrolling the loop at its end -/
theorem specLoop_succ (F Fn : Sig → Sig) (mode : Mode) (x : Sig) (s : Nat) (imf noise : List Sig) :
    specLoop F Fn mode x (s + 1) imf noise =
      ((specLoop F Fn mode x s imf noise).1 ++
          [stageImf F mode none (Sig.sub x (Sig.vsum x.length (specLoop F Fn mode x s imf noise).1))
            (specLoop F Fn mode x s imf noise).2],
        (specLoop F Fn mode x s imf noise).2.map (noiseResidual Fn)) := by
  induction s generalizing imf noise with
  | zero => rfl
  | succ s ih =>
    rw [specLoop, ih]
    rfl

/-- column `imf.length + k` produced by the loop is the mean over the members of the first IMF of
    (input − columns before it) ± (the k-fold residual of noise column `i`) -/
theorem specLoop_col (F Fn : Sig → Sig) (mode : Mode) (x : Sig) (s : Nat) (imf noise : List Sig) (k : Nat) (hk : k < s) :
    (specLoop F Fn mode x s imf noise).1[imf.length + k]? =
      some (stageImf F mode none
        (Sig.sub x (Sig.vsum x.length ((specLoop F Fn mode x s imf noise).1.take (imf.length + k))))
        (noise.map (residualPow Fn k))) := by
  induction s with
  | zero => omega
  | succ s ih =>
    rw [specLoop_succ]
    have hlen := specLoop_length F Fn mode x s imf noise
    by_cases hks : k < s
    · have hlt : imf.length + k < (specLoop F Fn mode x s imf noise).1.length := by omega
      simp only []
      rw [List.getElem?_append_left hlt, List.take_append_of_le_length (by omega)]
      exact ih hks
    · have hk' : k = s := by omega
      subst hk'
      simp only []
      rw [← hlen, List.getElem?_append_right (Nat.le_refl _), List.take_left']
      · simp [specLoop_noise]
      · rfl

end Ensemble
