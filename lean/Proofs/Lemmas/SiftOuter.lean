/- Helper lemmas about the outer sift loop of EmdModel.Sift (C01, C03). -/
import Proofs.Lemmas.Sift

namespace Sift

/-! ### vector algebra on `Sig` -/

theorem sub_zeros (x : Sig) : Sig.sub x (Sig.zeros x.length) = x := by
  induction x with
  | nil => rfl
  | cons a t ih =>
    simp only [Sig.sub, Sig.zeros, List.length_cons, List.replicate_succ, List.zipWith_cons_cons] at ih ⊢
    rw [ih]
    congr 1
    grind

theorem add_sub_cancel : ∀ (a x : Sig), a.length = x.length → Sig.add a (Sig.sub x a) = x := by
  intro a
  induction a with
  | nil => intro x h; cases x with
    | nil => rfl
    | cons _ _ => simp at h
  | cons p a ih =>
    intro x h
    cases x with
    | nil => simp at h
    | cons q x =>
      simp only [List.length_cons, Nat.add_right_cancel_iff] at h
      have := ih x h
      simp only [Sig.add, Sig.sub, List.zipWith_cons_cons] at this ⊢
      rw [this]
      congr 1
      grind

theorem vsum_append (n : Nat) (cols : List Sig) (c : Sig) :
    Sig.vsum n (cols ++ [c]) = Sig.add (Sig.vsum n cols) c := by
  simp [Sig.vsum, List.foldl_append]

theorem foldl_add_length (n : Nat) (cols : List Sig) (h : ∀ c ∈ cols, c.length = n) :
    ∀ acc : Sig, acc.length = n → (cols.foldl Sig.add acc).length = n := by
  induction cols with
  | nil => intro acc ha; simpa using ha
  | cons c cols ih =>
    intro acc ha
    simp only [List.foldl_cons]
    apply ih (fun d hd => h d (by simp [hd]))
    rw [length_add, ha, h c (by simp)]
    simp

theorem vsum_length (n : Nat) (cols : List Sig) (h : ∀ c ∈ cols, c.length = n) :
    (Sig.vsum n cols).length = n :=
  foldl_add_length n cols h _ (by simp)

/-- the running residual `X - imf.sum(axis=1)` -/
def resid (x : Sig) (cols : List Sig) : Sig := Sig.sub x (Sig.vsum x.length cols)

theorem resid_nil (x : Sig) : resid x [] = x := by
  simp [resid, Sig.vsum, sub_zeros]

theorem resid_length (x : Sig) (cols : List Sig) (h : ∀ c ∈ cols, c.length = x.length) :
    (resid x cols).length = x.length := by
  simp [resid, vsum_length _ _ h]

/-- appending the residual itself completes the sum -/
theorem vsum_append_resid (x : Sig) (cols : List Sig) (h : ∀ c ∈ cols, c.length = x.length) :
    Sig.vsum x.length (cols ++ [resid x cols]) = x := by
  rw [vsum_append]
  exact add_sub_cancel _ _ (vsum_length _ _ h)

/-! ### the extractor contract -/

/-- What `sift` needs from a single-IMF extraction on signals of length `n`:
    it preserves the length, and "flag cleared" means "input returned unchanged". -/
structure PeelOK (X : List Sig → Sig → Option (Sig × Bool)) (n : Nat) : Prop where
  len : ∀ cols p c f, p.length = n → X cols p = some (c, f) → c.length = n
  stay : ∀ cols p c, X cols p = some (c, false) → c = p

/-! ### unfolding one layer -/

theorem peelLoop_zero (X : List Sig → Sig → Option (Sig × Bool)) (thr : Rat) (cap : Option Nat) (x : Sig)
    (cols : List Sig) (proto : Sig) : peelLoop X thr cap x 0 cols proto = (cols, .outOfFuel) := rfl

theorem peelLoop_none {X : List Sig → Sig → Option (Sig × Bool)} {thr : Rat} {cap : Option Nat} {x : Sig}
    {fuel : Nat} {cols : List Sig} {proto : Sig} (h : X cols proto = none) :
    peelLoop X thr cap x (fuel + 1) cols proto = (cols, .raised) := by
  simp [peelLoop, h]

theorem peelLoop_some {X : List Sig → Sig → Option (Sig × Bool)} {thr : Rat} {cap : Option Nat} {x : Sig}
    {fuel : Nat} {cols : List Sig} {proto c : Sig} {cont : Bool} (h : X cols proto = some (c, cont)) :
    peelLoop X thr cap x (fuel + 1) cols proto =
      if (cont && !(cap == some (cols.length + 1)) && !(decide (Sig.absSum c < thr))) = true
      then peelLoop X thr cap x fuel (cols ++ [c]) (resid x (cols ++ [c]))
      else (cols ++ [c], .done (!cont) (cap == some (cols.length + 1)) (decide (Sig.absSum c < thr))) := by
  simp [peelLoop, h, resid]

/-- the columns present on entry are kept, new ones are appended -/
theorem peelLoop_prefix (X : List Sig → Sig → Option (Sig × Bool)) (thr : Rat) (cap : Option Nat) (x : Sig) :
    ∀ (fuel : Nat) (cols : List Sig) (proto : Sig), cols <+: (peelLoop X thr cap x fuel cols proto).1 := by
  intro fuel
  induction fuel with
  | zero => intro cols proto; simp [peelLoop]
  | succ fuel ih =>
    intro cols proto
    cases hX : X cols proto with
    | none => rw [peelLoop_none hX]; simp
    | some r =>
      obtain ⟨c, cont⟩ := r
      rw [peelLoop_some hX]
      split
      · exact List.IsPrefix.trans (List.prefix_append cols [c]) (ih _ _)
      · exact List.prefix_append cols [c]

/-- every layer's extraction is applied to `x − Σ (columns so far)`; its output is the next column -/
theorem peelLoop_cols (X : List Sig → Sig → Option (Sig × Bool)) (thr : Rat) (cap : Option Nat) (x : Sig) :
    ∀ (fuel : Nat) (cols : List Sig) (proto : Sig) (out : List Sig) (e : SiftEnd), proto = resid x cols →
      peelLoop X thr cap x fuel cols proto = (out, e) →
      ∀ k, cols.length ≤ k → k < out.length →
        ∃ c f, out[k]? = some c ∧ X (out.take k) (resid x (out.take k)) = some (c, f) := by
  intro fuel
  induction fuel with
  | zero => intro cols proto out e _ h k h1 h2; simp [peelLoop] at h; obtain ⟨rfl, _⟩ := h; omega
  | succ fuel ih =>
    intro cols proto out e hp h k h1 h2
    cases hX : X cols proto with
    | none => rw [peelLoop_none hX] at h; simp at h; obtain ⟨rfl, _⟩ := h; omega
    | some r =>
      obtain ⟨c, cont⟩ := r
      have key : (cols ++ [c]) <+: out → k = cols.length →
          ∃ c f, out[k]? = some c ∧ X (out.take k) (resid x (out.take k)) = some (c, f) := by
        intro hpre hk
        obtain ⟨t, rfl⟩ := hpre
        subst hk
        refine ⟨c, cont, by simp, ?_⟩
        have h1 : ((cols ++ [c]) ++ t).take cols.length = cols := by simp
        rw [h1, ← hp, hX]
      rw [peelLoop_some hX] at h
      split at h
      · by_cases hk : k = cols.length
        · refine key ?_ hk
          have := peelLoop_prefix X thr cap x fuel (cols ++ [c]) (resid x (cols ++ [c]))
          rw [h] at this; exact this
        · exact ih (cols ++ [c]) _ out e rfl h k (by simp; omega) h2
      · simp only [Prod.mk.injEq] at h
        obtain ⟨rfl, _⟩ := h
        have hk : k = cols.length := by simp at h2; omega
        exact key (List.prefix_refl _) hk

/-- all columns have the length of the input -/
theorem peelLoop_lengths (X : List Sig → Sig → Option (Sig × Bool)) (thr : Rat) (cap : Option Nat) (x : Sig)
    (hX : PeelOK X x.length) :
    ∀ (fuel : Nat) (cols : List Sig) (proto : Sig), proto = resid x cols → (∀ c ∈ cols, c.length = x.length) →
      ∀ c ∈ (peelLoop X thr cap x fuel cols proto).1, c.length = x.length := by
  intro fuel
  induction fuel with
  | zero => intro cols proto _ hl; simpa [peelLoop] using hl
  | succ fuel ih =>
    intro cols proto hp hl
    cases hx : X cols proto with
    | none => rw [peelLoop_none hx]; simpa using hl
    | some r =>
      obtain ⟨c, cont⟩ := r
      have hc : c.length = x.length := hX.len _ proto c cont (by rw [hp]; exact resid_length x cols hl) hx
      have hl' : ∀ d ∈ cols ++ [c], d.length = x.length := by
        intro d hd
        simp only [List.mem_append, List.mem_singleton] at hd
        rcases hd with hd | rfl
        · exact hl d hd
        · exact hc
      rw [peelLoop_some hx]
      split
      · exact ih _ _ rfl hl'
      · exact hl'

/-- anatomy of a regular exit: the last layer `init.length`, its extraction, and which terminators fired -/
theorem peelLoop_done (X : List Sig → Sig → Option (Sig × Bool)) (thr : Rat) (cap : Option Nat) (x : Sig) :
    ∀ (fuel : Nat) (cols : List Sig) (proto : Sig) (out : List Sig) (fl cp th : Bool),
      proto = resid x cols → peelLoop X thr cap x fuel cols proto = (out, .done fl cp th) →
      ∃ init c, out = init ++ [c] ∧ cols <+: init ∧ X init (resid x init) = some (c, !fl) ∧
        cp = (cap == some (init.length + 1)) ∧ th = decide (Sig.absSum c < thr) ∧
        (fl = true ∨ cp = true ∨ th = true) := by
  intro fuel
  induction fuel with
  | zero => intro cols proto out fl cp th _ h; simp [peelLoop] at h
  | succ fuel ih =>
    intro cols proto out fl cp th hp h
    cases hx : X cols proto with
    | none => rw [peelLoop_none hx] at h; simp at h
    | some r =>
      obtain ⟨c, cont⟩ := r
      rw [peelLoop_some hx] at h
      split at h
      · obtain ⟨init, d, h1, h2, h3⟩ := ih _ _ out fl cp th rfl h
        exact ⟨init, d, h1, List.IsPrefix.trans (List.prefix_append cols [c]) h2, h3⟩
      · next hc =>
        simp only [Prod.mk.injEq, SiftEnd.done.injEq] at h
        obtain ⟨rfl, rfl, rfl, rfl⟩ := h
        refine ⟨cols, c, rfl, List.prefix_refl _, ?_, rfl, rfl, ?_⟩
        · rw [← hp, hx]; simp
        · revert hc
          generalize (cap == some (cols.length + 1)) = b1
          generalize decide (Sig.absSum c < thr) = b2
          cases cont <;> cases b1 <;> cases b2 <;> simp

/-- running out of fuel: exactly `fuel` more layers were extracted, none of which terminated the loop -/
theorem peelLoop_fuel_length (X : List Sig → Sig → Option (Sig × Bool)) (thr : Rat) (cap : Option Nat) (x : Sig) :
    ∀ (fuel : Nat) (cols : List Sig) (proto : Sig) (out : List Sig),
      peelLoop X thr cap x fuel cols proto = (out, .outOfFuel) → out.length = cols.length + fuel := by
  intro fuel
  induction fuel with
  | zero => intro cols proto out h; simp [peelLoop] at h; simp [← h]
  | succ fuel ih =>
    intro cols proto out h
    cases hx : X cols proto with
    | none => rw [peelLoop_none hx] at h; simp at h
    | some r =>
      obtain ⟨c, cont⟩ := r
      rw [peelLoop_some hx] at h
      split at h
      · have := ih _ _ out h
        simp at this; omega
      · simp at h

/-- with a cap `k ≥ 1` not yet reached, the capped run returns the first `k` columns of the uncapped run -/
theorem peelLoop_cap_prefix (X : List Sig → Sig → Option (Sig × Bool)) (thr : Rat) (x : Sig) (k : Nat) :
    ∀ (fuel : Nat) (cols : List Sig) (proto : Sig), cols.length < k →
      (peelLoop X thr (some k) x fuel cols proto).1 = (peelLoop X thr none x fuel cols proto).1.take k := by
  intro fuel
  induction fuel with
  | zero => intro cols proto h; simp [peelLoop, List.take_of_length_le (Nat.le_of_lt h)]
  | succ fuel ih =>
    intro cols proto h
    cases hx : X cols proto with
    | none => rw [peelLoop_none hx, peelLoop_none hx]; simp [List.take_of_length_le (Nat.le_of_lt h)]
    | some r =>
      obtain ⟨c, cont⟩ := r
      rw [peelLoop_some hx, peelLoop_some hx]
      have hlen : (cols ++ [c]).length = cols.length + 1 := by simp
      by_cases hgo : (cont && !(decide (Sig.absSum c < thr))) = true
      · -- the uncapped run goes on
        have hu : (cont && !((none : Option Nat) == some (cols.length + 1)) && !(decide (Sig.absSum c < thr))) = true := by
          simpa using hgo
        rw [if_pos hu]
        by_cases hk : k = cols.length + 1
        · have hcp : ¬ (cont && !(some k == some (cols.length + 1)) && !(decide (Sig.absSum c < thr))) = true := by
            simp [hk]
          rw [if_neg hcp]
          obtain ⟨t, ht⟩ := peelLoop_prefix X thr none x fuel (cols ++ [c]) (resid x (cols ++ [c]))
          simp only []
          rw [← ht, hk, ← hlen, List.take_left']
          rfl
        · have hcp : (cont && !(some k == some (cols.length + 1)) && !(decide (Sig.absSum c < thr))) = true := by
            have : ¬ (k = cols.length + 1) := hk
            simp only [Bool.and_eq_true, Bool.not_eq_eq_eq_not, Bool.not_true, decide_eq_false_iff_not] at hgo ⊢
            simp [hgo.1, this]
            simpa using hgo.2
          rw [if_pos hcp]
          exact ih _ _ (by rw [hlen]; omega)
      · have hu : ¬ (cont && !((none : Option Nat) == some (cols.length + 1)) && !(decide (Sig.absSum c < thr))) = true := by
          simpa using hgo
        have hcp : ¬ (cont && !(some k == some (cols.length + 1)) && !(decide (Sig.absSum c < thr))) = true := by
          intro hh
          apply hgo
          simp only [Bool.and_eq_true] at hh ⊢
          exact ⟨hh.1.1, hh.2⟩
        rw [if_neg hu, if_neg hcp]
        simp only []
        rw [List.take_of_length_le (by rw [hlen]; omega)]

/-- a cap `k ≥ 1` bounds the number of columns -/
theorem peelLoop_le_cap (X : List Sig → Sig → Option (Sig × Bool)) (thr : Rat) (x : Sig) (k : Nat) :
    ∀ (fuel : Nat) (cols : List Sig) (proto : Sig), cols.length < k →
      (peelLoop X thr (some k) x fuel cols proto).1.length ≤ k := by
  intro fuel cols proto h
  rw [peelLoop_cap_prefix X thr x k fuel cols proto h]
  simp [List.length_take]
  omega

/-! ### the classic sift: extraction indexed by the layer number -/

/-- contract for a layer-indexed extractor (classic sift) -/
structure ExtractorOK (X : Nat → Sig → Option (Sig × Bool)) (n : Nat) : Prop where
  len : ∀ k p c f, p.length = n → X k p = some (c, f) → c.length = n
  stay : ∀ k p c, X k p = some (c, false) → c = p

theorem ExtractorOK.toPeel {X : Nat → Sig → Option (Sig × Bool)} {n : Nat} (h : ExtractorOK X n) :
    PeelOK (fun cols p => X cols.length p) n :=
  ⟨fun cols p c f hp hx => h.len cols.length p c f hp hx, fun cols p c hx => h.stay cols.length p c hx⟩

theorem siftLoop_cols (X : Nat → Sig → Option (Sig × Bool)) (thr : Rat) (cap : Option Nat) (x : Sig)
    (fuel : Nat) (cols : List Sig) (proto : Sig) (out : List Sig) (e : SiftEnd) (hp : proto = resid x cols)
    (h : siftLoop X thr cap x fuel cols proto = (out, e)) :
    ∀ k, cols.length ≤ k → k < out.length →
      ∃ c f, out[k]? = some c ∧ X k (resid x (out.take k)) = some (c, f) := by
  intro k h1 h2
  obtain ⟨c, f, hc, hx⟩ := peelLoop_cols _ thr cap x fuel cols proto out e hp h k h1 h2
  refine ⟨c, f, hc, ?_⟩
  have : (out.take k).length = k := by simp; omega
  simpa [this] using hx

theorem siftLoop_lengths (X : Nat → Sig → Option (Sig × Bool)) (thr : Rat) (cap : Option Nat) (x : Sig)
    (hX : ExtractorOK X x.length) (fuel : Nat) (cols : List Sig) (proto : Sig) (hp : proto = resid x cols)
    (hl : ∀ c ∈ cols, c.length = x.length) :
    ∀ c ∈ (siftLoop X thr cap x fuel cols proto).1, c.length = x.length :=
  peelLoop_lengths _ thr cap x hX.toPeel fuel cols proto hp hl

theorem siftLoop_done (X : Nat → Sig → Option (Sig × Bool)) (thr : Rat) (cap : Option Nat) (x : Sig)
    (fuel : Nat) (cols : List Sig) (proto : Sig) (out : List Sig) (fl cp th : Bool)
    (hp : proto = resid x cols) (h : siftLoop X thr cap x fuel cols proto = (out, .done fl cp th)) :
    ∃ init c, out = init ++ [c] ∧ cols <+: init ∧ X init.length (resid x init) = some (c, !fl) ∧
      cp = (cap == some (init.length + 1)) ∧ th = decide (Sig.absSum c < thr) ∧
      (fl = true ∨ cp = true ∨ th = true) :=
  peelLoop_done _ thr cap x fuel cols proto out fl cp th hp h

end Sift
