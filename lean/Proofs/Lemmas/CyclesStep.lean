/- Helper lemmas about the wrap threshold (`phase_step`) of EmdModel.Cycles: the threshold 0, negative
   thresholds, thresholds nothing exceeds. -/
import Proofs.Lemmas.Cycles
import Proofs.Lemmas.CyclesIdx
import Proofs.Lemmas.CyclesSlices

namespace Cycles
variable {α : Type}

theorem absR_nonneg (v : Rat) : 0 ≤ absR v := by
  unfold absR; split <;> grind

theorem absR_pos_iff (v : Rat) : 0 < absR v ↔ v ≠ 0 := by
  unfold absR; split <;> grind

theorem absR_le_of_bounds (a b lo hi : Rat) (ha : lo ≤ a ∧ a ≤ hi) (hb : lo ≤ b ∧ b ≤ hi) :
    absR (b - a) ≤ hi - lo := by
  unfold absR; split <;> grind

theorem wrapAt_zero_iff (a b : Rat) : wrapAt 0 a b = true ↔ a ≠ b := by
  unfold wrapAt
  rw [decide_eq_true_eq, absR_pos_iff]
  grind

theorem wrapAt_of_neg (step : Rat) (h : step < 0) (a b : Rat) : wrapAt step a b = true := by
  unfold wrapAt
  rw [decide_eq_true_eq]
  have := absR_nonneg (b - a)
  grind

theorem wrapAt_false_of_bounds (step lo hi : Rat) (h : hi - lo ≤ step) (a b : Rat)
    (ha : lo ≤ a ∧ a ≤ hi) (hb : lo ≤ b ∧ b ≤ hi) : wrapAt step a b = false := by
  unfold wrapAt
  rw [decide_eq_false_iff_not]
  have := absR_le_of_bounds a b lo hi ha hb
  grind

/-- every neighbour pair is a wrap: every sample is a run of its own -/
theorem runsBy_all_wrap (w : α → α → Bool) (hw : ∀ a b, w a b = true) (xs : List α) :
    runsBy w xs = xs.map fun a => [a] := by
  fun_induction runsBy w xs with
  | case1 => rfl
  | case2 a => rfl
  | case3 a b t h ih => simp [ih]
  | case4 a b t h r rs heq ih => simp [hw a b] at h
  | case5 a b t h heq => simp [hw a b] at h

/-- no pair of samples of the series is a wrap: no wrap position is found -/
theorem wrapIdx_nil_of_no_wrap (w : α → α → Bool) (xs : List α) (i : Nat)
    (hw : ∀ a ∈ xs, ∀ b ∈ xs, w a b = false) : wrapIdx w xs i = [] := by
  induction xs generalizing i with
  | nil => simp [wrapIdx]
  | cons a t ih =>
    cases t with
    | nil => simp [wrapIdx]
    | cons b t =>
      unfold wrapIdx
      rw [hw a (by simp) b (by simp)]
      simp only [Bool.false_eq_true, ite_false]
      exact ih (i + 1) (fun x hx y hy => hw x (List.mem_cons_of_mem _ hx) y (List.mem_cons_of_mem _ hy))

/-- inside a wrap-free run, a quantity that cannot change without a wrap is constant -/
theorem noWrap_const {β : Type} (w : α → α → Bool) (f : α → β) (hf : ∀ a b, w a b = false → f a = f b) :
    ∀ (r : List α), NoWrap w r → ∀ x ∈ r, ∀ y ∈ r, f x = f y := by
  intro r
  induction r with
  | nil => intro _ x hx; cases hx
  | cons a t ih =>
    intro hn
    cases t with
    | nil =>
      intro x hx y hy
      simp at hx hy; subst hx hy; rfl
    | cons b t =>
      obtain ⟨hab, hrest⟩ := hn
      have ihb := ih hrest
      have hfa : f a = f b := hf a b hab
      intro x hx y hy
      have hx' : f x = f b := by
        rcases List.mem_cons.mp hx with rfl | hx
        · exact hfa
        · exact ihb x hx b (by simp)
      have hy' : f y = f b := by
        rcases List.mem_cons.mp hy with rfl | hy
        · exact hfa
        · exact ihb y hy b (by simp)
      rw [hx', hy']

/-- all singleton runs accepted: the labels are `c, c+1, …`, one per sample -/
theorem paint_labelRuns_singletons (c : Nat) (xs : List α) :
    paint (labelRuns (fun _ => true) c (xs.map fun a => [a])) = (List.range' c xs.length).map (fun (k : Nat) => (k : Int)) := by
  induction xs generalizing c with
  | nil => simp [labelRuns, paint]
  | cons a t ih =>
    simp only [List.map_cons, labelRuns, ite_true, paint_cons, List.length_cons, List.range'_succ]
    rw [ih (c + 1)]
    simp [labelInt]

end Cycles
