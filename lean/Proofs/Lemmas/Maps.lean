/- Helper lemmas about EmdModel.Maps: lookups, constructors. -/
import EmdModel.Maps

namespace Maps

/-! ### `np.where(v == k)` -/

theorem mem_whereFrom (k : Int) (off : Nat) (v : List Int) (i : Nat) :
    i ∈ whereFrom k off v ↔ off ≤ i ∧ v[i - off]? = some k := by
  induction v generalizing off with
  | nil => simp [whereFrom]
  | cons x t ih =>
    unfold whereFrom
    split
    · rename_i h
      subst h
      simp only [List.mem_cons, ih]
      constructor
      · rintro (rfl | ⟨h1, h2⟩)
        · simp
        · refine ⟨by omega, ?_⟩
          have : i - off = (i - (off + 1)) + 1 := by omega
          rw [this]; simpa using h2
      · rintro ⟨h1, h2⟩
        by_cases h : i = off
        · left; exact h
        · right
          refine ⟨by omega, ?_⟩
          have : i - off = (i - (off + 1)) + 1 := by omega
          rw [this] at h2; simpa using h2
    · rename_i h
      rw [ih]
      constructor
      · rintro ⟨h1, h2⟩
        refine ⟨by omega, ?_⟩
        have : i - off = (i - (off + 1)) + 1 := by omega
        rw [this]; simpa using h2
      · rintro ⟨h1, h2⟩
        by_cases hi : i = off
        · subst hi; simp at h2; exact absurd h2 h
        · refine ⟨by omega, ?_⟩
          have : i - off = (i - (off + 1)) + 1 := by omega
          rw [this] at h2; simpa using h2

theorem mem_whereEq (v : List Int) (k i : Nat) : i ∈ whereEq v k ↔ v[i]? = some (k : Int) := by
  simp [whereEq, mem_whereFrom]

theorem whereFrom_ge (k : Int) (off : Nat) (v : List Int) : ∀ i ∈ whereFrom k off v, off ≤ i := by
  intro i hi; exact ((mem_whereFrom k off v i).mp hi).1

theorem whereFrom_sorted (k : Int) (off : Nat) (v : List Int) :
    (whereFrom k off v).Pairwise (· < ·) := by
  induction v generalizing off with
  | nil => simp [whereFrom]
  | cons x t ih =>
    unfold whereFrom
    split
    · refine List.pairwise_cons.mpr ⟨?_, ih _⟩
      intro i hi
      have := whereFrom_ge k (off + 1) t i hi
      omega
    · exact ih _

theorem whereEq_lt (v : List Int) (k : Nat) : ∀ i ∈ whereEq v k, i < v.length := by
  intro i hi
  have := (mem_whereEq v k i).mp hi
  exact (List.getElem?_eq_some_iff.mp this).1

/-! ### labels -/

theorem label?_eq_some (l : Int) (k : Nat) : label? l = some k ↔ l = (k : Int) := by
  unfold label?; split <;> simp <;> omega

theorem label?_eq_none (l : Int) : label? l = none ↔ l ≤ -1 := by
  unfold label?; split <;> simp <;> omega

theorem lookupLabel_ok (v : List Int) (i : Nat) (r : Option Nat) :
    lookupLabel v i = .ok r ↔ ∃ l, v[i]? = some l ∧ label? l = r := by
  unfold lookupLabel
  cases h : v[i]? <;> simp

theorem lookupLabel_some (v : List Int) (i k : Nat) :
    lookupLabel v i = .ok (some k) ↔ v[i]? = some (k : Int) := by
  rw [lookupLabel_ok]
  constructor
  · rintro ⟨l, h1, h2⟩
    rw [(label?_eq_some l k).mp h2] at h1; exact h1
  · intro h; exact ⟨_, h, (label?_eq_some _ k).mpr rfl⟩

theorem lookupLabel_total (v : List Int) (i : Nat) (h : i < v.length) :
    ∃ r, lookupLabel v i = .ok r := by
  unfold lookupLabel
  simp [List.getElem?_eq_getElem h]

end Maps
