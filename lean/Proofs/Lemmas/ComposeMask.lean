/-
  Cross-model consistency: the two models of `mask_sift`.

  * `Sift.maskSift` (C03): the generic peeling loop `peelLoop` with an *abstract* per-layer masked
    extraction `M cols proto`, fuel and the lowered cap `effCap`.
  * `Mask.maskSift` / `Mask.maskSiftLoop` (C07): concrete masks (frequency ladder / user list,
    amplitude modes, phases, worker pool), recursion on the list of unused frequencies, `Except`.

  `maskM` is the per-layer extraction of the Sift model built from the ingredients of the Mask
  model.  With it the two loops agree: an `.ok` of the Mask model is a regular `.done` exit of the
  Sift model with the same columns, an `.error` of the Mask model is the `.raised` exit.
-/
import Proofs.C03
import Proofs.Lemmas.Mask

namespace ComposeMask
open Sift Mask Pool

/-- `nfreqs` argument of the Sift model: the number of user supplied frequencies, if any -/
def nfOf : FreqSrc → Option Nat
  | .first _ _ => none
  | .list fs => some fs.length

/-- the lowered cap of the two models is the same number -/
theorem effCap_eq (src : FreqSrc) (cap : Nat) : effCap cap (nfOf src) = (maskFreqs src cap).2 := by
  cases src <;> rfl

/-- The masked extraction of layer `k = cols.length` of the Mask model, as the abstract extraction of
    the Sift model: amplitude `ampAt k · sdFor (previous column)`, frequency `freqs[k]`, `cfg.p` phases
    on the pool schedule `σ k`.  It raises (`none`) exactly where `mask_sift` raises: amplitude array or
    frequency list too short, `nphases = 0`. -/
def maskM (σ : Nat → Schedule) (X : Sig → Sig × Bool) (unit : Rat → Nat → Nat → Sig) (std : Sig → Rat)
    (cfg : Cfg) (x : Sig) (freqs : List Rat) : List Sig → Sig → Option (Sig × Bool) := fun cols proto =>
  match ampAt cfg.amp cols.length, freqs[cols.length]? with
  | some a, some f =>
    if cfg.p = 0 then none
    else some (getNextImfMaskPool (σ cols.length) X
      (layerMask unit f (a * sdFor std cfg.mode x cols.getLast?) cfg.p) cfg.p proto)
  | _, _ => none

theorem capBeq (cap k : Nat) : ((some cap : Option Nat) == some (k + 1)) = (k + 1 == cap) := by
  by_cases e : k + 1 = cap
  · subst e; simp
  · have e' : cap ≠ k + 1 := fun h => e h.symm
    have e'' : k + 1 ≠ cap := e
    simp [beq_eq_false_iff_ne.mpr e', beq_eq_false_iff_ne.mpr e'']

section
variable (σ : Nat → Schedule) (X : Sig → Sig × Bool) (unit : Rat → Nat → Nat → Sig) (std : Sig → Rat)
  (cfg : Cfg) (cap : Nat) (x : Sig)

/-- a successful run of the Mask loop appends at least one column -/
theorem maskSiftLoop_length_lt (fr : List Rat) : ∀ (k : Nat) (cols out : List Sig),
    maskSiftLoop σ X unit std cfg cap x k cols fr = .ok out → cols.length < out.length := by
  induction fr with
  | nil => intro k cols out h; simp [maskSiftLoop] at h
  | cons f rest ih =>
    intro k cols out h
    unfold maskSiftLoop at h
    cases ha : ampAt cfg.amp k with
    | none => simp [ha] at h
    | some a =>
      simp only [ha] at h
      by_cases hp : cfg.p = 0
      · simp [hp] at h
      · simp only [hp, if_false] at h
        split at h
        · have := ih _ _ _ h
          simp at this; omega
        · injection h with h
          subst h
          simp

/-- a successful run of the Mask loop uses at most the frequencies it was given -/
theorem maskSiftLoop_length_le (fr : List Rat) : ∀ (k : Nat) (cols out : List Sig),
    maskSiftLoop σ X unit std cfg cap x k cols fr = .ok out → out.length ≤ cols.length + fr.length := by
  induction fr with
  | nil => intro k cols out h; simp [maskSiftLoop] at h
  | cons f rest ih =>
    intro k cols out h
    unfold maskSiftLoop at h
    cases ha : ampAt cfg.amp k with
    | none => simp [ha] at h
    | some a =>
      simp only [ha] at h
      by_cases hp : cfg.p = 0
      · simp [hp] at h
      · simp only [hp, if_false] at h
        split at h
        · have := ih _ _ _ h
          simp at this ⊢; omega
        · injection h with h
          subst h
          simp

/-- `.ok` of the Mask loop = regular exit of the Sift loop with the same columns, as soon as the fuel
    covers the columns still to be extracted.  `freqs` only has to agree with the unused-frequency
    list on the layers that are actually extracted. -/
theorem loop_ok (freqs : List Rat) (fr : List Rat) : ∀ (k : Nat) (cols out : List Sig) (fuel : Nat),
    cols.length = k → (∀ j, k + j < out.length → freqs[k + j]? = fr[j]?) →
    maskSiftLoop σ X unit std cfg cap x k cols fr = .ok out → out.length ≤ k + fuel →
    ∃ fl cp th, peelLoop (maskM σ X unit std cfg x freqs) cfg.thresh (some cap) x fuel cols
      (resid x cols) = (out, .done fl cp th) := by
  induction fr with
  | nil => intro k cols out fuel _ _ h; simp [maskSiftLoop] at h
  | cons f rest ih =>
    intro k cols out fuel hk hfr h hfuel
    subst hk
    have hlt := maskSiftLoop_length_lt σ X unit std cfg cap x (f :: rest) _ cols out h
    unfold maskSiftLoop at h
    cases ha : ampAt cfg.amp cols.length with
    | none => simp [ha] at h
    | some a =>
      simp only [ha] at h
      by_cases hp : cfg.p = 0
      · simp [hp] at h
      · simp only [hp, if_false] at h
        cases fuel with
        | zero => omega
        | succ fuel =>
          have hf : freqs[cols.length]? = some f := by
            have := hfr 0 (by omega)
            simpa using this
          have hM : maskM σ X unit std cfg x freqs cols (resid x cols) =
              some (getNextImfMaskPool (σ cols.length) X
                (layerMask unit f (a * sdFor std cfg.mode x cols.getLast?) cfg.p) cfg.p
                (Sig.sub x (Sig.vsum x.length cols))) := by
            simp only [maskM, ha, hf, hp, if_false]; rfl
          generalize hr : getNextImfMaskPool (σ cols.length) X
                (layerMask unit f (a * sdFor std cfg.mode x cols.getLast?) cfg.p) cfg.p
                (Sig.sub x (Sig.vsum x.length cols)) = r at h hM
          obtain ⟨c, cont⟩ := r
          rw [peelLoop_some hM]
          rw [capBeq]
          split at h
          · rename_i hc
            rw [if_pos hc]
            apply ih (cols.length + 1) (cols ++ [c]) out fuel (by simp) _ h (by omega)
            intro j hj
            have := hfr (j + 1) (by omega)
            simpa [Nat.add_assoc, Nat.add_comm 1 j] using this
          · rename_i hc
            rw [if_neg hc]
            injection h with h
            subst h
            exact ⟨_, _, _, rfl⟩

/-- `.error` of the Mask loop = the `.raised` exit of the Sift loop (the extraction of some layer
    raises), as soon as the fuel exceeds the number of unused frequencies. -/
theorem loop_error (freqs : List Rat) (fr : List Rat) : ∀ (k : Nat) (cols : List Sig) (fuel : Nat) (e : Err),
    cols.length = k → (∀ j, freqs[k + j]? = fr[j]?) →
    maskSiftLoop σ X unit std cfg cap x k cols fr = .error e → fr.length < fuel →
    ∃ out, peelLoop (maskM σ X unit std cfg x freqs) cfg.thresh (some cap) x fuel cols
      (resid x cols) = (out, .raised) := by
  induction fr with
  | nil =>
    intro k cols fuel e hk hfr _ hfuel
    cases fuel with
    | zero => simp at hfuel
    | succ fuel =>
      have hf : freqs[k]? = none := by simpa using hfr 0
      have hM : maskM σ X unit std cfg x freqs cols (resid x cols) = none := by
        simp only [maskM, hf]
        split <;> simp_all
      exact ⟨cols, peelLoop_none hM⟩
  | cons f rest ih =>
    intro k cols fuel e hk hfr h hfuel
    subst hk
    cases fuel with
    | zero => simp at hfuel
    | succ fuel =>
      have hf : freqs[cols.length]? = some f := by simpa using hfr 0
      unfold maskSiftLoop at h
      cases ha : ampAt cfg.amp cols.length with
      | none =>
        have hM : maskM σ X unit std cfg x freqs cols (resid x cols) = none := by
          simp only [maskM, ha]
        exact ⟨cols, peelLoop_none hM⟩
      | some a =>
        simp only [ha] at h
        by_cases hp : cfg.p = 0
        · have hM : maskM σ X unit std cfg x freqs cols (resid x cols) = none := by
            simp only [maskM, ha, hf, hp, if_true]
          exact ⟨cols, peelLoop_none hM⟩
        · simp only [hp, if_false] at h
          have hM : maskM σ X unit std cfg x freqs cols (resid x cols) =
              some (getNextImfMaskPool (σ cols.length) X
                (layerMask unit f (a * sdFor std cfg.mode x cols.getLast?) cfg.p) cfg.p
                (Sig.sub x (Sig.vsum x.length cols))) := by
            simp only [maskM, ha, hf, hp, if_false]; rfl
          generalize hr : getNextImfMaskPool (σ cols.length) X
                (layerMask unit f (a * sdFor std cfg.mode x cols.getLast?) cfg.p) cfg.p
                (Sig.sub x (Sig.vsum x.length cols)) = r at h hM
          obtain ⟨c, cont⟩ := r
          rw [peelLoop_some hM]
          rw [capBeq]
          split at h
          · rename_i hc
            rw [if_pos hc]
            apply ih (cols.length + 1) (cols ++ [c]) fuel e (by simp) _ h (by simpa using hfuel)
            intro j
            have := hfr (j + 1)
            simpa [Nat.add_assoc, Nat.add_comm 1 j] using this
          · cases h

end

/-- **The two models of `mask_sift` agree (regular exit).**  Whenever the Mask model returns
    `(cols, freqs)`, the Sift-model loop run with the masked extraction `maskM` built from any frequency
    list `freqs'` that agrees with `freqs` on the extracted layers returns the same columns through a
    regular exit, for every fuel ≥ the number of columns. -/
theorem maskSift_ok_gen (σ : Nat → Schedule) (X : Sig → Sig × Bool) (unit : Rat → Nat → Nat → Sig)
    (std : Sig → Rat) (cfg : Cfg) (src : FreqSrc) (cap : Nat) (x : Sig) (cols : List Sig) (freqs freqs' : List Rat)
    (h : Mask.maskSift σ X unit std cfg src cap x = .ok (cols, freqs))
    (hf : ∀ j, j < cols.length → freqs'[j]? = freqs[j]?) (fuel : Nat) (hfuel : cols.length ≤ fuel) :
    ∃ fl cp th, Sift.maskSift (maskM σ X unit std cfg x freqs') cfg.thresh cap (nfOf src) x fuel
      = (cols, .done fl cp th) := by
  unfold Mask.maskSift at h
  simp only [] at h
  split at h
  · rename_i out hout
    injection h with h
    injection h with h1 h2
    subst h1 h2
    have := loop_ok σ X unit std cfg (maskFreqs src cap).2 x freqs' (maskFreqs src cap).1 0 [] out fuel rfl
      (by intro j hj; simpa using hf j (by simpa using hj)) hout (by omega)
    unfold Sift.maskSift
    rw [effCap_eq]
    rw [resid_nil] at this
    exact this
  · cases h

theorem maskSift_ok (σ : Nat → Schedule) (X : Sig → Sig × Bool) (unit : Rat → Nat → Nat → Sig)
    (std : Sig → Rat) (cfg : Cfg) (src : FreqSrc) (cap : Nat) (x : Sig) (cols : List Sig) (freqs : List Rat)
    (h : Mask.maskSift σ X unit std cfg src cap x = .ok (cols, freqs)) (fuel : Nat) (hfuel : cols.length ≤ fuel) :
    ∃ fl cp th, Sift.maskSift (maskM σ X unit std cfg x freqs) cfg.thresh cap (nfOf src) x fuel
      = (cols, .done fl cp th) :=
  maskSift_ok_gen σ X unit std cfg src cap x cols freqs freqs h (fun _ _ => rfl) fuel hfuel

/-- **The two models agree (error exit).**  Whenever the Mask model raises, the Sift-model loop leaves
    through `.raised` (fuel > number of mask frequencies). -/
theorem maskSift_error (σ : Nat → Schedule) (X : Sig → Sig × Bool) (unit : Rat → Nat → Nat → Sig)
    (std : Sig → Rat) (cfg : Cfg) (src : FreqSrc) (cap : Nat) (x : Sig) (e : Err)
    (h : Mask.maskSift σ X unit std cfg src cap x = .error e) (fuel : Nat)
    (hfuel : (maskFreqs src cap).1.length < fuel) :
    ∃ out, Sift.maskSift (maskM σ X unit std cfg x (maskFreqs src cap).1) cfg.thresh cap (nfOf src) x fuel
      = (out, .raised) := by
  unfold Mask.maskSift at h
  simp only [] at h
  split at h
  · cases h
  · rename_i e' hout
    have := loop_error σ X unit std cfg (maskFreqs src cap).2 x (maskFreqs src cap).1 (maskFreqs src cap).1
      0 [] fuel e' rfl (by intro j; simp) hout hfuel
    unfold Sift.maskSift
    rw [effCap_eq]
    rw [resid_nil] at this
    exact this

/-- the frequency list of a smaller cap is a prefix of that of a larger cap, on the layers a capped
    run can reach -/
theorem maskFreqs_nested (src : FreqSrc) (k K : Nat) (hK : k ≤ K) (j : Nat) (hj : j < (maskFreqs src k).2) :
    (maskFreqs src K).1[j]? = (maskFreqs src k).1[j]? := by
  cases src with
  | list fs => rfl
  | first z s =>
    simp only [maskFreqs] at hj ⊢
    have h1 : j < K := by omega
    simp [hj, h1]

/-- the returned frequencies are the ladder / the user list (no schedule hypothesis needed) -/
theorem ok_freqs {σ : Nat → Schedule} {X : Sig → Sig × Bool} {unit : Rat → Nat → Nat → Sig}
    {std : Sig → Rat} {cfg : Cfg} {src : FreqSrc} {cap : Nat} {x : Sig} {cols : List Sig} {freqs : List Rat}
    (h : Mask.maskSift σ X unit std cfg src cap x = .ok (cols, freqs)) : freqs = (maskFreqs src cap).1 := by
  unfold Mask.maskSift at h
  simp only [] at h
  split at h
  · injection h with h; injection h with h1 h2; exact h2.symm
  · cases h

/-- a run that returns had at least one user frequency -/
theorem ok_list_nonempty {σ : Nat → Schedule} {X : Sig → Sig × Bool} {unit : Rat → Nat → Nat → Sig}
    {std : Sig → Rat} {cfg : Cfg} {src : FreqSrc} {cap : Nat} {x : Sig} {cols : List Sig} {freqs : List Rat}
    (h : Mask.maskSift σ X unit std cfg src cap x = .ok (cols, freqs)) : ∀ m, nfOf src = some m → 0 < m := by
  intro m hm
  cases src with
  | first z s => cases hm
  | list fs =>
    injection hm with hm
    subst hm
    cases fs with
    | nil => simp [Mask.maskSift, maskFreqs, maskSiftLoop] at h
    | cons f t => simp

/-- the number of columns respects the lowered cap (from the Sift model's cap theorem) -/
theorem ok_cols_le_effCap {σ : Nat → Schedule} {X : Sig → Sig × Bool} {unit : Rat → Nat → Nat → Sig}
    {std : Sig → Rat} {cfg : Cfg} {src : FreqSrc} {cap : Nat} {x : Sig} {cols : List Sig} {freqs : List Rat}
    (h : Mask.maskSift σ X unit std cfg src cap x = .ok (cols, freqs)) (hc : 0 < cap) :
    cols.length ≤ effCap cap (nfOf src) := by
  obtain ⟨_, _, _, r⟩ := maskSift_ok σ X unit std cfg src cap x cols freqs h cols.length (Nat.le_refl _)
  have := peelLoop_le_cap (maskM σ X unit std cfg x freqs) cfg.thresh x (effCap cap (nfOf src)) cols.length [] x
    (by simpa using effCap_pos cap (nfOf src) hc (ok_list_nonempty h))
  unfold Sift.maskSift at r
  rw [r] at this
  exact this

/-- **C03's cap-nesting theorem holds of the C07 model**: the run capped at `k ≤ K` returns the first
    `k` columns of the run capped at `K` (frequency ladder or user list, every amplitude mode, every
    pool schedule). -/
theorem maskSift_cap_nested (σ : Nat → Schedule) (X : Sig → Sig × Bool) (unit : Rat → Nat → Nat → Sig)
    (std : Sig → Rat) (cfg : Cfg) (src : FreqSrc) (k K : Nat) (x : Sig) (c1 c2 : List Sig) (f1 f2 : List Rat)
    (hk : 0 < k) (hK : k ≤ K)
    (h1 : Mask.maskSift σ X unit std cfg src k x = .ok (c1, f1))
    (h2 : Mask.maskSift σ X unit std cfg src K x = .ok (c2, f2)) :
    c1 = c2.take k := by
  have hm := ok_list_nonempty h1
  have e1 := ok_freqs h1
  have e2 := ok_freqs h2
  have hle := ok_cols_le_effCap h1 hk
  obtain ⟨_, _, _, r1⟩ := maskSift_ok_gen σ X unit std cfg src k x c1 f1 f2 h1
    (fun j hj => by
      subst e1 e2
      exact maskFreqs_nested src k K hK j (by rw [← effCap_eq]; omega))
    (max c1.length c2.length) (Nat.le_max_left _ _)
  obtain ⟨_, _, _, r2⟩ := maskSift_ok σ X unit std cfg src K x c2 f2 h2
    (max c1.length c2.length) (Nat.le_max_right _ _)
  have := C03.maskSift_cap_prefix (maskM σ X unit std cfg x f2) cfg.thresh k K (nfOf src) x
    (max c1.length c2.length) hk hK hm
  rw [r1, r2] at this
  exact this

/-- a run that returns has at most as many columns as mask frequencies -/
theorem ok_cols_le_freqs {σ : Nat → Schedule} {X : Sig → Sig × Bool} {unit : Rat → Nat → Nat → Sig}
    {std : Sig → Rat} {cfg : Cfg} {src : FreqSrc} {cap : Nat} {x : Sig} {cols : List Sig} {freqs : List Rat}
    (h : Mask.maskSift σ X unit std cfg src cap x = .ok (cols, freqs)) : cols.length ≤ freqs.length := by
  unfold Mask.maskSift at h
  simp only [] at h
  split at h
  · rename_i out hout
    injection h with h; injection h with h1 h2
    subst h1 h2
    simpa using maskSiftLoop_length_le σ X unit std cfg _ x _ 0 [] out hout
  · cases h

/-- **The two models define the same function**: for enough fuel the Sift-model loop over `maskM`
    leaves regularly with columns `out` iff the Mask model returns `out`. -/
theorem maskSift_iff (σ : Nat → Schedule) (X : Sig → Sig × Bool) (unit : Rat → Nat → Nat → Sig)
    (std : Sig → Rat) (cfg : Cfg) (src : FreqSrc) (cap : Nat) (x : Sig) (out : List Sig) (fuel : Nat)
    (hfuel : (maskFreqs src cap).1.length < fuel) :
    (∃ fl cp th, Sift.maskSift (maskM σ X unit std cfg x (maskFreqs src cap).1) cfg.thresh cap (nfOf src) x fuel
        = (out, .done fl cp th)) ↔
    Mask.maskSift σ X unit std cfg src cap x = .ok (out, (maskFreqs src cap).1) := by
  constructor
  · intro ⟨fl, cp, th, hs⟩
    cases hm : Mask.maskSift σ X unit std cfg src cap x with
    | error e =>
      obtain ⟨o, ho⟩ := maskSift_error σ X unit std cfg src cap x e hm fuel hfuel
      rw [hs] at ho; cases ho
    | ok r =>
      obtain ⟨c, f⟩ := r
      have ef := ok_freqs hm
      subst ef
      have hle := ok_cols_le_freqs hm
      obtain ⟨_, _, _, r⟩ := maskSift_ok σ X unit std cfg src cap x c _ hm fuel (by omega)
      rw [hs] at r
      injection r with r _
      rw [r]
  · intro hm
    have hle := ok_cols_le_freqs hm
    exact maskSift_ok σ X unit std cfg src cap x out _ hm fuel (by omega)

/-- Boolean reflection of "the run returned `v`" (for concrete non-vacuity examples: `Except` has no
    `DecidableEq`) -/
def okEq (r : Except Err (List Sig × List Rat)) (v : List Sig × List Rat) : Bool :=
  match r with
  | .ok a => decide (a = v)
  | .error _ => false

theorem okEq_sound {r : Except Err (List Sig × List Rat)} {v : List Sig × List Rat} (h : okEq r v = true) :
    r = .ok v := by
  unfold okEq at h; split at h <;> simp_all

end ComposeMask
