/-
  Helper lemmas about the shape-normalisation routines (used by Proofs/C19.lean).
-/
import EmdModel.Support

namespace Support

theorem all_one_iff (l : List Nat) : l.all (· == 1) = true ↔ l = List.replicate l.length 1 := by
  induction l with
  | nil => simp
  | cons a l ih =>
    simp only [List.all_cons, Bool.and_eq_true, beq_iff_eq, List.length_cons, List.replicate_succ,
      List.cons.injEq, ih]

theorem all_one_false_iff (l : List Nat) : l.all (· == 1) = false ↔ ∃ d ∈ l, d ≠ 1 := by
  induction l with
  | nil => simp
  | cons a l ih =>
    simp only [List.all_cons, Bool.and_eq_false_iff, ih, List.mem_cons, exists_eq_or_imp]
    simp

theorem numel_replicate_one (k : Nat) : numel (List.replicate k 1) = 1 := by
  induction k with
  | zero => rfl
  | succ k ih => simp [numel, List.replicate_succ] at ih ⊢; exact ih

theorem numel_cons (a : Nat) (l : Shape) : numel (a :: l) = a * numel l := rfl

theorem numel_append_one (l : Shape) : numel (l ++ [1]) = numel l := by
  induction l with
  | nil => rfl
  | cons a l ih => simp [numel_cons, ih]

/-! ### equation lemmas: the routines by cases on the rank -/

theorem ensure1d_nil : ensure1d [] = .ok [] := rfl
theorem ensure1d_single (n : Nat) : ensure1d [n] = .ok [n, 1] := rfl

theorem ensure1d_cons2 (n m : Nat) (rest : List Nat) :
    ensure1d (n :: m :: rest) =
      if (m :: rest).all (· == 1) then .ok [n, 1] else .error .valueError := by
  cases hall : (m :: rest).all (· == 1) with
  | false =>
    simp only [ensure1d, trailingOnes, List.drop_succ_cons, List.drop_zero, hall]
    simp
  | true =>
    cases rest with
    | nil =>
      have : m = 1 := by simpa using hall
      subst this
      rfl
    | cons r rest =>
      simp only [ensure1d, trailingOnes, List.drop_succ_cons, List.drop_zero, hall]
      simp

theorem ensureVector_nil : ensureVector [] = .ok [] := rfl
theorem ensureVector_single (n : Nat) : ensureVector [n] = .ok [n] := rfl
theorem ensureVector_pair (n m : Nat) :
    ensureVector [n, m] = if m = 1 then .ok [n] else .error .valueError := by
  by_cases hm : m = 1
  · subst hm; rfl
  · simp [ensureVector, hm]
theorem ensureVector_nd (n m r : Nat) (rest : List Nat) :
    ensureVector (n :: m :: r :: rest) = .error .valueError := by
  simp [ensureVector]


/-! ### ensure_equal_dims -/

theorem pick_err (s : Shape) (dims : List Nat) (e : Err) (h : pick s dims = .error e) : e = .indexError := by
  induction dims with
  | nil => simp [pick] at h
  | cons d ds ih =>
    unfold pick at h
    split at h
    · cases h; rfl
    · split at h
      · cases h
      · rename_i e' he; cases h; exact ih he

theorem pick_one (s : Shape) (d : Nat) :
    pick s [d] = match s[d]? with | some v => .ok [v] | none => .error .indexError := by
  unfold pick; cases s[d]? <;> rfl

theorem pick_append (s : Shape) (a b : List Nat) :
    pick s (a ++ b) = match pick s a with
      | .error e => .error e
      | .ok va => match pick s b with
        | .ok vb => .ok (va ++ vb)
        | .error e => .error e := by
  induction a with
  | nil => simp [pick]; cases pick s b <;> rfl
  | cons d ds ih =>
    simp only [List.cons_append, pick]
    cases s[d]? with
    | none => rfl
    | some v =>
      simp only [ih]
      cases pick s ds with
      | error e => rfl
      | ok va => cases pick s b <;> rfl

theorem pick_range (s : Shape) (k : Nat) :
    pick s (List.range k) = if k ≤ s.length then .ok (s.take k) else .error .indexError := by
  induction k with
  | zero => simp [pick]
  | succ k ih =>
    rw [List.range_succ, pick_append, ih, pick_one]
    by_cases hk : k + 1 ≤ s.length
    · have h1 : k ≤ s.length := by omega
      have h2 : k < s.length := by omega
      simp only [h1, hk, ite_true, List.getElem?_eq_getElem h2]
      rw [List.take_add_one, List.getElem?_eq_getElem h2]; rfl
    · by_cases h1 : k ≤ s.length
      · have : s[k]? = none := by apply List.getElem?_eq_none; omega
        simp [h1, hk, this]
      · simp [h1, hk]

theorem pickAll_err (dims : List Nat) (ss : List Shape) (e : Err) (h : pickAll dims ss = .error e) :
    e = .indexError := by
  induction ss with
  | nil => simp [pickAll] at h
  | cons s ss ih =>
    unfold pickAll at h
    split at h
    · rename_i e' he; cases h; exact pick_err _ _ _ he
    · split at h
      · cases h
      · rename_i e' he; cases h; exact ih he

theorem pickAll_cons (dims : List Nat) (s : Shape) (ss : List Shape) :
    pickAll dims (s :: ss) = match pick s dims with
      | .error e => .error e
      | .ok p => match pickAll dims ss with
        | .ok ps => .ok (p :: ps)
        | .error e => .error e := rfl

/-- all arrays pick the reference tuple ↔ the comprehension succeeds and every entry equals it -/
theorem pickAll_all_iff (dims : List Nat) (ss : List Shape) (p0 : List Nat) :
    (∃ ps, pickAll dims ss = .ok ps ∧ ps.all (· == p0) = true) ↔ ∀ s ∈ ss, pick s dims = .ok p0 := by
  induction ss with
  | nil => simp [pickAll]
  | cons s ss ih =>
    simp only [List.mem_cons, forall_eq_or_imp, ← ih]
    rw [pickAll_cons]
    constructor
    · rintro ⟨ps, h, hall⟩
      split at h
      · cases h
      · rename_i p hp
        split at h
        · rename_i ps' hps
          cases h
          simp only [List.all_cons, Bool.and_eq_true, beq_iff_eq] at hall
          exact ⟨by rw [hp, hall.1], ps', hps, hall.2⟩
        · cases h
    · rintro ⟨hp, ps, hps, hall⟩
      refine ⟨p0 :: ps, ?_, ?_⟩
      · simp [hp, hps]
      · simp [hall]


theorem pickAll_ok_iff (dims : List Nat) (ss : List Shape) :
    (∃ ps, pickAll dims ss = .ok ps) ↔ ∀ s ∈ ss, ∃ p, pick s dims = .ok p := by
  induction ss with
  | nil => simp [pickAll]
  | cons s ss ih =>
    simp only [List.mem_cons, forall_eq_or_imp, ← ih]
    rw [pickAll_cons]
    constructor
    · rintro ⟨ps, h⟩
      split at h
      · cases h
      · rename_i p hp
        split at h
        · rename_i ps' hps; exact ⟨⟨p, hp⟩, ps', hps⟩
        · cases h
    · rintro ⟨⟨p, hp⟩, ps, hps⟩
      exact ⟨p :: ps, by simp [hp, hps]⟩

theorem ensureEqualDims_ok_iff (s0 : Shape) (rest : List Shape) (dim : Option Nat) :
    ensureEqualDims (s0 :: rest) dim = .ok () ↔
      ∃ p0, pick s0 (dimsOf s0 dim) = .ok p0 ∧ ∀ s ∈ rest, pick s (dimsOf s0 dim) = .ok p0 := by
  simp only [ensureEqualDims]
  constructor
  · intro h
    split at h
    · cases h
    · rename_i p0 hp0
      split at h
      · cases h
      · rename_i ps hps
        split at h
        · rename_i hall
          exact ⟨p0, hp0, (pickAll_all_iff _ _ _).1 ⟨ps, hps, hall⟩⟩
        · cases h
  · rintro ⟨p0, hp0, hall⟩
    obtain ⟨ps, hps, hall'⟩ := (pickAll_all_iff _ _ _).2 hall
    simp [hp0, hps, hall']

theorem ensureEqualDims_valueError_iff (s0 : Shape) (rest : List Shape) (dim : Option Nat) :
    ensureEqualDims (s0 :: rest) dim = .error .valueError ↔
      ∃ p0, pick s0 (dimsOf s0 dim) = .ok p0 ∧ (∀ s ∈ rest, ∃ p, pick s (dimsOf s0 dim) = .ok p) ∧
        ∃ s ∈ rest, pick s (dimsOf s0 dim) ≠ .ok p0 := by
  simp only [ensureEqualDims]
  constructor
  · intro h
    split at h
    · rename_i e he; cases h; cases pick_err _ _ _ he
    · rename_i p0 hp0
      split at h
      · rename_i e he; cases h; cases pickAll_err _ _ _ he
      · rename_i ps hps
        split at h
        · cases h
        · rename_i hall
          refine ⟨p0, hp0, (pickAll_ok_iff _ _).1 ⟨ps, hps⟩, ?_⟩
          apply Classical.byContradiction
          intro hno
          have : ∀ s ∈ rest, pick s (dimsOf s0 dim) = .ok p0 := by
            intro s hs
            apply Classical.byContradiction
            intro hne; exact hno ⟨s, hs, hne⟩
          obtain ⟨ps', hps', hall'⟩ := (pickAll_all_iff _ _ _).2 this
          rw [hps] at hps'; cases hps'
          exact hall hall'
  · rintro ⟨p0, hp0, hok, s, hs, hne⟩
    obtain ⟨ps, hps⟩ := (pickAll_ok_iff _ _).2 hok
    have hall : ¬ (ps.all (· == p0) = true) := by
      intro hall
      exact hne ((pickAll_all_iff _ _ _).1 ⟨ps, hps, hall⟩ s hs)
    simp [hp0, hps, hall]


/-! ### the loop over `to_check` -/

theorem allOk_cons (f : Shape → Except Err Shape) (s : Shape) (ss : List Shape) :
    allOk f (s :: ss) = match f s with
      | .error e => .error e
      | .ok t => match allOk f ss with
        | .ok ts => .ok (t :: ts)
        | .error e => .error e := rfl

/-- the call succeeds exactly when every array is accepted, and returns the normalised shapes in order -/
theorem allOk_ok_iff (f : Shape → Except Err Shape) (ss ts : List Shape) :
    allOk f ss = .ok ts ↔ ts.length = ss.length ∧ ∀ p ∈ ss.zip ts, f p.1 = .ok p.2 := by
  induction ss generalizing ts with
  | nil =>
    constructor
    · intro h; cases h; simp
    · rintro ⟨h, _⟩
      have : ts = [] := List.eq_nil_of_length_eq_zero h
      subst this; rfl
  | cons s ss ih =>
    rw [allOk_cons]
    constructor
    · intro h
      split at h
      · cases h
      · rename_i t ht
        split at h
        · rename_i ts' hts
          cases h
          obtain ⟨hl, hall⟩ := (ih ts').1 hts
          refine ⟨by simp [hl], ?_⟩
          intro p hp
          simp only [List.zip_cons_cons, List.mem_cons] at hp
          rcases hp with rfl | hp
          · exact ht
          · exact hall p hp
        · cases h
    · rintro ⟨hl, hall⟩
      cases ts with
      | nil => simp at hl
      | cons t ts' =>
        have ht : f s = .ok t := hall (s, t) (by simp)
        have hrest : allOk f ss = .ok ts' :=
          (ih ts').2 ⟨by simpa using hl, fun p hp => hall p (by simp [hp])⟩
        rw [ht]; simp only []; rw [hrest]

/-- the call raises exactly when some array is rejected -/
theorem allOk_error_iff (f : Shape → Except Err Shape) (ss : List Shape) :
    (∃ e, allOk f ss = .error e) ↔ ∃ s ∈ ss, ∃ e, f s = .error e := by
  induction ss with
  | nil => simp [allOk]
  | cons s ss ih =>
    rw [allOk_cons]
    simp only [List.mem_cons, exists_eq_or_imp, ← ih]
    cases hf : f s with
    | error e => simp
    | ok t =>
      cases hr : allOk f ss with
      | ok ts => simp
      | error e => simp

end Support
