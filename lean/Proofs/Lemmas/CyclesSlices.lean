/- Helper lemmas about the code-shaped cycle detector (`Cycles.cvIdx` / `segLoop`): the boundary list
   is strictly increasing, so every slice handed to the acceptance test is non-empty; mapping a
   series through a projection (the mask column) commutes with painting; per-sample comparison of
   two labellings of the same runs. -/
import Proofs.Lemmas.CyclesIdx

namespace Cycles
variable {α β : Type}

/-! ### the boundary list -/

/-- every wrap position lies strictly between the offset and the end -/
theorem wrapIdx_bounds (w : α → α → Bool) (xs : List α) (i : Nat) :
    ∀ x ∈ wrapIdx w xs i, i < x ∧ x < i + xs.length := by
  fun_induction wrapIdx w xs i with
  | case1 a b t i hw ih =>
    intro x hx
    rcases List.mem_cons.mp hx with rfl | hx
    · simp only [List.length_cons]; omega
    · have := ih x hx; simp only [List.length_cons] at this ⊢; omega
  | case2 a b t i hw ih =>
    intro x hx
    have := ih x hx; simp only [List.length_cons] at this ⊢; omega
  | case3 => simp

theorem wrapIdx_pairwise (w : α → α → Bool) (xs : List α) (i : Nat) : (wrapIdx w xs i).Pairwise (· < ·) := by
  fun_induction wrapIdx w xs i with
  | case1 a b t i hw ih =>
    refine List.pairwise_cons.mpr ⟨?_, ih⟩
    intro x hx
    have := (wrapIdx_bounds w (b :: t) (i + 1) x hx).1
    omega
  | case2 a b t i hw ih => exact ih
  | case3 => simp

/-- the boundary list `0 :: inds ++ [n]` the segment loop runs over is strictly increasing -/
theorem boundaries_pairwise (w : α → α → Bool) (xs : List α) (hx : xs ≠ []) :
    (0 :: wrapIdx w xs 0 ++ [xs.length]).Pairwise (· < ·) := by
  have hb := wrapIdx_bounds w xs 0
  have hn : 0 < xs.length := List.length_pos_iff.mpr hx
  rw [List.cons_append, List.pairwise_cons, List.pairwise_append]
  refine ⟨?_, wrapIdx_pairwise w xs 0, by simp, ?_⟩
  · intro x hx'
    rcases List.mem_append.mp hx' with h | h
    · exact (hb x h).1
    · simp at h; omega
  · intro a ha b hb'
    simp at hb'
    have := (hb a ha).2
    omega

theorem boundaries_le (w : α → α → Bool) (xs : List α) :
    ∀ b ∈ 0 :: wrapIdx w xs 0 ++ [xs.length], b ≤ xs.length := by
  intro b hb
  simp only [List.cons_append, List.mem_cons, List.mem_append, List.not_mem_nil, or_false] at hb
  rcases hb with rfl | hb | rfl
  · omega
  · have := (wrapIdx_bounds w xs 0 b hb).2; omega
  · omega

/-! ### the slices handed to the acceptance test -/

/-- the arguments `phase[a:b]` (with their mask bits) the segment loop hands to the acceptance test, in order -/
def segSlices (xs : List α) : List Nat → List (List α)
  | a :: b :: t => (xs.drop a).take (b - a) :: segSlices xs (b :: t)
  | _ => []

/-- the segment loop consults the acceptance test on exactly these slices and nowhere else -/
theorem segLoop_congr (acc acc' : List α → Bool) (xs : List α) (bl : List Nat)
    (h : ∀ s ∈ segSlices xs bl, acc s = acc' s) (c : Nat) (lab : List Int) :
    segLoop acc xs bl c lab = segLoop acc' xs bl c lab := by
  induction bl generalizing c lab with
  | nil => simp [segLoop]
  | cons a t ih =>
    cases t with
    | nil => simp [segLoop]
    | cons b t =>
      have h0 := h ((xs.drop a).take (b - a)) (by simp [segSlices])
      have ht : ∀ s ∈ segSlices xs (b :: t), acc s = acc' s := fun s hs => h s (by simp [segSlices, hs])
      simp only [segLoop, h0]
      split
      · exact ih ht _ _
      · exact ih ht _ _

theorem segSlices_nonempty (xs : List α) (bl : List Nat) (hp : bl.Pairwise (· < ·)) (hle : ∀ b ∈ bl, b ≤ xs.length) :
    ∀ s ∈ segSlices xs bl, s ≠ [] := by
  induction bl with
  | nil => simp [segSlices]
  | cons a t ih =>
    cases t with
    | nil => simp [segSlices]
    | cons b t =>
      intro s hs
      simp only [segSlices, List.mem_cons] at hs
      rcases hs with rfl | hs
      · have hab : a < b := (List.pairwise_cons.mp hp).1 b (by simp)
        have hb : b ≤ xs.length := hle b (by simp)
        intro he
        have := congrArg List.length he
        simp at this
        omega
      · exact ih (List.pairwise_cons.mp hp).2 (fun x hx => hle x (by simp [hx])) s hs

theorem isGoodChecks_isSome (g : GoodCfg) (ph : List Rat) (h : ph ≠ []) : (isGoodChecks g ph).isSome = true := by
  cases ph with
  | nil => exact absurd rfl h
  | cons a t =>
    unfold isGoodChecks
    have : (a :: t).getLast? = some ((a :: t).getLast (by simp)) := List.getLast?_eq_some_getLast (by simp)
    simp [this]

/-! ### projection of the series (dropping the mask column) -/

theorem runsBy_map (w : β → β → Bool) (f : α → β) (xs : List α) :
    runsBy w (xs.map f) = (runsBy (fun a b => w (f a) (f b)) xs).map (List.map f) := by
  induction xs with
  | nil => rfl
  | cons a t ih =>
    cases t with
    | nil => rfl
    | cons b t =>
      simp only [List.map_cons] at ih ⊢
      simp only [runsBy]
      split
      · simp [ih]
      · rw [ih]
        cases runsBy (fun a b => w (f a) (f b)) (b :: t) <;> simp

theorem paint_labelRuns_map (f : α → β) (acc : List α → Bool) (acc' : List β → Bool) (rs : List (List α))
    (h : ∀ r ∈ rs, acc' (r.map f) = acc r) : ∀ c,
    paint (labelRuns acc' c (rs.map (List.map f))) = paint (labelRuns acc c rs) := by
  induction rs with
  | nil => intro c; rfl
  | cons r t ih =>
    intro c
    have hr := h r (by simp)
    have ht : ∀ r ∈ t, acc' (r.map f) = acc r := fun r hr => h r (by simp [hr])
    simp only [List.map_cons, labelRuns, hr]
    split <;> simp [paint_cons, ih ht]

theorem paint_cvSegs_map (w : β → β → Bool) (f : α → β) (acc : List α → Bool) (acc' : List β → Bool) (xs : List α)
    (h : ∀ r ∈ runsBy (fun a b => w (f a) (f b)) xs, acc' (r.map f) = acc r) :
    paint (cvSegs w acc' (xs.map f)) = paint (cvSegs (fun a b => w (f a) (f b)) acc xs) := by
  unfold cvSegs
  simp only [runsBy_map, List.length_map]
  split
  · simp [paint, List.flatMap_map]
  · exact paint_labelRuns_map f acc acc' _ h 0

theorem zip_replicate_map_fst (ph : List Rat) : (ph.zip (List.replicate ph.length true)).map (·.1) = ph := by
  induction ph with
  | nil => rfl
  | cons a t ih => simp [List.replicate_succ, ih]

/-- `get_cycle_vector` without a mask: the mask column disappears, the acceptance test is `is_good`
    alone (`return_good=True`) or nothing (`return_good=False`). -/
theorem getCycleVector_nomask (g : GoodCfg) (step : Rat) (good : Bool) (ph : List Rat) :
    getCycleVector g step good ph (List.replicate ph.length true)
      = paint (cvSegs (wrapAt step) (fun r => !good || isGood g r) ph) := by
  unfold getCycleVector
  have hm := zip_replicate_map_fst ph
  have key := paint_cvSegs_map (wrapAt step) (fun (q : Rat × Bool) => q.1) (accept g good) (fun r => !good || isGood g r)
    (ph.zip (List.replicate ph.length true)) (by
      intro r hr
      have hsub : ∀ q ∈ r, q ∈ ph.zip (List.replicate ph.length true) := by
        intro q hq
        have : q ∈ (runsBy (fun a b => wrapAt step a.1 b.1) (ph.zip (List.replicate ph.length true))).flatten :=
          List.mem_flatten.mpr ⟨r, hr, hq⟩
        rwa [runsBy_flatten] at this
      have hall : r.all (·.2) = true := by
        rw [List.all_eq_true]
        intro q hq
        have := (List.of_mem_zip (hsub q hq)).2
        exact (List.mem_replicate.mp this).2
      simp [accept, hall])
  rw [hm] at key
  exact key.symm

/-! ### two labellings of the same runs, sample by sample -/

theorem paint_labelRuns_all_getElem? (rs : List (List α)) : ∀ (c p : Nat) (l : Int),
    (paint (labelRuns (fun _ => true) c rs))[p]? = some l → (c : Int) ≤ l := by
  induction rs with
  | nil => intro c p l h; simp [labelRuns, paint] at h
  | cons r t ih =>
    intro c p l h
    simp only [labelRuns, ite_true, paint_cons, labelInt] at h
    by_cases hp : p < r.length
    · rw [List.getElem?_append_left (by simpa using hp)] at h
      simp [List.getElem?_replicate, hp] at h
      omega
    · rw [List.getElem?_append_right (by simpa using hp)] at h
      have := ih (c + 1) _ l h
      omega

/-- Sample p lies in the i-th run (its all-cycles label, counted from c, is c+i): it is labelled by the
    acceptance test `acc` exactly when `acc` accepts the i-th run. -/
theorem paint_labelRuns_sample (acc : List α → Bool) (rs : List (List α)) : ∀ (c d p i : Nat),
    (paint (labelRuns (fun _ => true) c rs))[p]? = some ((c + i : Nat) : Int) →
      ((rs.map acc)[i]? = some true ↔ ∃ l, (paint (labelRuns acc d rs))[p]? = some l ∧ 0 ≤ l) := by
  induction rs with
  | nil => intro c d p i h; simp [labelRuns, paint] at h
  | cons r t ih =>
    intro c d p i h
    simp only [labelRuns, ite_true, paint_cons, labelInt] at h
    by_cases hp : p < r.length
    · rw [List.getElem?_append_left (by simpa using hp)] at h
      simp only [List.getElem?_replicate, hp, ite_true, Option.some.injEq] at h
      have hi : i = 0 := by omega
      subst hi
      simp only [List.map_cons, List.getElem?_cons_zero, Option.some.injEq, labelRuns]
      cases ha : acc r
      · simp only [Bool.false_eq_true, ite_false, paint_cons, labelInt, false_iff, not_exists, not_and]
        intro l hl
        rw [List.getElem?_append_left (by simpa using hp)] at hl
        simp [List.getElem?_replicate, hp] at hl
        omega
      · simp only [ite_true, paint_cons, labelInt, true_iff]
        refine ⟨(d : Int), ?_, by omega⟩
        rw [List.getElem?_append_left (by simpa using hp)]
        simp [List.getElem?_replicate, hp]
    · rw [List.getElem?_append_right (by simpa using hp)] at h
      simp only [List.length_replicate] at h
      have hge := paint_labelRuns_all_getElem? t (c + 1) _ _ h
      obtain ⟨i', rfl⟩ : ∃ i', i = i' + 1 := ⟨i - 1, by omega⟩
      have h' : (paint (labelRuns (fun _ => true) (c + 1) t))[p - r.length]? = some ((c + 1 + i' : Nat) : Int) := by
        rw [h]; congr 2; omega
      simp only [List.map_cons, List.getElem?_cons_succ, labelRuns]
      split
      · rw [ih (c + 1) (d + 1) _ i' h', paint_cons, List.getElem?_append_right (by simpa using hp)]
        simp
      · rw [ih (c + 1) d _ i' h', paint_cons, List.getElem?_append_right (by simpa using hp)]
        simp

end Cycles
