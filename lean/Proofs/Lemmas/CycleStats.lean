/- Helper lemmas about EmdModel.CycleStats. -/
import EmdModel.CycleStats
import Proofs.Lemmas.MapsIndex

namespace CycleStats
open Maps

/-! ### gathering the samples of one label -/

theorem gather_whereFrom (k : Int) (pre vals : List Rat) (cv : List Int) :
    (whereFrom k pre.length cv).filterMap ((pre ++ vals)[·]?) =
      ((vals.zip cv).filter fun p => p.2 = k).map (·.1) := by
  induction cv generalizing pre vals with
  | nil => simp [whereFrom]
  | cons x t ih =>
    cases vals with
    | nil =>
      simp only [List.zip_nil_left, List.filter_nil, List.map_nil, List.append_nil]
      apply List.filterMap_eq_nil_iff.mpr
      intro i hi
      have := whereFrom_ge k pre.length (x :: t) i hi
      exact List.getElem?_eq_none this
    | cons v vs =>
      have hpre : pre ++ v :: vs = (pre ++ [v]) ++ vs := by simp
      have hlen : (pre ++ [v]).length = pre.length + 1 := by simp
      have ih' := ih (pre ++ [v]) vs
      rw [hlen, ← hpre] at ih'
      unfold whereFrom
      by_cases h : x = k
      · rw [if_pos h]
        simp only [List.filterMap_cons, List.zip_cons_cons, List.filter_cons]
        have : (pre ++ v :: vs)[pre.length]? = some v := by simp
        rw [this, ih']
        simp [h]
      · rw [if_neg h, ih']
        simp [h]

theorem gather_whereEq (vals : List Rat) (cv : List Int) (k : Nat) :
    gather vals (whereEq cv k) = valuesWithLabel vals cv k := by
  have := gather_whereFrom (k : Int) [] vals cv
  simpa [gather, whereEq, valuesWithLabel] using this

theorem cycleStat_eq {β : Type} (f : List Rat → β) (vals : List Rat) (cv : List Int) :
    cycleStat f vals cv = (List.range (nLabels cv)).map fun k => f (valuesWithLabel vals cv k) := by
  unfold cycleStat mapCycleToSamples
  simp only [gather_whereEq]

/-! ### sequencing results that never raise -/

theorem sequence_ok {α : Type} (l : List α) : sequence (l.map (Except.ok (ε := Err))) = .ok l := by
  induction l with
  | nil => rfl
  | cons a t ih => simp [sequence, ih]

end CycleStats
