import EmdModel.Ensemble
namespace C08
theorem placeholder : True := trivial
end C08
