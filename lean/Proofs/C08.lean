/-
  C08 — ensemble sifts average genuinely independent noise realisations.
  Property theorems only (helper lemmas: Proofs/Lemmas/{EnsemblePool,MaskSig,Ensemble,EnsembleDistinct}.lean).
  Statements are about the executable model `EmdModel.Ensemble`: abstract generator `draw`, abstract
  classic sift `S`, worker pool with fork semantics; for every ensemble size, number of workers,
  schedule (execution order × job→worker assignment), noise mode, noise scale and signal.

  PARTIAL (DESIGN §10): "every schedule" is every schedule of the pool *model*; the real OS scheduler is
  sampled by the correspondence run, not enumerated.
-/
import Proofs.Lemmas.Ensemble
import Proofs.Lemmas.EnsembleDistinct
import Proofs.Lemmas.ComposeEnsemble
import Proofs.Lemmas.EnsembleScale
import Proofs.C02

namespace C08
open Pool Ensemble

variable {ρ : Type}

/-- `Pool.starmap` of a pure job is `map` for every schedule (shared with C07). -/
theorem pool_map_schedule_indep {α β : Type} (σ : Schedule) (p : Nat) (f : α → β) (args : List α)
    (hσ : σ.Valid args.length p) : runPool σ f args = args.map f :=
  runPool_eq_map σ args.length p f args rfl hσ

/-- Repaired code (noise drawn by the parent): under every schedule, member `i` is sifted with the `i`-th
    array the parent's generator hands out — the noise observed at the member is that array. -/
theorem ensemble_member_noise (σ : Schedule) (p : Nat) (draw : ρ → Sig × ρ) (g : ρ) (S : Sig → List Sig)
    (mode : Mode) (N : Nat) (scale : Rat) (x : Sig) (hσ : σ.Valid N p) (i : Nat) (hi : i < N) :
    (ensembleTrace σ draw g S mode N scale x)[i]? =
      some (nthDraw draw g i, siftWithNoise S mode (some scale) x (nthDraw draw g i)) := by
  rw [ensembleTrace_eq σ p draw g S mode N scale x hσ]
  simp [hi]

/-- Every member has its own noise realisation: for every ensemble size, number of workers and schedule,
    two different members are sifted with different arrays (successive draws of a generator being distinct). -/
theorem ensemble_noise_distinct (σ : Schedule) (p : Nat) (draw : ρ → Sig × ρ) (g : ρ) (S : Sig → List Sig)
    (mode : Mode) (N : Nat) (scale : Rat) (x : Sig) (hσ : σ.Valid N p)
    (hinj : Function.Injective (nthDraw draw g)) (i j : Nat) (hi : i < N) (hj : j < N) (hij : i ≠ j) :
    ((ensembleTrace σ draw g S mode N scale x)[i]?).map (·.1) ≠
      ((ensembleTrace σ draw g S mode N scale x)[j]?).map (·.1) := by
  rw [ensemble_member_noise σ p draw g S mode N scale x hσ i hi,
    ensemble_member_noise σ p draw g S mode N scale x hσ j hj]
  intro h
  simp only [Option.map_some, Option.some.injEq] at h
  exact hij (hinj h)

/-- What the members actually sift is pairwise different too: with a non-zero noise scale, distinct draws
    and draws as long as the signal (`randn(*X.shape)`), the signals `x + scale·ν_i` (and, flip mode,
    `x − scale·ν_i`) handed to the classic sift by two different members differ; under every schedule member
    `i` (single mode) returns the classic sift of exactly that signal.
    (`hdraw` is needed: `Sig.add` truncates to the shorter operand, longer draws could differ beyond the signal.) -/
theorem ensemble_members_distinct_inputs (σ : Schedule) (p : Nat) (draw : ρ → Sig × ρ) (g : ρ) (S : Sig → List Sig)
    (N : Nat) (scale : Rat) (x : Sig) (hσ : σ.Valid N p) (hs : scale ≠ 0)
    (hinj : Function.Injective (nthDraw draw g)) (hdraw : ∀ i, (nthDraw draw g i).length = x.length)
    (i j : Nat) (hi : i < N) (hj : j < N) (hij : i ≠ j) :
    Sig.add x (Sig.smul scale (nthDraw draw g i)) ≠ Sig.add x (Sig.smul scale (nthDraw draw g j)) ∧
    Sig.sub x (Sig.smul scale (nthDraw draw g i)) ≠ Sig.sub x (Sig.smul scale (nthDraw draw g j)) ∧
    ((ensembleTrace σ draw g S .single N scale x)[i]?).map (·.2) = some (S (Sig.add x (Sig.smul scale (nthDraw draw g i)))) ∧
    ((ensembleTrace σ draw g S .single N scale x)[j]?).map (·.2) = some (S (Sig.add x (Sig.smul scale (nthDraw draw g j)))) := by
  have hl : ∀ k, (Sig.smul scale (nthDraw draw g k)).length = x.length := fun k => by simp [Sig.smul, hdraw k]
  refine ⟨?_, ?_, ?_, ?_⟩
  · intro h
    exact hij (hinj (smul_injective scale hs (add_left_cancel x _ _ (hl i) (hl j) h)))
  · intro h
    exact hij (hinj (smul_injective scale hs (sub_left_cancel x _ _ (hl i) (hl j) h)))
  · rw [ensemble_member_noise σ p draw g S .single N scale x hσ i hi]; rfl
  · rw [ensemble_member_noise σ p draw g S .single N scale x hσ j hj]; rfl

/-- The whole ensemble (members' noises, decompositions, mean) is the same under any two schedules. -/
theorem ensemble_schedule_indep (σ σ' : Schedule) (p p' : Nat) (draw : ρ → Sig × ρ) (g : ρ) (S : Sig → List Sig)
    (mode : Mode) (N : Nat) (scale : Rat) (x : Sig) (hσ : σ.Valid N p) (hσ' : σ'.Valid N p') :
    ensembleTrace σ draw g S mode N scale x = ensembleTrace σ' draw g S mode N scale x ∧
    ensembleSift σ draw g S mode N scale x = ensembleSift σ' draw g S mode N scale x := by
  have h : ensembleTrace σ draw g S mode N scale x = ensembleTrace σ' draw g S mode N scale x := by
    rw [ensembleTrace_eq σ p draw g S mode N scale x hσ, ensembleTrace_eq σ' p' draw g S mode N scale x hσ']
  exact ⟨h, by unfold ensembleSift; rw [h]⟩

/-- Pinned code (noise drawn inside the forked worker): member `j` receives the draw whose number is the
    rank of job `j` among the jobs executed by *its own worker* — the worker's private copy of the
    generator starts from the parent's state. -/
theorem forkdraw_member_noise (σ : Schedule) (p : Nat) (draw : ρ → Sig × ρ) (g : ρ) (S : Sig → List Sig)
    (mode : Mode) (N : Nat) (scale : Rat) (x : Sig) (hσ : σ.Valid N p) (j : Nat) (hj : j < N) :
    ((ensembleTraceForkDraw σ draw g S mode N scale x)[j]?).map (·.1) =
      some (nthDraw draw g (rankInWorker σ N j)) := by
  rw [ensembleTraceForkDraw_eq σ p draw g S mode N scale x hσ]
  simp [hj]

/-- Negation witness for the pinned code (DESIGN §9-D7): with at least two members on at least two workers,
    whatever the generator and the signal, the round-robin schedule gives members 0 and 1 the *same* noise
    array (both are the first job of their worker).  Replayed on the real code by corpus case
    `ensemble` #1 (4 members on 4 workers: one distinct array before the repair). -/
theorem ensemble_noise_shared_forkdraw_witness (draw : ρ → Sig × ρ) (g : ρ) (S : Sig → List Sig) (mode : Mode)
    (N p : Nat) (scale : Rat) (x : Sig) (hN : 2 ≤ N) (hp : 2 ≤ p) :
    (Schedule.roundRobin N p).Valid N p ∧
    ((ensembleTraceForkDraw (Schedule.roundRobin N p) draw g S mode N scale x)[0]?).map (·.1) =
      ((ensembleTraceForkDraw (Schedule.roundRobin N p) draw g S mode N scale x)[1]?).map (·.1) := by
  have hv := roundRobin_valid N p (by omega)
  refine ⟨hv, ?_⟩
  rw [forkdraw_member_noise _ p draw g S mode N scale x hv 0 (by omega),
    forkdraw_member_noise _ p draw g S mode N scale x hv 1 (by omega)]
  have h0 : rankInWorker (Schedule.roundRobin N p) N 0 = 0 := by
    obtain ⟨n, rfl⟩ : ∃ n, N = n + 2 := ⟨N - 2, by omega⟩
    simp [rankInWorker, Schedule.roundRobin, jobsOn, List.range_succ_eq_map]
  have h1 : rankInWorker (Schedule.roundRobin N p) N 1 = 0 := by
    obtain ⟨n, rfl⟩ : ∃ n, N = n + 2 := ⟨N - 2, by omega⟩
    have : ¬ p = 1 := by omega
    simp [rankInWorker, Schedule.roundRobin, jobsOn, List.range_succ_eq_map, this]
  rw [h0, h1]

/-- The ensemble result is the per-IMF mean over the members: column `j` is the mean over `i < N` of column `j`
    of member `i` (a column a member does not have counting as zero), for every schedule. -/
theorem ensemble_mean (σ : Schedule) (p : Nat) (draw : ρ → Sig × ρ) (g : ρ) (S : Sig → List Sig)
    (mode : Mode) (N : Nat) (scale : Rat) (x : Sig) (hσ : σ.Valid N p) :
    ensembleSift σ draw g S mode N scale x =
      (List.range (width draw g S mode N scale x)).map fun j =>
        meanOver x.length ((List.range N).map fun i => colOr x.length (member draw g S mode scale x i) j) := by
  unfold ensembleSift ensembleMean width
  rw [ensembleTrace_eq σ p draw g S mode N scale x hσ]
  simp only [List.map_map]
  rfl

/-- … sample by sample: `out[j][t] = (Σ_{i<N} member_i[j][t]) / N`  (sift columns of the signal's length). -/
theorem ensemble_mean_pointwise (σ : Schedule) (p : Nat) (draw : ρ → Sig × ρ) (g : ρ) (S : Sig → List Sig)
    (mode : Mode) (N : Nat) (scale : Rat) (x : Sig) (hσ : σ.Valid N p)
    (hS : ∀ y c, c ∈ S y → c.length = x.length)
    (j t : Nat) (hj : j < width draw g S mode N scale x) (ht : t < x.length) :
    ((ensembleSift σ draw g S mode N scale x)[j]?).map (fun c => Sig.sval c t) =
      some (((List.range N).map fun i => Sig.sval (colOr x.length (member draw g S mode scale x i) j) t).sum / (N : Rat)) := by
  rw [ensemble_mean σ p draw g S mode N scale x hσ]
  simp only [List.getElem?_map, List.getElem?_range hj, Option.map_some]
  rw [sval_meanOver x.length t _ ht]
  · simp [List.map_map, Function.comp_def]
  · intro c hc
    obtain ⟨i, _, rfl⟩ := List.mem_map.mp hc
    exact length_colOr _ _ _ (mem_siftWithNoise_length S mode _ x _ hS)

/-- (Single mode: a member is `S (x + c·ν)` by definition of `siftWithNoise`.)
    Flip mode: a member is the mean of the +noise and −noise decompositions, column by column and sample by
    sample (`S(x+cν)[j][t] + S(x−cν)[j][t]) / 2`); it has as many columns as the wider of the two. -/
theorem flip_member_mean (S : Sig → List Sig) (c : Rat) (x ν : Sig) (hS : ∀ y col, col ∈ S y → col.length = x.length) :
    (siftWithNoise S .flip (some c) x ν).length
        = max (S (Sig.add x (Sig.smul c ν))).length (S (Sig.sub x (Sig.smul c ν))).length ∧
    ∀ j t, t < x.length →
      Sig.sval (colOr x.length (siftWithNoise S .flip (some c) x ν) j) t =
        (Sig.sval (colOr x.length (S (Sig.add x (Sig.smul c ν))) j) t +
         Sig.sval (colOr x.length (S (Sig.sub x (Sig.smul c ν))) j) t) / 2 := by
  refine ⟨by simp [siftWithNoise, length_flipMean], ?_⟩
  intro j t ht
  exact sval_flipMean x.length _ _ j t ht (hS _) (hS _)

/-- Zero noise amplitude: every member is exactly the classic sift of the signal and the ensemble result *is*
    the classic sift (same columns, same count, exact in ℚ) — in both noise modes, for every ensemble size ≥ 1,
    every generator and every schedule.  (`S` carries the cap: the same cap on both sides.) -/
theorem ensemble_zero_noise_eq_sift (σ : Schedule) (p : Nat) (draw : ρ → Sig × ρ) (g : ρ) (S : Sig → List Sig)
    (mode : Mode) (N : Nat) (x : Sig) (hσ : σ.Valid N p) (hN : 0 < N)
    (hdraw : ∀ i, (nthDraw draw g i).length = x.length) (hS : ∀ c, c ∈ S x → c.length = x.length) :
    (∀ i, i < N → (ensembleTrace σ draw g S mode N 0 x)[i]?.map (·.2) = some (S x)) ∧
    ensembleSift σ draw g S mode N 0 x = S x := by
  have hmem : ∀ i, member draw g S mode 0 x i = S x := fun i => siftWithNoise_zero S mode x _ (hdraw i)
  refine ⟨?_, ?_⟩
  · intro i hi
    rw [ensemble_member_noise σ p draw g S mode N 0 x hσ i hi]
    simpa [member] using hmem i
  · rw [ensemble_mean σ p draw g S mode N 0 x hσ]
    have hw : width draw g S mode N 0 x = (S x).length := by
      unfold width
      have : (List.range N).map (member draw g S mode 0 x) = List.replicate N (S x) := by
        rw [List.eq_replicate_iff]
        exact ⟨by simp, fun r hr => by obtain ⟨i, _, rfl⟩ := List.mem_map.mp hr; exact hmem i⟩
      rw [this, maxWidth_replicate N (S x) hN]
    rw [hw, ← map_colOr_range x.length (S x)]
    simp only [List.length_map, List.length_range]
    apply List.map_congr_left
    intro j _
    have : ((List.range N).map fun i => colOr x.length (member draw g S mode 0 x i) j)
        = List.replicate N (colOr x.length (S x) j) := by
      rw [List.eq_replicate_iff]
      exact ⟨by simp, fun r hr => by obtain ⟨i, _, rfl⟩ := List.mem_map.mp hr; rw [hmem i]⟩
    rw [this]
    exact meanOver_replicate x.length N _ hN (length_colOr _ _ _ hS)

/-! ### complete ensemble -/

/-- Complete ensemble, one fan-out: for every schedule, member `i` is sifted with column `i` of the parent's
    noise matrix (and returns the first IMF of residual ± that column). -/
theorem ceemd_noise_by_column (σ : Schedule) (p : Nat) (F : Sig → Sig) (mode : Mode) (scale : Option Rat)
    (proto : Sig) (noise : List Sig) (hσ : σ.Valid noise.length p) (i : Nat) :
    (ceemdMembers σ F mode scale proto noise)[i]? =
      (noise[i]?).map fun ν => (ν, siftWithNoise (fun y => [F y]) mode scale proto ν) := by
  rw [ceemdMembers_eq σ p F mode scale proto noise hσ, List.getElem?_map]

/-- … hence distinct columns of the matrix give the members pairwise different noise, for every schedule. -/
theorem ceemd_noise_distinct (σ : Schedule) (p : Nat) (F : Sig → Sig) (mode : Mode) (scale : Option Rat)
    (proto : Sig) (noise : List Sig) (hσ : σ.Valid noise.length p) (hd : noise.Nodup)
    (i j : Nat) (hi : i < noise.length) (hj : j < noise.length) (hij : i ≠ j) :
    ((ceemdMembers σ F mode scale proto noise)[i]?).map (·.1) ≠ ((ceemdMembers σ F mode scale proto noise)[j]?).map (·.1) := by
  rw [ceemd_noise_by_column σ p F mode scale proto noise hσ, ceemd_noise_by_column σ p F mode scale proto noise hσ,
    List.getElem?_eq_getElem hi, List.getElem?_eq_getElem hj]
  simp only [Option.map_some, ne_eq, Option.some.injEq]
  intro h
  exact hij ((List.getElem_inj hd).mp h)

/-- Complete ensemble, whole run (`stages` loop iterations, any family of schedules, one per `starmap`):
    * the returned noise matrix has column `i` = the (stages+1)-fold first-IMF residual of `scale · M_i`;
    * `stages + 1` columns are returned; column 0 is the mean over the members of the first IMF of
      `x ± scale·M_i` (the already scaled matrix is added as it is, as in every later fan-out);
    * column `k+1` is the mean over the members of the first IMF of
      `(x − Σ earlier columns) ± (k+1)-fold residual of scale·M_i` — member `i` always uses column `i`. -/
theorem ceemd_stage_mean (σ : Nat → Schedule) (p : Nat → Nat) (F Fn : Sig → Sig) (mode : Mode) (scale : Rat)
    (M : List Sig) (x : Sig) (stages : Nat) (hσ : ∀ c, (σ c).Valid M.length (p c)) :
    (ceemd σ F Fn mode scale M x stages).2 = (M.map fun m => residualPow Fn (stages + 1) (Sig.smul scale m)) ∧
    (ceemd σ F Fn mode scale M x stages).1.length = stages + 1 ∧
    (ceemd σ F Fn mode scale M x stages).1[0]? = some (stageImf F mode none x (M.map (Sig.smul scale))) ∧
    ∀ k, k < stages → (ceemd σ F Fn mode scale M x stages).1[k + 1]? =
      some (stageImf F mode none
        (Sig.sub x (Sig.vsum x.length ((ceemd σ F Fn mode scale M x stages).1.take (k + 1))))
        (M.map fun m => residualPow Fn (k + 1) (Sig.smul scale m))) := by
  have hM : (M.map (Sig.smul scale)).length = M.length := by simp
  have h0 : ceemd σ F Fn mode scale M x stages =
      specLoop F Fn mode x stages [stageImf F mode none x (M.map (Sig.smul scale))]
        ((M.map (Sig.smul scale)).map (noiseResidual Fn)) := by
    unfold ceemd
    simp only []
    rw [ceemdImf_eq (σ 0) (p 0) F mode none x _ (hM ▸ hσ 0),
      ceemdNoiseStep_eq (σ 1) (p 1) Fn _ (hM ▸ hσ 1)]
    exact ceemdLoop_eq σ p F Fn mode x M.length hσ stages 2 _ _ (by simp)
  rw [h0]
  refine ⟨?_, ?_, ?_, ?_⟩
  · rw [specLoop_noise]
    simp only [List.map_map]
    rfl
  · rw [specLoop_length]; simp; omega
  · obtain ⟨rest, h⟩ := specLoop_prefix F Fn mode x stages [stageImf F mode none x (M.map (Sig.smul scale))]
      ((M.map (Sig.smul scale)).map (noiseResidual Fn))
    rw [h]; rfl
  · intro k hk
    have := specLoop_col F Fn mode x stages [stageImf F mode none x (M.map (Sig.smul scale))]
      ((M.map (Sig.smul scale)).map (noiseResidual Fn)) k hk
    simp only [List.length_singleton] at this
    rw [Nat.add_comm 1 k] at this
    rw [this]
    simp only [List.map_map]
    rfl

/-! #### distinctness of the noise matrix at EVERY fan-out

  After fan-out `k` the parent replaces every noise column `ν` by `ν − Fn ν` (`ceemdNoiseStep`; `Fn ν` = first
  IMF of the noise-only sift of `ν`).  The matrix handed to fan-out `k` is therefore
  `stageNoise Fn scale M k = M.map fun m => residualPow Fn k (scale • m)`.  Distinct columns do NOT stay distinct
  for an arbitrary `Fn` (witness below); the exact condition is that `ν ↦ ν − Fn ν` separates the columns present at
  every stage.  It is a hypothesis on the noise-only sift (an oracle), validated on every traced run by the
  harness (kind `ceemd:stage-noise-duplicate`). -/

/-- One noise step keeps the columns pairwise different exactly when they were and `ν ↦ ν − Fn ν` separates the
    columns present — for every schedule of the noise-only `starmap`. -/
theorem ceemd_noise_step_distinct_iff (σ : Schedule) (p : Nat) (Fn : Sig → Sig) (noise : List Sig)
    (hσ : σ.Valid noise.length p) :
    (ceemdNoiseStep σ Fn noise).Nodup ↔
      noise.Nodup ∧ ∀ a, a ∈ noise → ∀ b, b ∈ noise → Sig.sub a (Fn a) = Sig.sub b (Fn b) → a = b := by
  rw [ceemdNoiseStep_eq σ p Fn noise hσ]
  exact nodup_map_iff _ _

/-- Stage-0 distinctness propagates to every stage: distinct columns of the drawn matrix `M`, a non-zero scale and
    `hFn` (the residual map `ν ↦ ν − Fn ν` separates the columns present at each stage) give a duplicate-free
    noise matrix at every stage `k`. -/
theorem ceemd_noise_distinct_all_stages (Fn : Sig → Sig) (scale : Rat) (M : List Sig) (hs : scale ≠ 0) (hd : M.Nodup)
    (hFn : ∀ k, ∀ a, a ∈ stageNoise Fn scale M k → ∀ b, b ∈ stageNoise Fn scale M k →
      Sig.sub a (Fn a) = Sig.sub b (Fn b) → a = b) :
    ∀ k, (M.map fun m => residualPow Fn k (Sig.smul scale m)).Nodup :=
  (nodup_stageNoise_all_iff Fn scale M).mpr ⟨nodup_stageNoise_zero scale hs Fn M hd, hFn⟩

/-- … in particular when the residual map is injective outright (the reviewer's form of the hypothesis). -/
theorem ceemd_noise_distinct_all_stages_of_injective (Fn : Sig → Sig) (scale : Rat) (M : List Sig) (hs : scale ≠ 0)
    (hd : M.Nodup) (hFn : Function.Injective (fun ν => Sig.sub ν (Fn ν))) :
    ∀ k, (M.map fun m => residualPow Fn k (Sig.smul scale m)).Nodup :=
  ceemd_noise_distinct_all_stages Fn scale M hs hd (fun _ _ _ _ _ h => hFn h)

/-- The hypothesis is exactly what is needed: (with a non-zero scale) all stage matrices are duplicate-free
    if and only if `M` is and the residual map separates the columns present at every stage. -/
theorem ceemd_noise_distinct_all_stages_iff (Fn : Sig → Sig) (scale : Rat) (M : List Sig) (hs : scale ≠ 0) :
    (∀ k, (M.map fun m => residualPow Fn k (Sig.smul scale m)).Nodup) ↔
      M.Nodup ∧ ∀ k, ∀ a, a ∈ stageNoise Fn scale M k → ∀ b, b ∈ stageNoise Fn scale M k →
        Sig.sub a (Fn a) = Sig.sub b (Fn b) → a = b := by
  constructor
  · intro h
    have := (nodup_stageNoise_all_iff Fn scale M).mp h
    exact ⟨((nodup_map_iff _ _).mp this.1).1, this.2⟩
  · rintro ⟨hd, hFn⟩
    exact ceemd_noise_distinct_all_stages Fn scale M hs hd hFn

/-- The trace `ceemdFanouts` is the run of `ceemd`: column `k` of the result is the mean over the members recorded
    for fan-out `k`; there are `stages + 1` fan-outs. -/
theorem ceemd_cols_are_fanout_means (σ : Nat → Schedule) (F Fn : Sig → Sig) (mode : Mode) (scale : Rat) (M : List Sig)
    (x : Sig) (stages : Nat) :
    (ceemd σ F Fn mode scale M x stages).1 = (ceemdFanouts σ F Fn mode scale M x stages).map fanoutMean ∧
    (ceemdFanouts σ F Fn mode scale M x stages).length = stages + 1 :=
  ⟨ceemd_cols_eq σ F Fn mode scale M x stages, length_ceemdFanouts σ F Fn mode scale M x stages⟩

/-- Complete ensemble, whole run: from distinct columns of the drawn matrix, a non-zero scale and `hFn`, at EVERY
    fan-out `k ≤ stages` (any family of schedules) there is one member per column and two different members are
    sifted with different noise; the returned noise matrix is duplicate-free as well.
    (`ceemd_noise_distinct` applied to the matrix of each stage, whose `Nodup` is now derived.) -/
theorem ceemd_noise_distinct_every_fanout (σ : Nat → Schedule) (p : Nat → Nat) (F Fn : Sig → Sig) (mode : Mode)
    (scale : Rat) (M : List Sig) (x : Sig) (stages : Nat) (hσ : ∀ c, (σ c).Valid M.length (p c))
    (hs : scale ≠ 0) (hd : M.Nodup)
    (hFn : ∀ k, ∀ a, a ∈ stageNoise Fn scale M k → ∀ b, b ∈ stageNoise Fn scale M k →
      Sig.sub a (Fn a) = Sig.sub b (Fn b) → a = b) :
    (∀ k, k ≤ stages → ∀ i j, i < M.length → j < M.length → i ≠ j →
      ∃ fo, (ceemdFanouts σ F Fn mode scale M x stages)[k]? = some fo ∧ fo.2.length = M.length ∧
        (fo.2[i]?).map (·.1) ≠ (fo.2[j]?).map (·.1)) ∧
    (ceemd σ F Fn mode scale M x stages).2.Nodup := by
  have hnd := ceemd_noise_distinct_all_stages Fn scale M hs hd hFn
  refine ⟨?_, ?_⟩
  · intro k hk i j hi hj hij
    have hlen := length_stageNoise Fn scale M k
    have hv : ∀ c, (σ c).Valid (stageNoise Fn scale M k).length (p c) := fun c => hlen ▸ hσ c
    cases k with
    | zero =>
      refine ⟨_, ceemdFanouts_zero σ F Fn mode scale M x stages, ?_, ?_⟩
      · rw [ceemdMembers_eq (σ 0) (p 0) F mode none x _ (hv 0), List.length_map, hlen]
      · exact ceemd_noise_distinct (σ 0) (p 0) F mode none x _ (hv 0) (hnd 0) i j (hlen ▸ hi) (hlen ▸ hj) hij
    | succ k =>
      obtain ⟨proto, h⟩ := ceemdFanouts_succ σ p F Fn mode scale M x stages hσ k (by omega)
      refine ⟨_, h, ?_, ?_⟩
      · rw [ceemdMembers_eq (σ _) (p _) F mode none proto _ (hv _), List.length_map, hlen]
      · exact ceemd_noise_distinct (σ _) (p _) F mode none proto _ (hv _) (hnd (k + 1)) i j (hlen ▸ hi) (hlen ▸ hj) hij
  · rw [(ceemd_stage_mean σ p F Fn mode scale M x stages hσ).1]
    exact hnd (stages + 1)

/-- The part that holds on the real code, where an exhausted noise column (no extrema left: it is its own first
    IMF) becomes the zero column and stays zero, so that several exhausted columns coincide: for any notion `live`
    of "not exhausted" that the residual map never revives (`hdead`), if the residual map separates the columns whose
    residual is still live (`hinj`), the live columns of every stage matrix are pairwise different. -/
theorem ceemd_live_noise_distinct_all_stages (Fn : Sig → Sig) (scale : Rat) (M : List Sig) (live : Sig → Bool)
    (hdead : ∀ k a, a ∈ stageNoise Fn scale M k → live a = false → live (Sig.sub a (Fn a)) = false)
    (hinj : ∀ k a, a ∈ stageNoise Fn scale M k → ∀ b, b ∈ stageNoise Fn scale M k →
      live (Sig.sub a (Fn a)) = true → Sig.sub a (Fn a) = Sig.sub b (Fn b) → a = b)
    (h0 : ((M.map (Sig.smul scale)).filter live).Nodup) :
    ∀ k, ((M.map fun m => residualPow Fn k (Sig.smul scale m)).filter live).Nodup :=
  nodup_live_stageNoise Fn scale M live hdead hinj h0

/-- Witness that the hypothesis is necessary: a noise-only sift that returns its input as the first IMF (what the
    real `sift` does on a column without extrema) maps ANY two distinct columns of equal length to the same zero
    column — after one noise step the matrix has duplicate columns, and in a whole run (any scale, `F`, signal,
    mode, schedules, at least one loop stage) fan-out 1 gives members 0 and 1 the same noise and the returned
    matrix is not duplicate-free.  Replayed on the real code (two distinct monotone columns injected as the drawn
    matrix: both residuals are all-zero, stage-1 members sift the same signal) — see c08.py ASSUMPTIONS. -/
theorem ceemd_noise_distinctness_lost_witness (σ : Nat → Schedule) (p : Nat → Nat) (F : Sig → Sig) (mode : Mode)
    (scale : Rat) (a b x : Sig) (stages : Nat) (hab : a ≠ b) (hlen : a.length = b.length)
    (hσ : ∀ c, (σ c).Valid 2 (p c)) (hst : 0 < stages) :
    [a, b].Nodup ∧
    ceemdNoiseStep (σ 1) (fun ν => ν) [a, b] = [Sig.zeros a.length, Sig.zeros a.length] ∧
    ¬ (ceemdNoiseStep (σ 1) (fun ν => ν) [a, b]).Nodup ∧
    (∃ fo, (ceemdFanouts σ F (fun ν => ν) mode scale [a, b] x stages)[1]? = some fo ∧
      (fo.2[0]?).map (·.1) = some (Sig.zeros a.length) ∧ (fo.2[1]?).map (·.1) = some (Sig.zeros a.length)) ∧
    ¬ (ceemd σ F (fun ν => ν) mode scale [a, b] x stages).2.Nodup := by
  have hstep : ceemdNoiseStep (σ 1) (fun ν => ν) [a, b] = [Sig.zeros a.length, Sig.zeros a.length] := by
    rw [ceemdNoiseStep_eq (σ 1) (p 1) _ [a, b] (hσ 1)]
    simp [noiseResidual, sig_sub_self, hlen]
  have hres : ∀ k ν, residualPow (fun ν => ν) (k + 1) ν = Sig.zeros ν.length := by
    intro k
    induction k with
    | zero => intro ν; simp [residualPow, noiseResidual, sig_sub_self]
    | succ k ih => intro ν; rw [residualPow_succ', ih]; simp [noiseResidual, sig_sub_self, Sig.zeros]
  have hstage : ∀ k, stageNoise (fun ν => ν) scale [a, b] (k + 1) = [Sig.zeros a.length, Sig.zeros a.length] := by
    intro k
    simp [stageNoise, hres, Sig.smul, hlen]
  refine ⟨by simp [hab], hstep, by rw [hstep]; simp, ?_, ?_⟩
  · obtain ⟨proto, h⟩ := ceemdFanouts_succ σ p F (fun ν => ν) mode scale [a, b] x stages hσ 0 hst
    refine ⟨_, h, ?_, ?_⟩ <;>
    · rw [hstage, ceemd_noise_by_column (σ _) (p _) F mode none proto _ (hσ _)]
      rfl
  · rw [(ceemd_stage_mean σ p F (fun ν => ν) mode scale [a, b] x stages hσ).1]
    have := hstage stages
    unfold stageNoise at this
    rw [this]
    simp

/-! #### two behaviours of the code that the model reproduces AS THEY ARE (not demanded or excluded by C08)

  1. `complete_ensemble_sift` draws its noise matrix with `np.random.random_sample` — uniform on [0, 1), mean 1/2 —
     where `ensemble_sift` draws `np.random.randn` (zero-mean N(0,1)).  The model's matrix `M` is an arbitrary input,
     so nothing here depends on it; the harness feeds the traced matrix.  Every member noise of the first two stages
     has a positive offset (single mode: the mean IMF inherits it; flip mode cancels it).
  2. REPAIRED (was modelled as it is until the amplitude-scaled signals of the C08 check made it a violation: on a
     1e-13-scaled signal with a small noise level the first-stage noise fell below the rounding of the signal and
     several members sifted the bare input).  The pinned first fan-out passed the ALREADY scaled matrix `scale • M`
     together with `noise_scaling = scale` to `_sift_with_noise`, which scales once more: stage-0 members sifted
     `x ± scale²·M_i` (`pinned_first_fanout_double_scaled`).  The repaired code passes `noise_scaling=None` as every
     later stage does; `ceemd_first_stage_scaled_once` states that about the model and the harness compares it with
     the traced run (`CEEMD` op). -/

/-- What the pinned first fan-out did, as a fact about `_sift_with_noise`: handing it the scaled column `scale·m`
    TOGETHER WITH the scale is sifting with `scale²·m`. -/
theorem pinned_first_fanout_double_scaled (F : Sig → Sig) (mode : Mode) (scale : Rat) (x m : Sig) :
    siftWithNoise (fun y => [F y]) mode (some scale) x (Sig.smul scale m)
      = siftWithNoise (fun y => [F y]) mode none x (Sig.smul (scale * scale) m) := by
  simp only [siftWithNoise, smul_smul]

/-- Every fan-out adds the parent's matrix column as it is.  Whatever the schedules:
    * fan-out 0: the matrix column of member `i` is `scale·M_i` and the member is
      `_sift_with_noise(x, None, scale·M_i)` — single mode: `[F (x + scale·M_i)]`: the noise amplitude is
      proportional to `scale = ensemble_noise · std(x)`, at any amplitude of `x`;
    * hence column 0 of the result is the mean over the members of the first IMF of `x ± scale·M_i`;
    * fan-out `k+1`: the member is `_sift_with_noise(residual, None, ν)` with `ν` the matrix column itself, the
      `(k+1)`-fold first-IMF residual of `scale·M_i`. -/
theorem ceemd_first_stage_scaled_once (σ : Nat → Schedule) (p : Nat → Nat) (F Fn : Sig → Sig) (mode : Mode)
    (scale : Rat) (M : List Sig) (x : Sig) (stages : Nat) (hσ : ∀ c, (σ c).Valid M.length (p c)) :
    (ceemdFanouts σ F Fn mode scale M x stages)[0]? =
      some (x, M.map fun m => (Sig.smul scale m,
        siftWithNoise (fun y => [F y]) mode none x (Sig.smul scale m))) ∧
    (ceemd σ F Fn mode scale M x stages).1[0]? =
      some (meanOver x.length (M.map fun m =>
        colOr x.length (siftWithNoise (fun y => [F y]) mode none x (Sig.smul scale m)) 0)) ∧
    ∀ k, k < stages → ∃ proto, (ceemdFanouts σ F Fn mode scale M x stages)[k + 1]? =
      some (proto, M.map fun m => (residualPow Fn (k + 1) (Sig.smul scale m),
        siftWithNoise (fun y => [F y]) mode none proto (residualPow Fn (k + 1) (Sig.smul scale m)))) := by
  have hM : (stageNoise Fn scale M 0).length = M.length := length_stageNoise Fn scale M 0
  refine ⟨?_, ?_, ?_⟩
  · rw [ceemdFanouts_zero, ceemdMembers_eq (σ 0) (p 0) F mode none x _ (hM ▸ hσ 0), stageNoise_zero,
      List.map_map]
    simp only [Function.comp_def]
  · rw [(ceemd_stage_mean σ p F Fn mode scale M x stages hσ).2.2.1]
    unfold stageImf
    rw [List.map_map]
    simp only [Function.comp_def]
  · intro k hk
    obtain ⟨proto, h⟩ := ceemdFanouts_succ σ p F Fn mode scale M x stages hσ k hk
    refine ⟨proto, ?_⟩
    have hl : (stageNoise Fn scale M (k + 1)).length = M.length := length_stageNoise Fn scale M (k + 1)
    rw [h, ceemdMembers_eq (σ _) (p _) F mode none proto _ (hl ▸ hσ _)]
    simp only [stageNoise, List.map_map, Function.comp_def]

/-! Non-vacuity: the hypotheses are satisfiable on concrete non-trivial inputs. -/

/-- four members on two workers, executed out of order -/
def σex : Schedule := { order := [3, 0, 2, 1], worker := fun j => j % 2 }
example : σex.Valid 4 2 := ⟨by decide, fun j _ => Nat.mod_lt j (by decide)⟩

-- a generator whose successive draws are distinct (the driver's counter generator)
example : Function.Injective (nthDraw counterDraw 0) := by
  intro a b h
  rw [nthDraw_counter, nthDraw_counter] at h
  simp only [Nat.zero_add, List.cons.injEq, and_true] at h
  exact_mod_cast h
-- under the out-of-order schedule the repaired model hands draws 0,1,2,3 to members 0,1,2,3; the pinned model
-- hands out the rank within the worker (worker 0 runs 0 then 2, worker 1 runs 3 then 1, both from the parent state)
example : (ensembleTrace σex counterDraw 0 (fun _ => []) .single 4 1 []).map (·.1) = [[0], [1], [2], [3]] := by decide
example : (ensembleTraceForkDraw σex counterDraw 0 (fun _ => []) .single 4 1 []).map (·.1) = [[0], [1], [1], [0]] := by decide
-- a sift whose columns have the signal's length (hypothesis of the pointwise / flip / zero-noise theorems)
example : ∀ (y c : Sig), c ∈ (fun _ : Sig => [([1, 2, 3] : Sig), [0, 0, 1]]) y → c.length = ([4, 5, 6] : Sig).length := by
  intro y c hc; simp at hc; rcases hc with rfl | rfl <;> rfl
-- a noise matrix with distinct columns (hypothesis of ceemd_noise_distinct)
example : ([[1, 2], [2, 1], [0, 0]] : List Sig).Nodup := by decide

-- a noise-only "first IMF" whose residual map is injective: `FnHalf ν = ν/2` (residual `ν/2`; Lemmas/EnsembleDistinct), so the hypothesis of
-- `ceemd_noise_distinct_all_stages(_of_injective)` is satisfiable; with it every stage matrix of a concrete
-- 2-column matrix is duplicate-free
example : ∀ k, (([[1, 2], [2, 1]] : List Sig).map fun m => residualPow FnHalf k (Sig.smul 2 m)).Nodup :=
  ceemd_noise_distinct_all_stages_of_injective FnHalf 2 [[1, 2], [2, 1]] (by decide +kernel) (by decide)
    FnHalf_residual_injective
-- … and the restricted form `hFn` follows from it on that matrix
example : ∀ k, ∀ a, a ∈ stageNoise FnHalf 2 [[1, 2], [2, 1]] k → ∀ b, b ∈ stageNoise FnHalf 2 [[1, 2], [2, 1]] k →
    Sig.sub a (FnHalf a) = Sig.sub b (FnHalf b) → a = b := fun _ _ _ _ _ h => FnHalf_residual_injective h
-- the witness instantiated: columns [1] ≠ [2], identity noise sift, after one step both columns are [0]
example : ceemdNoiseStep (Schedule.roundRobin 2 1) (fun ν => ν) [[1], [2]] = [[0], [0]] := by decide +kernel
-- … where the "live columns" theorem still applies (live = has a non-zero sample): its hypotheses hold for the
-- identity noise sift, whose residuals are all exhausted
example : ∀ k, ((([[1], [2]] : List Sig).map fun m => residualPow (fun ν => ν) k (Sig.smul 1 m)).filter
    (fun ν => ν.any (· ≠ 0))).Nodup := by
  have hz : ∀ a : Sig, (Sig.sub a a).any (· ≠ 0) = false := by
    intro a; rw [sig_sub_self]; simp [Sig.zeros]
  exact ceemd_live_noise_distinct_all_stages (fun ν => ν) 1 [[1], [2]] (fun ν => ν.any (· ≠ 0))
    (fun _ a _ _ => hz a) (fun _ a _ _ _ hl => by rw [hz a] at hl; cases hl) (by decide +kernel)
-- scaled once, on numbers: scale 2, one column [1], signal [0], `F` = identity: the first component is
-- 0 + 2·1 = 2 (the pinned code gave 2·2·1 = 4), the noise matrix kept by the parent holds 2·1 = 2
example : (ceemd (fun _ => Schedule.roundRobin 1 1) (fun y => y) (fun _ => [0]) .single 2 [[1]] [0] 0) = ([[2]], [[2]]) := by
  decide +kernel
-- draws as long as the signal and pairwise distinct (hypotheses of `ensemble_members_distinct_inputs`): counter draws, 1 sample
example : Function.Injective (nthDraw counterDraw 0) ∧ ∀ i, (nthDraw counterDraw 0 i).length = ([5] : Sig).length :=
  ⟨by intro a b h; rw [nthDraw_counter, nthDraw_counter] at h
      simp only [Nat.zero_add, List.cons.injEq, and_true] at h; exact_mod_cast h,
   fun i => by rw [nthDraw_counter]; rfl⟩

/-! ### Cross-model consistency: the ensemble mean of the Sift model (C03), and the classic sift of the
    Sift model (C01/C03/C04) as the oracle `S`

  Linked: `Ensemble.ensembleMean` / `ensembleSift` (this property) with `Sift.ensembleCols` /
  `Sift.ensembleSift` (C03, written independently: `(1/N)·Σ` vs `Σ/N`, width by `foldl`/`if` vs
  `foldr`/`max`); and the oracle `S` instantiated with `ComposeEnsemble.siftCols X thr cap fuel`
  = the columns of `Sift.siftIx` (the classic capped sift of the Sift model), resp. with `get_next_imf`
  (`Sift.extractorIx E D o`) as its extractor.  Helper lemmas: Proofs/Lemmas/ComposeEnsemble.lean. -/

/-- The two models of the ensemble average compute the same columns from the same member decompositions
    (same width = widest member, same zero padding, same mean). -/
theorem ensemble_mean_agrees_with_sift_model (n : Nat) (members : List (List Sig)) :
    Sift.ensembleCols n members = ensembleMean n members :=
  ComposeEnsemble.ensembleCols_eq_ensembleMean n members

/-- `ensemble_sift` of this model (pool, generator; single-noise mode) over the Sift model's classic sift
    is `Sift.ensembleSift` on the scaled draws — for every schedule. -/
theorem ensembleSift_agrees_with_sift_model (σ : Schedule) (p : Nat) (draw : ρ → Sig × ρ) (g : ρ)
    (X : Nat → Sig → Option (Sig × Bool)) (thr : Rat) (cap : Option Nat) (fuel : Nat)
    (N : Nat) (scale : Rat) (x : Sig) (hσ : σ.Valid N p) :
    ensembleSift σ draw g (ComposeEnsemble.siftCols X thr cap fuel) .single N scale x
      = Sift.ensembleSift X thr cap x fuel ((drawN draw N g).map (Sig.smul scale)) :=
  ComposeEnsemble.ensembleSift_agree σ p draw g X thr cap fuel N scale x hσ

/-- C03's cap theorem holds of this model: over a classic sift capped at `k ≥ 1` the ensemble returns at
    most `k` columns, in both noise modes, for every ensemble size, scale, generator and schedule. -/
theorem ensemble_cols_le_cap_classic_sift (σ : Schedule) (p : Nat) (draw : ρ → Sig × ρ) (g : ρ)
    (X : Nat → Sig → Option (Sig × Bool)) (thr : Rat) (k fuel : Nat) (hk : 0 < k)
    (mode : Mode) (N : Nat) (scale : Rat) (x : Sig) (hσ : σ.Valid N p) :
    (ensembleSift σ draw g (ComposeEnsemble.siftCols X thr (some k) fuel) mode N scale x).length ≤ k :=
  ComposeEnsemble.ensembleSift_cols_le_cap σ p draw g X thr k fuel hk mode N scale x hσ

/-- Zero noise, two models together: with the Sift model's classic sift as `S` (any extractor meeting the
    contract `ExtractorOK`, any threshold, cap and fuel) the ensemble result *is* the classic capped sift
    of the input — both noise modes, every ensemble size ≥ 1, generator and schedule. -/
theorem ensemble_zero_noise_eq_classic_sift (σ : Schedule) (p : Nat) (draw : ρ → Sig × ρ) (g : ρ)
    (X : Nat → Sig → Option (Sig × Bool)) (thr : Rat) (cap : Option Nat) (fuel : Nat)
    (mode : Mode) (N : Nat) (x : Sig) (hσ : σ.Valid N p) (hN : 0 < N)
    (hdraw : ∀ i, (nthDraw draw g i).length = x.length) (hX : Sift.ExtractorOK X x.length) :
    ensembleSift σ draw g (ComposeEnsemble.siftCols X thr cap fuel) mode N 0 x = (Sift.siftIx X thr cap x fuel).1 :=
  (ensemble_zero_noise_eq_sift σ p draw g _ mode N x hσ hN hdraw (C01.sift_col_lengths X thr cap x hX fuel)).2

/-- … with `get_next_imf` (C04 model, every envelope oracle with length-preserving envelopes, every stop
    rule) as the extractor: zero noise ⇒ `ensemble_sift` equals `sift`. -/
theorem ensemble_zero_noise_eq_getNextImf_sift (σ : Schedule) (p : Nat) (draw : ρ → Sig × ρ) (g : ρ)
    (E : Nat → Sig → Sift.Env) (hE : Sift.EnvLen E) (D : Sig → Sig → Rat) (o : Sift.ImfOpts)
    (he : o.energyThresh = none) (thr : Rat) (cap : Option Nat) (fuel : Nat)
    (mode : Mode) (N : Nat) (x : Sig) (hσ : σ.Valid N p) (hN : 0 < N)
    (hdraw : ∀ i, (nthDraw draw g i).length = x.length) :
    ensembleSift σ draw g (ComposeEnsemble.siftCols (fun _ => Sift.extractorIx E D o) thr cap fuel) mode N 0 x
      = (Sift.sift (Sift.extractorIx E D o) thr cap x fuel).1 :=
  ensemble_zero_noise_eq_classic_sift σ p draw g _ thr cap fuel mode N x hσ hN hdraw
    (C01.getNextImf_contract E hE D o he x.length)

/-- … hence C01's completeness carries over: with zero noise, when the classic sift ends because the
    extraction cleared the continue flag, the ensemble components sum back to the input exactly. -/
theorem ensemble_zero_noise_complete (σ : Schedule) (p : Nat) (draw : ρ → Sig × ρ) (g : ρ)
    (E : Nat → Sig → Sift.Env) (hE : Sift.EnvLen E) (D : Sig → Sig → Rat) (o : Sift.ImfOpts)
    (he : o.energyThresh = none) (thr : Rat) (cap : Option Nat) (fuel : Nat)
    (mode : Mode) (N : Nat) (x : Sig) (hσ : σ.Valid N p) (hN : 0 < N)
    (hdraw : ∀ i, (nthDraw draw g i).length = x.length) (cols : List Sig) (cp th : Bool)
    (h : Sift.sift (Sift.extractorIx E D o) thr cap x fuel = (cols, .done true cp th)) :
    Sig.vsum x.length
      (ensembleSift σ draw g (ComposeEnsemble.siftCols (fun _ => Sift.extractorIx E D o) thr cap fuel) mode N 0 x) = x := by
  rw [ensemble_zero_noise_eq_getNextImf_sift σ p draw g E hE D o he thr cap fuel mode N x hσ hN hdraw, h]
  exact C01.sift_getNextImf_complete E hE D o he thr cap x fuel cols cp th h

-- non-vacuity: `C01` shows an extractor meeting the contract (`C01.tabX`, 7 samples); a generator whose
-- arrays have the signal's length (hypothesis `hdraw`), schedule `σex` above
example : ∀ i (g : Nat), (nthDraw (fun g : Nat => (List.replicate 7 (g : Rat), g + 1)) g i).length
    = ([1, 3, 2, 5, 4, 7, 7] : Sig).length := by
  intro i
  induction i with
  | zero => intro g; simp [nthDraw]
  | succ k ih => intro g; exact ih _
example : Sift.ensembleCols 2 [[[1, 2], [3, 4]], [[3, 4]]] = ensembleMean 2 [[[1, 2], [3, 4]], [[3, 4]]] ∧
    ensembleMean 2 [[[1, 2], [3, 4]], [[3, 4]]] = [[2, 3], [3/2, 2]] := by decide +kernel

/-! ### Cross-model consistency: `complete_ensemble_sift` in the Sift model (C03) and in this model

  Linked: `Sift.ceemd` (C03: stop logic — fewer than two peaks / cap / mean-abs threshold — around an
  abstract ensemble step) and `Ensemble.ceemd` (this property: noise matrix, members, pools, noise
  residuals, a given number of stages, no stop logic).  `ComposeEnsemble.stepNx F Fn mode scale M` is the
  ensemble step of the former built from the ingredients of the latter. -/

/-- The two models of `complete_ensemble_sift` return the same columns: whatever the Sift model returns
    (any exit), this model run for `(number of columns) − 1` stages returns exactly those columns, for
    every valid family of pool schedules. -/
theorem ceemd_agrees_with_sift_model (σ : Nat → Schedule) (p : Nat → Nat) (F Fn : Sig → Sig) (mode : Mode)
    (scale : Rat) (M : List Sig) (thr : Rat) (cap : Option Nat) (x : Sig) (fuel : Nat)
    (hσ : ∀ c, (σ c).Valid M.length (p c)) :
    (ceemd σ F Fn mode scale M x
        ((Sift.ceemd (ComposeEnsemble.stepNx F Fn mode scale M) thr cap x fuel).1.length - 1)).1
      = (Sift.ceemd (ComposeEnsemble.stepNx F Fn mode scale M) thr cap x fuel).1 :=
  ComposeEnsemble.ceemd_agree σ p F Fn mode scale M thr cap x fuel hσ

/-- … hence the composed `complete_ensemble_sift` (stop logic of C03 + members of C08) respects a cap
    `k ≥ 1` (C03.ceemd_cols_le_cap) and every one of its columns is the member mean that
    `ceemd_stage_mean` describes. -/
theorem ceemd_composed_cols_le_cap (σ : Nat → Schedule) (p : Nat → Nat) (F Fn : Sig → Sig) (mode : Mode)
    (scale : Rat) (M : List Sig) (thr : Rat) (k : Nat) (hk : 0 < k) (x : Sig) (fuel : Nat)
    (hσ : ∀ c, (σ c).Valid M.length (p c)) :
    ∃ stages, stages + 1 ≤ k ∧
      (ceemd σ F Fn mode scale M x stages).1
        = (Sift.ceemd (ComposeEnsemble.stepNx F Fn mode scale M) thr (some k) x fuel).1 := by
  have hcap := C03.ceemd_cols_le_cap (ComposeEnsemble.stepNx F Fn mode scale M) thr x fuel k hk
  exact ⟨_, by omega, ceemd_agrees_with_sift_model σ p F Fn mode scale M thr (some k) x fuel hσ⟩

/-! ### The scale law: the noise amplitude is LINEAR in the amplitude of the signal, at every amplitude

  `noise_scaling = X.std() * ensemble_noise` (`Ensemble.noiseScale`), and nothing else in the ensemble sifts
  depends on the amplitude of the input: no absolute tolerance decides whether "there is noise".  Stated for the
  model with `np.std` as an oracle `std` that is positively homogeneous at the factor considered
  (`hstd : std (c • x) = c · std x`, true of the standard deviation for every `c ≥ 0`).  A shortcut such as
  `if np.isclose(noise_scaling, 0): return sift(X)` (seeded C08-8) or a second multiplication by the scale
  (the defect repaired by 6e31bea, `pinned_first_fanout_double_scaled`) contradicts each of the theorems below
  on a signal scaled by a small `c`. -/

/-- `noise_scaling` of `c • x` is `c` times that of `x`. -/
theorem noise_scale_linear (std : Sig → Rat) (level c : Rat) (x : Sig) (hstd : std (Sig.smul c x) = c * std x) :
    noiseScale std level (Sig.smul c x) = c * noiseScale std level x := by
  unfold noiseScale
  rw [hstd, Rat.mul_assoc]

/-- Under every schedule member `i` of `ensemble_sift(x, ensemble_noise = level)` is the classic sift of
    `x + memberNoise i` (flip mode: the column-wise mean of the sifts of `x + memberNoise i` and
    `x − memberNoise i`), where `memberNoise i = (std x · level) • (i-th draw)` is the array actually added. -/
theorem ensemble_member_adds_member_noise (σ : Schedule) (p : Nat) (draw : ρ → Sig × ρ) (g : ρ) (S : Sig → List Sig)
    (N : Nat) (std : Sig → Rat) (level : Rat) (x : Sig) (hσ : σ.Valid N p) (i : Nat) (hi : i < N) :
    ((ensembleTraceLevel σ draw g S .single N std level x)[i]?).map (·.2)
      = some (S (Sig.add x (memberNoise draw g std level x i))) ∧
    ((ensembleTraceLevel σ draw g S .flip N std level x)[i]?).map (·.2)
      = some (flipMean x.length (S (Sig.add x (memberNoise draw g std level x i)))
                               (S (Sig.sub x (memberNoise draw g std level x i)))) := by
  unfold ensembleTraceLevel
  rw [ensemble_member_noise σ p draw g S .single N _ x hσ i hi, ensemble_member_noise σ p draw g S .flip N _ x hσ i hi]
  exact ⟨rfl, rfl⟩

/-- THE SCALE LAW OF THE NOISE: the array added to member `i` for the input `c • x` is `c` times the array added
    to member `i` for `x` — for every factor at which `std` is homogeneous, in particular every `c > 0`
    however small. -/
theorem ensemble_member_noise_scales (draw : ρ → Sig × ρ) (g : ρ) (std : Sig → Rat) (level c : Rat) (x : Sig)
    (hstd : std (Sig.smul c x) = c * std x) (i : Nat) :
    memberNoise draw g std level (Sig.smul c x) i = Sig.smul c (memberNoise draw g std level x i) := by
  unfold memberNoise
  rw [noise_scale_linear std level c x hstd, smul_smul]

/-- NO ABSOLUTE THRESHOLD: if the requested level is non-zero and `x` is not constant (`std x ≠ 0`), then for
    EVERY non-zero factor `c` (tiny ones included) the noise amplitude of `c • x` is non-zero, every member
    receives a non-zero noise array (its draw being non-zero) and two different members sift different signals,
    `c•x + noise_i ≠ c•x + noise_j` and `c•x − noise_i ≠ c•x − noise_j`: the ensemble never degenerates to
    copies of the bare input. -/
theorem ensemble_noise_never_negligible (draw : ρ → Sig × ρ) (g : ρ) (std : Sig → Rat) (level c : Rat) (x : Sig)
    (hstd : std (Sig.smul c x) = c * std x) (hc : c ≠ 0) (hl : level ≠ 0) (hsd : std x ≠ 0)
    (hinj : Function.Injective (nthDraw draw g)) (hdraw : ∀ i, (nthDraw draw g i).length = x.length) :
    noiseScale std level (Sig.smul c x) ≠ 0 ∧
    (∀ i, nthDraw draw g i ≠ Sig.zeros x.length →
      memberNoise draw g std level (Sig.smul c x) i ≠ Sig.zeros x.length ∧
      Sig.add (Sig.smul c x) (memberNoise draw g std level (Sig.smul c x) i) ≠ Sig.smul c x) ∧
    ∀ i j, i ≠ j →
      Sig.add (Sig.smul c x) (memberNoise draw g std level (Sig.smul c x) i)
        ≠ Sig.add (Sig.smul c x) (memberNoise draw g std level (Sig.smul c x) j) ∧
      Sig.sub (Sig.smul c x) (memberNoise draw g std level (Sig.smul c x) i)
        ≠ Sig.sub (Sig.smul c x) (memberNoise draw g std level (Sig.smul c x) j) := by
  have hs : noiseScale std level (Sig.smul c x) ≠ 0 := by
    rw [noise_scale_linear std level c x hstd]
    unfold noiseScale
    exact mul_ne_zero hc (mul_ne_zero hsd hl)
  have hlen : (Sig.smul c x).length = x.length := length_smul' c x
  have hl' : ∀ k, (memberNoise draw g std level (Sig.smul c x) k).length = (Sig.smul c x).length := fun k => by
    unfold memberNoise; rw [length_smul', hdraw k, hlen]
  refine ⟨hs, ?_, ?_⟩
  · intro i hi
    have h1 : memberNoise draw g std level (Sig.smul c x) i ≠ Sig.zeros x.length := by
      intro h
      apply hi
      apply smul_injective _ hs
      unfold memberNoise at h
      rw [h, Sift.smul_zeros]
    refine ⟨h1, ?_⟩
    intro h
    apply h1
    have hz : Sig.add (Sig.smul c x) (Sig.zeros (Sig.smul c x).length) = Sig.smul c x := Sig.add_zeros _
    rw [← hlen]
    exact add_left_cancel (Sig.smul c x) _ _ (hl' i) (by simp [Sig.zeros]) (h.trans hz.symm)
  · intro i j hij
    refine ⟨?_, ?_⟩
    · intro h
      exact hij (hinj (smul_injective _ hs (add_left_cancel _ _ _ (hl' i) (hl' j) h)))
    · intro h
      exact hij (hinj (smul_injective _ hs (sub_left_cancel _ _ _ (hl' i) (hl' j) h)))

/-- THE SCALE LAW OF THE RESULT: if the classic sift commutes with the factor `c` (C02: `S' (c • y) = c • S y` column
    by column; `S' = S` for a scale-free sift, `S'` = the sift with `sift_thresh` scaled by `|c|` in general — the one
    absolute number in the classic sift) and `std` is homogeneous at `c`, then
    `ensemble_sift (c • x) = c • ensemble_sift x`, column by column, exactly — both noise modes, every ensemble size,
    level, generator and pair of schedules.  (With the same draws the members of `c • x` are `c` times the members of
    `x`; a noise amplitude that is not linear in the amplitude of `x` breaks this whatever `S` is.) -/
theorem ensemble_scale_law (σ σ' : Schedule) (p p' : Nat) (draw : ρ → Sig × ρ) (g : ρ) (S S' : Sig → List Sig)
    (mode : Mode) (N : Nat) (std : Sig → Rat) (level c : Rat) (x : Sig) (hσ : σ.Valid N p) (hσ' : σ'.Valid N p')
    (hstd : std (Sig.smul c x) = c * std x) (hS : ∀ y, S' (Sig.smul c y) = (S y).map (Sig.smul c)) :
    ensembleSiftLevel σ draw g S' mode N std level (Sig.smul c x)
      = (ensembleSiftLevel σ' draw g S mode N std level x).map (Sig.smul c) := by
  unfold ensembleSiftLevel
  rw [noise_scale_linear std level c x hstd, ensembleSift_scale σ p draw g S S' c hS mode N _ x hσ,
    (ensemble_schedule_indep σ σ' p p' draw g S mode N _ x hσ hσ').2]
  rfl

/-- … and member by member: the decomposition of member `i` of `c • x` is `c` times that of member `i` of `x`. -/
theorem ensemble_members_scale (σ σ' : Schedule) (p p' : Nat) (draw : ρ → Sig × ρ) (g : ρ) (S S' : Sig → List Sig)
    (mode : Mode) (N : Nat) (std : Sig → Rat) (level c : Rat) (x : Sig) (hσ : σ.Valid N p) (hσ' : σ'.Valid N p')
    (hstd : std (Sig.smul c x) = c * std x) (hS : ∀ y, S' (Sig.smul c y) = (S y).map (Sig.smul c))
    (i : Nat) (hi : i < N) :
    ((ensembleTraceLevel σ draw g S' mode N std level (Sig.smul c x))[i]?).map (·.2)
      = ((ensembleTraceLevel σ' draw g S mode N std level x)[i]?).map (fun m => m.2.map (Sig.smul c)) := by
  unfold ensembleTraceLevel
  rw [ensemble_member_noise σ p draw g S' mode N _ _ hσ i hi, ensemble_member_noise σ' p' draw g S mode N _ x hσ' i hi,
    noise_scale_linear std level c x hstd]
  simp only [Option.map_some, Option.some.injEq]
  exact siftWithNoise_scale S S' c hS mode _ x _

/-- The scale law over the classic sift of the Sift model (C02.sift_smul): for a single-IMF extraction that commutes
    with the factor `c ≠ 0` (`hX`; C02.getNextImf_smul derives it from homogeneous envelopes and scale-free stop rules),
    the ensemble sift of `c • x` run with `sift_thresh = |c|·thr` is `c` times the ensemble sift of `x` run with `thr`
    — every cap, fuel, noise mode, ensemble size, level, generator and schedules. -/
theorem ensemble_scale_law_classic_sift (σ σ' : Schedule) (p p' : Nat) (draw : ρ → Sig × ρ) (g : ρ)
    (X X' : Sig → Option (Sig × Bool)) (c : Rat) (hc : c ≠ 0)
    (hX : ∀ y, X' (Sig.smul c y) = (X y).map fun r => (Sig.smul c r.1, r.2))
    (thr : Rat) (cap : Option Nat) (fuel : Nat) (mode : Mode) (N : Nat) (std : Sig → Rat) (level : Rat) (x : Sig)
    (hσ : σ.Valid N p) (hσ' : σ'.Valid N p') (hstd : std (Sig.smul c x) = c * std x) :
    ensembleSiftLevel σ draw g (fun y => (Sift.sift X' (Rat.abs' c * thr) cap y fuel).1) mode N std level (Sig.smul c x)
      = (ensembleSiftLevel σ' draw g (fun y => (Sift.sift X thr cap y fuel).1) mode N std level x).map (Sig.smul c) :=
  ensemble_scale_law σ σ' p p' draw g _ _ mode N std level c x hσ hσ' hstd
    (fun y => by simp only [C02.sift_smul c hc X X' hX thr cap y fuel])

/-- Complete ensemble: the parent's noise matrix at EVERY stage is linear in the amplitude of the signal —
    stage `k` of `c • x` holds `c` times the columns of stage `k` of `x` (noise-only first IMF `Fn` commuting with
    `c`) — and so is the whole result: `complete_ensemble_sift (c • x) = c • complete_ensemble_sift x` (components
    and returned noise), for every number of stages, matrix, mode and pair of schedule families. -/
theorem ceemd_scale_law (σ σ' : Nat → Schedule) (p p' : Nat → Nat) (F Fn : Sig → Sig) (mode : Mode)
    (std : Sig → Rat) (level c : Rat) (M : List Sig) (x : Sig) (stages : Nat)
    (hσ : ∀ k, (σ k).Valid M.length (p k)) (hσ' : ∀ k, (σ' k).Valid M.length (p' k))
    (hstd : std (Sig.smul c x) = c * std x)
    (hF : ∀ y, F (Sig.smul c y) = Sig.smul c (F y)) (hFn : ∀ y, Fn (Sig.smul c y) = Sig.smul c (Fn y)) :
    (∀ k, stageNoise Fn (noiseScale std level (Sig.smul c x)) M k
        = (stageNoise Fn (noiseScale std level x) M k).map (Sig.smul c)) ∧
    ceemdLevel σ F Fn mode std level M (Sig.smul c x) stages
      = ((ceemdLevel σ' F Fn mode std level M x stages).1.map (Sig.smul c),
         (ceemdLevel σ' F Fn mode std level M x stages).2.map (Sig.smul c)) := by
  have hM : ∀ s : Rat, (M.map (Sig.smul s)).length = M.length := fun s => by simp
  have hspec : ∀ (τ : Nat → Schedule) (q : Nat → Nat), (∀ k, (τ k).Valid M.length (q k)) → ∀ (s : Rat) (y : Sig),
      ceemd τ F Fn mode s M y stages =
        specLoop F Fn mode y stages [stageImf F mode none y (M.map (Sig.smul s))]
          ((M.map (Sig.smul s)).map (noiseResidual Fn)) := by
    intro τ q hτ s y
    unfold ceemd
    simp only []
    rw [ceemdImf_eq (τ 0) (q 0) F mode none y _ (hM s ▸ hτ 0), ceemdNoiseStep_eq (τ 1) (q 1) Fn _ (hM s ▸ hτ 1)]
    exact ceemdLoop_eq τ q F Fn mode y M.length hτ stages 2 _ _ (by simp)
  have hres : ∀ k ν, residualPow Fn k (Sig.smul c ν) = Sig.smul c (residualPow Fn k ν) := by
    intro k
    induction k with
    | zero => intro ν; rfl
    | succ k ih => intro ν; simp only [residualPow]; rw [noiseResidual_scale Fn c hFn, ih]
  have hmat : M.map (Sig.smul (c * noiseScale std level x)) = (M.map (Sig.smul (noiseScale std level x))).map (Sig.smul c) := by
    rw [List.map_map]
    apply List.map_congr_left
    intro m _
    exact (smul_smul c _ m).symm
  refine ⟨?_, ?_⟩
  · intro k
    unfold stageNoise
    rw [noise_scale_linear std level c x hstd, List.map_map]
    apply List.map_congr_left
    intro m _
    simp only [Function.comp]
    rw [← smul_smul, hres]
  · unfold ceemdLevel
    rw [noise_scale_linear std level c x hstd, hspec σ p hσ, hspec σ' p' hσ', hmat]
    have h2 : ∀ L : List Sig, (L.map (Sig.smul c)).map (noiseResidual Fn) = (L.map (noiseResidual Fn)).map (Sig.smul c) := by
      intro L
      rw [List.map_map, List.map_map]
      apply List.map_congr_left
      intro ν _
      exact noiseResidual_scale Fn c hFn ν
    rw [h2, stageImf_scale F c hF]
    exact specLoop_scale F Fn c hF hFn mode x stages [_] _

-- non-vacuity: a homogeneous `std` (mean absolute value·… here simply the abs-sum, homogeneous for c ≥ 0), a sift
-- that commutes with every factor (one column: the signal itself), counter draws; the scaled run on numbers:
-- x = [3, -1], std x = 4, level 1/2 → noise scale 2; for 1/1000 • x the scale is 2/1000 — not zero
example : noiseScale Sig.absSum (1/2) [3, -1] = 2 ∧ noiseScale Sig.absSum (1/2) (Sig.smul (1/1000) [3, -1]) = 2/1000 := by
  decide +kernel
example : Sig.absSum (Sig.smul (1/1000) [3, -1]) = (1/1000) * Sig.absSum [3, -1] := by decide +kernel
example : ∀ y, (fun y : Sig => [y]) (Sig.smul (1/1000) y) = ((fun y : Sig => [y]) y).map (Sig.smul (1/1000)) := fun _ => rfl
-- an extraction that commutes with every factor (hypothesis `hX` of `ensemble_scale_law_classic_sift`): return the input, flag cleared
example : ∀ (c : Rat) (y : Sig), (fun y : Sig => some (y, false)) (Sig.smul c y)
    = ((fun y : Sig => some (y, false)) y).map fun r => (Sig.smul c r.1, r.2) := fun _ _ => rfl
example : ensembleSiftLevel σex counterDraw 0 (fun y => [y]) .single 4 Sig.absSum (1/2) [3]
    = [[3 + (3 * (1/2)) * ((0 + 1 + 2 + 3) / 4)]] := by decide +kernel

end C08
