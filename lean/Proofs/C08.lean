/-
  C08 — ensemble sifts average genuinely independent noise realisations.
  Property theorems only (helper lemmas: Proofs/Lemmas/{EnsemblePool,MaskSig,Ensemble}.lean).
  Statements are about the executable model `EmdModel.Ensemble`: abstract generator `draw`, abstract
  classic sift `S`, worker pool with fork semantics; for every ensemble size, number of workers,
  schedule (execution order × job→worker assignment), noise mode, noise scale and signal.

  PARTIAL (DESIGN §10): "every schedule" is every schedule of the pool *model*; the real OS scheduler is
  sampled by the correspondence run, not enumerated.
-/
import Proofs.Lemmas.Ensemble
import Proofs.Lemmas.ComposeEnsemble

namespace C08
open Pool Ensemble

variable {ρ : Type}

/-- `Pool.starmap` of a pure job is `map` for every schedule (shared with C07). -/
theorem pool_map_schedule_indep {α β : Type} (σ : Schedule) (p : Nat) (f : α → β) (args : List α)
    (hσ : σ.Valid args.length p) : runPool σ f args = args.map f :=
  runPool_eq_map σ args.length p f args rfl hσ

/-- Repaired code (noise drawn by the parent): under every schedule, member `i` is sifted with the `i`-th
    array the parent's generator hands out — the noise observed at the member is that array. -/
theorem ensemble_member_noise (σ : Schedule) (p : Nat) (draw : ρ → Sig × ρ) (g : ρ) (S : Sig → List Sig)
    (mode : Mode) (N : Nat) (scale : Rat) (x : Sig) (hσ : σ.Valid N p) (i : Nat) (hi : i < N) :
    (ensembleTrace σ draw g S mode N scale x)[i]? =
      some (nthDraw draw g i, siftWithNoise S mode (some scale) x (nthDraw draw g i)) := by
  rw [ensembleTrace_eq σ p draw g S mode N scale x hσ]
  simp [hi]

/-- Every member has its own noise realisation: for every ensemble size, number of workers and schedule,
    two different members are sifted with different arrays (successive draws of a generator being distinct). -/
theorem ensemble_noise_distinct (σ : Schedule) (p : Nat) (draw : ρ → Sig × ρ) (g : ρ) (S : Sig → List Sig)
    (mode : Mode) (N : Nat) (scale : Rat) (x : Sig) (hσ : σ.Valid N p)
    (hinj : Function.Injective (nthDraw draw g)) (i j : Nat) (hi : i < N) (hj : j < N) (hij : i ≠ j) :
    ((ensembleTrace σ draw g S mode N scale x)[i]?).map (·.1) ≠
      ((ensembleTrace σ draw g S mode N scale x)[j]?).map (·.1) := by
  rw [ensemble_member_noise σ p draw g S mode N scale x hσ i hi,
    ensemble_member_noise σ p draw g S mode N scale x hσ j hj]
  intro h
  simp only [Option.map_some, Option.some.injEq] at h
  exact hij (hinj h)

/-- The whole ensemble (members' noises, decompositions, mean) is the same under any two schedules. -/
theorem ensemble_schedule_indep (σ σ' : Schedule) (p p' : Nat) (draw : ρ → Sig × ρ) (g : ρ) (S : Sig → List Sig)
    (mode : Mode) (N : Nat) (scale : Rat) (x : Sig) (hσ : σ.Valid N p) (hσ' : σ'.Valid N p') :
    ensembleTrace σ draw g S mode N scale x = ensembleTrace σ' draw g S mode N scale x ∧
    ensembleSift σ draw g S mode N scale x = ensembleSift σ' draw g S mode N scale x := by
  have h : ensembleTrace σ draw g S mode N scale x = ensembleTrace σ' draw g S mode N scale x := by
    rw [ensembleTrace_eq σ p draw g S mode N scale x hσ, ensembleTrace_eq σ' p' draw g S mode N scale x hσ']
  exact ⟨h, by unfold ensembleSift; rw [h]⟩

/-- Pinned code (noise drawn inside the forked worker): member `j` receives the draw whose number is the
    rank of job `j` among the jobs executed by *its own worker* — the worker's private copy of the
    generator starts from the parent's state. -/
theorem forkdraw_member_noise (σ : Schedule) (p : Nat) (draw : ρ → Sig × ρ) (g : ρ) (S : Sig → List Sig)
    (mode : Mode) (N : Nat) (scale : Rat) (x : Sig) (hσ : σ.Valid N p) (j : Nat) (hj : j < N) :
    ((ensembleTraceForkDraw σ draw g S mode N scale x)[j]?).map (·.1) =
      some (nthDraw draw g (rankInWorker σ N j)) := by
  rw [ensembleTraceForkDraw_eq σ p draw g S mode N scale x hσ]
  simp [hj]

/-- Negation witness for the pinned code (DESIGN §9-D7): with at least two members on at least two workers,
    whatever the generator and the signal, the round-robin schedule gives members 0 and 1 the *same* noise
    array (both are the first job of their worker).  Replayed on the real code by corpus case
    `ensemble` #1 (4 members on 4 workers: one distinct array before the repair). -/
theorem ensemble_noise_shared_forkdraw_witness (draw : ρ → Sig × ρ) (g : ρ) (S : Sig → List Sig) (mode : Mode)
    (N p : Nat) (scale : Rat) (x : Sig) (hN : 2 ≤ N) (hp : 2 ≤ p) :
    (Schedule.roundRobin N p).Valid N p ∧
    ((ensembleTraceForkDraw (Schedule.roundRobin N p) draw g S mode N scale x)[0]?).map (·.1) =
      ((ensembleTraceForkDraw (Schedule.roundRobin N p) draw g S mode N scale x)[1]?).map (·.1) := by
  have hv := roundRobin_valid N p (by omega)
  refine ⟨hv, ?_⟩
  rw [forkdraw_member_noise _ p draw g S mode N scale x hv 0 (by omega),
    forkdraw_member_noise _ p draw g S mode N scale x hv 1 (by omega)]
  have h0 : rankInWorker (Schedule.roundRobin N p) N 0 = 0 := by
    obtain ⟨n, rfl⟩ : ∃ n, N = n + 2 := ⟨N - 2, by omega⟩
    simp [rankInWorker, Schedule.roundRobin, jobsOn, List.range_succ_eq_map]
  have h1 : rankInWorker (Schedule.roundRobin N p) N 1 = 0 := by
    obtain ⟨n, rfl⟩ : ∃ n, N = n + 2 := ⟨N - 2, by omega⟩
    have : ¬ p = 1 := by omega
    simp [rankInWorker, Schedule.roundRobin, jobsOn, List.range_succ_eq_map, this]
  rw [h0, h1]

/-- The ensemble result is the per-IMF mean over the members: column `j` is the mean over `i < N` of column `j`
    of member `i` (a column a member does not have counting as zero), for every schedule. -/
theorem ensemble_mean (σ : Schedule) (p : Nat) (draw : ρ → Sig × ρ) (g : ρ) (S : Sig → List Sig)
    (mode : Mode) (N : Nat) (scale : Rat) (x : Sig) (hσ : σ.Valid N p) :
    ensembleSift σ draw g S mode N scale x =
      (List.range (width draw g S mode N scale x)).map fun j =>
        meanOver x.length ((List.range N).map fun i => colOr x.length (member draw g S mode scale x i) j) := by
  unfold ensembleSift ensembleMean width
  rw [ensembleTrace_eq σ p draw g S mode N scale x hσ]
  simp only [List.map_map]
  rfl

/-- … sample by sample: `out[j][t] = (Σ_{i<N} member_i[j][t]) / N`  (sift columns of the signal's length). -/
theorem ensemble_mean_pointwise (σ : Schedule) (p : Nat) (draw : ρ → Sig × ρ) (g : ρ) (S : Sig → List Sig)
    (mode : Mode) (N : Nat) (scale : Rat) (x : Sig) (hσ : σ.Valid N p)
    (hS : ∀ y c, c ∈ S y → c.length = x.length)
    (j t : Nat) (hj : j < width draw g S mode N scale x) (ht : t < x.length) :
    ((ensembleSift σ draw g S mode N scale x)[j]?).map (fun c => Sig.sval c t) =
      some (((List.range N).map fun i => Sig.sval (colOr x.length (member draw g S mode scale x i) j) t).sum / (N : Rat)) := by
  rw [ensemble_mean σ p draw g S mode N scale x hσ]
  simp only [List.getElem?_map, List.getElem?_range hj, Option.map_some]
  rw [sval_meanOver x.length t _ ht]
  · simp [List.map_map, Function.comp_def]
  · intro c hc
    obtain ⟨i, _, rfl⟩ := List.mem_map.mp hc
    exact length_colOr _ _ _ (mem_siftWithNoise_length S mode _ x _ hS)

/-- (Single mode: a member is `S (x + c·ν)` by definition of `siftWithNoise`.)
    Flip mode: a member is the mean of the +noise and −noise decompositions, column by column and sample by
    sample (`S(x+cν)[j][t] + S(x−cν)[j][t]) / 2`); it has as many columns as the wider of the two. -/
theorem flip_member_mean (S : Sig → List Sig) (c : Rat) (x ν : Sig) (hS : ∀ y col, col ∈ S y → col.length = x.length) :
    (siftWithNoise S .flip (some c) x ν).length
        = max (S (Sig.add x (Sig.smul c ν))).length (S (Sig.sub x (Sig.smul c ν))).length ∧
    ∀ j t, t < x.length →
      Sig.sval (colOr x.length (siftWithNoise S .flip (some c) x ν) j) t =
        (Sig.sval (colOr x.length (S (Sig.add x (Sig.smul c ν))) j) t +
         Sig.sval (colOr x.length (S (Sig.sub x (Sig.smul c ν))) j) t) / 2 := by
  refine ⟨by simp [siftWithNoise, length_flipMean], ?_⟩
  intro j t ht
  exact sval_flipMean x.length _ _ j t ht (hS _) (hS _)

/-- Zero noise amplitude: every member is exactly the classic sift of the signal and the ensemble result *is*
    the classic sift (same columns, same count, exact in ℚ) — in both noise modes, for every ensemble size ≥ 1,
    every generator and every schedule.  (`S` carries the cap: the same cap on both sides.) -/
theorem ensemble_zero_noise_eq_sift (σ : Schedule) (p : Nat) (draw : ρ → Sig × ρ) (g : ρ) (S : Sig → List Sig)
    (mode : Mode) (N : Nat) (x : Sig) (hσ : σ.Valid N p) (hN : 0 < N)
    (hdraw : ∀ i, (nthDraw draw g i).length = x.length) (hS : ∀ c, c ∈ S x → c.length = x.length) :
    (∀ i, i < N → (ensembleTrace σ draw g S mode N 0 x)[i]?.map (·.2) = some (S x)) ∧
    ensembleSift σ draw g S mode N 0 x = S x := by
  have hmem : ∀ i, member draw g S mode 0 x i = S x := fun i => siftWithNoise_zero S mode x _ (hdraw i)
  refine ⟨?_, ?_⟩
  · intro i hi
    rw [ensemble_member_noise σ p draw g S mode N 0 x hσ i hi]
    simpa [member] using hmem i
  · rw [ensemble_mean σ p draw g S mode N 0 x hσ]
    have hw : width draw g S mode N 0 x = (S x).length := by
      unfold width
      have : (List.range N).map (member draw g S mode 0 x) = List.replicate N (S x) := by
        rw [List.eq_replicate_iff]
        exact ⟨by simp, fun r hr => by obtain ⟨i, _, rfl⟩ := List.mem_map.mp hr; exact hmem i⟩
      rw [this, maxWidth_replicate N (S x) hN]
    rw [hw, ← map_colOr_range x.length (S x)]
    simp only [List.length_map, List.length_range]
    apply List.map_congr_left
    intro j _
    have : ((List.range N).map fun i => colOr x.length (member draw g S mode 0 x i) j)
        = List.replicate N (colOr x.length (S x) j) := by
      rw [List.eq_replicate_iff]
      exact ⟨by simp, fun r hr => by obtain ⟨i, _, rfl⟩ := List.mem_map.mp hr; rw [hmem i]⟩
    rw [this]
    exact meanOver_replicate x.length N _ hN (length_colOr _ _ _ hS)

/-! ### complete ensemble -/

/-- Complete ensemble, one fan-out: for every schedule, member `i` is sifted with column `i` of the parent's
    noise matrix (and returns the first IMF of residual ± that column). -/
theorem ceemd_noise_by_column (σ : Schedule) (p : Nat) (F : Sig → Sig) (mode : Mode) (scale : Option Rat)
    (proto : Sig) (noise : List Sig) (hσ : σ.Valid noise.length p) (i : Nat) :
    (ceemdMembers σ F mode scale proto noise)[i]? =
      (noise[i]?).map fun ν => (ν, siftWithNoise (fun y => [F y]) mode scale proto ν) := by
  rw [ceemdMembers_eq σ p F mode scale proto noise hσ, List.getElem?_map]

/-- … hence distinct columns of the matrix give the members pairwise different noise, for every schedule. -/
theorem ceemd_noise_distinct (σ : Schedule) (p : Nat) (F : Sig → Sig) (mode : Mode) (scale : Option Rat)
    (proto : Sig) (noise : List Sig) (hσ : σ.Valid noise.length p) (hd : noise.Nodup)
    (i j : Nat) (hi : i < noise.length) (hj : j < noise.length) (hij : i ≠ j) :
    ((ceemdMembers σ F mode scale proto noise)[i]?).map (·.1) ≠ ((ceemdMembers σ F mode scale proto noise)[j]?).map (·.1) := by
  rw [ceemd_noise_by_column σ p F mode scale proto noise hσ, ceemd_noise_by_column σ p F mode scale proto noise hσ,
    List.getElem?_eq_getElem hi, List.getElem?_eq_getElem hj]
  simp only [Option.map_some, ne_eq, Option.some.injEq]
  intro h
  exact hij ((List.getElem_inj hd).mp h)

/-- Complete ensemble, whole run (`stages` loop iterations, any family of schedules, one per `starmap`):
    * the returned noise matrix has column `i` = the (stages+1)-fold first-IMF residual of `scale · M_i`;
    * `stages + 1` columns are returned; column 0 is the mean over the members of the first IMF of
      `x ± scale·(scale·M_i)` (the code scales the already scaled matrix again in the first fan-out);
    * column `k+1` is the mean over the members of the first IMF of
      `(x − Σ earlier columns) ± (k+1)-fold residual of scale·M_i` — member `i` always uses column `i`. -/
theorem ceemd_stage_mean (σ : Nat → Schedule) (p : Nat → Nat) (F Fn : Sig → Sig) (mode : Mode) (scale : Rat)
    (M : List Sig) (x : Sig) (stages : Nat) (hσ : ∀ c, (σ c).Valid M.length (p c)) :
    (ceemd σ F Fn mode scale M x stages).2 = (M.map fun m => residualPow Fn (stages + 1) (Sig.smul scale m)) ∧
    (ceemd σ F Fn mode scale M x stages).1.length = stages + 1 ∧
    (ceemd σ F Fn mode scale M x stages).1[0]? = some (stageImf F mode (some scale) x (M.map (Sig.smul scale))) ∧
    ∀ k, k < stages → (ceemd σ F Fn mode scale M x stages).1[k + 1]? =
      some (stageImf F mode none
        (Sig.sub x (Sig.vsum x.length ((ceemd σ F Fn mode scale M x stages).1.take (k + 1))))
        (M.map fun m => residualPow Fn (k + 1) (Sig.smul scale m))) := by
  have hM : (M.map (Sig.smul scale)).length = M.length := by simp
  have h0 : ceemd σ F Fn mode scale M x stages =
      specLoop F Fn mode x stages [stageImf F mode (some scale) x (M.map (Sig.smul scale))]
        ((M.map (Sig.smul scale)).map (noiseResidual Fn)) := by
    unfold ceemd
    simp only []
    rw [ceemdImf_eq (σ 0) (p 0) F mode (some scale) x _ (hM ▸ hσ 0),
      ceemdNoiseStep_eq (σ 1) (p 1) Fn _ (hM ▸ hσ 1)]
    exact ceemdLoop_eq σ p F Fn mode x M.length hσ stages 2 _ _ (by simp)
  rw [h0]
  refine ⟨?_, ?_, ?_, ?_⟩
  · rw [specLoop_noise]
    simp only [List.map_map]
    rfl
  · rw [specLoop_length]; simp; omega
  · obtain ⟨rest, h⟩ := specLoop_prefix F Fn mode x stages [stageImf F mode (some scale) x (M.map (Sig.smul scale))]
      ((M.map (Sig.smul scale)).map (noiseResidual Fn))
    rw [h]; rfl
  · intro k hk
    have := specLoop_col F Fn mode x stages [stageImf F mode (some scale) x (M.map (Sig.smul scale))]
      ((M.map (Sig.smul scale)).map (noiseResidual Fn)) k hk
    simp only [List.length_singleton] at this
    rw [Nat.add_comm 1 k] at this
    rw [this]
    simp only [List.map_map]
    rfl

/-! Non-vacuity: the hypotheses are satisfiable on concrete non-trivial inputs. -/

/-- four members on two workers, executed out of order -/
def σex : Schedule := { order := [3, 0, 2, 1], worker := fun j => j % 2 }
example : σex.Valid 4 2 := ⟨by decide, fun j _ => Nat.mod_lt j (by decide)⟩

-- a generator whose successive draws are distinct (the driver's counter generator)
example : Function.Injective (nthDraw counterDraw 0) := by
  intro a b h
  rw [nthDraw_counter, nthDraw_counter] at h
  simp only [Nat.zero_add, List.cons.injEq, and_true] at h
  exact_mod_cast h
-- under the out-of-order schedule the repaired model hands draws 0,1,2,3 to members 0,1,2,3; the pinned model
-- hands out the rank within the worker (worker 0 runs 0 then 2, worker 1 runs 3 then 1, both from the parent state)
example : (ensembleTrace σex counterDraw 0 (fun _ => []) .single 4 1 []).map (·.1) = [[0], [1], [2], [3]] := by decide
example : (ensembleTraceForkDraw σex counterDraw 0 (fun _ => []) .single 4 1 []).map (·.1) = [[0], [1], [1], [0]] := by decide
-- a sift whose columns have the signal's length (hypothesis of the pointwise / flip / zero-noise theorems)
example : ∀ (y c : Sig), c ∈ (fun _ : Sig => [([1, 2, 3] : Sig), [0, 0, 1]]) y → c.length = ([4, 5, 6] : Sig).length := by
  intro y c hc; simp at hc; rcases hc with rfl | rfl <;> rfl
-- a noise matrix with distinct columns (hypothesis of ceemd_noise_distinct)
example : ([[1, 2], [2, 1], [0, 0]] : List Sig).Nodup := by decide

/-! ### Cross-model consistency: the ensemble mean of the Sift model (C03), and the classic sift of the
    Sift model (C01/C03/C04) as the oracle `S`

  Linked: `Ensemble.ensembleMean` / `ensembleSift` (this property) with `Sift.ensembleCols` /
  `Sift.ensembleSift` (C03, written independently: `(1/N)·Σ` vs `Σ/N`, width by `foldl`/`if` vs
  `foldr`/`max`); and the oracle `S` instantiated with `ComposeEnsemble.siftCols X thr cap fuel`
  = the columns of `Sift.siftIx` (the classic capped sift of the Sift model), resp. with `get_next_imf`
  (`Sift.extractorIx E D o`) as its extractor.  Helper lemmas: Proofs/Lemmas/ComposeEnsemble.lean. -/

/-- The two models of the ensemble average compute the same columns from the same member decompositions
    (same width = widest member, same zero padding, same mean). -/
theorem ensemble_mean_agrees_with_sift_model (n : Nat) (members : List (List Sig)) :
    Sift.ensembleCols n members = ensembleMean n members :=
  ComposeEnsemble.ensembleCols_eq_ensembleMean n members

/-- `ensemble_sift` of this model (pool, generator; single-noise mode) over the Sift model's classic sift
    is `Sift.ensembleSift` on the scaled draws — for every schedule. -/
theorem ensembleSift_agrees_with_sift_model (σ : Schedule) (p : Nat) (draw : ρ → Sig × ρ) (g : ρ)
    (X : Nat → Sig → Option (Sig × Bool)) (thr : Rat) (cap : Option Nat) (fuel : Nat)
    (N : Nat) (scale : Rat) (x : Sig) (hσ : σ.Valid N p) :
    ensembleSift σ draw g (ComposeEnsemble.siftCols X thr cap fuel) .single N scale x
      = Sift.ensembleSift X thr cap x fuel ((drawN draw N g).map (Sig.smul scale)) :=
  ComposeEnsemble.ensembleSift_agree σ p draw g X thr cap fuel N scale x hσ

/-- C03's cap theorem holds of this model: over a classic sift capped at `k ≥ 1` the ensemble returns at
    most `k` columns, in both noise modes, for every ensemble size, scale, generator and schedule. -/
theorem ensemble_cols_le_cap_classic_sift (σ : Schedule) (p : Nat) (draw : ρ → Sig × ρ) (g : ρ)
    (X : Nat → Sig → Option (Sig × Bool)) (thr : Rat) (k fuel : Nat) (hk : 0 < k)
    (mode : Mode) (N : Nat) (scale : Rat) (x : Sig) (hσ : σ.Valid N p) :
    (ensembleSift σ draw g (ComposeEnsemble.siftCols X thr (some k) fuel) mode N scale x).length ≤ k :=
  ComposeEnsemble.ensembleSift_cols_le_cap σ p draw g X thr k fuel hk mode N scale x hσ

/-- Zero noise, two models together: with the Sift model's classic sift as `S` (any extractor meeting the
    contract `ExtractorOK`, any threshold, cap and fuel) the ensemble result *is* the classic capped sift
    of the input — both noise modes, every ensemble size ≥ 1, generator and schedule. -/
theorem ensemble_zero_noise_eq_classic_sift (σ : Schedule) (p : Nat) (draw : ρ → Sig × ρ) (g : ρ)
    (X : Nat → Sig → Option (Sig × Bool)) (thr : Rat) (cap : Option Nat) (fuel : Nat)
    (mode : Mode) (N : Nat) (x : Sig) (hσ : σ.Valid N p) (hN : 0 < N)
    (hdraw : ∀ i, (nthDraw draw g i).length = x.length) (hX : Sift.ExtractorOK X x.length) :
    ensembleSift σ draw g (ComposeEnsemble.siftCols X thr cap fuel) mode N 0 x = (Sift.siftIx X thr cap x fuel).1 :=
  (ensemble_zero_noise_eq_sift σ p draw g _ mode N x hσ hN hdraw (C01.sift_col_lengths X thr cap x hX fuel)).2

/-- … with `get_next_imf` (C04 model, every envelope oracle with length-preserving envelopes, every stop
    rule) as the extractor: zero noise ⇒ `ensemble_sift` equals `sift`. -/
theorem ensemble_zero_noise_eq_getNextImf_sift (σ : Schedule) (p : Nat) (draw : ρ → Sig × ρ) (g : ρ)
    (E : Nat → Sig → Sift.Env) (hE : Sift.EnvLen E) (D : Sig → Sig → Rat) (o : Sift.ImfOpts)
    (he : o.energyThresh = none) (thr : Rat) (cap : Option Nat) (fuel : Nat)
    (mode : Mode) (N : Nat) (x : Sig) (hσ : σ.Valid N p) (hN : 0 < N)
    (hdraw : ∀ i, (nthDraw draw g i).length = x.length) :
    ensembleSift σ draw g (ComposeEnsemble.siftCols (fun _ => Sift.extractorIx E D o) thr cap fuel) mode N 0 x
      = (Sift.sift (Sift.extractorIx E D o) thr cap x fuel).1 :=
  ensemble_zero_noise_eq_classic_sift σ p draw g _ thr cap fuel mode N x hσ hN hdraw
    (C01.getNextImf_contract E hE D o he x.length)

/-- … hence C01's completeness carries over: with zero noise, when the classic sift ends because the
    extraction cleared the continue flag, the ensemble components sum back to the input exactly. -/
theorem ensemble_zero_noise_complete (σ : Schedule) (p : Nat) (draw : ρ → Sig × ρ) (g : ρ)
    (E : Nat → Sig → Sift.Env) (hE : Sift.EnvLen E) (D : Sig → Sig → Rat) (o : Sift.ImfOpts)
    (he : o.energyThresh = none) (thr : Rat) (cap : Option Nat) (fuel : Nat)
    (mode : Mode) (N : Nat) (x : Sig) (hσ : σ.Valid N p) (hN : 0 < N)
    (hdraw : ∀ i, (nthDraw draw g i).length = x.length) (cols : List Sig) (cp th : Bool)
    (h : Sift.sift (Sift.extractorIx E D o) thr cap x fuel = (cols, .done true cp th)) :
    Sig.vsum x.length
      (ensembleSift σ draw g (ComposeEnsemble.siftCols (fun _ => Sift.extractorIx E D o) thr cap fuel) mode N 0 x) = x := by
  rw [ensemble_zero_noise_eq_getNextImf_sift σ p draw g E hE D o he thr cap fuel mode N x hσ hN hdraw, h]
  exact C01.sift_getNextImf_complete E hE D o he thr cap x fuel cols cp th h

-- non-vacuity: `C01` shows an extractor meeting the contract (`C01.tabX`, 7 samples); a generator whose
-- arrays have the signal's length (hypothesis `hdraw`), schedule `σex` above
example : ∀ i (g : Nat), (nthDraw (fun g : Nat => (List.replicate 7 (g : Rat), g + 1)) g i).length
    = ([1, 3, 2, 5, 4, 7, 7] : Sig).length := by
  intro i
  induction i with
  | zero => intro g; simp [nthDraw]
  | succ k ih => intro g; exact ih _
example : Sift.ensembleCols 2 [[[1, 2], [3, 4]], [[3, 4]]] = ensembleMean 2 [[[1, 2], [3, 4]], [[3, 4]]] ∧
    ensembleMean 2 [[[1, 2], [3, 4]], [[3, 4]]] = [[2, 3], [3/2, 2]] := by decide +kernel

/-! ### Cross-model consistency: `complete_ensemble_sift` in the Sift model (C03) and in this model

  Linked: `Sift.ceemd` (C03: stop logic — fewer than two peaks / cap / mean-abs threshold — around an
  abstract ensemble step) and `Ensemble.ceemd` (this property: noise matrix, members, pools, noise
  residuals, a given number of stages, no stop logic).  `ComposeEnsemble.stepNx F Fn mode scale M` is the
  ensemble step of the former built from the ingredients of the latter. -/

/-- The two models of `complete_ensemble_sift` return the same columns: whatever the Sift model returns
    (any exit), this model run for `(number of columns) − 1` stages returns exactly those columns, for
    every valid family of pool schedules. -/
theorem ceemd_agrees_with_sift_model (σ : Nat → Schedule) (p : Nat → Nat) (F Fn : Sig → Sig) (mode : Mode)
    (scale : Rat) (M : List Sig) (thr : Rat) (cap : Option Nat) (x : Sig) (fuel : Nat)
    (hσ : ∀ c, (σ c).Valid M.length (p c)) :
    (ceemd σ F Fn mode scale M x
        ((Sift.ceemd (ComposeEnsemble.stepNx F Fn mode scale M) thr cap x fuel).1.length - 1)).1
      = (Sift.ceemd (ComposeEnsemble.stepNx F Fn mode scale M) thr cap x fuel).1 :=
  ComposeEnsemble.ceemd_agree σ p F Fn mode scale M thr cap x fuel hσ

/-- … hence the composed `complete_ensemble_sift` (stop logic of C03 + members of C08) respects a cap
    `k ≥ 1` (C03.ceemd_cols_le_cap) and every one of its columns is the member mean that
    `ceemd_stage_mean` describes. -/
theorem ceemd_composed_cols_le_cap (σ : Nat → Schedule) (p : Nat → Nat) (F Fn : Sig → Sig) (mode : Mode)
    (scale : Rat) (M : List Sig) (thr : Rat) (k : Nat) (hk : 0 < k) (x : Sig) (fuel : Nat)
    (hσ : ∀ c, (σ c).Valid M.length (p c)) :
    ∃ stages, stages + 1 ≤ k ∧
      (ceemd σ F Fn mode scale M x stages).1
        = (Sift.ceemd (ComposeEnsemble.stepNx F Fn mode scale M) thr (some k) x fuel).1 := by
  have hcap := C03.ceemd_cols_le_cap (ComposeEnsemble.stepNx F Fn mode scale M) thr x fuel k hk
  exact ⟨_, by omega, ceemd_agrees_with_sift_model σ p F Fn mode scale M thr (some k) x fuel hσ⟩

end C08
