/-
  C07 — masked sift applies documented masks, removes them, is schedule independent.
  Property theorems only (helper lemmas: Proofs/Lemmas/{EnsemblePool,MaskSig,Mask}.lean).
  All statements are about the executable model `EmdModel.Mask` (+ the pool of `EmdModel.Ensemble`),
  for every extractor `X`, every mask table, every signal, every number of phases / workers and
  every schedule.
-/
import Proofs.Lemmas.Mask
import Proofs.Lemmas.EquivarianceMask
import Proofs.Lemmas.ComposeMask
import Proofs.Lemmas.ComposeGni

namespace C07
open Pool Mask

/-- `Pool.starmap` of a pure job is `map`, for every execution order and every assignment of the jobs
    to `p` workers: the result does not depend on `nprocesses` or on what the OS scheduler does. -/
theorem pool_map_schedule_indep {α β : Type} (σ : Schedule) (p : Nat) (f : α → β) (args : List α)
    (hσ : σ.Valid args.length p) : runPool σ f args = args.map f :=
  runPool_eq_map σ args.length p f args rfl hσ

/-- The masked IMF is the mean over the phases of (extraction of signal-plus-mask, minus that same mask). -/
theorem getNextImfMask_spec (X : Sig → Sig × Bool) (mask : Nat → Sig) (p : Nat) (x : Sig) :
    (getNextImfMask X mask p x).1 =
      Ensemble.meanOver x.length ((List.range p).map fun i => Sig.sub (X (Sig.add x (mask i))).1 (mask i)) := by
  rw [getNextImfMask_eq]; rfl

/-- … sample by sample: `imf[t] = (Σ_{i<p} (X(x+m_i)[t] − m_i[t])) / p`
    (extractor and masks of the signal's length). -/
theorem getNextImfMask_spec_pointwise (X : Sig → Sig × Bool) (mask : Nat → Sig) (p : Nat) (x : Sig)
    (hX : ∀ y, (X y).1.length = y.length) (hm : ∀ i, i < p → (mask i).length = x.length)
    (t : Nat) (ht : t < x.length) :
    Sig.sval (getNextImfMask X mask p x).1 t =
      ((List.range p).map fun i => Sig.sval (X (Sig.add x (mask i))).1 t - Sig.sval (mask i) t).sum / (p : Rat) := by
  rw [getNextImfMask_spec]
  have hlen : ∀ c, c ∈ ((List.range p).map fun i => Sig.sub (X (Sig.add x (mask i))).1 (mask i)) → c.length = x.length := by
    intro c hc
    obtain ⟨i, hi, rfl⟩ := List.mem_map.mp hc
    simp [hX, hm i (List.mem_range.mp hi)]
  rw [Ensemble.sval_meanOver x.length t _ ht hlen]
  simp only [List.map_map, List.length_map, List.length_range]
  congr 2
  apply List.map_congr_left
  intro i hi
  have hi' := List.mem_range.mp hi
  simp only [Function.comp]
  rw [Sig.sval_sub _ _ t (by simp [hX, hm i hi']; omega) (by rw [hm i hi']; exact ht)]

/-- The continue flag is the disjunction of the extractions' flags. -/
theorem getNextImfMask_flag (X : Sig → Sig × Bool) (mask : Nat → Sig) (p : Nat) (x : Sig) :
    (getNextImfMask X mask p x).2 = (List.range p).any fun i => (X (Sig.add x (mask i))).2 := by
  rw [getNextImfMask_eq]

/-- `get_next_imf_mask` gives the same IMF and flag on any number of workers under any schedule. -/
theorem getNextImfMask_schedule_indep (σ : Schedule) (nproc : Nat) (X : Sig → Sig × Bool) (mask : Nat → Sig)
    (p : Nat) (x : Sig) (hσ : σ.Valid p nproc) :
    getNextImfMaskPool σ X mask p x = getNextImfMask X mask p x := by
  rw [getNextImfMaskPool_eq σ nproc X mask p x hσ, getNextImfMask_eq]

/-- A zero-amplitude mask reduces to the unmasked extraction (IMF and flag), for any `nphases ≥ 1`. -/
theorem getNextImfMask_zero_amp (X : Sig → Sig × Bool) (unit : Nat → Sig) (p : Nat) (x : Sig) (hp : 0 < p)
    (hu : ∀ i, i < p → (unit i).length = x.length) (hX : (X x).1.length = x.length) :
    getNextImfMask X (fun i => Sig.smul 0 (unit i)) p x = X x := by
  rw [getNextImfMask_eq, phaseAverage_zero_masks X unit p x hp hu hX]
  have : ∀ i, i < p → Sig.add x (Sig.smul 0 (unit i)) = x := by
    intro i hi
    rw [Sig.smul_zero_eq, hu i hi, Sig.add_zeros]
  have hl : ∀ l : List Nat, (∀ i, i ∈ l → i < p) →
      (l.any fun i => (X (Sig.add x (Sig.smul 0 (unit i)))).2) = l.any fun _ => (X x).2 := by
    intro l
    induction l with
    | nil => intro _; rfl
    | cons a t ih =>
      intro h
      simp only [List.any_cons]
      rw [this a (h a (by simp)), ih (fun i hi => h i (by simp [hi]))]
  have hany : ((List.range p).any fun i => (X (Sig.add x (Sig.smul 0 (unit i)))).2) = (X x).2 := by
    rw [hl _ (fun i hi => List.mem_range.mp hi), any_range_const p hp]
  rw [hany]

/-! ### the documented waveform: equally spaced phases of a sinusoid of the mask frequency

  `Mask.waveMask cosTurn n z amp p i` is the i-th mask of `get_next_imf_mask(X, z, amp, nphases = p)` on `n` samples.
  The only oracle is `cosTurn x = cos(2π·x)` (the harness supplies its values on the points the run needs); the
  phase grid `i/p` of a turn, the argument `z·t + i/p` and the amplitude factor are definitions of the model. -/

/-- Equally spaced phases: phase 0 is 0, consecutive phases are `1/p` of a turn (`2π/p`) apart, and the `p`
    phases lie in `[0, 1)` turn — `linspace(0, 2π, p+1)[:p]`. -/
theorem mask_phases_equally_spaced (p : Nat) (hp : 0 < p) :
    maskPhase p 0 = 0 ∧ (∀ i, maskPhase p (i + 1) - maskPhase p i = 1 / (p : Rat)) ∧
    ∀ i, i < p → 0 ≤ maskPhase p i ∧ maskPhase p i < 1 :=
  maskPhase_grid p hp

/-- **The mask waveform.**  Mask `i` at sample `t` is `amp · cos(2π·z·t + 2π·i/p)` = `amp · cosTurn (z·t + i/p)`:
    a sinusoid of frequency `z` cycles per sample, amplitude `amp`, phase `i/p` of a turn; one value per sample. -/
theorem mask_phase_grid (cosTurn : Rat → Rat) (n : Nat) (z amp : Rat) (p i : Nat) :
    waveMask cosTurn n z amp p i
      = (List.range n).map (fun (t : Nat) => amp * cosTurn (z * (t : Rat) + (i : Rat) / (p : Rat))) ∧
    (waveMask cosTurn n z amp p i).length = n ∧
    ∀ t, t < n → Sig.sval (waveMask cosTurn n z amp p i) t = amp * cosTurn (z * (t : Rat) + (i : Rat) / (p : Rat)) :=
  ⟨by simp [waveMask, unitOf, Sig.smul, maskPhase], waveMask_length cosTurn n z amp p i,
   fun t ht => sval_waveMask cosTurn n z amp p i t ht⟩

/-- The masked IMF of `get_next_imf_mask(X, z, amp, nphases = p)`: the mean over the `p` equally spaced phases of
    (extraction of signal plus sinusoidal mask, minus that same mask) — `getNextImfMask_spec` with the waveform. -/
theorem getNextImfMask_wave_spec (X : Sig → Sig × Bool) (cosTurn : Rat → Rat) (z amp : Rat) (p : Nat) (x : Sig) :
    (getNextImfMask X (waveMask cosTurn x.length z amp p) p x).1 =
      Ensemble.meanOver x.length ((List.range p).map fun i =>
        Sig.sub (X (Sig.add x (waveMask cosTurn x.length z amp p i))).1 (waveMask cosTurn x.length z amp p i)) :=
  getNextImfMask_spec X _ p x

/-- For an even number of phases the phase set is closed under the half-turn: mask `i + p/2 (mod p)` is the negated
    mask `i`.  Derived from the single oracle fact `cos(2π(x + 1/2)) = −cos(2πx)` (validated on the cosine table of
    every run); this is the hypothesis `Mask.ShiftClosed` of C02's sign-flip law for the masked sift. -/
theorem mask_shift_closed (cosTurn : Rat → Rat) (hc : ∀ x, cosTurn (x + 1 / 2) = - cosTurn x) (n p : Nat)
    (heven : p % 2 = 0) : ShiftClosed (unitOf cosTurn n) p :=
  unitOf_shiftClosed cosTurn hc n p heven

/-- Frequency ladder: with a first frequency `z` (float, or found by `get_mask_freqs`) and step factor `s`,
    there are exactly `cap` mask frequencies and the k-th one is `z / s^k`; the cap is unchanged. -/
theorem maskFreqs_ladder (z s : Rat) (cap : Nat) :
    (maskFreqs (.first z s) cap).1.length = cap ∧ (maskFreqs (.first z s) cap).2 = cap ∧
    ∀ k, k < cap → (maskFreqs (.first z s) cap).1[k]? = some (z / s ^ k) :=
  maskFreqs_first z s cap

/-- A user list is used as it is, and the cap is lowered to the list length when the list is shorter. -/
theorem maskFreqs_user_list (fs : List Rat) (cap : Nat) :
    (maskFreqs (.list fs) cap).1 = fs ∧ (maskFreqs (.list fs) cap).2 = min cap fs.length :=
  maskFreqs_list fs cap

/-- Amplitude modes: the reference deviation is 1 (absolute), the deviation of the input (ratio of the
    signal; also ratio of the previous IMF at the first layer), or the deviation of the previous column;
    a scalar amplitude applies to every layer, an array is indexed by the layer. -/
theorem maskAmp_modes (std : Sig → Rat) (x : Sig) (prev : Option Sig) (c : Sig) (a : Rat) (as : List Rat) (k : Nat) :
    sdFor std .abs x prev = 1 ∧ sdFor std .ratioSig x prev = std x ∧
    sdFor std .ratioImf x none = std x ∧ sdFor std .ratioImf x (some c) = std c ∧
    ampAt (.scalar a) k = some a ∧ ampAt (.array as) k = as[k]? := by
  cases prev <;> simp [sdFor, ampAt]

/-- Peeling.  If `mask_sift` returns columns `cols` and frequencies `freqs`, then every column `k` is the
    masked extraction (`getNextImfMask`, the phase-average rule above) of the residual
    `x − Σ_{j<k} cols[j]`, with mask frequency `freqs[k]`, `nphases` phases and amplitude
    `amp_k · sd_k` where `amp_k` is the scalar / k-th array amplitude and `sd_k` follows the amplitude
    mode with the previous column `cols[k−1]` — for every schedule of the worker pools. -/
theorem maskSift_peel (σ : Nat → Schedule) (nproc : Nat) (X : Sig → Sig × Bool) (unit : Rat → Nat → Nat → Sig)
    (std : Sig → Rat) (cfg : Cfg) (src : FreqSrc) (cap : Nat) (x : Sig) (cols : List Sig) (freqs : List Rat)
    (hσ : ∀ k, (σ k).Valid cfg.p nproc)
    (h : maskSift σ X unit std cfg src cap x = .ok (cols, freqs)) :
    0 < cols.length ∧ cols.length ≤ freqs.length ∧ cfg.p ≠ 0 ∧
    ∀ k, k < cols.length → ∃ a f, ampAt cfg.amp k = some a ∧ freqs[k]? = some f ∧
      cols[k]? = some (getNextImfMask X
        (fun i => Sig.smul (a * sdFor std cfg.mode x (cols.take k).getLast?) (unit f cfg.p i)) cfg.p
        (Sig.sub x (Sig.vsum x.length (cols.take k)))).1 := by
  unfold maskSift at h
  simp only [] at h
  rw [maskSiftLoop_sched σ nproc X unit std cfg _ x hσ] at h
  split at h
  · rename_i out hout
    injection h with h
    injection h with h1 h2
    subst h1 h2
    obtain ⟨new, e1, e2, e3, e4, e5⟩ := maskSiftLoop_spec X unit std cfg _ x 0 [] _ out rfl hout
    simp only [List.nil_append] at e1
    subst e1
    refine ⟨e2, e3, e4, ?_⟩
    intro k hk
    obtain ⟨a, f, h1, h2, h3⟩ := e5 k hk
    simp only [Nat.zero_add] at h1 h3
    exact ⟨a, f, h1, h2, h3⟩
  · cases h

/-- Peeling with the documented waveform: run on the unit masks of the waveform, every column `k` of `mask_sift`
    is the masked extraction of the residual with the sinusoidal masks
    `amp_k·sd_k · cos(2π·freqs[k]·t + 2π·i/nphases)`, `i = 0 … nphases−1`. -/
theorem maskSift_peel_wave (σ : Nat → Schedule) (nproc : Nat) (X : Sig → Sig × Bool) (cosTurn : Rat → Rat)
    (std : Sig → Rat) (cfg : Cfg) (src : FreqSrc) (cap : Nat) (x : Sig) (cols : List Sig) (freqs : List Rat)
    (hσ : ∀ k, (σ k).Valid cfg.p nproc)
    (h : maskSift σ X (unitOf cosTurn x.length) std cfg src cap x = .ok (cols, freqs)) :
    ∀ k, k < cols.length → ∃ a f, ampAt cfg.amp k = some a ∧ freqs[k]? = some f ∧
      cols[k]? = some (getNextImfMask X
        (waveMask cosTurn x.length f (a * sdFor std cfg.mode x (cols.take k).getLast?) cfg.p) cfg.p
        (Sig.sub x (Sig.vsum x.length (cols.take k)))).1 :=
  (maskSift_peel σ nproc X (unitOf cosTurn x.length) std cfg src cap x cols freqs hσ h).2.2.2

/-- The returned mask frequencies are the ladder / the user list, i.e. (by `maskSift_peel`) exactly the
    ones the layers were extracted with; and the number of columns respects the (lowered) cap. -/
theorem maskSift_returns_used_freqs (σ : Nat → Schedule) (nproc : Nat) (X : Sig → Sig × Bool)
    (unit : Rat → Nat → Nat → Sig) (std : Sig → Rat) (cfg : Cfg) (src : FreqSrc) (cap : Nat) (x : Sig)
    (cols : List Sig) (freqs : List Rat) (hσ : ∀ k, (σ k).Valid cfg.p nproc)
    (h : maskSift σ X unit std cfg src cap x = .ok (cols, freqs)) :
    freqs = (maskFreqs src cap).1 ∧ (0 < (maskFreqs src cap).2 → cols.length ≤ (maskFreqs src cap).2) := by
  unfold maskSift at h
  simp only [] at h
  rw [maskSiftLoop_sched σ nproc X unit std cfg _ x hσ] at h
  split at h
  · rename_i out hout
    injection h with h
    injection h with h1 h2
    subst h1 h2
    exact ⟨rfl, fun hc => maskSiftLoop_le_cap X unit std cfg _ x 0 [] _ out rfl hc hout⟩
  · cases h

/-- `mask_sift` (columns, frequencies or the error) is the same for any two families of schedules:
    identical for any number of worker processes and any interleaving. -/
theorem maskSift_schedule_indep (σ σ' : Nat → Schedule) (nproc nproc' : Nat) (X : Sig → Sig × Bool)
    (unit : Rat → Nat → Nat → Sig) (std : Sig → Rat) (cfg : Cfg) (src : FreqSrc) (cap : Nat) (x : Sig)
    (hσ : ∀ k, (σ k).Valid cfg.p nproc) (hσ' : ∀ k, (σ' k).Valid cfg.p nproc') :
    maskSift σ X unit std cfg src cap x = maskSift σ' X unit std cfg src cap x := by
  unfold maskSift
  simp only []
  rw [maskSiftLoop_sched σ nproc X unit std cfg _ x hσ, maskSiftLoop_sched σ' nproc' X unit std cfg _ x hσ']

/-! Non-vacuity: the hypotheses are satisfiable on concrete non-trivial inputs. -/

/-- three jobs on two workers, executed out of order -/
def σex : Schedule := { order := [2, 0, 1], worker := fun j => j % 2 }
example : σex.Valid 3 2 := ⟨by decide, fun j _ => Nat.mod_lt j (by decide)⟩
example : runPool σex (fun a : Nat => a * a + 1) [3, 4, 5] = [10, 17, 26] := by decide
example : σex.Valid ([3, 4, 5] : List Nat).length 2 := ⟨by decide, fun j _ => Nat.mod_lt j (by decide)⟩
-- an extractor and unit masks of the signal's length (hypotheses of the pointwise / zero-amplitude theorems)
example : ∀ y : Sig, ((fun y : Sig => (y, true)) y).1.length = y.length := fun _ => rfl
example : ∀ i, i < 4 → ((fun (_ : Nat) => ([1, -1, 1] : Sig)) i).length = ([5, 6, 7] : Sig).length := fun _ _ => rfl
-- a cosine oracle with the half-turn antisymmetry (`Mask.sqTurn`, a square wave standing in for cos; `Mask.sqTurn_half`):
-- the hypothesis of `mask_shift_closed` is satisfiable
example (n : Nat) : ShiftClosed (unitOf sqTurn n) 4 := mask_shift_closed sqTurn sqTurn_half n 4 rfl
example : waveMask sqTurn 4 (1/4) 3 2 1 = [-3, -3, 3, 3] := by decide +kernel
example : unitOf sqTurn 4 (1/4) 2 0 = [1, 1, -1, -1] ∧ unitOf sqTurn 4 (1/4) 2 1 = [-1, -1, 1, 1] := by decide +kernel
-- the ladder of the docstring example: 0.4, step 3
example : (maskFreqs (.first (2/5) 3) 3).1[2]? = some ((2/5 : Rat) / 3 ^ 2) := (maskFreqs_ladder (2/5) 3 3).2.2 2 (by decide)
example : (maskFreqs (.list [1/4, 1/8]) 5).2 = 2 := by rw [(maskFreqs_user_list _ _).2]; rfl

-- a run of the model that returns (hypothesis of the peel / used-frequencies theorems): 3 phases on the
-- out-of-order schedule, an extractor that clears the flag; any unit masks, deviation oracle and signal
example (unit : Rat → Nat → Nat → Sig) (std : Sig → Rat) (x : Sig) :
    ∃ cols freqs, maskSift (fun _ => σex) (fun y => (y, false)) unit std
      { mode := .ratioImf, amp := .scalar 1, p := 3, thresh := 0 } (.first (2/5) 2) 4 x = .ok (cols, freqs) :=
  ⟨_, _, rfl⟩

/-! ### Cross-model consistency: this model of `mask_sift` and the peeling loop of the Sift model (C03)

  Linked: `Mask.maskSift` / `Mask.maskSiftLoop` (this property: concrete masks, ladder, amplitude modes,
  recursion on the frequency list, `Except`) and `Sift.maskSift` (C03: the generic `peelLoop` with an
  abstract per-layer extraction `M`, fuel, `effCap`).  `ComposeMask.maskM` is the `M` built from the
  Mask model's ingredients (layer k = number of columns so far: amplitude `ampAt k · sdFor …`, frequency
  `freqs[k]`, `cfg.p` phases on the pool schedule `σ k`; `none` where `mask_sift` raises).
  Helper lemmas: Proofs/Lemmas/ComposeMask.lean. -/

/-- The two independently written models of `mask_sift` agree: an `.ok (cols, freqs)` of the Mask model
    is a regular exit of the Sift-model loop with the same columns for every fuel ≥ `cols.length`, and
    an error of the Mask model is the `.raised` exit of the Sift-model loop. -/
theorem maskSift_agrees_with_sift_model (σ : Nat → Schedule) (X : Sig → Sig × Bool)
    (unit : Rat → Nat → Nat → Sig) (std : Sig → Rat) (cfg : Cfg) (src : FreqSrc) (cap : Nat) (x : Sig) :
    (∀ cols freqs, Mask.maskSift σ X unit std cfg src cap x = .ok (cols, freqs) →
      ∀ fuel, cols.length ≤ fuel → ∃ fl cp th,
        Sift.maskSift (ComposeMask.maskM σ X unit std cfg x freqs) cfg.thresh cap (ComposeMask.nfOf src) x fuel
          = (cols, .done fl cp th)) ∧
    (∀ e, Mask.maskSift σ X unit std cfg src cap x = .error e →
      ∀ fuel, (maskFreqs src cap).1.length < fuel → ∃ out,
        Sift.maskSift (ComposeMask.maskM σ X unit std cfg x (maskFreqs src cap).1) cfg.thresh cap
          (ComposeMask.nfOf src) x fuel = (out, .raised)) :=
  ⟨fun cols freqs h fuel hf => ComposeMask.maskSift_ok σ X unit std cfg src cap x cols freqs h fuel hf,
   fun e h fuel hf => ComposeMask.maskSift_error σ X unit std cfg src cap x e h fuel hf⟩

/-- … as an equivalence: with more fuel than mask frequencies, the Sift-model loop over `maskM` leaves
    regularly with columns `out` iff the Mask model returns `out` (and the ladder / user list). -/
theorem maskSift_iff_sift_model (σ : Nat → Schedule) (X : Sig → Sig × Bool) (unit : Rat → Nat → Nat → Sig)
    (std : Sig → Rat) (cfg : Cfg) (src : FreqSrc) (cap : Nat) (x : Sig) (out : List Sig) (fuel : Nat)
    (hfuel : (maskFreqs src cap).1.length < fuel) :
    (∃ fl cp th, Sift.maskSift (ComposeMask.maskM σ X unit std cfg x (maskFreqs src cap).1) cfg.thresh cap
        (ComposeMask.nfOf src) x fuel = (out, .done fl cp th)) ↔
    Mask.maskSift σ X unit std cfg src cap x = .ok (out, (maskFreqs src cap).1) :=
  ComposeMask.maskSift_iff σ X unit std cfg src cap x out fuel hfuel

/-- C03's cap nesting (`C03.maskSift_cap_prefix`) holds of this model: `mask_sift` capped at `k ≤ K`
    returns exactly the first `k` columns of the run capped at `K` — same masks (the ladder of the smaller
    cap is a prefix of the larger one), amplitudes and schedules. -/
theorem maskSift_cap_nested (σ : Nat → Schedule) (X : Sig → Sig × Bool) (unit : Rat → Nat → Nat → Sig)
    (std : Sig → Rat) (cfg : Cfg) (src : FreqSrc) (k K : Nat) (x : Sig) (c1 c2 : List Sig) (f1 f2 : List Rat)
    (hk : 0 < k) (hK : k ≤ K)
    (h1 : Mask.maskSift σ X unit std cfg src k x = .ok (c1, f1))
    (h2 : Mask.maskSift σ X unit std cfg src K x = .ok (c2, f2)) : c1 = c2.take k :=
  ComposeMask.maskSift_cap_nested σ X unit std cfg src k K x c1 c2 f1 f2 hk hK h1 h2

/-- C03's cap theorem (`C03.maskSift_cols_le_cap`) holds of this model, without a schedule hypothesis:
    never more columns than the cap, nor than the user supplied frequencies. -/
theorem maskSift_cols_le_cap_sift_model (σ : Nat → Schedule) (X : Sig → Sig × Bool)
    (unit : Rat → Nat → Nat → Sig) (std : Sig → Rat) (cfg : Cfg) (src : FreqSrc) (cap : Nat) (x : Sig)
    (cols : List Sig) (freqs : List Rat) (hc : 0 < cap)
    (h : Mask.maskSift σ X unit std cfg src cap x = .ok (cols, freqs)) :
    cols.length ≤ cap ∧ ∀ fs, src = .list fs → cols.length ≤ fs.length := by
  obtain ⟨_, _, _, r⟩ := ComposeMask.maskSift_ok σ X unit std cfg src cap x cols freqs h cols.length (Nat.le_refl _)
  have := C03.maskSift_cols_le_cap (ComposeMask.maskM σ X unit std cfg x freqs) cfg.thresh cap
    (ComposeMask.nfOf src) x cols.length hc (ComposeMask.ok_list_nonempty h)
  rw [r] at this
  refine ⟨this.1, ?_⟩
  intro fs hs
  subst hs
  exact this.2 fs.length rfl

/-- C03's peeling theorem (`C03.maskSift_col_eq_extract`) read on this model: column `k` is the masked
    extraction `maskM` of layer `k` applied to the input minus the first `k` columns. -/
theorem maskSift_col_eq_extract_sift_model (σ : Nat → Schedule) (X : Sig → Sig × Bool)
    (unit : Rat → Nat → Nat → Sig) (std : Sig → Rat) (cfg : Cfg) (src : FreqSrc) (cap : Nat) (x : Sig)
    (cols : List Sig) (freqs : List Rat)
    (h : Mask.maskSift σ X unit std cfg src cap x = .ok (cols, freqs)) :
    ∀ k, k < cols.length → ∃ c f, cols[k]? = some c ∧
      ComposeMask.maskM σ X unit std cfg x freqs (cols.take k) (Sift.resid x (cols.take k)) = some (c, f) := by
  obtain ⟨_, _, _, r⟩ := ComposeMask.maskSift_ok σ X unit std cfg src cap x cols freqs h cols.length (Nat.le_refl _)
  exact C03.maskSift_col_eq_extract _ cfg.thresh cap (ComposeMask.nfOf src) x cols.length cols _ r

-- non-vacuity: a run of the Mask model that returns two columns (cap 2 of a 4-step ladder), and the
-- Sift-model loop over `maskM` on the same data
example : Mask.maskSift (fun _ => σex) (fun y => (y, true)) (fun _ _ _ => [1, -1, 1]) (fun _ => 1)
      { mode := .abs, amp := .scalar 1, p := 3, thresh := 0 } (.first (2/5) 2) 2 [5, 6, 7]
    = .ok ([[5, 6, 7], [0, 0, 0]], [2/5, (2/5 : Rat) / 2 ^ 1]) := ComposeMask.okEq_sound (by decide +kernel)
example : ∃ fl cp th, Sift.maskSift (ComposeMask.maskM (fun _ => σex) (fun y => (y, true)) (fun _ _ _ => [1, -1, 1])
      (fun _ => 1) { mode := .abs, amp := .scalar 1, p := 3, thresh := 0 } [5, 6, 7] [2/5, (2/5 : Rat) / 2 ^ 1])
      0 2 none [5, 6, 7] 2 = ([[5, 6, 7], [0, 0, 0]], .done fl cp th) :=
  (maskSift_agrees_with_sift_model (fun _ => σex) (fun y => (y, true)) (fun _ _ _ => [1, -1, 1]) (fun _ => 1)
    { mode := .abs, amp := .scalar 1, p := 3, thresh := 0 } (.first (2/5) 2) 2 [5, 6, 7]).1 _ _
    (ComposeMask.okEq_sound (by decide +kernel)) 2 (by decide)
-- … and the same ladder capped at 1 returns the first column only (hypotheses of `maskSift_cap_nested`)
example : Mask.maskSift (fun _ => σex) (fun y => (y, true)) (fun _ _ _ => [1, -1, 1]) (fun _ => 1)
      { mode := .abs, amp := .scalar 1, p := 3, thresh := 0 } (.first (2/5) 2) 1 [5, 6, 7]
    = .ok ([[5, 6, 7]], [2/5]) := ComposeMask.okEq_sound (by decide +kernel)

/-! ### Composition: `get_next_imf_mask` over `get_next_imf` of the Sift model (C04) and the Extrema envelopes

  Linked: the abstract extractor `X` of this model is instantiated with `ComposeGni.gniX E D o` =
  `Sift.getNextImf E D o` (envelope oracle `E`, energy oracle `D`, options `o`: stop rule, step, iteration
  limit, energy threshold), and further with `E = Sift.extEnv I w parab` (the envelopes of the Extrema
  model, C05).  `get_next_imf` may raise EMDSiftCovergeError, which propagates out of `get_next_imf_mask`;
  the statements are about calls in which the extractions of the masked signals return (for the fixed-count
  rule that is every call).  Helper lemmas: Proofs/Lemmas/ComposeGni.lean. -/

/-- Phase-average rule for the composed pipeline: if `get_next_imf` returns `(c_i, f_i)` on `x + m_i`,
    the masked IMF is the mean over the phases of `c_i − m_i` and the flag is the disjunction of the `f_i`. -/
theorem getNextImfMask_over_getNextImf_spec (E : Sig → Sift.Env) (D : Sig → Sig → Rat) (o : Sift.ImfOpts)
    (mask : Nat → Sig) (p : Nat) (x : Sig) (cs : Nat → Sig) (fs : Nat → Bool)
    (h : ∀ i, i < p → Sift.getNextImf E D o (Sig.add x (mask i)) = .imf (cs i) (fs i)) :
    getNextImfMask (ComposeGni.gniX E D o) mask p x =
      (Ensemble.meanOver x.length ((List.range p).map fun i => Sig.sub (cs i) (mask i)), (List.range p).any fs) :=
  ComposeGni.getNextImfMask_gni E D o mask p x cs fs h

/-- With the fixed-count stop rule (`max_iters ≥ 1`) no hypothesis is needed: every masked extraction
    returns (C04.fixed_never_convergeError) and the rule above holds. -/
theorem getNextImfMask_over_getNextImf_fixed (E : Sig → Sift.Env) (D : Sig → Sig → Rat) (o : Sift.ImfOpts)
    (hf : o.stop = .fixed) (hm : 0 < o.maxIters) (mask : Nat → Sig) (p : Nat) (x : Sig) :
    ∃ (cs : Nat → Sig) (fs : Nat → Bool),
      (∀ i, Sift.getNextImf E D o (Sig.add x (mask i)) = .imf (cs i) (fs i)) ∧
      getNextImfMask (ComposeGni.gniX E D o) mask p x =
        (Ensemble.meanOver x.length ((List.range p).map fun i => Sig.sub (cs i) (mask i)), (List.range p).any fs) := by
  have hall : ∀ i, Sift.getNextImf E D o (Sig.add x (mask i)) =
      .imf (ComposeGni.gniX E D o (Sig.add x (mask i))).1 (ComposeGni.gniX E D o (Sig.add x (mask i))).2 := by
    intro i
    obtain ⟨c, f, h⟩ := ComposeGni.fixed_total E D o hf hm (Sig.add x (mask i))
    rw [ComposeGni.gniX_of_imf h]; exact h
  exact ⟨_, _, hall, ComposeGni.getNextImfMask_gni E D o mask p x _ _ (fun i _ => hall i)⟩

/-- Zero-amplitude masks over `get_next_imf`: `get_next_imf_mask` returns exactly what `get_next_imf`
    returns on the unmasked signal (IMF and flag), for any `nphases ≥ 1`, every stop rule and options. -/
theorem getNextImfMask_over_getNextImf_zero_amp (E : Sig → Sift.Env) (hE : Sift.EnvLen (fun _ => E))
    (D : Sig → Sig → Rat) (o : Sift.ImfOpts) (unit : Nat → Sig) (p : Nat) (x : Sig) (hp : 0 < p)
    (hu : ∀ i, i < p → (unit i).length = x.length) (c : Sig) (f : Bool)
    (h : Sift.getNextImf E D o x = .imf c f) :
    getNextImfMask (ComposeGni.gniX E D o) (fun i => Sig.smul 0 (unit i)) p x = (c, f) := by
  have hX : (ComposeGni.gniX E D o x).1.length = x.length := by
    rw [ComposeGni.gniX_of_imf h]
    exact C04.result_length (fun _ => E) hE D o x c f h
  rw [getNextImfMask_zero_amp (ComposeGni.gniX E D o) unit p x hp hu hX, ComposeGni.gniX_of_imf h]

/-- … for the whole chain get_padded_extrema → interp_envelope → get_next_imf → get_next_imf_mask
    (envelopes of the Extrema model, only the interpolant abstract).  Pad width ≥ 1: the range in which
    `Sift.extEnv` represents the code (`interp_envelope` never raises there, C05.interpEnvelope_never_raises;
    at `w = 0` the code rejects every oscillatory input, C05.interpEnvelope_pad0_raises). -/
theorem getNextImfMask_pipeline_zero_amp (I : Extrema.Interp) (w : Nat) (_hw : 1 ≤ w) (parab : Bool)
    (D : Sig → Sig → Rat) (o : Sift.ImfOpts) (unit : Nat → Sig) (p : Nat) (x : Sig) (hp : 0 < p)
    (hu : ∀ i, i < p → (unit i).length = x.length) (c : Sig) (f : Bool)
    (h : Sift.getNextImf (Sift.extEnv I w parab) D o x = .imf c f) :
    getNextImfMask (ComposeGni.gniX (Sift.extEnv I w parab) D o) (fun i => Sig.smul 0 (unit i)) p x = (c, f) :=
  getNextImfMask_over_getNextImf_zero_amp _ (Sift.extEnv_len I w parab) D o unit p x hp hu c f h

/-- The continue flag of the composed pipeline (C07 flag rule + C04 flag rule, no energy threshold): the
    masked extraction clears the flag exactly when every masked signal `x + m_i` already lacks an
    envelope — i.e. no phase could be sifted at all. -/
theorem getNextImfMask_over_getNextImf_flag (E : Sig → Sift.Env) (D : Sig → Sig → Rat) (o : Sift.ImfOpts)
    (he : o.energyThresh = none) (hb : 0 < Sift.budget o) (mask : Nat → Sig) (p : Nat) (x : Sig)
    (cs : Nat → Sig) (fs : Nat → Bool)
    (h : ∀ i, i < p → Sift.getNextImf E D o (Sig.add x (mask i)) = .imf (cs i) (fs i)) :
    (getNextImfMask (ComposeGni.gniX E D o) mask p x).2 = false ↔
      ∀ i, i < p → ((E (Sig.add x (mask i))).1 = none ∨ (E (Sig.add x (mask i))).2 = none) := by
  rw [ComposeGni.getNextImfMask_gni E D o mask p x cs fs h]
  simp only [List.any_eq_false, List.mem_range]
  constructor
  · intro hall i hi
    exact (ComposeGni.flag_false_iff_env E D o he hb _ _ _ (h i hi)).mp (by simpa using hall i hi)
  · intro hall i hi
    simpa using (ComposeGni.flag_false_iff_env E D o he hb _ _ _ (h i hi)).mpr (hall i hi)

-- non-vacuity: the toy oracle / options of C04 (fixed count 2): the hypotheses of the fixed-rule theorem
example : (C04.toyO .fixed 2).stop = .fixed ∧ 0 < (C04.toyO .fixed 2).maxIters ∧ 0 < Sift.budget (C04.toyO .fixed 2) :=
  ⟨rfl, by decide, by decide⟩

/-! ### a mask frequency of 0 is a mask (a constant), not "no mask"; the ratio-of-signal amplitude refers to the input

  Only a zero AMPLITUDE reduces to the unmasked extraction (`getNextImfMask_zero_amp`).  A zero FREQUENCY (an entry of
  a user list such as the docstring's `[.4, .2, .1, .05, .025, 0]`) is the constant `amp · cos(2π i / nphases)`, added
  before and subtracted after the extraction like any other mask; a shortcut to the unmasked extraction for
  `mask_freqs[k] == 0` (seeded C07-6) contradicts `getNextImfMask_zero_freq` (witness below).  `mask_sift` treats
  every frequency alike: `maskSift_peel_wave` holds for every entry of the list, zero included. -/

/-- The masks of frequency 0: mask `i` is the constant `amp · cosTurn (i / nphases)` on every sample; with one phase
    (`nphases = 1`, phase 0) the masked IMF is the extraction of the SHIFTED signal minus the shift,
    `X(x + amp·cos 0) − amp·cos 0` — not `X x`. -/
theorem getNextImfMask_zero_freq (X : Sig → Sig × Bool) (cosTurn : Rat → Rat) (amp : Rat) (p : Nat) (x : Sig)
    (hX : ∀ y, (X y).1.length = y.length) :
    (∀ i, waveMask cosTurn x.length 0 amp p i = List.replicate x.length (amp * cosTurn (maskPhase p i))) ∧
    getNextImfMask X (waveMask cosTurn x.length 0 amp 1) 1 x =
      (Sig.sub (X (Sig.add x (List.replicate x.length (amp * cosTurn 0)))).1 (List.replicate x.length (amp * cosTurn 0)),
       (X (Sig.add x (List.replicate x.length (amp * cosTurn 0)))).2) := by
  have hw : ∀ q i, waveMask cosTurn x.length 0 amp q i = List.replicate x.length (amp * cosTurn (maskPhase q i)) := by
    intro q i
    unfold waveMask unitOf Sig.smul
    rw [List.map_map]
    have : ((fun v => amp * v) ∘ fun (t : Nat) => cosTurn (0 * (t : Rat) + maskPhase q i))
        = Function.const Nat (amp * cosTurn (maskPhase q i)) := by
      funext t
      simp only [Function.comp, Function.const, Rat.zero_mul, Rat.zero_add]
    rw [this, List.map_const, List.length_range]
  refine ⟨hw p, ?_⟩
  have h0 : maskPhase 1 0 = 0 := by simp [maskPhase]
  rw [getNextImfMask_eq]
  unfold phaseAverage
  have hr : List.range 1 = [0] := rfl
  simp only [hr, List.map_cons, List.map_nil, List.any_cons, List.any_nil, Bool.or_false, hw 1 0, h0]
  congr 1
  have hlen : (Sig.sub (X (Sig.add x (List.replicate x.length (amp * cosTurn 0)))).1
      (List.replicate x.length (amp * cosTurn 0))).length = x.length := by
    simp [Sig.sub, Sig.add, hX]
  exact Ensemble.meanOver_replicate x.length 1 _ (by omega) hlen

/-- **`ratio_sig`: the amplitude of EVERY mask is the supplied ratio times the deviation of the INPUT signal.**
    If `mask_sift(…, mask_amp_mode='ratio_sig')` returns columns `cols`, then column `k` — for every `k`, not only the
    first — is the masked extraction of the residual with the masks `(a_k · std x) · cos(2π f_k t + 2π i / nphases)`,
    where `a_k` is the scalar / k-th array amplitude AS SUPPLIED and `x` is the input of the call: not the running
    residual, not the previous column, and not an amplitude that earlier layers (or earlier calls) rescaled. -/
theorem maskSift_ratioSig_amplitudes (σ : Nat → Schedule) (nproc : Nat) (X : Sig → Sig × Bool) (cosTurn : Rat → Rat)
    (std : Sig → Rat) (cfg : Cfg) (hm : cfg.mode = .ratioSig) (src : FreqSrc) (cap : Nat) (x : Sig) (cols : List Sig)
    (freqs : List Rat) (hσ : ∀ k, (σ k).Valid cfg.p nproc)
    (h : maskSift σ X (unitOf cosTurn x.length) std cfg src cap x = .ok (cols, freqs)) :
    ∀ k, k < cols.length → ∃ a f, ampAt cfg.amp k = some a ∧ freqs[k]? = some f ∧
      cols[k]? = some (getNextImfMask X (waveMask cosTurn x.length f (a * std x) cfg.p) cfg.p
        (Sig.sub x (Sig.vsum x.length (cols.take k)))).1 := by
  intro k hk
  obtain ⟨a, f, h1, h2, h3⟩ := maskSift_peel_wave σ nproc X cosTurn std cfg src cap x cols freqs hσ h k hk
  refine ⟨a, f, h1, h2, ?_⟩
  rw [h3, hm]
  cases (cols.take k).getLast? <;> rfl

-- witness: zero frequency is NOT the unmasked extraction.  Extractor "square every sample", x = [1], amp = 1,
-- cos ≡ 1: the masked IMF is (1+1)² − 1 = 3, the unmasked one 1² = 1
example : (getNextImfMask (fun y => (y.map fun v => v * v, true)) (waveMask (fun _ => 1) 1 0 1 1) 1 [1]).1 = [3] ∧
    ((fun y : Sig => (y.map fun v => v * v, true)) [1]).1 = [1] := by decide +kernel
example : ∀ y : Sig, ((fun y : Sig => (y.map fun v => v * v, true)) y).1.length = y.length := fun y => by simp

end C07
