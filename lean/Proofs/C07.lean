import EmdModel.Mask
namespace C07
theorem placeholder : True := trivial
end C07
