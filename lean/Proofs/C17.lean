/-
  C17 — feature matching returns a valid one-to-one pairing.
  Property theorems only (helper lemmas: Proofs/Lemmas/Kdt.lean).

  `kdtMatch D inds ny K` is the model of `emd.cycles.kdt_match` after its KD-tree query returned
  `(D, inds)` (`nx = inds.length` rows, `K` columns, `ny` rows in `y`); `.1` is `x_inds`, `.2` is `y_inds`.
  `WFQuery D inds ny K bound` is the contract of `cKDTree(y).query(x, k=K, distance_upper_bound=bound)`;
  its executable form `wfCheck` is evaluated by the model driver on every real query result of a run.

  Clause by clause — what is a theorem, what is oracle-level, what is instance-only (review B, item 9):
  * equal length, no row of either set twice, every index in range:     THEOREMS, hypothesis-free
    (`kdt_len_eq`, `kdt_x_distinct_inrange`, `kdt_y_inrange`, `kdt_y_injective`, `kdt_pairs_one_to_one`) —
    they hold for EVERY table `(D, inds)`, also for one a broken KD-tree would return.
  * "every matched candidate is among the K nearest neighbours of its partner":
      THEOREM   `kdt_knn_member`: the partner is an entry (column c < K) of the QUERY ROW of x;
      ORACLE    that a query row consists of the K nearest rows of y is scipy's contract.  It is stated
                as the hypothesis `KNNContract dist …` (relative to an abstract metric `dist`), under which
                `kdt_among_K_nearest` derives the clause in the property's own words (fewer than K rows of
                y are strictly closer).  `KNNContract` is NOT executable in the model (it quantifies over
                all rows of y and needs the coordinates): it is checked at run time by brute force in
                c17.py (`pairing_failures`: Euclidean distances recomputed from the coordinates,
                kind `y-not-among-K-nearest`), independently of the KD-tree and of the model.
  * "no matched pair is farther apart than the distance bound":
      THEOREM   `kdt_knn_member` bounds the REPORTED distance `D[x][c]` (hypothesis `WFQuery.within`,
                executable, validated on every real query);
      ORACLE    that the reported distance is the true Euclidean distance (`KNNContract.exact`) —
                run-time brute force, kind `pair-beyond-bound`.
  * "rows without a unique admissible neighbour are omitted":            THEOREMS (`kdt_matched_iff(_wf)`,
    `kdt_row_marked_at_most_once`, `kdt_marks_greedy`, `kdt_closest_claimant`, `kdt_first_neighbour_matched`).
  Not modelled (handler / instance level only): promotion of 1-D inputs, feature-count mismatch, K > ny,
  K = 0, NaN coordinates.
-/
import Proofs.Lemmas.Kdt

namespace C17
open Kdt

/-- The two returned index lists are equally long. -/
theorem kdt_len_eq (D : List (List Dist)) (inds : List (List Nat)) (ny K : Nat) :
    (kdtMatch D inds ny K).1.length = (kdtMatch D inds ny K).2.length :=
  matchWith_len ..

/-- The matched rows of `x` are listed in strictly increasing order — so none appears twice — and
    every one is a row of `x`. -/
theorem kdt_x_distinct_inrange (D : List (List Dist)) (inds : List (List Nat)) (ny K : Nat) :
    (kdtMatch D inds ny K).1.Pairwise (· < ·) ∧ (kdtMatch D inds ny K).1.Nodup ∧
      ∀ x ∈ (kdtMatch D inds ny K).1, x < inds.length := by
  have h := matchWith_x_sorted uniqueInds inds.length ny K (indsAt inds) (dAt D)
  refine ⟨h.1, ?_, h.2⟩
  exact h.1.imp (fun hlt => Nat.ne_of_lt hlt)

/-- Every matched index of `y` is a row of `y` (never the padding value `ny`). -/
theorem kdt_y_inrange (D : List (List Dist)) (inds : List (List Nat)) (ny K : Nat) :
    ∀ y ∈ (kdtMatch D inds ny K).2, y < ny := by
  intro y hy
  obtain ⟨x, _, hf⟩ := matchWith_y_mem hy
  obtain ⟨c, _, _, _, _, hlt⟩ := finalOf_some hf
  exact hlt

/-- Every returned pair `(x, y)` sits in the query result: `y` is one of the `K` neighbours reported for
    row `x` (column `c < K`), at a finite distance that does not exceed the distance bound. -/
theorem kdt_knn_member {D : List (List Dist)} {inds : List (List Nat)} {ny K : Nat} {bound : Dist}
    (h : WFQuery D inds ny K bound) :
    ∀ p ∈ (kdtMatch D inds ny K).1.zip (kdtMatch D inds ny K).2,
      ∃ c, c < K ∧ indsAt inds p.1 c = p.2 ∧
        ∃ dist : Rat, dAt D p.1 c = some dist ∧ dle (some dist) bound = true := by
  intro p hp
  obtain ⟨hx, hf⟩ := matchWith_pair hp
  obtain ⟨c, _, hc, _, hv, hlt⟩ := finalOf_some hf
  rw [runCols_length] at hc
  have hfin := (h.finite_iff p.1 c hx hc).mp (by rw [hv]; exact hlt)
  obtain ⟨dist, hd⟩ := Option.isSome_iff_exists.mp hfin
  refine ⟨c, hc, hv, dist, hd, ?_⟩
  have := h.within p.1 c hx hc hfin
  rwa [hd] at this

/-- scipy's contract for `cKDTree(y).query(x, k=K)` relative to a distance `dist r j` between row `r` of
    `x` and row `j` of `y` — ORACLE level: not executable in the model, checked by brute force at run
    time.  `exact`: a reported distance is the distance to the reported row; `nearest`: a row of `y`
    that is not listed for `r` is at least as far from `r` as every row that is listed. -/
structure KNNContract (dist : Nat → Nat → Rat) (D : List (List Dist)) (inds : List (List Nat)) (ny K : Nat) : Prop where
  exact : ∀ r c, r < inds.length → c < K → indsAt inds r c < ny → dAt D r c = some (dist r (indsAt inds r c))
  nearest : ∀ r c y', r < inds.length → c < K → indsAt inds r c < ny → y' < ny →
    (∀ c', c' < K → indsAt inds r c' ≠ y') → dist r (indsAt inds r c) ≤ dist r y'

/-- The K-NN clause in the property's own words, RELATIVE to the oracle contract: for every returned
    pair `(x, y)` the true distance `dist x y` does not exceed the bound, and fewer than `K` rows of `y`
    are strictly closer to `x` than `y` is (any duplicate-free list of such rows has length < K). -/
theorem kdt_among_K_nearest {D : List (List Dist)} {inds : List (List Nat)} {ny K : Nat} {bound : Dist}
    (dist : Nat → Nat → Rat) (h : WFQuery D inds ny K bound) (hk : KNNContract dist D inds ny K) :
    ∀ p ∈ (kdtMatch D inds ny K).1.zip (kdtMatch D inds ny K).2,
      dle (some (dist p.1 p.2)) bound = true ∧
      ∀ ys : List Nat, ys.Nodup → (∀ y' ∈ ys, y' < ny ∧ dist p.1 y' < dist p.1 p.2) → ys.length < K := by
  intro p hp
  obtain ⟨c, hc, hcy, d, hd, hb⟩ := kdt_knn_member h p hp
  have hx : p.1 < inds.length := (matchWith_pair hp).1
  have hy : p.2 < ny := kdt_y_inrange D inds ny K p.2 (List.of_mem_zip hp).2
  have hreal : indsAt inds p.1 c < ny := by rw [hcy]; exact hy
  have hex := hk.exact p.1 c hx hc hreal
  rw [hcy, hd] at hex
  injection hex with hex
  refine ⟨by rw [← hex]; exact hb, ?_⟩
  intro ys hnd hys
  -- every strictly closer row is listed in the query row of x, at a column other than c
  have hsub : ys ⊆ ((List.range K).erase c).map (indsAt inds p.1) := by
    intro y' hy'
    obtain ⟨hlt, hcl⟩ := hys y' hy'
    have hlisted : ∃ c', c' < K ∧ indsAt inds p.1 c' = y' := by
      apply Classical.byContradiction
      intro hno
      have := hk.nearest p.1 c y' hx hc hreal hlt (fun c' hc' he => hno ⟨c', hc', he⟩)
      rw [hcy] at this
      grind
    obtain ⟨c', hc', he⟩ := hlisted
    have hne : c' ≠ c := by
      intro e; subst e
      rw [hcy] at he; subst he
      grind
    exact List.mem_map.mpr ⟨c', (List.mem_erase_of_ne hne).mpr (List.mem_range.mpr hc'), he⟩
  have hle := hnd.length_le_of_subset hsub
  rw [List.length_map, List.length_erase_of_mem (List.mem_range.mpr hc), List.length_range] at hle
  omega

/-- One-to-one: no row of `y` is matched twice.  (Loop invariant `Kdt.Inv`: after every column the
    marks form a partial injection from rows of `x` to `selected` values.)  This needs nothing from the
    query — it holds for every table `(D, inds)`. -/
theorem kdt_y_injective (D : List (List Dist)) (inds : List (List Nat)) (ny K : Nat) :
    (kdtMatch D inds ny K).2.Nodup :=
  matchWith_y_nodup uniqueInds_occSound ..

/-- The pairing is a bijection between the matched rows: two returned pairs that share a member are
    the same pair. -/
theorem kdt_pairs_one_to_one (D : List (List Dist)) (inds : List (List Nat)) (ny K : Nat) :
    ∀ p ∈ (kdtMatch D inds ny K).1.zip (kdtMatch D inds ny K).2,
    ∀ q ∈ (kdtMatch D inds ny K).1.zip (kdtMatch D inds ny K).2,
      (p.1 = q.1 ∨ p.2 = q.2) → p = q := by
  intro p hp q hq hpq
  obtain ⟨_, hfp⟩ := matchWith_pair hp
  obtain ⟨_, hfq⟩ := matchWith_pair hq
  have hinv := Inv_runCols uniqueInds_occSound inds.length (indsAt inds) (dAt D) K
  rcases hpq with h1 | h2
  · rw [h1, hfq] at hfp
    exact Prod.ext h1 (Option.some.inj hfp).symm
  · obtain ⟨c, hm, _, _, hv, _⟩ := finalOf_some hfp
    obtain ⟨c', hm', _, _, hv', _⟩ := finalOf_some hfq
    exact Prod.ext (hinv.inj c c' p.1 q.1 hm hm' (by rw [hv, hv', h2])) h2

/-- A one-to-one pairing can use no row of either set twice, so it never has more pairs than the smaller
    set has rows: `len(x_inds) = len(y_inds) ≤ min(nx, ny)` — for EVERY table `(D, inds)`. -/
theorem kdt_count_le_min (D : List (List Dist)) (inds : List (List Nat)) (ny K : Nat) :
    (kdtMatch D inds ny K).1.length ≤ min inds.length ny := by
  have hx := kdt_x_distinct_inrange D inds ny K
  have h1 := length_le_of_nodup_lt inds.length _ hx.2.1 hx.2.2
  have h2 := length_le_of_nodup_lt ny _ (kdt_y_injective D inds ny K) (kdt_y_inrange D inds ny K)
  rw [← kdt_len_eq] at h2
  omega

/-- No row of the marker matrix ever holds two marks: the test `sum(II[r, :]) == 1` of the winner
    extraction can only fail with a sum of 0 ("rows without a unique admissible neighbour are omitted"
    — they are exactly the rows that were never marked or whose mark sits on padding). -/
theorem kdt_row_marked_at_most_once (D : List (List Dist)) (inds : List (List Nat)) (K : Nat) (r : Nat) :
    (rowMarks (runCols uniqueInds inds.length (indsAt inds) (dAt D) K).cols r).count true ≤ 1 := by
  have hinv := Inv_runCols uniqueInds_occSound inds.length (indsAt inds) (dAt D) K
  apply count_true_le_one
  intro i j hi hj
  rw [rowMarks_getElem!] at hi hj
  exact hinv.one i j r hi hj

/-- A row is returned exactly when it holds a mark in a column `c < ny` whose entry is a real row of `y`;
    the entry under that mark is its partner. -/
theorem kdt_matched_iff (D : List (List Dist)) (inds : List (List Nat)) (ny K : Nat) (x y : Nat) :
    (x, y) ∈ (kdtMatch D inds ny K).1.zip (kdtMatch D inds ny K).2 ↔
      x < inds.length ∧ ∃ c, M (runCols uniqueInds inds.length (indsAt inds) (dAt D) K).cols c x = true ∧
        c < ny ∧ indsAt inds x c = y ∧ y < ny := by
  have hinv := Inv_runCols uniqueInds_occSound inds.length (indsAt inds) (dAt D) K
  constructor
  · intro hp
    obtain ⟨hx, hf⟩ := matchWith_pair hp
    obtain ⟨c, hm, _, hc, hv, hlt⟩ := finalOf_some hf
    exact ⟨hx, c, hm, hc, hv, hlt⟩
  · rintro ⟨hx, c, hm, hc, hv, hlt⟩
    exact mem_zip_of_mark hinv hx hm hc hv hlt

/-- For a well-formed query result the extra test `winner[r] < y.shape[0]` of the code (a COLUMN number compared
    with the number of rows of `y`) never rejects anything — real neighbours can only sit in the first `ny`
    columns — so a row is returned exactly when it holds a mark on a real row of `y`, and omitted otherwise. -/
theorem kdt_matched_iff_wf {D : List (List Dist)} {inds : List (List Nat)} {ny K : Nat} {bound : Dist}
    (h : WFQuery D inds ny K bound) (x y : Nat) :
    (x, y) ∈ (kdtMatch D inds ny K).1.zip (kdtMatch D inds ny K).2 ↔
      x < inds.length ∧ ∃ c, M (runCols uniqueInds inds.length (indsAt inds) (dAt D) K).cols c x = true ∧
        indsAt inds x c = y ∧ y < ny := by
  rw [kdt_matched_iff]
  constructor
  · rintro ⟨hx, c, hm, _, hv, hy⟩
    exact ⟨hx, c, hm, hv, hy⟩
  · rintro ⟨hx, c, hm, hv, hy⟩
    have hc := M_lt hm
    rw [runCols_length] at hc
    exact ⟨hx, c, hm, col_lt_ny_of_real h hx hc (by rw [hv]; exact hy), hv, hy⟩

/-- Greedy specification of the marker matrix: row `r` is marked in column `c` exactly when it is the
    closest claimant of its `c`-th neighbour (smallest distance among the rows whose `c`-th neighbour is the
    same candidate, first such row on ties), that candidate is under no mark of an earlier column, and `r`
    holds no mark in an earlier column. -/
theorem kdt_marks_greedy (D : List (List Dist)) (inds : List (List Nat)) {K c : Nat} (hc : c < K) (r : Nat) :
    M (runCols uniqueInds inds.length (indsAt inds) (dAt D) K).cols c r = true ↔
      r < inds.length ∧ claimant inds.length (indsAt inds) (dAt D) c (indsAt inds r c) = some r ∧
      (∀ c' r', c' < c → M (runCols uniqueInds inds.length (indsAt inds) (dAt D) K).cols c' r' = true →
        indsAt inds r' c' ≠ indsAt inds r c) ∧
      ∀ c', c' < c → M (runCols uniqueInds inds.length (indsAt inds) (dAt D) K).cols c' r = false :=
  M_runCols_greedy inds.length (indsAt inds) (dAt D) hc r

/-- Each candidate goes to its closest claimant: a returned pair `(x, y)` was formed in a column `c` in which
    no other row having `y` as its `c`-th neighbour is strictly closer to `y` than `x` is. -/
theorem kdt_closest_claimant (D : List (List Dist)) (inds : List (List Nat)) (ny K : Nat) :
    ∀ p ∈ (kdtMatch D inds ny K).1.zip (kdtMatch D inds ny K).2,
      ∃ c, c < K ∧ indsAt inds p.1 c = p.2 ∧
        ∀ r', r' < inds.length → indsAt inds r' c = p.2 → dle (dAt D p.1 c) (dAt D r' c) = true := by
  intro p hp
  obtain ⟨_, hf⟩ := matchWith_pair hp
  obtain ⟨c, hm, hc, _, hv, _⟩ := finalOf_some hf
  rw [runCols_length] at hc
  refine ⟨c, hc, hv, ?_⟩
  intro r' hr' hv'
  have hcl := ((M_runCols_greedy inds.length (indsAt inds) (dAt D) hc p.1).mp hm).2.1
  unfold claimant at hcl
  exact closest_min hcl r' ((mem_positionsOf_colList ..).mpr ⟨hr', by rw [hv', hv]⟩)

/-- Nothing admissible is wasted in the first column: every row of `y` that is the nearest neighbour of some
    row of `x` is matched, and it is matched to a row that has it as nearest neighbour at the smallest
    distance. -/
theorem kdt_first_neighbour_matched (D : List (List Dist)) (inds : List (List Nat)) (ny K : Nat) (hK : 0 < K)
    (r : Nat) (hr : r < inds.length) (hv : indsAt inds r 0 < ny) :
    ∃ x, (x, indsAt inds r 0) ∈ (kdtMatch D inds ny K).1.zip (kdtMatch D inds ny K).2 ∧
      indsAt inds x 0 = indsAt inds r 0 ∧ dle (dAt D x 0) (dAt D r 0) = true := by
  have hmem := (mem_positionsOf_colList inds.length (indsAt inds) 0 (indsAt inds r 0) r).mpr ⟨hr, rfl⟩
  obtain ⟨x, hx⟩ := closest_isSome_of_mem (d := fun r => dAt D r 0) hmem
  obtain ⟨hxlt, hxv⟩ := (mem_positionsOf_colList ..).mp (closest_mem hx)
  have hmark : M (runCols uniqueInds inds.length (indsAt inds) (dAt D) K).cols 0 x = true := by
    refine (M_runCols_greedy inds.length (indsAt inds) (dAt D) hK x).mpr ⟨hxlt, ?_, ?_, ?_⟩
    · unfold claimant; rw [hxv]; exact hx
    · intro c' r' h; omega
    · intro c' h; omega
  have hinv := Inv_runCols uniqueInds_occSound inds.length (indsAt inds) (dAt D) K
  exact ⟨x, mem_zip_of_mark hinv hxlt hmark (by omega) hxv hv, hxv, closest_min hx r hmem⟩

/-! ## K = 1 (with any bound) and the direction of the K-nearest clause -/

/-- **K = 1, complete specification** (the query squeezes its output to vectors there; the model, like the
    repaired code, works on one column): a pair `(x, y)` is returned exactly when `y` is a real row of `y`, it
    is the (single) reported neighbour of row `x`, and `x` is the closest claimant of `y` — the first row at
    the smallest reported distance among the rows whose neighbour is `y`.  Every other row is omitted. -/
theorem kdt_K1_spec (D : List (List Dist)) (inds : List (List Nat)) (ny x y : Nat) :
    (x, y) ∈ (kdtMatch D inds ny 1).1.zip (kdtMatch D inds ny 1).2 ↔
      x < inds.length ∧ indsAt inds x 0 = y ∧ y < ny ∧
        claimant inds.length (indsAt inds) (dAt D) 0 y = some x := by
  rw [kdt_matched_iff]
  constructor
  · rintro ⟨hx, c, hm, _, hv, hy⟩
    have hc := M_lt hm
    rw [runCols_length] at hc
    have hc0 : c = 0 := by omega
    subst hc0
    obtain ⟨_, hcl, _, _⟩ := (kdt_marks_greedy D inds (by omega : 0 < 1) x).mp hm
    rw [hv] at hcl
    exact ⟨hx, hv, hy, hcl⟩
  · rintro ⟨hx, hv, hy, hcl⟩
    refine ⟨hx, 0, ?_, by omega, hv, hy⟩
    refine (kdt_marks_greedy D inds (by omega : 0 < 1) x).mpr ⟨hx, by rw [hv]; exact hcl, ?_, ?_⟩
    · intro c' r' h; omega
    · intro c' h; omega

/-- **K = 1 with a distance bound, in the property's words** (relative to the query oracle's contract): for
    every returned pair `(x, y)`, `y` is A NEAREST row of `y` to `x` — no row of `y` is strictly closer — and
    the pair is not farther apart than the bound, finite or not. -/
theorem kdt_K1_nearest_within_bound {D : List (List Dist)} {inds : List (List Nat)} {ny : Nat} {bound : Dist}
    (dist : Nat → Nat → Rat) (h : WFQuery D inds ny 1 bound) (hk : KNNContract dist D inds ny 1) :
    ∀ p ∈ (kdtMatch D inds ny 1).1.zip (kdtMatch D inds ny 1).2,
      dle (some (dist p.1 p.2)) bound = true ∧ ∀ y', y' < ny → dist p.1 p.2 ≤ dist p.1 y' := by
  intro p hp
  obtain ⟨hb, hnear⟩ := kdt_among_K_nearest dist h hk p hp
  refine ⟨hb, fun y' hy' => ?_⟩
  apply Rat.not_lt.mp
  intro hlt
  have := hnear [y'] (by simp) (by intro z hz; simp at hz; subst hz; exact ⟨hy', hlt⟩)
  simp at this

/-- **The K-nearest clause is one-sided.**  `kdt_among_K_nearest` says the matched row of `y` is among the K
    nearest rows of `y` to ITS partner in `x`; the converse direction is NOT a property of the pairing: on a
    well-formed query that meets the oracle contract (x = 0, 9, 11 and y = 5, 11.4 on a line, K = 1, bound 6)
    the pair (x₀, y₀) is returned although K other rows of `x` (x₁) are strictly closer to y₀ than x₀ is — x₁
    has a nearer neighbour of its own.  A check (or a change of the code) that evaluates neighbourhoods from the
    side of `y` states something else. -/
theorem kdt_nearest_clause_one_sided :
    ∃ (dist : Nat → Nat → Rat) (D : List (List Dist)) (inds : List (List Nat)) (ny K : Nat) (bound : Dist),
      WFQuery D inds ny K bound ∧ KNNContract dist D inds ny K ∧
      ∃ p ∈ (kdtMatch D inds ny K).1.zip (kdtMatch D inds ny K).2,
        ∃ xs : List Nat, xs.Nodup ∧ xs.length = K ∧ ∀ x' ∈ xs, x' < inds.length ∧ dist x' p.2 < dist p.1 p.2 := by
  refine ⟨fun r j => (([[5, 57/5], [4, 12/5], [6, 2/5]] : List (List Rat))[r]!)[j]!,
    [[some 5], [some (12/5)], [some (2/5)]], [[0], [1], [1]], 2, 1, some 6,
    (wfCheck_iff ..).mp (by decide +kernel), ?_, (0, 0), by decide +kernel, [1], by simp, rfl, ?_⟩
  · constructor
    · intro r c hr hc _
      have hr' : r = 0 ∨ r = 1 ∨ r = 2 := by simp at hr; omega
      have hc' : c = 0 := by omega
      subst hc'
      rcases hr' with rfl | rfl | rfl <;> rfl
    · intro r c y' hr hc _ hy' hno
      have hr' : r = 0 ∨ r = 1 ∨ r = 2 := by simp at hr; omega
      have hc' : c = 0 := by omega
      subst hc'
      have hy'' : y' = 0 ∨ y' = 1 := by omega
      rcases hr' with rfl | rfl | rfl <;> rcases hy'' with rfl | rfl <;>
        first
          | exact absurd rfl (hno 0 (by omega))
          | decide +kernel
  · intro x' hx'
    simp at hx'
    subst hx'
    exact ⟨by decide, by decide +kernel⟩

/-- The same loop with the occurrence lookup of the pinned code (`_unique_inds` returning positions in
    the sorted copy, defect D13) is NOT one-to-one, on a well-formed query result:
    x = [0, 1, 1], y = [2], K = 2, bound 1.5 matches row 0 of y to rows 1 and 2 of x. -/
theorem kdt_sortedpos_not_injective :
    ∃ D inds ny K bound, WFQuery D inds ny K bound ∧ ¬ (kdtMatchSortedPos D inds ny K).2.Nodup :=
  ⟨[[none, none], [some 1, none], [some 1, none]], [[1, 1], [0, 1], [0, 1]], 1, 2, some (3/2),
    (wfCheck_iff ..).mp (by decide +kernel), by decide +kernel⟩

/-! Non-vacuity: a well-formed query result (3 rows of x, 3 rows of y, K = 2, no bound) on which every row
    is matched, and one (3 rows of x all claiming the same 2 rows of y) where the closest claimant of each
    candidate wins and the remaining row is omitted. -/
example : WFQuery [[some 0, some 1], [some (1/2), some 2], [some 0, some 1]] [[1, 0], [2, 0], [0, 1]] 3 2 none :=
  (wfCheck_iff ..).mp (by decide +kernel)
example : kdtMatch [[some 0, some 1], [some (1/2), some 2], [some 0, some 1]] [[1, 0], [2, 0], [0, 1]] 3 2
    = ([0, 1, 2], [1, 2, 0]) := by decide +kernel
example : kdtMatch [[some 1, some 2], [some (1/2), some 3], [some 0, some 4]] [[0, 1], [0, 1], [0, 1]] 2 2
    = ([0, 2], [1, 0]) := by decide +kernel

/-! Non-vacuity of the oracle contract: x = (0, 4), y = (0, 1, 5) on the line, K = 2, `dist r j = |x_r − y_j|`.
    The query table below is well formed AND satisfies `KNNContract`, so `kdt_among_K_nearest` applies. -/
def demoDist (r j : Nat) : Rat := (([[0, 1, 5], [4, 3, 1]] : List (List Rat))[r]!)[j]!

example : WFQuery [[some 0, some 1], [some 1, some 3]] [[0, 1], [2, 1]] 3 2 none :=
  (wfCheck_iff ..).mp (by decide +kernel)

example : KNNContract demoDist [[some 0, some 1], [some 1, some 3]] [[0, 1], [2, 1]] 3 2 := by
  constructor
  · intro r c hr hc _
    have hr' : r = 0 ∨ r = 1 := by simp at hr; omega
    have hc' : c = 0 ∨ c = 1 := by omega
    rcases hr' with rfl | rfl <;> rcases hc' with rfl | rfl <;> rfl
  · intro r c y' hr hc _ hy' hno
    have hr' : r = 0 ∨ r = 1 := by simp at hr; omega
    have hc' : c = 0 ∨ c = 1 := by omega
    have hy'' : y' = 0 ∨ y' = 1 ∨ y' = 2 := by omega
    rcases hr' with rfl | rfl <;> rcases hc' with rfl | rfl <;> rcases hy'' with rfl | rfl | rfl <;>
      first
        | exact absurd rfl (hno 0 (by omega))
        | exact absurd rfl (hno 1 (by omega))
        | (show demoDist _ _ ≤ demoDist _ _; decide +kernel)

example : kdtMatch [[some 0, some 1], [some 1, some 3]] [[0, 1], [2, 1]] 3 2 = ([0, 1], [0, 2]) := by decide +kernel

-- K = 1 with a finite bound: the hypotheses of `kdt_K1_nearest_within_bound` are met by the table of
-- `kdt_nearest_clause_one_sided`, whose pairing is (x₀, y₀), (x₂, y₁); x₁ is omitted (its neighbour went to a closer claimant)
example : kdtMatch [[some 5], [some (12/5)], [some (2/5)]] [[0], [1], [1]] 2 1 = ([0, 2], [0, 1]) := by decide +kernel
example : WFQuery [[some 5], [some (12/5)], [some (2/5)]] [[0], [1], [1]] 2 1 (some 6) :=
  (wfCheck_iff ..).mp (by decide +kernel)

end C17
