import EmdModel.Kdt
namespace C17
open Kdt
theorem stub_placeholder : dlt none none = false := rfl
end C17
