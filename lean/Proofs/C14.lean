/- C14 — work in progress -/
import EmdModel.CycleStats

namespace C14
open CycleStats

theorem placeholder_gather_nil (vals : List Rat) : gather vals [] = [] := rfl

end C14
