/-
  C14 — per-cycle statistics and phase alignment use exactly each cycle's samples.
  Property theorems only (helper lemmas: Proofs/Lemmas/CycleStats*.lean, Maps*.lean).
  All statements are about the executable model `EmdModel.CycleStats`.

  Scope notes (review B, item 6):
  * `phaseAlign_affine` speaks about a call that returned; WHEN it returns is `phaseAlign_returns_iff`
    (`AlignAccepts`), and `alignCycle_one_sample` shows that a one-sample cycle is accepted (all-NaN column).
  * Only `interp_kind='linear'`, `mode='cycle'` are modelled; the other interpolation kinds and the
    "within interpolation error" clause are instance checks (stream phase_align of c14.py).
  * bin_by_phase: the MEANS (unweighted and weighted) are modelled and proved.  Its variance output
    with `weights=`, `variance_metric='std'/'sem'` are not modelled; three defects of the real code there
    ('sem' always raises ValueError; weights with 1-D x raise IndexError; weighted variance is
    avg(x − avg²)) are outside the property (it promises the bin means), written down in c14.py TRUSTED
    and recorded on every run by stream `bin_by_phase_outside` as observed-not-claimed.
-/
import Proofs.Lemmas.CycleStatsInterp
import Proofs.Lemmas.ComposeContainer

namespace C14
open Maps CycleStats

/-! ## per-cycle statistics -/

/-- For EVERY reducing function `f` (any result type) and EVERY labelling (gaps of -1 anywhere,
    labels in any arrangement): there is one entry per label 0..max, and entry k is `f` applied to
    precisely the values whose label is k, in recording order. -/
theorem cycleStat_spec {β : Type} (f : List Rat → β) (vals : List Rat) (cv : List Int) :
    (cycleStat f vals cv).length = nLabels cv ∧
    ∀ k, k < nLabels cv → (cycleStat f vals cv)[k]? = some (f (valuesWithLabel vals cv k)) := by
  rw [cycleStat_eq]
  refine ⟨by simp, fun k hk => ?_⟩
  simp [List.getElem?_map, List.getElem?_range hk]

/-- the samples handed to `f` for cycle k are exactly the samples labelled k: a value is passed
    on iff it sits at a position whose label is k (position-wise formulation) -/
theorem cycle_samples_exact (cv : List Int) (k i : Nat) :
    i ∈ mapCycleToSamples cv k ↔ cv[i]? = some (k : Int) := mem_whereEq cv k i

/-- the public entry point with a reducing function that never raises, `out='cycles'` -/
theorem getCycleStat_cycles (f : List Rat → Rat) (vals : List Rat) (cv : List Int)
    (hne : cv ≠ []) (hlen : cv.length = vals.length) :
    getCycleStat (fun l => .ok (some (f l))) vals cv false =
      .ok ((List.range (nLabels cv)).map fun k => some (f (valuesWithLabel vals cv k))) := by
  unfold getCycleStat
  have h1 : cv.isEmpty = false := by cases cv <;> simp_all
  rw [if_neg (by simp [h1]), if_neg (by omega)]
  have : cycleStat (fun l => (Except.ok (some (f l)) : Except Err (Option Rat))) vals cv =
      ((List.range (nLabels cv)).map fun k => some (f (valuesWithLabel vals cv k))).map Except.ok := by
    rw [cycleStat_eq]; simp [List.map_map, Function.comp_def]
  rw [this, sequence_ok]
  simp

/-- projection of any per-cycle vector back to samples: every sample of cycle k carries entry k
    (so the result is constant on each cycle), every unlabelled sample is missing (NaN) -/
theorem project_spec (stats : List Rat) (cv : List Int) (hlen : stats.length = nLabels cv)
    (i : Nat) (l : Int) (hl : cv[i]? = some l) :
    (projectCyclesToSamples (stats.map some) cv).length = cv.length ∧
    (projectCyclesToSamples (stats.map some) cv)[i]? =
      some (if 0 ≤ l then some stats[l.toNat]! else none) := by
  refine ⟨projectLoop_length _ _ _, ?_⟩
  have := projectLoop_spec cv (stats.map some) i l hl
  unfold projectCyclesToSamples mapCycleToSamples
  rw [this]
  unfold valAt label?
  by_cases h0 : 0 ≤ l
  · have hk : l.toNat < stats.length := by
      rw [hlen]
      apply lt_nLabels_of_mem
      have : ((l.toNat : Nat) : Int) = l := by omega
      rw [this]; exact List.mem_of_getElem? hl
    rw [if_pos (by omega), if_pos h0]
    simp [List.getElem?_eq_getElem hk, getElem!_pos stats l.toNat hk]
  · rw [if_neg (by omega), if_neg h0]; rfl

/-- the public entry point with `out='samples'`: the statistic of its own cycle on every labelled
    sample, missing elsewhere -/
theorem getCycleStat_samples (f : List Rat → Rat) (vals : List Rat) (cv : List Int)
    (hne : cv ≠ []) (hlen : cv.length = vals.length) :
    ∃ out, getCycleStat (fun l => .ok (some (f l))) vals cv true = .ok out ∧ out.length = cv.length ∧
      ∀ (i : Nat) (l : Int), cv[i]? = some l →
        out[i]? = some (if 0 ≤ l then some (f (valuesWithLabel vals cv l.toNat)) else none) := by
  let stats := (List.range (nLabels cv)).map fun k => f (valuesWithLabel vals cv k)
  have hstats : stats.length = nLabels cv := by simp [stats]
  refine ⟨projectCyclesToSamples (stats.map some) cv, ?_, projectLoop_length _ _ _, ?_⟩
  · unfold getCycleStat
    have h1 : cv.isEmpty = false := by cases cv <;> simp_all
    rw [if_neg (by simp [h1]), if_neg (by omega)]
    have : cycleStat (fun l => (Except.ok (some (f l)) : Except Err (Option Rat))) vals cv =
        (stats.map some).map Except.ok := by
      rw [cycleStat_eq]; simp [stats, List.map_map, Function.comp_def]
    rw [this, sequence_ok]
    simp
  · intro i l hl
    rw [(project_spec stats cv hstats i l hl).2]
    by_cases h0 : 0 ≤ l
    · have hk : l.toNat < nLabels cv := by
        apply lt_nLabels_of_mem
        have : ((l.toNat : Nat) : Int) = l := by omega
        rw [this]; exact List.mem_of_getElem? hl
      simp [h0, stats, getElem!_pos, hk]
    · simp [h0]

/-! ## phase alignment -/

/-- scipy's linear interpolant with linear extrapolation reproduces any quantity that is affine
    in the abscissa EXACTLY at every evaluation point — inside, between and beyond the samples —
    whatever the number (≥ 2) and spacing of the samples -/
theorem linInterp_affine (pts : List (Rat × Rat)) (a b t : Rat)
    (hs : pts.Pairwise fun p q => p.1 < q.1) (hn : 2 ≤ pts.length)
    (hy : ∀ p ∈ pts, p.2 = a * p.1 + b) : linInterp pts t = some (a * t + b) :=
  linInterp_of_affine pts a b t hs hn hy

/-- one column of phase_align: if within the cycle the phase is strictly increasing (≥ 2 samples)
    and the observed quantity is `a·phase + b`, the aligned profile is `a·bins + b` exactly,
    whatever the cycle's duration -/
theorem alignCycle_affine (ip x : List Rat) (inds : List Nat) (bins : List Rat) (a b : Rat)
    (hinc : (gather ip inds).Pairwise (· < ·)) (hn : 2 ≤ inds.length)
    (hlin : ∀ i ∈ inds, ∃ p, ip[i]? = some p ∧ x[i]? = some (a * p + b)) :
    alignCycle ip x inds bins = .ok (bins.map fun t => some (a * t + b)) := by
  obtain ⟨hx, hl⟩ := gather_affine ip x (fun p => a * p + b) inds hlin
  unfold alignCycle
  simp only []
  rw [hx, zip_map_self]
  have hsorted : ((gather ip inds).map fun p => (p, a * p + b)).Pairwise fun p q => p.1 < q.1 := by
    rw [List.pairwise_map]; exact hinc
  rw [sortPts_of_sorted _ hsorted]
  have hne : ((gather ip inds).map fun p => (p, a * p + b)).isEmpty = false := by
    cases hg : gather ip inds with
    | nil => rw [hg] at hl; simp at hl; omega
    | cons _ _ => simp
  rw [hne]
  simp only [Bool.false_eq_true, if_false]
  congr 1
  apply List.map_congr_left
  intro t _
  apply linInterp_of_affine _ a b t hsorted (by simp [hl]; exact hn)
  intro p hp
  obtain ⟨q, _, rfl⟩ := List.mem_map.mp hp
  rfl

/-- the whole call: whenever phase_align returns, column k is the alignment of cycle k's own
    samples; so for every cycle meeting the hypotheses of `alignCycle_affine` the returned
    column is `a·bins + b` -/
theorem phaseAlign_affine (ip x : List Rat) (cv : List Int) (bins : List Rat)
    (cols : List (List (Option Rat))) (h : phaseAlign ip x cv bins = .ok cols) :
    cols.length = nLabels cv ∧
    ∀ (k : Nat) (a b : Rat), k < nLabels cv →
      (gather ip (mapCycleToSamples cv k)).Pairwise (· < ·) → 2 ≤ (mapCycleToSamples cv k).length →
      (∀ i ∈ mapCycleToSamples cv k, ∃ p, ip[i]? = some p ∧ x[i]? = some (a * p + b)) →
      cols[k]? = some (bins.map fun t => some (a * t + b)) := by
  unfold phaseAlign at h
  split at h
  · cases h
  · split at h
    · cases h
    · obtain ⟨hl, hk⟩ := sequence_ok_getElem? _ cols h
      refine ⟨by simpa using hl, ?_⟩
      intro k a b hklt hinc hn hlin
      obtain ⟨col, hcol, hget⟩ := hk k (alignCycle ip x (mapCycleToSamples cv k) bins)
        (by simp [List.getElem?_map, List.getElem?_range hklt])
      rw [alignCycle_affine ip x _ bins a b hinc hn hlin] at hcol
      injection hcol with hcol
      rw [hget, ← hcol]

/-- The inputs `phase_align(ip, x, cycles=cv)` accepts (mode='cycle', linear): a non-empty label vector
    as long as the phase, a quantity as long as the phase, and at least ONE sample for every label
    0..max (a skipped label makes `interp1d` raise on the empty selection).  A one-sample cycle is
    accepted (see `alignCycle_one_sample`: its column is all-NaN), so are repeated / unsorted phases. -/
def AlignAccepts (ip x : List Rat) (cv : List Int) : Prop :=
  cv ≠ [] ∧ cv.length = ip.length ∧ ip.length = x.length ∧ ∀ k, k < nLabels cv → mapCycleToSamples cv k ≠ []

/-- WHEN the call returns (the hypothesis `h` of `phaseAlign_affine` made explicit): exactly on
    `AlignAccepts`; then there is one column per label and one entry per phase bin in every column.
    Every other input — empty label vector, mismatched lengths, a label without samples — is rejected
    with ValueError (no partial result). -/
theorem phaseAlign_returns_iff (ip x : List Rat) (cv : List Int) (bins : List Rat) :
    (AlignAccepts ip x cv → ∃ cols, phaseAlign ip x cv bins = .ok cols ∧ cols.length = nLabels cv ∧
        ∀ col ∈ cols, col.length = bins.length) ∧
    (¬ AlignAccepts ip x cv → phaseAlign ip x cv bins = .error .valueError) := by
  have hrange : cv.length = ip.length → ip.length = x.length → ∀ k, ∀ i ∈ mapCycleToSamples cv k, i < ip.length ∧ i < x.length := by
    intro h1 h2 k i hi
    have hc := (cycle_samples_exact cv k i).mp hi
    have : i < cv.length := by
      rcases Nat.lt_or_ge i cv.length with h | h
      · exact h
      · rw [List.getElem?_eq_none h] at hc; cases hc
    omega
  constructor
  · rintro ⟨hne, hl1, hl2, hall⟩
    have h1 : cv.isEmpty = false := by cases cv <;> simp_all
    have hstep : ∀ e ∈ (List.range (nLabels cv)).map (fun k => alignCycle ip x (mapCycleToSamples cv k) bins),
        ∃ a, e = Except.ok a := by
      intro e he
      obtain ⟨k, hk, rfl⟩ := List.mem_map.mp he
      obtain ⟨col, hcol, _⟩ := (alignCycle_cases ip x (mapCycleToSamples cv k) bins
        (fun i hi => (hrange hl1 hl2 k i hi).1) (fun i hi => (hrange hl1 hl2 k i hi).2)).2
        (hall k (List.mem_range.mp hk))
      exact ⟨col, hcol⟩
    obtain ⟨cols, hcols⟩ := sequence_all_ok _ hstep
    obtain ⟨hlen, hget⟩ := sequence_ok_getElem? _ cols hcols
    refine ⟨cols, ?_, by simpa using hlen, ?_⟩
    · unfold phaseAlign
      rw [if_neg (by simp [h1]), if_neg (by omega)]
      exact hcols
    · intro col hcol
      obtain ⟨k, hk, hkc⟩ := List.getElem_of_mem hcol
      have hk' : k < nLabels cv := by simpa [hlen] using hk
      obtain ⟨a, ha, hka⟩ := hget k (alignCycle ip x (mapCycleToSamples cv k) bins)
        (by simp [List.getElem?_map, List.getElem?_range hk'])
      obtain ⟨col', hcol', hl'⟩ := (alignCycle_cases ip x (mapCycleToSamples cv k) bins
        (fun i hi => (hrange hl1 hl2 k i hi).1) (fun i hi => (hrange hl1 hl2 k i hi).2)).2 (hall k hk')
      rw [hcol'] at ha
      injection ha with ha
      rw [List.getElem?_eq_getElem hk, hkc] at hka
      injection hka with hka
      rw [hka, ← ha]; exact hl'
  · intro hna
    unfold phaseAlign
    by_cases h0 : cv = []
    · subst h0; simp
    have h1 : cv.isEmpty = false := by cases cv <;> simp_all
    rw [if_neg (by simp [h1])]
    by_cases hl : cv.length ≠ ip.length ∨ ip.length ≠ x.length
    · rw [if_pos hl]
    rw [if_neg hl]
    have hl1 : cv.length = ip.length := by omega
    have hl2 : ip.length = x.length := by omega
    have hex : ∃ k, k < nLabels cv ∧ mapCycleToSamples cv k = [] := by
      apply Classical.byContradiction
      intro hc
      apply hna
      refine ⟨h0, hl1, hl2, fun k hk hek => hc ⟨k, hk, hek⟩⟩
    obtain ⟨k, hk, hek⟩ := hex
    apply sequence_error
    · intro e he
      obtain ⟨j, _, rfl⟩ := List.mem_map.mp he
      have hc := alignCycle_cases ip x (mapCycleToSamples cv j) bins
        (fun i hi => (hrange hl1 hl2 j i hi).1) (fun i hi => (hrange hl1 hl2 j i hi).2)
      by_cases hj : mapCycleToSamples cv j = []
      · exact Or.inr (hc.1 hj)
      · obtain ⟨col, hcol, _⟩ := hc.2 hj
        exact Or.inl ⟨col, hcol⟩
    · refine ⟨alignCycle ip x (mapCycleToSamples cv k) bins, List.mem_map.mpr ⟨k, List.mem_range.mpr hk, rfl⟩, ?_⟩
      exact (alignCycle_cases ip x (mapCycleToSamples cv k) bins
        (fun i hi => (hrange hl1 hl2 k i hi).1) (fun i hi => (hrange hl1 hl2 k i hi).2)).1 hek

/-- A cycle with a single sample is NOT rejected: linear interpolation needs two points, scipy
    accepts one and answers NaN everywhere — the column is all-missing (so the `2 ≤ length`
    hypothesis of `alignCycle_affine` is needed for the values, not for the call to return). -/
theorem alignCycle_one_sample (ip x : List Rat) (i : Nat) (bins : List Rat)
    (h1 : i < ip.length) (h2 : i < x.length) :
    alignCycle ip x [i] bins = .ok (bins.map fun _ => none) := by
  simp [alignCycle, gather, List.getElem?_eq_getElem h1, List.getElem?_eq_getElem h2, sortPts, insertPt, linInterp]

/-! ## phase binning -/

/-- np.digitize on strictly increasing edges: index b+1 means the half-open bin [e_b, e_{b+1}) -/
theorem digitize_spec (edges : List Rat) (v : Rat) (hs : edges.Pairwise (· < ·)) (b : Nat)
    (hb : b + 1 < edges.length) :
    digitize edges v = b + 1 ↔ edges[b] ≤ v ∧ v < edges[b + 1] :=
  digitize_eq_iff edges v hs b hb

/-- EVERY bin, the last one included, holds the mean (and the variance about it) of exactly the
    observations whose phase lies in [e_b, e_{b+1}); a bin that contains samples is therefore
    filled with their mean -/
theorem binByPhase_spec (edges ip x : List Rat) (hs : edges.Pairwise (· < ·)) (b : Nat)
    (hb : b + 1 < edges.length) :
    (binByPhase edges ip x).length = edges.length - 1 ∧
    (binByPhase edges ip x)[b]? =
      some (mean? (((ip.zip x).filter fun p => edges[b] ≤ p.1 ∧ p.1 < edges[b + 1]).map (·.2)),
            var? (((ip.zip x).filter fun p => edges[b] ≤ p.1 ∧ p.1 < edges[b + 1]).map (·.2))) ∧
    ∀ s, s = ((ip.zip x).filter fun p => edges[b] ≤ p.1 ∧ p.1 < edges[b + 1]).map (·.2) → s ≠ [] →
      ((binByPhase edges ip x)[b]?).map (·.1) = some (some (Sig.sum s / s.length)) := by
  have hbv : binValues edges ip x b =
      ((ip.zip x).filter fun p => edges[b] ≤ p.1 ∧ p.1 < edges[b + 1]).map (·.2) := by
    unfold binValues
    congr 1
    apply List.filter_congr
    intro p _
    exact decide_eq_decide.mpr (digitize_eq_iff edges p.1 hs b hb)
  have hget : (binByPhase edges ip x)[b]? =
      some (mean? (binValues edges ip x b), var? (binValues edges ip x b)) := by
    unfold binByPhase
    simp [List.getElem?_map, List.getElem?_range (show b < edges.length - 1 by omega)]
  refine ⟨by simp [binByPhase], by rw [hget, hbv], ?_⟩
  intro s hs' hne
  rw [hget, hbv, ← hs']
  simp [mean?_of_ne_nil s hne]

/-- with `weights=`: every bin, the last one included, holds the weighted mean Σw·x / Σw of exactly
    the observations whose phase lies in [e_b, e_{b+1}); empty bins stay missing -/
theorem binByPhaseW_spec (edges ip w x : List Rat) (hs : edges.Pairwise (· < ·)) (b : Nat)
    (hb : b + 1 < edges.length) :
    (binByPhaseW edges ip w x).length = edges.length - 1 ∧
    ∀ s, s = ((ip.zip (w.zip x)).filter fun p => edges[b] ≤ p.1 ∧ p.1 < edges[b + 1]).map (·.2) →
      (binByPhaseW edges ip w x)[b]? = some (wmean? s) ∧
      (s ≠ [] → wmean? s = some (Sig.sum (s.map fun p => p.1 * p.2) / Sig.sum (s.map (·.1)))) := by
  refine ⟨by simp [binByPhaseW], ?_⟩
  intro s hs'
  have hbv : binPairs edges ip w x b = s := by
    rw [hs']
    unfold binPairs
    congr 1
    apply List.filter_congr
    intro p _
    exact decide_eq_decide.mpr (digitize_eq_iff edges p.1 hs b hb)
  constructor
  · unfold binByPhaseW
    simp [List.getElem?_map, List.getElem?_range (show b < edges.length - 1 by omega), hbv]
  · intro hne
    unfold wmean?
    cases s with
    | nil => exact absurd rfl hne
    | cons _ _ => simp

/-! ## edge convention, sampling independence, default cycles (seeded changes C14-6, C14-7, C14-8) -/

/-- The bins are closed at their LOWER edge, for every edge, the first included: a sample lying exactly on
    edge b (b = 0: phase exactly 0) is digitised into bin b — the bin that starts there — never into the bin
    below and never dropped (`np.digitize(..., right=True)` would give index b, i.e. drop phase 0). -/
theorem sample_on_edge_in_bin_above (edges : List Rat) (hs : edges.Pairwise (· < ·)) (b : Nat)
    (hb : b + 1 < edges.length) : digitize edges edges[b] = b + 1 := by
  rw [digitize_eq_iff edges _ hs b hb]
  refine ⟨Rat.le_refl, ?_⟩
  exact (List.pairwise_iff_getElem.mp hs) b (b + 1) (by omega) hb (by omega)

/-- **A sample on the first bin edge belongs to the first bin**: if sample i has phase exactly `edges[0]`,
    its observation is among the values averaged into bin 0, so bin 0 is filled (not NaN) — also when that
    sample is the only one in the bin. -/
theorem first_edge_sample_in_first_bin (edges ip x : List Rat) (hs : edges.Pairwise (· < ·))
    (h2 : 1 < edges.length) (i : Nat) (v : Rat) (hi : ip[i]? = some edges[0]) (hx : x[i]? = some v) :
    v ∈ binValues edges ip x 0 ∧
    ∃ m, ((binByPhase edges ip x)[0]?).map (·.1) = some (some m) := by
  have hmem : v ∈ binValues edges ip x 0 := by
    unfold binValues
    refine List.mem_map.mpr ⟨(edges[0], v), List.mem_filter.mpr ⟨?_, ?_⟩, rfl⟩
    · apply List.mem_iff_getElem?.mpr
      exact ⟨i, by simp [List.getElem?_zip_eq_some, hi, hx]⟩
    · simpa using sample_on_edge_in_bin_above edges hs 0 h2
  refine ⟨hmem, ?_⟩
  have hne : binValues edges ip x 0 ≠ [] := List.ne_nil_of_mem hmem
  refine ⟨Sig.sum (binValues edges ip x 0) / (binValues edges ip x 0).length, ?_⟩
  unfold binByPhase
  simp [List.getElem?_map, List.getElem?_range (show 0 < edges.length - 1 by omega), mean?_of_ne_nil _ hne]

/-- **Independent of the step sizes and of the duration**: two cycles — of the same or of different
    recordings, with different numbers of samples (each ≥ 2) and ANY spacing of their strictly increasing
    phases, single steps larger than π included — carrying the same quantity `a·phase + b` give the
    IDENTICAL aligned column.  (No hypothesis bounds a phase increment: the per-cycle phase is used as it
    is; `np.unwrap` on it would fold a monotone cycle with one step > π.) -/
theorem alignCycle_affine_any_sampling (ip x ip' x' : List Rat) (inds inds' : List Nat) (bins : List Rat)
    (a b : Rat)
    (hinc : (gather ip inds).Pairwise (· < ·)) (hn : 2 ≤ inds.length)
    (hlin : ∀ i ∈ inds, ∃ p, ip[i]? = some p ∧ x[i]? = some (a * p + b))
    (hinc' : (gather ip' inds').Pairwise (· < ·)) (hn' : 2 ≤ inds'.length)
    (hlin' : ∀ i ∈ inds', ∃ p, ip'[i]? = some p ∧ x'[i]? = some (a * p + b)) :
    alignCycle ip x inds bins = alignCycle ip' x' inds' bins := by
  rw [alignCycle_affine ip x inds bins a b hinc hn hlin, alignCycle_affine ip' x' inds' bins a b hinc' hn' hlin']

/-- **`cycles=None`: the cycles aligned are those of the phase supplied.**  `phaseAlignDefault` is
    `phase_align` on the all-cycles vector `get_cycle_vector(ip, return_good=False)` of the SAME phase values
    (default `phase_step`): whenever it returns there is one column per cycle of that phase (the detector's
    cycle count), and every column whose cycle meets the hypotheses of `alignCycle_affine` is `a·bins + b`.
    The model is a function of the values: what an earlier call saw (seeded change C14-6: a memo keyed by
    the identity of the phase array) cannot enter. -/
theorem phaseAlign_default_cycles (g : Cycles.GoodCfg) (dstep : Rat) (ip x bins : List Rat)
    (cols : List (List (Option Rat))) (h : phaseAlignDefault g dstep ip x bins = .ok cols) :
    let cv := Cycles.cvIdx (Cycles.wrapAt dstep) (fun _ => true) ip
    phaseAlignDefault g dstep ip x bins = phaseAlign ip x cv bins ∧
    cv = Cycles.getCycleVector g dstep false ip (List.replicate ip.length true) ∧
    cols.length = Cycles.nCycles (Cycles.cvSegs (Cycles.wrapAt dstep) (fun _ => true) ip) ∧
    ∀ (k : Nat) (a b : Rat), k < cols.length →
      (gather ip (mapCycleToSamples cv k)).Pairwise (· < ·) → 2 ≤ (mapCycleToSamples cv k).length →
      (∀ i ∈ mapCycleToSamples cv k, ∃ p, ip[i]? = some p ∧ x[i]? = some (a * p + b)) →
      cols[k]? = some (bins.map fun t => some (a * t + b)) := by
  intro cv
  have hcv : cv = Cycles.getCycleVector g dstep false ip (List.replicate ip.length true) := by
    show Cycles.cvIdx _ _ _ = _
    rw [C12.code_model_refines, ComposeContainer.getCycleVector_all]
  have hdef : phaseAlignDefault g dstep ip x bins = phaseAlign ip x cv bins := by
    unfold phaseAlignDefault Cycles.getCycleVectorOpt Cycles.resolveStep
    rw [hcv]
  rw [hdef] at h
  obtain ⟨hlen, haff⟩ := phaseAlign_affine ip x cv bins cols h
  have hK : nLabels cv = Cycles.nCycles (Cycles.cvSegs (Cycles.wrapAt dstep) (fun _ => true) ip) := by
    show nLabels (Cycles.cvIdx _ _ _) = _
    rw [C12.code_model_refines]
    exact ComposeContainer.nLabels_paint _ _ _
  refine ⟨hdef, hcv, by rw [hlen, hK], ?_⟩
  intro k a b hk
  exact haff k a b (by omega)

/-! ## non-vacuity -/

-- a labelling with a gap and two cycles; any reducer (here: the segment length) sees exactly each cycle
example : cycleStat List.length [1, 2, 3, 4, 5] [0, -1, 1, 1, -1] = [1, 2] := by decide
example : ([0, -1, 1, 1, -1] : List Int) ≠ [] := by decide
example : nLabels [0, -1, 1, 1, -1] = 2 := by decide
-- hypotheses of linInterp_affine / alignCycle_affine on three samples of y = 2x + 1
example : ([(0, 1), (1, 3), (3, 7)] : List (Rat × Rat)).Pairwise fun p q => p.1 < q.1 := by
  simp [List.pairwise_cons]; decide
example : ∀ p ∈ ([(0, 1), (1, 3), (3, 7)] : List (Rat × Rat)), p.2 = 2 * p.1 + 1 := by
  intro p hp; simp at hp; rcases hp with rfl | rfl | rfl <;> grind
-- `AlignAccepts` is satisfiable (two cycles, a gap) and refutable (label 1 skipped -> ValueError)
example : AlignAccepts [1, 2, 3, 4, 5] [0, 0, 0, 0, 0] [0, 0, -1, 1, 1] := by
  refine ⟨by decide, rfl, rfl, ?_⟩
  intro k hk
  have : k = 0 ∨ k = 1 := by have : nLabels [0, 0, -1, 1, 1] = 2 := by decide
                             omega
  rcases this with rfl | rfl <;> decide
example : ¬ AlignAccepts [1, 2, 3] [0, 0, 0] [0, 2, 2] := by
  rintro ⟨_, _, _, h⟩
  exact h 1 (by decide) (by decide)
-- strictly increasing edges with a last bin
example : ([0, 1, 2] : List Rat).Pairwise (· < ·) := by simp [List.pairwise_cons]; decide

-- the sharp cycle of seeded change C14-8 (8 samples, one step 27/20 -> 5 larger than π, still one monotone cycle):
-- `alignCycle_affine` applies to it (q = 3·phase − 1) whatever the grid
example : ([3/20, 9/20, 3/4, 21/20, 27/20, 5, 11/2, 6] : List Rat).Pairwise (· < ·) := by
  simp [List.pairwise_cons]; decide +kernel
example : (22/7 : Rat) < 5 - 27/20 := by decide +kernel
example (bins : List Rat) :
    alignCycle [3/20, 9/20, 3/4, 21/20, 27/20, 5, 11/2, 6] [-11/20, 7/20, 5/4, 43/20, 61/20, 14, 31/2, 17]
      [0, 1, 2, 3, 4, 5, 6, 7] bins = .ok (bins.map fun t => some (3 * t + -1)) := by
  apply alignCycle_affine
  · simp [gather, List.pairwise_cons]; decide +kernel
  · decide
  · intro i hi
    simp at hi
    rcases hi with rfl | rfl | rfl | rfl | rfl | rfl | rfl | rfl <;> simp <;> decide +kernel
-- a phase exactly on the first edge: alone in bin 0, and bin 0 is filled
example : binByPhase [0, 1, 2] [0, 3/2] [7, 9] = [(some 7, some 0), (some 9, some 0)] := by decide +kernel
-- default cycles: two wraps, three cycles of the phase supplied
example : (phaseAlignDefault { edge := 1/4, twopi := 6, endlo := 23/4 } 4 [1, 5, 0, 3, 6, 1] [1, 5, 0, 3, 6, 1] [1, 2]).toOption.map List.length
    = some 3 := by decide +kernel

end C14
