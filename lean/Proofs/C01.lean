/-
  C01 — classic sift is a complete additive decomposition of its input.
  Property theorems only (helpers: Proofs/Lemmas/Sift.lean, Proofs/Lemmas/SiftOuter.lean).

  Model: `Sift.siftLoop` / `siftIx` / `sift` (EmdModel/Sift.lean) mirror `emd.sift.sift`: state =
  (columns so far, running residual), one extraction `X layer proto` per layer, residual
  recomputed from the input as `x − Σ columns`, three terminators (extractor cleared the
  continue flag / cap reached / abs-sum of the last column below `sift_thresh`).  The outer loop has
  no termination proof (EMD has none), so it takes fuel; every theorem holds for every fuel.

  The theorems quantify over EVERY extractor `X` that satisfies the contract `ExtractorOK`
  (length preserved; flag cleared ⇒ input returned unchanged); `getNextImf_contract` shows that
  single-IMF extraction (C04 model, no energy threshold) satisfies it for every envelope oracle.
  `resid x cols = x − Σ cols` (`Sig.sub x (Sig.vsum x.length cols)`).

  Out of range: `get_next_imf` with the fixed rule and `max_iters = 0` never returns in the code; its model
  answers `convergeError` (`C04.fixed_zero_iters_model_convergeError`), so `extractorIx` is `none` and the
  sift model ends `.raised` — every theorem here is about `.done` exits and is silent on that call.

  With an energy threshold the contract's `stay` half fails (the flag is also cleared when the energy
  rule fires); the section "With an energy threshold" states the property at full strength for EVERY
  option record: complete unless cut short by the cap, the sift threshold or the energy rule
  (`Sift.EnergyFires D o p c`: `energy_thresh = some t` and `t < D p (p − c)`, `D` the dB oracle).
-/
import Proofs.Lemmas.SiftOuter
import Proofs.Lemmas.SiftEnergy
import Proofs.Lemmas.Compose
import Proofs.C06

namespace C01
open Sift

/-- Residual invariant: in every layer the extraction is applied to `x − Σ (columns extracted so far)`
    and its output becomes the next column (stated for an arbitrary entry state of the loop whose
    residual is consistent; `siftIx` starts from `([], x)`, see `sift_residual_inv`). -/
theorem siftLoop_residual_inv (X : Nat → Sig → Option (Sig × Bool)) (thr : Rat) (cap : Option Nat) (x : Sig)
    (fuel : Nat) (cols : List Sig) (proto : Sig) (out : List Sig) (e : SiftEnd)
    (hp : proto = resid x cols) (h : siftLoop X thr cap x fuel cols proto = (out, e)) :
    ∀ k, cols.length ≤ k → k < out.length →
      ∃ c f, out[k]? = some c ∧ X k (resid x (out.take k)) = some (c, f) :=
  siftLoop_cols X thr cap x fuel cols proto out e hp h

theorem sift_residual_inv (X : Nat → Sig → Option (Sig × Bool)) (thr : Rat) (cap : Option Nat) (x : Sig)
    (fuel : Nat) (out : List Sig) (e : SiftEnd) (h : siftIx X thr cap x fuel = (out, e)) :
    ∀ k, k < out.length → ∃ c f, out[k]? = some c ∧ X k (resid x (out.take k)) = some (c, f) :=
  fun k hk => siftLoop_cols X thr cap x fuel [] x out e (resid_nil x).symm h k (Nat.zero_le k) hk

/-- All returned components have the length of the input. -/
theorem sift_col_lengths (X : Nat → Sig → Option (Sig × Bool)) (thr : Rat) (cap : Option Nat) (x : Sig)
    (hX : ExtractorOK X x.length) (fuel : Nat) :
    ∀ c ∈ (siftIx X thr cap x fuel).1, c.length = x.length :=
  siftLoop_lengths X thr cap x hX fuel [] x (resid_nil x).symm (by simp)

/-- COMPLETENESS: if the sift ends because the extractor cleared the continue flag, the components sum
    back to the input EXACTLY (in ℚ) — for every extractor meeting the contract, every threshold,
    cap, input and fuel, whatever other terminator fired at the same time. -/
theorem sift_complete (X : Nat → Sig → Option (Sig × Bool)) (thr : Rat) (cap : Option Nat) (x : Sig)
    (hX : ExtractorOK X x.length) (fuel : Nat) (cols : List Sig) (cp th : Bool)
    (h : siftIx X thr cap x fuel = (cols, .done true cp th)) : Sig.vsum x.length cols = x := by
  obtain ⟨init, c, rfl, _, hc, _⟩ := siftLoop_done X thr cap x fuel [] x cols true cp th (resid_nil x).symm h
  have hl := sift_col_lengths X thr cap x hX fuel
  unfold siftIx at hl
  rw [show siftLoop X thr cap x fuel [] x = (init ++ [c], .done true cp th) from h] at hl
  have hinit : ∀ d ∈ init, d.length = x.length := fun d hd => hl d (by simp [hd])
  have : c = resid x init := hX.stay _ _ _ (by simpa using hc)
  rw [this]
  exact vsum_append_resid x init hinit

/-- "…unless the decomposition was explicitly cut short": a regular exit on which neither the cap nor
    the sift threshold fired is complete. -/
theorem sift_complete_unless_cutshort (X : Nat → Sig → Option (Sig × Bool)) (thr : Rat) (cap : Option Nat)
    (x : Sig) (hX : ExtractorOK X x.length) (fuel : Nat) (cols : List Sig) (fl : Bool)
    (h : siftIx X thr cap x fuel = (cols, .done fl false false)) : Sig.vsum x.length cols = x := by
  obtain ⟨_, _, _, _, _, _, _, hor⟩ := siftLoop_done X thr cap x fuel [] x cols fl false false (resid_nil x).symm h
  have : fl = true := by simpa using hor
  subst this
  exact sift_complete X thr cap x hX fuel cols false false h

/-- The three named cut-short causes are exhaustive: every regular exit is due to the cleared flag,
    the cap (exactly `cap` columns), or the last column's abs-sum below the threshold — and the
    recorded causes are accurate. -/
theorem sift_cutshort_cases (X : Nat → Sig → Option (Sig × Bool)) (thr : Rat) (cap : Option Nat) (x : Sig)
    (fuel : Nat) (cols : List Sig) (fl cp th : Bool) (h : siftIx X thr cap x fuel = (cols, .done fl cp th)) :
    (fl = true ∨ cp = true ∨ th = true) ∧
    (cp = true ↔ cap = some cols.length) ∧
    (∃ c, cols.getLast? = some c ∧ (th = true ↔ Sig.absSum c < thr)) := by
  obtain ⟨init, c, rfl, _, _, hcp, hth, hor⟩ :=
    siftLoop_done X thr cap x fuel [] x cols fl cp th (resid_nil x).symm h
  refine ⟨hor, ?_, c, by simp, ?_⟩
  · subst hcp; simp
  · subst hth; simp

/-- Single-IMF extraction (C04 model) without an energy threshold satisfies the extractor contract,
    for every envelope oracle whose envelopes have the length of their signal. -/
theorem getNextImf_contract (E : Nat → Sig → Env) (hE : EnvLen E) (D : Sig → Sig → Rat) (o : ImfOpts)
    (he : o.energyThresh = none) (n : Nat) : ExtractorOK (fun _ => extractorIx E D o) n where
  len := by
    intro _ p c f hp h
    unfold extractorIx at h
    cases hr : getNextImfIx E D o p with
    | imf c' f' =>
      rw [hr] at h; simp only [Option.some.injEq, Prod.mk.injEq] at h
      obtain ⟨rfl, rfl⟩ := h
      rw [imf_length E hE D o p c' f' hr, hp]
    | convergeError => rw [hr] at h; cases h
  stay := by
    intro _ p c h
    unfold extractorIx at h
    cases hr : getNextImfIx E D o p with
    | imf c' f' =>
      rw [hr] at h; simp only [Option.some.injEq, Prod.mk.injEq] at h
      obtain ⟨rfl, rfl⟩ := h
      exact (flag_false_unmodified E D o p c' he hr).1
    | convergeError => rw [hr] at h; cases h

/-- Hence `sift` over `get_next_imf` is complete whenever it ends by the flag. -/
theorem sift_getNextImf_complete (E : Nat → Sig → Env) (hE : EnvLen E) (D : Sig → Sig → Rat) (o : ImfOpts)
    (he : o.energyThresh = none) (thr : Rat) (cap : Option Nat) (x : Sig) (fuel : Nat) (cols : List Sig)
    (cp th : Bool) (h : sift (extractorIx E D o) thr cap x fuel = (cols, .done true cp th)) :
    Sig.vsum x.length cols = x :=
  sift_complete _ thr cap x (getNextImf_contract E hE D o he x.length) fuel cols cp th h

/-- When the sift ends of its own accord the final component is a non-oscillatory residual: it has
    fewer than two strict interior maxima or fewer than two strict interior minima.  (`envOf I`: an
    envelope is None iff fewer than two extrema of its kind; interpolation values `I` arbitrary.) -/
theorem sift_last_nonoscillatory (I : Nat → Sig → Sig × Sig) (D : Sig → Sig → Rat) (o : ImfOpts)
    (he : o.energyThresh = none) (thr : Rat) (cap : Option Nat) (x : Sig) (fuel : Nat) (cols : List Sig)
    (cp th : Bool) (h : sift (extractorIx (envOf I) D o) thr cap x fuel = (cols, .done true cp th)) :
    ∃ c, cols.getLast? = some c ∧ (peaks c < 2 ∨ troughs c < 2) := by
  obtain ⟨init, c, rfl, _, hc, _⟩ :=
    siftLoop_done (fun _ => extractorIx (envOf I) D o) thr cap x fuel [] x cols true cp th (resid_nil x).symm h
  refine ⟨c, by simp, ?_⟩
  simp only [extractorIx, Bool.not_true] at hc
  cases hr : getNextImfIx (envOf I) D o (resid x init) with
  | imf c' f' =>
    rw [hr] at hc; simp only [Option.some.injEq, Prod.mk.injEq] at hc
    obtain ⟨rfl, rfl⟩ := hc
    obtain ⟨hcx, hn⟩ := flag_false_unmodified (envOf I) D o _ c' he hr
    rw [← hcx] at hn
    simp only [envOf] at hn
    rcases hn with hn | hn
    · left
      by_cases hlt : peaks c' < 2
      · exact hlt
      · simp [hlt] at hn
    · right
      by_cases hlt : troughs c' < 2
      · exact hlt
      · simp [hlt] at hn
  | convergeError => rw [hr] at hc; cases hc

/-! ### With an energy threshold (every option record of `get_next_imf`)

`Sift.EnergyFires D o p c` : `o.energyThresh = some t ∧ t < D p (Sig.sub p c)` — the test
`_energy_difference(X, X - imf) > energy_thresh` of `get_next_imf` on input `p`, result `c`.
`Sift.LastEnergyFires D o x cols` : `cols = init ++ [c]` and `EnergyFires D o (resid x init) c` — the rule
fired on the extraction that produced the last column. -/

/-- FULL-STRENGTH COMPLETENESS over `get_next_imf`, energy threshold or not: if the sift ends with the
    continue flag cleared, then EITHER the components sum to the input exactly (and the last one is the
    unmodified running residual, which has an undefined envelope) OR the energy rule fired on the last
    extraction. -/
theorem sift_getNextImf_complete_or_energy (E : Nat → Sig → Env) (hE : EnvLen E) (D : Sig → Sig → Rat) (o : ImfOpts)
    (thr : Rat) (cap : Option Nat) (x : Sig) (fuel : Nat) (cols : List Sig) (cp th : Bool)
    (h : sift (extractorIx E D o) thr cap x fuel = (cols, .done true cp th)) :
    (Sig.vsum x.length cols = x ∧
      ∃ c, cols.getLast? = some c ∧ c = resid x cols.dropLast ∧ ((E 0 c).1 = none ∨ (E 0 c).2 = none)) ∨
    LastEnergyFires D o x cols := by
  obtain ⟨init, c, rfl, _, hor⟩ := sift_gni_flag_exit E hE D o thr cap x fuel cols cp th h
  rcases hor with ⟨hc, hn, hsum⟩ | hfire
  · left; exact ⟨hsum, c, by simp, by simpa using hc, hn⟩
  · right; exact ⟨init, c, rfl, hfire⟩

/-- Threshold configured but it did not fire on the last extraction ⇒ complete.  (Hypothesis on the last
    layer only; "never fired in any layer" implies it.) -/
theorem sift_getNextImf_complete_energy_silent (E : Nat → Sig → Env) (hE : EnvLen E) (D : Sig → Sig → Rat)
    (o : ImfOpts) (t : Rat) (he : o.energyThresh = some t) (thr : Rat) (cap : Option Nat) (x : Sig) (fuel : Nat)
    (cols : List Sig) (cp th : Bool)
    (h : sift (extractorIx E D o) thr cap x fuel = (cols, .done true cp th))
    (hsilent : ∀ init c, cols = init ++ [c] → ¬ t < D (resid x init) (Sig.sub (resid x init) c)) :
    Sig.vsum x.length cols = x := by
  rcases sift_getNextImf_complete_or_energy E hE D o thr cap x fuel cols cp th h with hc | ⟨init, c, hcols, t', ht', hlt⟩
  · exact hc.1
  · rw [he] at ht'; cases ht'
    exact absurd hlt (hsilent init c hcols)

/-- THE THREE DOCUMENTED CUT-SHORT CAUSES ARE EXHAUSTIVE for `sift` over `get_next_imf`: every regular
    exit is complete (Σ columns = input, exactly) unless the cap was reached (exactly `cap` columns),
    the last column's abs-sum is below `sift_thresh`, or the energy threshold fired on the last
    extraction. -/
theorem sift_getNextImf_cutshort_cases (E : Nat → Sig → Env) (hE : EnvLen E) (D : Sig → Sig → Rat) (o : ImfOpts)
    (thr : Rat) (cap : Option Nat) (x : Sig) (fuel : Nat) (cols : List Sig) (fl cp th : Bool)
    (h : sift (extractorIx E D o) thr cap x fuel = (cols, .done fl cp th)) :
    Sig.vsum x.length cols = x ∨ cap = some cols.length ∨
      (∃ c, cols.getLast? = some c ∧ Sig.absSum c < thr) ∨ LastEnergyFires D o x cols := by
  obtain ⟨hor, hcp, c, hlast, hth⟩ := sift_cutshort_cases _ thr cap x fuel cols fl cp th h
  rcases hor with hfl | hc | ht
  · subst hfl
    rcases sift_getNextImf_complete_or_energy E hE D o thr cap x fuel cols cp th h with hcomp | hfire
    · exact Or.inl hcomp.1
    · exact Or.inr (Or.inr (Or.inr hfire))
  · exact Or.inr (Or.inl (hcp.mp hc))
  · exact Or.inr (Or.inr (Or.inl ⟨c, hlast, hth.mp ht⟩))

/-- Without an energy threshold the fourth cause is impossible (so the earlier theorems are the
    `energyThresh = none` instances of this section). -/
theorem lastEnergyFires_of_none (D : Sig → Sig → Rat) (o : ImfOpts) (he : o.energyThresh = none) (x : Sig)
    (cols : List Sig) : ¬ LastEnergyFires D o x cols := by
  rintro ⟨_, _, _, hf⟩; exact energyFires_none he hf

/-- Last component with an energy threshold: when the flag was cleared it is a non-oscillatory residual
    OR the energy rule fired on it. -/
theorem sift_last_nonoscillatory_or_energy (I : Nat → Sig → Sig × Sig) (D : Sig → Sig → Rat) (o : ImfOpts)
    (thr : Rat) (cap : Option Nat) (x : Sig) (fuel : Nat) (cols : List Sig) (cp th : Bool)
    (h : sift (extractorIx (envOf I) D o) thr cap x fuel = (cols, .done true cp th)) :
    (∃ c, cols.getLast? = some c ∧ (peaks c < 2 ∨ troughs c < 2)) ∨ LastEnergyFires D o x cols := by
  obtain ⟨init, c, rfl, _, hc, _⟩ :=
    siftLoop_done (fun _ => extractorIx (envOf I) D o) thr cap x fuel [] x cols true cp th (resid_nil x).symm h
  rcases (flag_iff_energy' (envOf I) D o _ c _ (extractorIx_imf hc)).mp (by simp) with ⟨hcx, hn⟩ | hfire
  · left
    refine ⟨c, by simp, ?_⟩
    rw [← hcx] at hn
    simp only [envOf] at hn
    rcases hn with hn | hn
    · left
      by_cases hlt : peaks c < 2
      · exact hlt
      · simp [hlt] at hn
    · right
      by_cases hlt : troughs c < 2
      · exact hlt
      · simp [hlt] at hn
  · right; exact ⟨init, c, rfl, hfire⟩

/-! ### Non-vacuity: a 7-sample signal, table extractor, natural exit in two layers. -/

/-- layer 0 returns a zig-zag component with the flag set, layer 1 returns its input unchanged, flag cleared -/
def tabX : Nat → Sig → Option (Sig × Bool) := fun k p =>
  if k = 0 then some ([0, 1, -1, 1, -1, 1, 0], true) else some (p, false)

example : siftIx tabX (1/100000000) none [1, 3, 2, 5, 4, 7, 7] 10
    = ([[0, 1, -1, 1, -1, 1, 0], [1, 2, 3, 4, 5, 6, 7]], .done true false false) := by decide +kernel
example : Sig.vsum 7 [[0, 1, -1, 1, -1, 1, 0], [1, 2, 3, 4, 5, 6, 7]] = [1, 3, 2, 5, 4, 7, 7] := by decide +kernel
example : ExtractorOK tabX 7 where
  len := by
    intro k p c f hp h
    unfold tabX at h
    split at h <;> simp only [Option.some.injEq, Prod.mk.injEq] at h <;> obtain ⟨rfl, _⟩ := h
    · rfl
    · exact hp
  stay := by
    intro k p c h
    unfold tabX at h
    split at h <;> simp only [Option.some.injEq, Prod.mk.injEq] at h
    · simp at h
    · exact h.1.symm
example : peaks [1, 2, 3, 4, 5, 6, 7] < 2 := by decide +kernel
example : peaks [0, 1, -1, 1, -1, 1, 0] = 3 ∧ troughs [0, 1, -1, 1, -1, 1, 0] = 2 := by decide +kernel


/-! ### Non-vacuity with an energy threshold (real `get_next_imf` model as the extractor) -/

/-- envelopes (upper = the signal, lower = 0) while the first sample exceeds 1 -/
def toyE3 : Nat → Sig → Env := fun _ h =>
  match h with
  | a :: _ => if a ≤ 1 then (none, none) else (some h, some (h.map fun _ => 0))
  | [] => (none, none)

def toyOe : ImfOpts := { stop := .sd (1/2), step := 1, maxIters := 5, energyThresh := some 50 }

example : EnvLen toyE3 := by
  intro k h U L he
  unfold toyE3 at he
  split at he
  · split at he
    · cases he
    · cases he; simp
  · cases he
-- threshold set, never fires (dB oracle ≡ 0): three columns, natural exit, complete
example : sift (extractorIx toyE3 (fun _ _ => 0) toyOe) (1/100000000) none [4, 8] 10
    = ([[2, 4], [1, 2], [1, 2]], .done true false false) := by decide +kernel
example : Sig.vsum 2 [[2, 4], [1, 2], [1, 2]] = [4, 8] := by decide +kernel
-- threshold fires on the first extraction (dB oracle ≡ 60 > 50): flag cleared, the decomposition is
-- cut short and does NOT sum to the input — the energy disjunct of the theorems is necessary
example : sift (extractorIx toyE3 (fun _ _ => 60) toyOe) (1/100000000) none [4, 8] 10
    = ([[2, 4]], .done true false false) := by decide +kernel
example : Sig.vsum 2 [[2, 4]] ≠ [4, 8] := by decide +kernel
example : LastEnergyFires (fun _ _ => 60) toyOe [4, 8] [[2, 4]] :=
  ⟨[], [2, 4], rfl, 50, rfl, by decide +kernel⟩

/-! ### The composed pipeline: Sift model on top of the Extrema model (C05)

The theorems above take the envelope as an oracle.  Here it is instantiated with the envelopes of
the Extrema model (`Sift.extEnv I w parab` = upper/lower `Extrema.interpEnvelope` with pad width
`w ≥ 1`, with or without parabolic refinement), leaving only the interpolant `I` abstract — the
model of the whole chain get_padded_extrema → interp_envelope → get_next_imf → sift. -/

/-- In the range `1 ≤ w` the composed model represents the code faithfully: `extEnv` (which maps a
    RAISING envelope to "no envelope") has a `none` component exactly when `interp_envelope` returns
    None — it never raises there (`C05.interpEnvelope_never_raises`). -/
theorem pipeline_envelopes_faithful (I : Extrema.Interp) (w : Nat) (hw : 1 ≤ w) (parab : Bool) (h : Sig) :
    ((extEnv I w parab h).1 = none ↔ Extrema.interpEnvelope I .upper w parab h = .none) ∧
    ((extEnv I w parab h).2 = none ↔ Extrema.interpEnvelope I .lower w parab h = .none) :=
  Compose.extEnv_faithful I w hw parab h

/-- …and at `w = 0` it does NOT: on every signal with ≥ 2 peaks the code's `interp_envelope` raises
    ValueError (`C05.interpEnvelope_pad0_raises`) while `extEnv` answers "no envelope" — the composed
    model would report a natural exit with an oscillatory "residual" on a call that the code rejects.
    Hence every pipeline theorem below (and in C02 / C07) carries `1 ≤ w`. -/
theorem pipeline_pad0_not_represented (I : Extrema.Interp) (parab : Bool) (h : Sig) (hp : 2 ≤ peaks h) :
    (extEnv I 0 parab h).1 = none ∧ Extrema.interpEnvelope I .upper 0 parab h = .valueError :=
  Compose.extEnv_pad0_artifact I parab h hp

/-- Completeness for the composed pipeline: when the sift ends of its own accord the components
    sum to the input exactly, for every interpolant, pad width ≥ 1, refinement flag, stop rule,
    step, iteration limit, threshold, cap, input and fuel. -/
theorem sift_pipeline_complete (I : Extrema.Interp) (w : Nat) (hw : 1 ≤ w) (parab : Bool) (D : Sig → Sig → Rat)
    (o : ImfOpts) (he : o.energyThresh = none) (thr : Rat) (cap : Option Nat) (x : Sig) (fuel : Nat) (cols : List Sig)
    (cp th : Bool)
    (h : sift (extractorIx (fun _ => extEnv I w parab) D o) thr cap x fuel = (cols, .done true cp th)) :
    Sig.vsum x.length cols = x := by
  have hE : EnvLen (envOf (Compose.envVals I w parab)) :=
    Compose.extEnv_eq_envOf I w hw parab ▸ extEnv_len I w parab
  rw [Compose.extEnv_eq_envOf I w hw parab] at h
  exact sift_getNextImf_complete _ hE D o he thr cap x fuel cols cp th h

/-- …with any option record (energy threshold included): every regular exit of the composed pipeline
    is complete unless the cap, the sift threshold or the energy rule cut it short. -/
theorem sift_pipeline_cutshort_cases (I : Extrema.Interp) (w : Nat) (hw : 1 ≤ w) (parab : Bool) (D : Sig → Sig → Rat)
    (o : ImfOpts) (thr : Rat) (cap : Option Nat) (x : Sig) (fuel : Nat) (cols : List Sig) (fl cp th : Bool)
    (h : sift (extractorIx (fun _ => extEnv I w parab) D o) thr cap x fuel = (cols, .done fl cp th)) :
    Sig.vsum x.length cols = x ∨ cap = some cols.length ∨
      (∃ c, cols.getLast? = some c ∧ Sig.absSum c < thr) ∨ LastEnergyFires D o x cols := by
  have hE : EnvLen (envOf (Compose.envVals I w parab)) :=
    Compose.extEnv_eq_envOf I w hw parab ▸ extEnv_len I w parab
  rw [Compose.extEnv_eq_envOf I w hw parab] at h
  exact sift_getNextImf_cutshort_cases _ hE D o thr cap x fuel cols fl cp th h

/-- … and the final component is a non-oscillatory residual in the sense of the Extrema model:
    fewer than two detected peaks or fewer than two detected troughs. -/
theorem sift_pipeline_last_nonoscillatory (I : Extrema.Interp) (w : Nat) (hw : 1 ≤ w) (parab : Bool)
    (D : Sig → Sig → Rat) (o : ImfOpts) (he : o.energyThresh = none) (thr : Rat) (cap : Option Nat)
    (x : Sig) (fuel : Nat) (cols : List Sig) (cp th : Bool)
    (h : sift (extractorIx (fun _ => extEnv I w parab) D o) thr cap x fuel = (cols, .done true cp th)) :
    ∃ c, cols.getLast? = some c ∧
      ((Extrema.findPeaks c).length < 2 ∨ (Extrema.findTroughs c).length < 2) := by
  rw [Compose.extEnv_eq_envOf I w hw parab] at h
  obtain ⟨c, hc, hp⟩ := sift_last_nonoscillatory (Compose.envVals I w parab) D o he thr cap x fuel cols cp th h
  exact ⟨c, hc, by rw [← Compose.peaks_eq, ← Compose.troughs_eq]; exact hp⟩

/-! ### Non-vacuity of the pipeline theorems: the composed model itself runs to a natural exit -/

/-- a (crude) interpolant: the constant first + last magnitude -/
def sumInterp : Extrema.Interp := { eval := fun _ mags _ => mags.headD 0 + mags.getLastD 0 }

-- pad width 2, no refinement, fixed count 3 with step 1/2: two columns, natural exit, Σ = x
example : sift (extractorIx (fun _ => extEnv sumInterp 2 false) (fun _ _ => 0)
      { stop := .fixed, step := 1/2, maxIters := 3, energyThresh := none }) (1/100000000) none [0, 3, -1, 2, -2, 2, 1] 10
    = ([[-1/2, 5/2, -3/2, 3/2, -5/2, 3/2, 1/2], [1/2, 1/2, 1/2, 1/2, 1/2, 1/2, 1/2]], .done true false false) := by
  decide +kernel
-- the w = 0 artefact on the same signal (3 peaks): the code raises, `extEnv` says "no envelope"
example : (extEnv sumInterp 0 false [0, 3, -1, 2, -2, 2, 1]).1 = none ∧
    Extrema.interpEnvelope sumInterp .upper 0 false [0, 3, -1, 2, -2, 2, 1] = .valueError :=
  pipeline_pad0_not_represented sumInterp false _ (by decide +kernel)

/-! ### No unrequested energy stop: the option model (C06) under the sift model

  The theorems above assume `o.energyThresh = none`.  Where does `o` come from?  From the arguments `get_next_imf`
  is actually called with, which the option model (`EmdModel.Options`, C06) derives from what the CALLER supplied:
  `sift(x)` without `imf_opts` substitutes its own fallback dictionary, `sift(x, imf_opts={…})` hands the dictionary
  over, a `SiftConfig` spells every default out.  On every one of these routes a caller who supplies no
  `energy_thresh` (or `None`) gets `energy_thresh = None` at every extraction (`C06.no_energy_thresh_unless_supplied`)
  — a fallback dictionary that silently gains `'energy_thresh': 50` (seeded C01-7) contradicts this theorem. -/

/-- **With no energy threshold supplied, no energy stop can fire and the decomposition is complete.**  Classic sift,
    any delivery route, any user dictionaries (also none at all) whose IMF options hold no `energy_thresh`: for the
    options `o` read from ANY `get_next_imf` call the run makes, whatever the envelopes `E` (length preserving), energy
    oracle `D`, threshold, cap, input and fuel — a sift over that extraction that ends by the continue flag returns
    components that sum to the input exactly, and the energy rule did not fire on its last extraction. -/
theorem sift_no_unrequested_energy_stop (r : Options.Route) (u : Options.User) (hu : Options.WF u)
    (cs : List Options.StageCall) (hemit : Options.emit false r .sift u = .ok cs)
    (hno : ((Options.optA u.imf).lookup "energy_thresh".toList).getD Options.none' = Options.none')
    (c : Options.StageCall) (hc : c ∈ cs) (hs : c.stage = .gni) (o : ImfOpts) (ho : Options.imfOptsOf c.args = .ok o)
    (E : Nat → Sig → Env) (hE : EnvLen E) (D : Sig → Sig → Rat) (thr : Rat) (cap : Option Nat) (x : Sig) (fuel : Nat)
    (cols : List Sig) (cp th : Bool) (h : sift (extractorIx E D o) thr cap x fuel = (cols, .done true cp th)) :
    o.energyThresh = none ∧ Sig.vsum x.length cols = x ∧ ¬ LastEnergyFires D o x cols := by
  have he : o.energyThresh = none :=
    C06.no_energy_thresh_unless_supplied r .sift u hu cs hemit hno c hc hs o ho
  exact ⟨he, sift_getNextImf_complete E hE D o he thr cap x fuel cols cp th h, lastEnergyFires_of_none D o he x cols⟩

-- non-vacuity: `sift(x)` with no option dictionary at all makes one chain of stage calls; the options read from its
-- `get_next_imf` call exist, hold the default rule and no energy threshold
def noOptsUser : Options.User := { top := .nil, imf := none, env := none, ext := none }
example : ∃ cs, Options.emit false .direct .sift noOptsUser = .ok cs ∧
    (cs.filter (·.stage = .gni)).map (fun c => (Options.imfOptsOf c.args).toOption.map (fun o => (o.stop, o.energyThresh))) =
      [some (.sd (3602879701896397 / 36028797018963968), none)] := ⟨_, rfl, by decide +kernel⟩
example : Options.WF noOptsUser :=
  ⟨⟨rfl, rfl, rfl⟩, by simp [noOptsUser, Config.Assoc.keys], by simp [noOptsUser, Options.optA, Config.Assoc.keys],
   by simp [noOptsUser, Options.optA, Config.Assoc.keys], by simp [noOptsUser, Options.optA, Config.Assoc.keys],
   by simp [Config.NodupKeys, noOptsUser, Options.optA, Config.Assoc.keys],
   by simp [Config.NodupKeys, noOptsUser, Options.optA, Config.Assoc.keys],
   by simp [Config.NodupKeys, noOptsUser, Options.optA, Config.Assoc.keys]⟩
example : ((Options.optA noOptsUser.imf).lookup "energy_thresh".toList).getD Options.none' = Options.none' := rfl

end C01
