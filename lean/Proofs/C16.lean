/- C16 — work in progress -/
import EmdModel.Maps

namespace C16
open Maps

theorem placeholder_label (l : Int) : label? l = none ↔ l ≤ -1 := by
  unfold label?; split <;> simp <;> omega

end C16
