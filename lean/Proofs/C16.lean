/-
  C16 — sample, cycle, subset and chain index maps are mutually consistent.
  Property theorems only (helper lemmas: Proofs/Lemmas/Maps*.lean).

  Setting of every theorem: `cv` a well-formed cycle vector with K = |valids| cycles
  (`WF cv valids.length`: labels 0..K-1 as contiguous ordered blocks, -1 gaps anywhere),
  `sv = subsetVector valids`, `ch = chainVector sv` — the two constructors are themselves
  characterised first.  "Existing" indices: sample i < |cv|, cycle k < K,
  subset cycle j < S = #selected, chain c < C = max(ch)+1 (as the implementation counts).
-/
import Proofs.Lemmas.MapsIndex
import Proofs.Lemmas.MapsCycles

namespace C16
open Maps

/-! ## the constructors -/

theorem subsetVector_length (valids : List Bool) :
    (subsetVector valids).length = valids.length := subsetFrom_length 0 valids

/-- entry k is the rank of cycle k among the selected cycles, -1 when it is not selected -/
theorem subsetVector_spec (valids : List Bool) (k : Nat) (hk : k < valids.length) :
    (subsetVector valids)[k]? =
      some (if valids[k]! then (((valids.take k).count true : Nat) : Int) else -1) :=
  subset_entry valids k hk

/-- the number of subset cycles the implementation computes (max+1) is the number selected -/
theorem subsetVector_size (valids : List Bool) :
    nLabels (subsetVector valids) = valids.count true := nLabels_subsetVector valids

/-- every existing subset index names exactly one cycle, and that cycle carries it;
    indices beyond the subset name none -/
theorem subsetVector_unique (valids : List Bool) (j : Nat) :
    (j < valids.count true →
      ∃ k, mapSubsetToCycle (subsetVector valids) j = [k] ∧ (subsetVector valids)[k]? = some (j : Int)) ∧
    (valids.count true ≤ j → mapSubsetToCycle (subsetVector valids) j = []) := by
  refine ⟨fun hj => ⟨_, subset_singleton valids j hj, subset_cycleOf valids j hj⟩, fun hj => ?_⟩
  exact subset_none_of_ge valids j hj

/-- **Integer flags select exactly like booleans** (seeded change C16-6: `subset_vect[~valids] = -1` on 0/1
    integers).  `subsetVectorFlags` is `get_subset_vector` on a numeric selection vector as the loop reads it
    (`valids[ii] == 0`).  For EVERY integer vector it is the subset vector of the Boolean vector "flag ≠ 0";
    in particular for the 0/1 integer coding of a Boolean selection (the library's own `is_good` metric,
    anything stored with `dtype=int`) it is the subset vector of that selection — so every theorem of this
    file about `subsetVector valids`, `chainVector (subsetVector valids)` and the maps built on them holds
    verbatim for the integer-coded selection. -/
theorem integer_flags_select_like_booleans :
    (∀ flags : List Int, subsetVectorFlags flags = subsetVector (flags.map fun x => decide (x ≠ 0))) ∧
    (∀ valids : List Bool, subsetVectorFlags (valids.map fun b => if b then 1 else 0) = subsetVector valids) := by
  have h1 : ∀ (flags : List Int) (c : Nat),
      subsetFromFlags c flags = subsetFrom c (flags.map fun x => decide (x ≠ 0)) := by
    intro flags
    induction flags with
    | nil => intro c; rfl
    | cons x t ih =>
      intro c
      by_cases hx : x = 0
      · simp [subsetFromFlags, subsetFrom, hx, ih]
      · simp [subsetFromFlags, subsetFrom, hx, ih]
  refine ⟨fun flags => h1 flags 0, fun valids => ?_⟩
  unfold subsetVectorFlags
  rw [h1, List.map_map]
  congr 1
  conv => rhs; rw [← List.map_id valids]
  apply List.map_congr_left
  intro b _
  cases b <;> simp

/-- spelled out on the integer flags themselves: entry k of the subset vector is the number of non-zero flags
    before k when flag k is non-zero and -1 when it is 0 — for every position, not only the last two -/
theorem integer_flags_spec (flags : List Int) (k : Nat) (hk : k < flags.length) :
    (subsetVectorFlags flags)[k]? =
      some (if flags[k]! ≠ 0 then ((((flags.take k).filter (· ≠ 0)).length : Nat) : Int) else -1) := by
  rw [integer_flags_select_like_booleans.1, subsetVector_spec _ k (by simpa using hk)]
  have hk' : k < (flags.map fun x => decide (x ≠ 0)).length := by simpa using hk
  rw [getElem!_pos _ k hk', getElem!_pos flags k hk, List.getElem_map, ← List.map_take, List.count_eq_length_filter,
    List.filter_map]
  have hlen : (List.map (fun x : Int => decide (x ≠ 0))
      (List.filter ((fun x => x == true) ∘ fun x : Int => decide (x ≠ 0)) (List.take k flags))).length =
      (List.filter (fun x : Int => decide (x ≠ 0)) (List.take k flags)).length := by
    rw [List.length_map]
    congr 1
    apply List.filter_congr
    intro x _
    simp
  by_cases h0 : flags[k] = 0
  · simp [h0]
  · simp only [ne_eq, h0, not_false_eq_true, decide_true, ite_true]
    rw [hlen]

/-- one chain entry per subset cycle -/
theorem chainVector_length (valids : List Bool) :
    (chainVector (subsetVector valids)).length = valids.count true := chain_length valids

/-- chains are the maximal runs of consecutive selected cycles, numbered in order: the first
    subset cycle opens chain 0; subset cycle m+1 stays in the chain of m exactly when the two
    are neighbouring cycles, and opens the next chain otherwise -/
theorem chainVector_runs (valids : List Bool) :
    (0 < valids.count true → (chainVector (subsetVector valids))[0]? = some 0) ∧
    ∀ (m : Nat) (x : Int), m + 1 < valids.count true →
      (chainVector (subsetVector valids))[m]? = some x →
      (chainVector (subsetVector valids))[m + 1]? =
        some (if cycleOf (subsetVector valids) (m + 1) = cycleOf (subsetVector valids) m + 1
              then x else x + 1) := by
  have hlen : (selected (subsetVector valids)).length = valids.count true :=
    selectedFrom_subsetFrom_length 0 0 valids
  have hsel : ∀ m, m < valids.count true →
      (selected (subsetVector valids))[m]? = some (cycleOf (subsetVector valids) m) := by
    intro m hm
    have hm' : m < (selected (subsetVector valids)).length := by omega
    have h1 := List.getElem?_eq_getElem hm'
    have h2 := selectedFrom_subsetFrom_getElem? 0 0 valids m _ h1
    rw [h1]
    have : cycleOf (subsetVector valids) m = (selected (subsetVector valids))[m] := by
      unfold cycleOf whereEq subsetVector
      simp only [Nat.zero_add] at h2
      rw [h2]; rfl
    rw [this]
  constructor
  · intro h
    apply chainVector_head
    intro he; rw [he] at hlen; simp at hlen; omega
  · intro m x hm hx
    exact chainVector_rec _ m _ _ x (hsel m (by omega)) (hsel (m + 1) hm) hx

/-- declaratively: chain numbers never decrease along the subset, and two subset cycles p and p+d
    share a chain exactly when the cycle index advanced by exactly d, i.e. when every cycle between
    them is selected too — chains are the MAXIMAL runs of consecutive selected cycles -/
theorem chainVector_same_chain_iff (valids : List Bool) (p d : Nat) (hq : p + d < valids.count true)
    (x y : Int) (hx : (chainVector (subsetVector valids))[p]? = some x)
    (hy : (chainVector (subsetVector valids))[p + d]? = some y) :
    x ≤ y ∧ (y = x ↔ cycleOf (subsetVector valids) (p + d) = cycleOf (subsetVector valids) p + d) := by
  obtain ⟨h1, _, h3⟩ := chain_gap (subsetVector valids) p d _ _ x y
    (selected_cycleOf valids p (by omega)) (selected_cycleOf valids (p + d) hq) hx hy
  exact ⟨h1, h3⟩

/-- chain numbers are exactly 0..C-1: non-negative, below C = max+1, none skipped -/
theorem chainVector_range (valids : List Bool) :
    (∀ x ∈ chainVector (subsetVector valids),
      0 ≤ x ∧ x < (nLabels (chainVector (subsetVector valids)) : Int)) ∧
    (∀ c, c < nLabels (chainVector (subsetVector valids)) →
      (c : Int) ∈ chainVector (subsetVector valids)) := by
  refine ⟨fun x hx => ?_, fun c hc => chainVector_occurs _ c hc⟩
  have h0 := chainVector_nonneg _ x hx
  have : ((x.toNat : Nat) : Int) = x := by omega
  have := lt_nLabels_of_mem (chainVector (subsetVector valids)) x.toNat (by rw [this]; exact hx)
  omega

/-! ## totality: every map is defined on every existing index -/

theorem total_sample_to_cycle (cv : List Int) (i : Nat) (hi : i < cv.length) :
    ∃ r, mapSampleToCycle cv i = .ok r := lookupLabel_total cv i hi

theorem total_cycle_to_samples (cv : List Int) (K k : Nat) (hwf : WF cv K) (hk : k < K) :
    mapCycleToSamples cv k ≠ [] := by
  obtain ⟨i, hi⟩ := (mem_iff_getElem?_int cv k).mp (hwf.occurs k hk)
  intro h
  have : i ∈ mapCycleToSamples cv k := (mem_whereEq cv k i).mpr hi
  rw [h] at this; simp at this

theorem total_subset_to_cycle (valids : List Bool) (j : Nat) (hj : j < valids.count true) :
    ∃ k, mapSubsetToCycle (subsetVector valids) j = [k] ∧ k < valids.length := by
  refine ⟨_, subset_singleton valids j hj, ?_⟩
  have := (List.getElem?_eq_some_iff.mp (subset_cycleOf valids j hj)).1
  rwa [subsetVector_length] at this

theorem total_cycle_to_subset (valids : List Bool) (k : Nat) (hk : k < valids.length) :
    ∃ r, mapCycleToSubset (subsetVector valids) k = .ok r :=
  lookupLabel_total _ k (by rw [subsetVector_length]; exact hk)

theorem total_subset_to_sample (cv : List Int) (valids : List Bool) (hwf : WF cv valids.length)
    (j : Nat) (hj : j < valids.count true) :
    ∃ s, mapSubsetToSample (subsetVector valids) cv j = .ok s ∧ s ≠ [] := by
  obtain ⟨k, hk, hlt⟩ := total_subset_to_cycle valids j hj
  refine ⟨mapCycleToSamples cv k, ?_, total_cycle_to_samples cv _ k hwf hlt⟩
  unfold mapSubsetToSample; rw [hk]

theorem total_sample_to_subset (cv : List Int) (valids : List Bool) (hwf : WF cv valids.length)
    (i : Nat) (hi : i < cv.length) :
    ∃ r, mapSampleToSubset (subsetVector valids) cv i = .ok r := by
  unfold mapSampleToSubset mapSampleToCycle
  have hl := List.getElem?_eq_getElem hi
  have hr := hwf.range cv[i] (List.getElem_mem hi)
  cases h : label? cv[i] with
  | none => rw [(lookupLabel_ok cv i none).mpr ⟨_, hl, h⟩]; exact ⟨none, rfl⟩
  | some k =>
    rw [(lookupLabel_ok cv i (some k)).mpr ⟨_, hl, h⟩]
    have := (label?_eq_some _ k).mp h
    exact total_cycle_to_subset valids k (by omega)

theorem total_chain_to_subset (valids : List Bool) (c : Nat)
    (hc : c < nLabels (chainVector (subsetVector valids))) :
    mapChainToSubset (chainVector (subsetVector valids)) c ≠ [] := by
  obtain ⟨j, hj⟩ := (mem_iff_getElem?_int _ c).mp ((chainVector_range valids).2 c hc)
  intro h
  have : j ∈ mapChainToSubset (chainVector (subsetVector valids)) c := (mem_whereEq _ c j).mpr hj
  rw [h] at this; simp at this

theorem total_subset_to_chain (valids : List Bool) (j : Nat) (hj : j < valids.count true) :
    ∃ c, mapSubsetToChain (chainVector (subsetVector valids)) j = .ok c ∧
      0 ≤ c ∧ c.toNat < nLabels (chainVector (subsetVector valids)) := by
  have hlt : j < (chainVector (subsetVector valids)).length := by rw [chainVector_length]; exact hj
  have hl := List.getElem?_eq_getElem hlt
  refine ⟨_, ?_, (chain_lookup _ j _ hl).1, (chain_lookup _ j _ hl).2.1⟩
  unfold mapSubsetToChain; rw [hl]

theorem total_cycle_to_chain (valids : List Bool) (k : Nat) (hk : k < valids.length) :
    ∃ r, mapCycleToChain (chainVector (subsetVector valids)) (subsetVector valids) k = .ok r := by
  unfold mapCycleToChain
  obtain ⟨r, hr⟩ := total_cycle_to_subset valids k hk
  rw [hr]
  cases r with
  | none => exact ⟨none, rfl⟩
  | some j =>
    have hj := subset_lookup_lt valids k j ((lookupLabel_some _ k j).mp hr)
    obtain ⟨c, hc, _⟩ := total_subset_to_chain valids j hj
    exact ⟨some c, by simp [hc]⟩

/-- the cycles of an existing chain: one per subset cycle of the chain -/
theorem total_chain_to_cycle (valids : List Bool) (c : Nat) :
    mapChainToCycle (chainVector (subsetVector valids)) (subsetVector valids) c =
      .ok ((mapChainToSubset (chainVector (subsetVector valids)) c).map (cycleOf (subsetVector valids))) := by
  unfold mapChainToCycle
  rw [singletons?_map]
  · simp [List.map_map, Function.comp_def, cycleOf, mapSubsetToCycle]
  · intro l hl
    obtain ⟨j, hj, rfl⟩ := List.mem_map.mp hl
    have := whereEq_lt _ c j hj
    rw [chainVector_length] at this
    exact ⟨_, subset_singleton valids j this⟩

theorem total_chain_to_samples (cv : List Int) (valids : List Bool) (hwf : WF cv valids.length)
    (c : Nat) (hc : c < nLabels (chainVector (subsetVector valids))) :
    ∃ s, mapChainToSamples (chainVector (subsetVector valids)) (subsetVector valids) cv c = .ok s ∧
      s = (mapChainToSubset (chainVector (subsetVector valids)) c).flatMap
            (fun j => mapCycleToSamples cv (cycleOf (subsetVector valids) j)) ∧ s ≠ [] := by
  have hne := total_chain_to_subset valids c hc
  have hall : ∀ j ∈ mapChainToSubset (chainVector (subsetVector valids)) c,
      mapSubsetToSample (subsetVector valids) cv j =
        .ok (mapCycleToSamples cv (cycleOf (subsetVector valids) j)) := by
    intro j hj
    have := whereEq_lt _ c j hj
    rw [chainVector_length] at this
    unfold mapSubsetToSample mapSubsetToCycle
    rw [subset_singleton valids j this]
  refine ⟨_, ?_, rfl, ?_⟩
  · unfold mapChainToSamples
    split
    · rename_i h; exact absurd h hne
    · exact collect_map _ _ _ hall
  · cases hjs : mapChainToSubset (chainVector (subsetVector valids)) c with
    | nil => exact absurd hjs hne
    | cons j t =>
      have hj : j ∈ mapChainToSubset (chainVector (subsetVector valids)) c := by rw [hjs]; simp
      have hlt := whereEq_lt _ c j hj
      rw [chainVector_length] at hlt
      obtain ⟨k, hk, hkl⟩ := total_subset_to_cycle valids j hlt
      have hcy : cycleOf (subsetVector valids) j = k := by
        unfold cycleOf; unfold mapSubsetToCycle at hk; rw [hk]; rfl
      have := total_cycle_to_samples cv _ k hwf hkl
      simp only [List.flatMap_cons, hcy]
      intro h
      exact this (List.append_eq_nil_iff.mp h).1

theorem total_sample_to_chain (cv : List Int) (valids : List Bool) (hwf : WF cv valids.length)
    (i : Nat) (hi : i < cv.length) :
    ∃ r, mapSampleToChain (chainVector (subsetVector valids)) (subsetVector valids) cv i = .ok r := by
  unfold mapSampleToChain
  obtain ⟨r, hr⟩ := total_sample_to_subset cv valids hwf i hi
  rw [hr]
  cases r with
  | none => exact ⟨none, rfl⟩
  | some j =>
    obtain ⟨k, _, h2⟩ := (sampleToSubset_some _ cv i j).mp hr
    obtain ⟨c, hc, _⟩ := total_subset_to_chain valids j (subset_lookup_lt valids k j h2)
    exact ⟨some c, by simp [hc]⟩

/-! ## round trips: the original item is among the items its image maps back to -/

theorem roundtrip_sample_cycle (cv : List Int) (i k : Nat)
    (h : mapSampleToCycle cv i = .ok (some k)) : i ∈ mapCycleToSamples cv k :=
  (mem_whereEq cv k i).mpr ((lookupLabel_some cv i k).mp h)

theorem roundtrip_cycle_subset (sv : List Int) (k j : Nat)
    (h : mapCycleToSubset sv k = .ok (some j)) : k ∈ mapSubsetToCycle sv j :=
  (mem_whereEq sv j k).mpr ((lookupLabel_some sv k j).mp h)

theorem roundtrip_subset_chain (ch : List Int) (j : Nat) (c : Int)
    (h : mapSubsetToChain ch j = .ok c) (h0 : 0 ≤ c) : j ∈ mapChainToSubset ch c.toNat := by
  unfold mapSubsetToChain at h
  cases hc : ch[j]? with
  | none => simp [hc] at h
  | some c' =>
    simp [hc] at h; subst h
    have : ((c'.toNat : Nat) : Int) = c' := by omega
    exact (mem_whereEq ch _ j).mpr (by rw [this]; exact hc)

theorem roundtrip_sample_subset (cv : List Int) (valids : List Bool) (i j : Nat)
    (h : mapSampleToSubset (subsetVector valids) cv i = .ok (some j)) :
    ∃ s, mapSubsetToSample (subsetVector valids) cv j = .ok s ∧ i ∈ s := by
  obtain ⟨k, h1, h2⟩ := (sampleToSubset_some _ cv i j).mp h
  have hj := subset_lookup_lt valids k j h2
  refine ⟨mapCycleToSamples cv k, ?_, (mem_whereEq cv k i).mpr h1⟩
  unfold mapSubsetToSample mapSubsetToCycle
  rw [subset_singleton valids j hj, cycleOf_eq valids k j h2]

theorem roundtrip_cycle_chain (valids : List Bool) (k : Nat) (c : Int)
    (h : mapCycleToChain (chainVector (subsetVector valids)) (subsetVector valids) k = .ok (some c)) :
    0 ≤ c ∧ ∃ ks, mapChainToCycle (chainVector (subsetVector valids)) (subsetVector valids) c.toNat = .ok ks ∧
      k ∈ ks := by
  obtain ⟨j, h1, h2⟩ := (cycleToChain_some _ _ k c).mp h
  obtain ⟨h0, _, hmem⟩ := chain_lookup _ j c h2
  refine ⟨h0, _, total_chain_to_cycle valids c.toNat, ?_⟩
  exact List.mem_map.mpr ⟨j, hmem, cycleOf_eq valids k j h1⟩

theorem roundtrip_sample_chain (cv : List Int) (valids : List Bool) (hwf : WF cv valids.length)
    (i : Nat) (c : Int)
    (h : mapSampleToChain (chainVector (subsetVector valids)) (subsetVector valids) cv i = .ok (some c)) :
    0 ≤ c ∧ ∃ s, mapChainToSamples (chainVector (subsetVector valids)) (subsetVector valids) cv c.toNat = .ok s ∧
      i ∈ s := by
  obtain ⟨k, j, h1, h2, h3⟩ := (sampleToChain_some _ _ cv i c).mp h
  obtain ⟨h0, hlt, hmem⟩ := chain_lookup _ j c h3
  obtain ⟨s, hs, heq, _⟩ := total_chain_to_samples cv valids hwf c.toNat hlt
  refine ⟨h0, s, hs, ?_⟩
  rw [heq]
  refine List.mem_flatMap.mpr ⟨j, hmem, ?_⟩
  rw [cycleOf_eq valids k j h2]
  exact (mem_whereEq cv k i).mpr h1

/-! ## exactness: a back map returns EXACTLY the items whose forward map is its argument

The round trips above give one inclusion (`i ∈ back (forward i)`); the theorems below are the full
characterisation `x ∈ back y ↔ forward x = y`, so the back maps contain nothing else. -/

/-- the samples of cycle k are exactly the samples whose cycle is k (any label vector) -/
theorem exact_cycle_to_samples (cv : List Int) (k i : Nat) :
    i ∈ mapCycleToSamples cv k ↔ mapSampleToCycle cv i = .ok (some k) :=
  (mem_whereEq cv k i).trans (lookupLabel_some cv i k).symm

/-- …in terms of the label vector itself: `i ∈ map_cycle_to_samples(cv, k) ↔ cv[i] = k` -/
theorem exact_cycle_to_samples_label (cv : List Int) (k i : Nat) :
    i ∈ mapCycleToSamples cv k ↔ cv[i]? = some (k : Int) := mem_whereEq cv k i

/-- the cycles of subset index j are exactly the cycles whose subset index is j: `c ∈ … ↔ sv[c] = j` -/
theorem exact_subset_to_cycle (sv : List Int) (j k : Nat) :
    (k ∈ mapSubsetToCycle sv j ↔ mapCycleToSubset sv k = .ok (some j)) ∧
    (k ∈ mapSubsetToCycle sv j ↔ sv[k]? = some (j : Int)) :=
  ⟨(mem_whereEq sv j k).trans (lookupLabel_some sv k j).symm, mem_whereEq sv j k⟩

/-- the subset cycles of chain c are exactly those whose chain is c -/
theorem exact_chain_to_subset (ch : List Int) (c j : Nat) :
    j ∈ mapChainToSubset ch c ↔ mapSubsetToChain ch j = .ok (c : Int) := by
  refine (mem_whereEq ch c j).trans ?_
  unfold mapSubsetToChain
  cases ch[j]? with
  | none => simp
  | some l => simp

/-- the samples of subset cycle j (an existing one) are exactly the samples whose subset cycle is j -/
theorem exact_subset_to_sample (cv : List Int) (valids : List Bool) (j : Nat) (hj : j < valids.count true) :
    ∃ s, mapSubsetToSample (subsetVector valids) cv j = .ok s ∧
      ∀ i, i ∈ s ↔ mapSampleToSubset (subsetVector valids) cv i = .ok (some j) := by
  refine ⟨mapCycleToSamples cv (cycleOf (subsetVector valids) j), ?_, ?_⟩
  · unfold mapSubsetToSample mapSubsetToCycle
    rw [subset_singleton valids j hj]
  · intro i
    rw [exact_cycle_to_samples_label, sampleToSubset_some]
    constructor
    · intro h; exact ⟨_, h, subset_cycleOf valids j hj⟩
    · rintro ⟨k, h1, h2⟩
      rw [cycleOf_eq valids k j h2]; exact h1

/-- the cycles of chain c are exactly the cycles whose chain is c -/
theorem exact_chain_to_cycle (valids : List Bool) (c : Nat) :
    ∃ ks, mapChainToCycle (chainVector (subsetVector valids)) (subsetVector valids) c = .ok ks ∧
      ∀ k, k ∈ ks ↔ mapCycleToChain (chainVector (subsetVector valids)) (subsetVector valids) k = .ok (some (c : Int)) := by
  refine ⟨_, total_chain_to_cycle valids c, ?_⟩
  intro k
  rw [cycleToChain_some, List.mem_map]
  constructor
  · rintro ⟨j, hj, rfl⟩
    have hlt := whereEq_lt _ c j hj
    rw [chainVector_length] at hlt
    exact ⟨j, subset_cycleOf valids j hlt, (mem_whereEq _ c j).mp hj⟩
  · rintro ⟨j, h1, h2⟩
    exact ⟨j, (mem_whereEq _ c j).mpr h2, cycleOf_eq valids k j h1⟩

/-- the samples of chain c (an existing one) are exactly the samples whose chain is c:
    `i ∈ map_chain_to_samples(…, c) ↔ map_sample_to_chain(…, i) = c` -/
theorem exact_chain_to_samples (cv : List Int) (valids : List Bool) (hwf : WF cv valids.length)
    (c : Nat) (hc : c < nLabels (chainVector (subsetVector valids))) :
    ∃ s, mapChainToSamples (chainVector (subsetVector valids)) (subsetVector valids) cv c = .ok s ∧
      ∀ i, i ∈ s ↔
        mapSampleToChain (chainVector (subsetVector valids)) (subsetVector valids) cv i = .ok (some (c : Int)) := by
  obtain ⟨s, hs, heq, _⟩ := total_chain_to_samples cv valids hwf c hc
  refine ⟨s, hs, ?_⟩
  intro i
  rw [heq, sampleToChain_some, List.mem_flatMap]
  constructor
  · rintro ⟨j, hj, hi⟩
    have hlt := whereEq_lt _ c j hj
    rw [chainVector_length] at hlt
    exact ⟨_, j, (mem_whereEq cv _ i).mp hi, subset_cycleOf valids j hlt, (mem_whereEq _ c j).mp hj⟩
  · rintro ⟨k, j, h1, h2, h3⟩
    refine ⟨j, (mem_whereEq _ c j).mpr h3, ?_⟩
    rw [cycleOf_eq valids k j h2]
    exact (mem_whereEq cv k i).mpr h1

/-- converse round trips: every item a back map returns maps forward to the argument -/
theorem roundtrip_back_forth (cv : List Int) (valids : List Bool) (hwf : WF cv valids.length) :
    (∀ k, ∀ i ∈ mapCycleToSamples cv k, mapSampleToCycle cv i = .ok (some k)) ∧
    (∀ j, ∀ k ∈ mapSubsetToCycle (subsetVector valids) j, mapCycleToSubset (subsetVector valids) k = .ok (some j)) ∧
    (∀ c, ∀ j ∈ mapChainToSubset (chainVector (subsetVector valids)) c,
      mapSubsetToChain (chainVector (subsetVector valids)) j = .ok (c : Int)) ∧
    (∀ c, c < nLabels (chainVector (subsetVector valids)) → ∀ s,
      mapChainToSamples (chainVector (subsetVector valids)) (subsetVector valids) cv c = .ok s → ∀ i ∈ s,
        mapSampleToChain (chainVector (subsetVector valids)) (subsetVector valids) cv i = .ok (some (c : Int))) := by
  refine ⟨fun k i hi => (exact_cycle_to_samples cv k i).mp hi, fun j k hk => (exact_subset_to_cycle _ j k).1.mp hk,
    fun c j hj => (exact_chain_to_subset _ c j).mp hj, ?_⟩
  intro c hc s hs i hi
  obtain ⟨s', hs', h⟩ := exact_chain_to_samples cv valids hwf c hc
  rw [hs] at hs'
  injection hs' with hs'
  subst hs'
  exact (h i).mp hi

/-! ## the forward maps answer `none` exactly for unlabelled samples and unselected cycles -/

theorem none_iff_sample_to_cycle (cv : List Int) (K : Nat) (hwf : WF cv K) (i : Nat) :
    mapSampleToCycle cv i = .ok none ↔ cv[i]? = some (-1) := by
  unfold mapSampleToCycle
  rw [lookupLabel_ok]
  constructor
  · rintro ⟨l, h1, h2⟩
    have := (hwf.range l (List.mem_of_getElem? h1)).1
    have := (label?_eq_none l).mp h2
    have : l = -1 := by omega
    rw [← this]; exact h1
  · intro h; exact ⟨-1, h, rfl⟩

theorem none_iff_cycle_to_subset (valids : List Bool) (k : Nat) (hk : k < valids.length) :
    mapCycleToSubset (subsetVector valids) k = .ok none ↔ valids[k]! = false := by
  unfold mapCycleToSubset
  rw [lookupLabel_ok]
  simp only [subset_entry valids k hk, Option.some.injEq, exists_eq_left', label?_eq_none]
  cases valids[k]! <;> simp <;> omega

theorem none_iff_sample_to_subset (cv : List Int) (valids : List Bool) (hwf : WF cv valids.length)
    (i : Nat) :
    mapSampleToSubset (subsetVector valids) cv i = .ok none ↔
      cv[i]? = some (-1) ∨ ∃ k : Nat, cv[i]? = some (k : Int) ∧ valids[k]! = false := by
  rw [sampleToSubset_none]
  constructor
  · rintro (⟨l, h1, h2⟩ | ⟨k, s, h1, h2, h3⟩)
    · left
      have := (hwf.range l (List.mem_of_getElem? h1)).1
      have : l = -1 := by omega
      rw [← this]; exact h1
    · right
      refine ⟨k, h1, ?_⟩
      have hk : k < valids.length := by
        have := (hwf.range _ (List.mem_of_getElem? h1)).2; omega
      rw [subset_entry valids k hk] at h2
      cases hv : valids[k]! with
      | false => rfl
      | true => simp [hv] at h2; omega
  · rintro (h | ⟨k, h1, h2⟩)
    · exact Or.inl ⟨-1, h, by omega⟩
    · have hk : k < valids.length := by
        have := (hwf.range _ (List.mem_of_getElem? h1)).2; omega
      exact Or.inr ⟨k, -1, h1, by rw [subset_entry valids k hk, h2]; rfl, by omega⟩

theorem none_iff_cycle_to_chain (valids : List Bool) (k : Nat) (hk : k < valids.length) :
    mapCycleToChain (chainVector (subsetVector valids)) (subsetVector valids) k = .ok none ↔
      valids[k]! = false := by
  rw [cycleToChain_none, subset_entry valids k hk]
  simp only [Option.some.injEq, exists_eq_left']
  cases valids[k]! <;> simp <;> omega

theorem none_iff_sample_to_chain (cv : List Int) (valids : List Bool) (hwf : WF cv valids.length)
    (i : Nat) :
    mapSampleToChain (chainVector (subsetVector valids)) (subsetVector valids) cv i = .ok none ↔
      cv[i]? = some (-1) ∨ ∃ k : Nat, cv[i]? = some (k : Int) ∧ valids[k]! = false := by
  rw [sampleToChain_none]; exact none_iff_sample_to_subset cv valids hwf i

/-- summary: for every existing sample i with cycle label l and every existing cycle k, each forward
    map answers `none` exactly when the item is an unlabelled sample / (a sample of) an unselected
    cycle; the subset→chain map never answers none (every subset cycle lies in a chain) -/
theorem forward_none_iff (cv : List Int) (valids : List Bool) (hwf : WF cv valids.length) :
    (∀ i, mapSampleToCycle cv i = .ok none ↔ cv[i]? = some (-1)) ∧
    (∀ k, k < valids.length →
      (mapCycleToSubset (subsetVector valids) k = .ok none ↔ valids[k]! = false)) ∧
    (∀ i, mapSampleToSubset (subsetVector valids) cv i = .ok none ↔
      cv[i]? = some (-1) ∨ ∃ k : Nat, cv[i]? = some (k : Int) ∧ valids[k]! = false) ∧
    (∀ k, k < valids.length →
      (mapCycleToChain (chainVector (subsetVector valids)) (subsetVector valids) k = .ok none ↔
        valids[k]! = false)) ∧
    (∀ i, mapSampleToChain (chainVector (subsetVector valids)) (subsetVector valids) cv i = .ok none ↔
      cv[i]? = some (-1) ∨ ∃ k : Nat, cv[i]? = some (k : Int) ∧ valids[k]! = false) ∧
    (∀ j, j < valids.count true →
      ∃ c, mapSubsetToChain (chainVector (subsetVector valids)) j = .ok c ∧ 0 ≤ c) :=
  ⟨fun i => none_iff_sample_to_cycle cv _ hwf i,
   fun k hk => none_iff_cycle_to_subset valids k hk,
   fun i => none_iff_sample_to_subset cv valids hwf i,
   fun k hk => none_iff_cycle_to_chain valids k hk,
   fun i => none_iff_sample_to_chain cv valids hwf i,
   fun j hj => by
     obtain ⟨c, h1, h2, _⟩ := total_subset_to_chain valids j hj
     exact ⟨c, h1, h2⟩⟩

/-! ## projections: each value lands on exactly the items that map to it, NaN elsewhere -/

theorem project_cycles_to_samples (vals : Vals) (cv : List Int) (i : Nat) (r : Option Nat)
    (h : mapSampleToCycle cv i = .ok r) :
    (projectCyclesToSamples vals cv).length = cv.length ∧
    (projectCyclesToSamples vals cv)[i]? = some (valAt vals r) := by
  obtain ⟨l, h1, h2⟩ := (lookupLabel_ok cv i r).mp h
  exact ⟨projectLoop_length _ _ _, by rw [← h2]; exact projectLoop_spec cv vals i l h1⟩

theorem project_subset_to_cycles (vals : Vals) (sv : List Int) (k : Nat) (r : Option Nat)
    (h : mapCycleToSubset sv k = .ok r) :
    (projectSubsetToCycles vals sv).length = sv.length ∧
    (projectSubsetToCycles vals sv)[k]? = some (valAt vals r) := by
  obtain ⟨l, h1, h2⟩ := (lookupLabel_ok sv k r).mp h
  exact ⟨projectLoop_length _ _ _, by rw [← h2]; exact projectLoop_spec sv vals k l h1⟩

theorem project_chain_to_subset (vals : Vals) (ch : List Int) (j : Nat) (c : Int)
    (h : mapSubsetToChain ch j = .ok c) :
    (projectChainToSubset vals ch).length = ch.length ∧
    (projectChainToSubset vals ch)[j]? = some (valAt vals (label? c)) := by
  refine ⟨projectLoop_length _ _ _, ?_⟩
  unfold mapSubsetToChain at h
  cases hc : ch[j]? with
  | none => simp [hc] at h
  | some c' => simp [hc] at h; subst h; exact projectLoop_spec ch vals j _ hc

theorem project_subset_to_samples (vals : Vals) (sv cv : List Int) (i : Nat) (r : Option Nat)
    (h : mapSampleToSubset sv cv i = .ok r) :
    (projectSubsetToSamples vals sv cv).length = cv.length ∧
    (projectSubsetToSamples vals sv cv)[i]? = some (valAt vals r) := by
  refine ⟨projectLoop_length _ _ _, ?_⟩
  unfold mapSampleToSubset at h
  split at h
  · cases h
  · rename_i hc
    injection h with h; subst h
    exact (project_cycles_to_samples _ cv i none hc).2
  · rename_i k hc
    have h1 := (project_cycles_to_samples (projectSubsetToCycles vals sv) cv i (some k) hc).2
    have h2 := (project_subset_to_cycles vals sv k r h).2
    unfold projectSubsetToSamples
    unfold projectCyclesToSamples at h1
    rw [h1]
    simp [valAt, h2]

theorem project_chain_to_cycles (vals : Vals) (ch sv : List Int) (k : Nat) (r : Option Int)
    (h : mapCycleToChain ch sv k = .ok r) :
    (projectChainToCycles vals ch sv).length = sv.length ∧
    (projectChainToCycles vals ch sv)[k]? = some (valAt vals (r.bind label?)) := by
  refine ⟨projectLoop_length _ _ _, ?_⟩
  unfold mapCycleToChain at h
  split at h
  · cases h
  · rename_i hc
    injection h with h; subst h
    exact (project_subset_to_cycles _ sv k none hc).2
  · rename_i j hc
    have h1 := (project_subset_to_cycles (projectChainToSubset vals ch) sv k (some j) hc).2
    cases hj : mapSubsetToChain ch j with
    | error e => simp [hj] at h
    | ok c =>
      simp [hj] at h; subst h
      have h2 := (project_chain_to_subset vals ch j c hj).2
      unfold projectChainToCycles
      rw [h1]
      simp [valAt, h2]

theorem project_chain_to_samples (vals : Vals) (ch sv cv : List Int) (i : Nat) (r : Option Int)
    (h : mapSampleToChain ch sv cv i = .ok r) :
    (projectChainToSamples vals ch sv cv).length = cv.length ∧
    (projectChainToSamples vals ch sv cv)[i]? = some (valAt vals (r.bind label?)) := by
  refine ⟨projectLoop_length _ _ _, ?_⟩
  unfold mapSampleToChain at h
  split at h
  · cases h
  · rename_i hc
    injection h with h; subst h
    have hs := (project_subset_to_samples (projectChainToSubset vals ch) sv cv i none hc).2
    unfold projectChainToSamples projectChainToCycles projectCyclesToSamples
    unfold projectSubsetToSamples at hs
    exact hs
  · rename_i j hc
    have hs := (project_subset_to_samples (projectChainToSubset vals ch) sv cv i (some j) hc).2
    cases hj : mapSubsetToChain ch j with
    | error e => simp [hj] at h
    | ok c =>
      simp [hj] at h; subst h
      have h2 := (project_chain_to_subset vals ch j c hj).2
      unfold projectChainToSamples projectChainToCycles projectCyclesToSamples
      unfold projectSubsetToSamples at hs
      rw [hs]
      simp [valAt, h2]

/-- with one value per existing group (no NaN among them) the projected entry is literally
    `(forward i).map (vals[·])` -/
theorem project_value_eq_map (vals : List Rat) (r : Option Nat) (hr : ∀ k, r = some k → k < vals.length) :
    valAt (vals.map some) r = r.map (vals[·]!) := by
  cases r with
  | none => rfl
  | some k =>
    have hk := hr k rfl
    simp [valAt, List.getElem?_eq_getElem hk]

/-! ## the samples of a cycle form one contiguous stretch (what `map_cycle_to_samples` assumes) -/

theorem cycle_to_samples_contiguous (cv : List Int) (K : Nat) (hwf : WF cv K) (k i m j : Nat)
    (hi : i ∈ mapCycleToSamples cv k) (hj : j ∈ mapCycleToSamples cv k) (him : i ≤ m) (hmj : m ≤ j) :
    m ∈ mapCycleToSamples cv k :=
  (mem_whereEq cv k m).mpr
    (hwf.contiguous i m j k him hmj ((mem_whereEq cv k i).mp hi) ((mem_whereEq cv k j).mp hj) (by omega))

/-! ## the hypothesis is met by the cycle detector -/

/-- Every cycle vector produced by the model of `get_cycle_vector` (property C12; any phase, any
    threshold, good-only or all cycles, any mask) is well-formed, with K = its number of cycles:
    the theorems above apply to every cycle vector the library itself builds. -/
theorem cycle_vector_wf (g : Cycles.GoodCfg) (step : Rat) (good : Bool) (ph : List Rat) (mask : List Bool) :
    WF (Cycles.getCycleVector g step good ph mask)
      (Cycles.nCycles (Cycles.cvSegs (Cycles.wrapP step) (Cycles.accept g good) (ph.zip mask))) :=
  paint_cvSegs_wf _ _ _

/-! ## non-vacuity: a recording with gaps, three cycles, two of them selected (two chains) -/

def cvEx : List Int := [-1, 0, 0, -1, 1, 1, 2, 2, 2, -1]
def validsEx : List Bool := [true, false, true]

example : WF cvEx validsEx.length :=
  wf_of_bounded cvEx 3 (by decide) (by decide) (by decide) (by decide)
example : subsetVector validsEx = [0, -1, 1] := by decide
example : chainVector (subsetVector validsEx) = [0, 1] := by decide
example : nLabels (chainVector (subsetVector validsEx)) = 2 := by decide
example : mapSampleToChain (chainVector (subsetVector validsEx)) (subsetVector validsEx) cvEx 7 = .ok (some 1) := rfl
example : mapChainToSamples (chainVector (subsetVector validsEx)) (subsetVector validsEx) cvEx 1 = .ok [6, 7, 8] := rfl
example : mapSampleToSubset (subsetVector validsEx) cvEx 4 = .ok none := rfl
example : mapSampleToSubset (subsetVector validsEx) cvEx 0 = .ok none := rfl
example : mapChainToCycle (chainVector (subsetVector validsEx)) (subsetVector validsEx) 0 = .ok [0] := rfl
example := exact_chain_to_samples cvEx validsEx (wf_of_bounded cvEx 3 (by decide) (by decide) (by decide) (by decide)) 1 (by decide)
example := exact_subset_to_sample cvEx validsEx 1 (by decide)


-- the hypothesis `WF` is met by an output of the cycle detector's model (C12): three cycles, all labelled
def wEx (a b : Int) : Bool := decide (4 < (b - a).natAbs)
example : Cycles.paint (Cycles.cvSegs wEx (fun _ => true) [1, 3, 6, 0, 2, 6, 1, 4]) = [0, 0, 0, 1, 1, 1, 2, 2] := by decide
example : WF (Cycles.paint (Cycles.cvSegs wEx (fun _ => true) [1, 3, 6, 0, 2, 6, 1, 4])) 3 :=
  wf_of_bounded _ 3 (by decide) (by decide) (by decide) (by decide)
-- ... and with a rejected (unlabelled) middle segment: a gap between cycle 0 and cycle 1
example : Cycles.paint (Cycles.cvSegs wEx (fun r => r.length != 2) [1, 3, 6, 0, 2, 7, 8, 9]) = [0, 0, 0, -1, -1, 1, 1, 1] := by decide
example : WF (Cycles.paint (Cycles.cvSegs wEx (fun r => r.length != 2) [1, 3, 6, 0, 2, 7, 8, 9])) 2 :=
  wf_of_bounded _ 2 (by decide) (by decide) (by decide) (by decide)

-- the witness of seeded change C16-6 (unselected cycles not among the last two): 0/1 integer flags = Boolean selection
example : subsetVectorFlags [1, 1, 0, 1, 0, 0, 1, 1, 1, 0, 1, 1] = [0, 1, -1, 2, -1, -1, 3, 4, 5, -1, 6, 7] := by decide
example : subsetVectorFlags [1, 1, 0, 1, 0, 0, 1, 1, 1, 0, 1, 1] =
    subsetVector [true, true, false, true, false, false, true, true, true, false, true, true] := by decide

end C16
