/-
  C15 — the cycle container keeps metrics, subsets and chains coherent.
  Property theorems only (helper lemmas: Proofs/Lemmas/Container*.lean).

  Model: EmdModel/Container.lean (`step : State → Op → State × Except Err Out`), over an arbitrary
  reducing function `f`, an arbitrary `float()` oracle `F`, arbitrary phases, values and histories.
-/
import Proofs.Lemmas.ContainerRun
import Proofs.Lemmas.ContainerFrame
import Proofs.Lemmas.ComposeCycles
import Proofs.Lemmas.ComposeStats
import Proofs.Lemmas.ComposeContainer

namespace C15
open Container

/-! ## The invariant, over every operation history -/

/-- The freshly constructed container satisfies the invariant (every metric has one entry per
    cycle, the label vector is a well-formed complete partition, names are unique). -/
theorem Inv_init (g : Cycles.GoodCfg) (pstep thr : Rat) (cache : Bool) (ph : List Rat) :
    Inv (init g pstep thr cache ph).1 := by
  rw [init_eq]
  exact computeMetric_preserves Container.Inv _ _ _ _ _ (init0_inv pstep thr cache ph)
    (fun _ => addMetric_inv _ _ _ (init0_inv pstep thr cache ph))

/-- The constructor stores the quality flag of every cycle: entry k is the acceptance test on
    exactly the phase samples labelled k — whether the cache is on or off. -/
theorem init_is_good (g : Cycles.GoodCfg) (pstep thr : Rat) (cache : Bool) (ph : List Rat) :
    let s := (init g pstep thr cache ph).1
    sget s.metrics isGoodName = some ((List.range s.K).map fun (k : Nat) => some (isGoodF g (samplesOf s.cv ph (k : Int)))) := by
  have h0 := init0_inv pstep thr cache ph
  simp only [init_eq, computeMetric_ok _ h0 _ _ _ _ (init0_cv_length pstep thr cache ph), sget_sset_same]
  rw [cycleStat_any_cache _ false .cycle _ _ _ h0.cv _ (init0_cv_length pstep thr cache ph)]
  simp [cycleStatV, lookupStat, nLabels_eq h0.cv.1]

/-- A new container has no selection, so `chain_ind` tracking and condition tracking start out true. -/
theorem init_no_selection (F : List Char → Option Rat) (g : Cycles.GoodCfg) (pstep thr : Rat) (cache : Bool) (ph : List Rat) :
    (init g pstep thr cache ph).1.sel = none ∧ Tracked (init g pstep thr cache ph).1 ∧
      Synced F (init g pstep thr cache ph).1 := by
  have h : (init g pstep thr cache ph).1.sel = none := by
    rw [init_eq, computeMetric_ok _ (init0_inv pstep thr cache ph) _ _ _ _ (init0_cv_length pstep thr cache ph)]; rfl
  refine ⟨h, ?_, ?_⟩
  · intro sel hs; rw [h] at hs; cases hs
  · intro sel hs; rw [h] at hs; cases hs

/-- Every operation preserves the invariant. -/
theorem Inv_step (F : List Char → Option Rat) (s : State) (op : Op) (h : Inv s) : Inv (step F s op).1 :=
  step_inv F s op h

/-- After any finite sequence of operations the invariant holds: every stored metric has exactly one
    entry per cycle, metric names are unique, the subset vector has one entry per cycle and numbers the
    selected cycles in order, and the chain vector is the chain vector of that subset. -/
theorem Inv_run (F : List Char → Option Rat) (g : Cycles.GoodCfg) (pstep thr : Rat) (cache : Bool) (ph : List Rat)
    (ops : List Op) :
    let s := run F (init g pstep thr cache ph).1 ops
    (∀ e ∈ s.metrics, e.2.length = s.K) ∧ (s.metrics.map (·.1)).Nodup ∧
      (sget s.metrics isGoodName).isSome = true ∧
      ∀ sel, s.sel = some sel → sel.subset.length = s.K ∧
        sel.subset = subsetVector (sel.subset.map fun j => decide (0 ≤ j)) ∧ sel.chain = chainVector sel.subset := by
  have hI := run_inv F _ ops (Inv_init g pstep thr cache ph)
  have hG : HasGood (run F (init g pstep thr cache ph).1 ops) := by
    apply run_good
    rw [init_eq]; unfold HasGood
    rw [computeMetric_ok _ (init0_inv pstep thr cache ph) _ _ _ _ (init0_cv_length pstep thr cache ph), sget_sset_same]; rfl
  exact ⟨hI.lens, hI.names, hG, fun sel hs => ⟨(hI.sel sel hs).len, (hI.sel sel hs).rank, (hI.sel sel hs).chain⟩⟩

/-- The invariant is preserved along every operation sequence, from every state that satisfies it. -/
theorem Inv_run_from (F : List Char → Option Rat) (s : State) (ops : List Op) (h : Inv s) : Inv (run F s ops) :=
  run_inv F s ops h

/-- The length guard: a metric with the wrong number of entries is rejected and nothing changes.
    CANONICALISED: the pinned `add_cycle_metric` *returns* its `ValueError(...)` object instead of raising it
    (emd/cycles.py, `return ValueError(...)`), so a caller sees no exception; the model answers `.error .value`
    and the harness turns a returned exception into a raised one (c15.py ASSUMPTIONS).  What the theorem says
    of the code is therefore only the second half: the store is left unchanged. -/
theorem add_metric_guard (F : List Char → Option Rat) (s : State) (name : Name) (v : List Val) (h : v.length ≠ s.K) :
    step F s (.addMetric name v) = (s, .error .value) := by
  simp [step, addMetric, h]

/-- A stored metric handed back as an integer metric (`add_cycle_metric(name, C.metrics[src], dtype=int)`): in every
    reachable state the call succeeds, stores the integer form (NaN → -1, truncation towards zero) of `src` under
    `name`, and — when the two names differ — leaves `src` EXACTLY as it was: "every stored metric equals the
    function applied to that cycle's samples" cannot be undone by adding another metric (round 6, seeded change
    C15-12: the int branch rewrote the NaN of the array it was given, i.e. of the stored metric). -/
theorem add_from_int_spec (F : List Char → Option Rat) (s : State) (hI : Inv s) (name src : Name) (v : List Val)
    (hv : sget s.metrics src = some v) :
    step F s (.addFromInt name src) = ({ s with metrics := sset s.metrics name (toIntVals v) }, .ok .done) ∧
    sget (step F s (.addFromInt name src)).1.metrics name = some (toIntVals v) ∧
    (src ≠ name → sget (step F s (.addFromInt name src)).1.metrics src = some v) := by
  have hl : (toIntVals v).length = s.K := by
    unfold toIntVals; rw [List.length_map]; exact hI.lens _ (sget_mem hv)
  have e : step F s (.addFromInt name src) = ({ s with metrics := sset s.metrics name (toIntVals v) }, .ok .done) := by
    simp only [step, addFromInt, hv]; exact addMetric_ok _ _ _ hl
  refine ⟨e, ?_, fun hne => ?_⟩
  · rw [e]; exact sget_sset_same _ _ _
  · rw [e]; simp only; rw [sget_sset_other _ _ _ _ hne]; exact hv

/-- Non-vacuity of `add_from_int_spec`, for EVERY fresh container: the stored quality flag can be handed back
    as an integer metric `name ≠ is_good`; the call succeeds and `is_good` is still the flag of every cycle. -/
theorem add_from_int_on_fresh (F : List Char → Option Rat) (g : Cycles.GoodCfg) (pstep thr : Rat) (cache : Bool)
    (ph : List Rat) (name : Name) (hne : isGoodName ≠ name) :
    let s := (init g pstep thr cache ph).1
    (step F s (.addFromInt name isGoodName)).2 = .ok .done ∧
    sget (step F s (.addFromInt name isGoodName)).1.metrics isGoodName = sget s.metrics isGoodName := by
  intro s
  have hg := init_is_good g pstep thr cache ph
  have h := add_from_int_spec F s (Inv_init g pstep thr cache ph) name isGoodName _ hg
  refine ⟨by rw [h.1], ?_⟩
  rw [h.2.2 hne]; exact hg.symm

/-- … and an unknown source name is a `KeyError` that changes nothing. -/
theorem add_from_int_missing (F : List Char → Option Rat) (s : State) (name src : Name)
    (hv : sget s.metrics src = none) : step F s (.addFromInt name src) = (s, .error .key) := by
  simp [step, addFromInt, hv]

/-- The integer form has no NaN left and is idempotent on integers already stored: -1 marks "no value". -/
theorem toIntVals_no_nan (v : List Val) : ∀ x ∈ toIntVals v, x.isSome = true := by
  intro x hx
  unfold toIntVals at hx
  obtain ⟨y, _, rfl⟩ := List.mem_map.mp hx
  cases y <;> rfl

/-! ## Metric values -/

/-- A computed metric (cycle mode) has entry k = f applied to exactly the samples labelled k, for
    every reducing function, with the cache on or off — given one value per sample (`hv`; the code
    checks nothing, see `cache_relevant_short_vals`). -/
theorem metric_value (F : List Char → Option Rat) (s : State) (h : Inv s) (name : Name) (vals : List Rat)
    (f : List Rat → Rat) (hv : vals.length = s.cv.length) :
    (step F s (.computeMetric name vals f .cycle)).2 = .ok .done ∧
    sget (step F s (.computeMetric name vals f .cycle)).1.metrics name =
      some ((List.range s.K).map fun (k : Nat) => some (f (samplesOf s.cv vals (k : Int)))) := by
  simp only [step, computeMetric_ok _ h _ _ _ _ hv, sget_sset_same, true_and]
  rw [cycleStat_any_cache _ false .cycle _ _ _ h.cv _ hv]
  simp [cycleStatV, lookupStat, nLabels_eq h.cv.1]

/-- A computed metric (augmented mode): entry k = f on the augmented segment of cycle k, NaN when
    there is none, with the cache on or off — given one value per sample (`hv`). -/
theorem metric_value_augmented (F : List Char → Option Rat) (s : State) (h : Inv s) (name : Name) (vals : List Rat)
    (f : List Rat → Rat) (hv : vals.length = s.cv.length) :
    (step F s (.computeMetric name vals f .augmented)).2 = .ok .done ∧
    sget (step F s (.computeMetric name vals f .augmented)).1.metrics name =
      some ((List.range s.K).map fun (k : Nat) => (augInds s.thr s.phase s.cv k).map fun seg => f (sliceVals vals seg)) := by
  simp only [step, computeMetric_ok _ h _ _ _ _ hv, sget_sset_same, true_and]
  rw [cycleStat_any_cache _ false .augmented _ _ _ h.cv _ hv]
  simp only [cycleStatV, lookupAugStat, nLabels_eq h.cv.1]
  congr 1
  apply List.map_congr_left
  intro k _
  cases augInds s.thr s.phase s.cv k <;> rfl

/-- The augmented segment: none for the first cycle; for a later cycle it runs from the first sample of
    the previous cycle whose phase is past the threshold to the end of the cycle itself. -/
theorem augmented_segment (s : State) (h : Inv s) (k : Nat) (hk : k < s.K) :
    ∃ a b, indicesOf s.cv (k : Int) = List.range' a (b - a) ∧ a < b ∧
      match k with
      | 0 => augInds s.thr s.phase s.cv k = none
      | k' + 1 => ∃ a' b', indicesOf s.cv (k' : Int) = List.range' a' (b' - a') ∧
          augInds s.thr s.phase s.cv k = (firstAbove s.thr s.phase (List.range' a' (b' - a'))).map fun t => (t, b) := by
  obtain ⟨a, b, h1, h2, h3, h4⟩ := slice_spec h.cv.1 k hk
  refine ⟨a, b, h4, h2, ?_⟩
  have hq := aug_eq h.cv s.thr s.phase k hk
  rw [augSlices_getElem? _ _ none _ k (a, b) h1] at hq
  cases k with
  | zero => simpa using hq.symm
  | succ k' =>
    obtain ⟨a', b', h1', _, _, h4'⟩ := slice_spec h.cv.1 k' (by omega)
    refine ⟨a', b', h4', ?_⟩
    simp only [h1', Option.some.injEq] at hq
    exact hq.symm

/-! ## Condition strings -/

/-- Printing then parsing: for every metric name without comparator characters, every comparator and
    every literal text not starting with a comparator character, the condition `name ++ sym ++ literal`
    parses to exactly (name, comparator, float(literal)); it is rejected with ValueError exactly when
    `float` rejects the literal. -/
theorem parse_print (F : List Char → Option Rat) (name : Name) (c : Cmp) (lit : List Char)
    (hn : ∀ ch ∈ name, isCmpChar ch = false) (hl : ∀ ch, lit.head? = some ch → isCmpChar ch = false) :
    parseCondition F (name ++ c.sym ++ lit) =
      match F lit with
      | some v => .ok (name, c, v)
      | none => .error .value :=
  parseCondition_print F name c lit hn hl

/-- A string without any comparator character is rejected (IndexError). -/
theorem parse_no_comparator (F : List Char → Option Rat) (s : Cond) (h : ∀ ch ∈ s, isCmpChar ch = false) :
    parseCondition F s = .error .index := by
  have h1 := takeWhile_dropWhile_append (fun c => !isCmpChar c) s [] (by intro x hx; simp [h x hx]) (by simp)
  simp only [List.append_nil] at h1
  simp [parseCondition, h1.2]

/-- The six comparators mean what they say (on numbers); every comparison with NaN is false except `!=`. -/
theorem cmp_sem (x v : Rat) :
    (Cmp.eq.eval (some x) v = true ↔ x = v) ∧ (Cmp.ne.eval (some x) v = true ↔ x ≠ v) ∧
    (Cmp.lt.eval (some x) v = true ↔ x < v) ∧ (Cmp.le.eval (some x) v = true ↔ x ≤ v) ∧
    (Cmp.gt.eval (some x) v = true ↔ v < x) ∧ (Cmp.ge.eval (some x) v = true ↔ v ≤ x) ∧
    (∀ c, c.eval none v = true ↔ c = Cmp.ne) := by
  refine ⟨by simp [Cmp.eval], by simp [Cmp.eval], by simp [Cmp.eval], by simp [Cmp.eval], by simp [Cmp.eval],
    by simp [Cmp.eval], ?_⟩
  intro c; cases c <;> simp [Cmp.eval]

/-- A cycle matches a list of conditions iff it satisfies every one of them: each condition parses,
    names a stored metric, and the comparator holds between that metric's entry and the literal. -/
theorem matching_is_conjunction (F : List Char → Option Rat) (m : Store) (conds : List Cond) (valids : List Bool)
    (h : matching F m conds = .ok valids) :
    (∃ g, sget m isGoodName = some g ∧ valids.length = g.length) ∧
    ∀ k, k < valids.length →
      (valids[k]? = some true ↔
        ∀ c ∈ conds, ∃ name cmp lit col x, parseCondition F c = .ok (name, cmp, lit) ∧ sget m name = some col ∧
          col[k]? = some x ∧ cmp.eval x lit = true) := by
  obtain ⟨g, hg⟩ := matching_ok_good h
  refine ⟨⟨g, hg, matching_length h hg⟩, ?_⟩
  intro k hk
  unfold matching at h
  rw [hg] at h
  cases hc : evalConds F m conds with
  | error e => simp [hc] at h
  | ok cols =>
    simp only [hc, Except.ok.injEq] at h
    subst h
    simp only [List.length_map, List.length_range] at hk
    simp only [List.getElem?_map, List.getElem?_range hk, Option.map_some, Option.some.injEq,
      evalConds_all F m conds cols hc k]
    constructor
    · intro hall c hcm
      obtain ⟨col, hcol, hk'⟩ := hall c hcm
      obtain ⟨name, cmp, lit, mcol, h1, h2, rfl⟩ := (evalCond_ok_iff F m c col).mp hcol
      simp only [List.getElem?_map] at hk'
      cases hx : mcol[k]? with
      | none => simp [hx] at hk'
      | some x => exact ⟨name, cmp, lit, mcol, x, h1, h2, hx, by simpa [hx] using hk'⟩
    · intro hall c hcm
      obtain ⟨name, cmp, lit, mcol, x, h1, h2, hx, he⟩ := hall c hcm
      exact ⟨_, (evalCond_ok_iff F m c _).mpr ⟨name, cmp, lit, mcol, h1, h2, rfl⟩, by simp [hx, he]⟩

/-! ## Subsets and chains -/

/-- The subset vector numbers the selected cycles in order: -1 for a cycle that is not selected, the
    number of selected cycles before it otherwise. -/
theorem subset_is_rank (valids : List Bool) (k : Nat) (b : Bool) (h : valids[k]? = some b) :
    (subsetVector valids)[k]? = some (if b then (((valids.take k).count true : Nat) : Int) else -1) := by
  have := subsetFrom_getElem? 0 valids k b h
  simpa [subsetVector] using this

/-- A successful selection stores the given conditions, the rank vector of exactly the cycles matching
    all of them (evaluated on the metrics at that moment), its chains, and the `chain_ind` metric;
    a rejected selection changes nothing. -/
theorem pick_selects (F : List Char → Option Rat) (s : State) (h : Inv s) (conds : List Cond) :
    match matching F s.metrics conds with
    | .ok valids =>
        (step F s (.pickSubset conds)).2 = .ok .done ∧
        (step F s (.pickSubset conds)).1.sel =
          some { conds, subset := subsetVector valids, chain := chainVector (subsetVector valids) } ∧
        sget (step F s (.pickSubset conds)).1.metrics chainIndName =
          some (chainInd (subsetVector valids) (chainVector (subsetVector valids)))
    | .error e => step F s (.pickSubset conds) = (s, .error e) := by
  cases hm : matching F s.metrics conds with
  | error e => simp [step, pickSubset, hm]
  | ok valids =>
    have hl : (chainInd (subsetVector valids) (chainVector (subsetVector valids))).length = s.K := by
      simp [chainInd_length, subsetVector, subsetFrom_length, matching_valids_length h hm]
    simp only [step, pickSubset, hm]
    rw [addMetric_ok]
    · exact ⟨rfl, rfl, sget_sset_same _ _ _⟩
    · exact hl

/-- Chains are the maximal runs of consecutive selected cycles.  For two selected cycles (the a-th and
    b-th of the subset, a ≤ b, cycle numbers ia and ib): the chain number never decreases, and they are in
    the same chain exactly when every cycle from ia to ib is selected (ib = ia + (b - a)). -/
theorem chain_maximal_runs (subset : List Int) (a b ia ib ca cb : Nat) (hab : a ≤ b)
    (hia : (selected subset)[a]? = some ia) (hib : (selected subset)[b]? = some ib)
    (hca : (chainVector subset)[a]? = some ca) (hcb : (chainVector subset)[b]? = some cb) :
    ca ≤ cb ∧ (ca = cb ↔ ib = ia + (b - a)) :=
  chainOfSel_same_iff (selected subset) (indicesFrom_pairwise _ _ _) a b ia ib ca cb hab hia hib hca hcb

/-- The selected cycles are exactly those with a non-negative subset entry, in increasing order, and the
    chain vector has one entry per selected cycle, numbered from zero in steps of at most one. -/
theorem chain_numbering (subset : List Int) :
    (∀ k, k ∈ selected subset ↔ ∃ j, subset[k]? = some j ∧ 0 ≤ j) ∧
    (selected subset).Pairwise (· < ·) ∧ (chainVector subset).length = (selected subset).length ∧
    (∀ c, (chainVector subset)[0]? = some c → c = 0) ∧
    ∀ j x y, (chainVector subset)[j]? = some x → (chainVector subset)[j + 1]? = some y → y = x ∨ y = x + 1 := by
  refine ⟨?_, indicesFrom_pairwise _ _ _, chainOfSel_length _, (chainOfSel_steps _).1, ?_⟩
  · intro k
    simp only [selected, mem_indicesFrom, Nat.zero_add, decide_eq_true_eq]
    constructor
    · rintro ⟨k', x, rfl, hx, hp⟩; exact ⟨x, hx, by omega⟩
    · rintro ⟨j, hj, h0⟩; exact ⟨k, j, rfl, hj, by omega⟩
  · intro j x y hx hy
    have hlen := chainOfSel_length (selected subset)
    have hj1 : j + 1 < (selected subset).length := by
      rw [← hlen]
      rcases Nat.lt_or_ge (j + 1) (chainVector subset).length with h | h
      · exact h
      · rw [List.getElem?_eq_none h] at hy; cases hy
    have := (chainOfSel_steps (selected subset)).2 j x y _ _ hx hy
      (List.getElem?_eq_getElem (by omega)) (List.getElem?_eq_getElem hj1)
    split at this <;> omega

/-- The `chain_ind` metric agrees with the chains: as long as no operation stores a metric under the
    name `chain_ind`, after every operation sequence entry k of `chain_ind` is the chain number of cycle k
    if it is selected and -1 otherwise. -/
theorem chain_ind_agrees (F : List Char → Option Rat) (g : Cycles.GoodCfg) (pstep thr : Rat) (cache : Bool) (ph : List Rat)
    (ops : List Op) (hops : ∀ op ∈ ops, chainIndName ∉ op.stores) :
    let s := run F (init g pstep thr cache ph).1 ops
    ∀ sel, s.sel = some sel → ∃ col, sget s.metrics chainIndName = some col ∧
      ∀ (k : Nat) (j : Int), sel.subset[k]? = some j →
        col[k]? = some (some (if 0 ≤ j then (match sel.chain[j.toNat]? with | some c => (c : Rat) | none => -1) else -1)) := by
  have key : ∀ s, Container.Inv s → Tracked s → Tracked (run F s ops) := by
    intro s hI hT
    induction ops generalizing s with
    | nil => exact hT
    | cons o t ih =>
      rw [run_cons]
      exact ih (fun op hop => hops op (by simp [hop])) _ (step_inv F s o hI) (tracked_step F s o hI hT (hops o (by simp)))
  have h0 : Tracked (init g pstep thr cache ph).1 := by
    intro sel hsel
    rw [init_eq, computeMetric_ok _ (init0_inv pstep thr cache ph) _ _ _ _ (init0_cv_length pstep thr cache ph)] at hsel
    simp [init0] at hsel
  intro s sel hsel
  exact ⟨_, key _ (Inv_init g pstep thr cache ph) h0 sel hsel, fun k j hj => chainInd_getElem? _ _ k j hj⟩

/-- The selection keeps describing the stored conditions: if the stored subset is the set of cycles
    matching the stored conditions, it still is after any operation that does not overwrite a metric those
    conditions mention (and, for a new selection, whose conditions do not mention `chain_ind`, which the
    selection itself rewrites). -/
theorem selection_tracks_conditions (F : List Char → Option Rat) (s : State) (op : Op) (hI : Inv s) (h : Synced F s)
    (hop : ∀ sel, s.sel = some sel → ∀ n ∈ op.stores, n ∉ condNames F sel.conds)
    (hpick : ∀ conds, op = .pickSubset conds → chainIndName ∉ condNames F conds) :
    Synced F (step F s op).1 :=
  synced_step F s op hI h hop hpick

/-- A chain metric: every selected cycle carries f of all samples of its chain (truncated to an integer
    on the dtype=int route), every other cycle NaN (-1 on the integer route).  Stated for one value per
    sample (`_hv`): `chainSamples` pairs labels with values positionally, the code indexes `vals` with the
    chain's sample numbers and raises IndexError on a shorter vector (outside the model: the protocol
    handler rejects such a vector for this operation). -/
theorem chain_metric_value (F : List Char → Option Rat) (s : State) (h : Inv s) (sel : Sel) (hs : s.sel = some sel)
    (name : Name) (vals : List Rat) (f : List Rat → Rat) (asInt : Bool) (_hv : vals.length = s.cv.length) :
    (step F s (.computeChainMetric name vals f asInt)).2 = .ok .done ∧
    ∃ col, sget (step F s (.computeChainMetric name vals f asInt)).1.metrics name = some col ∧
      ∀ (k : Nat) (j : Int), sel.subset[k]? = some j →
        col[k]? = some (if 0 ≤ j then
            (match sel.chain[j.toNat]? with
             | some c => some (if asInt then truncR (f (chainSamples s.cv sel.subset sel.chain vals c))
                               else f (chainSamples s.cv sel.subset sel.chain vals c))
             | none => if asInt then some (-1) else none)
          else if asInt then some (-1) else none) := by
  have hl : ∀ v : List Val, v = projChainToCycles (chainStat f s.cv sel.subset sel.chain vals) sel.chain sel.subset →
      (if asInt then toIntVals v else v).length = s.K := by
    intro v hv; subst hv
    cases asInt <;> simp [toIntVals, projChainToCycles, projSubsetToCycles, (h.sel sel hs).len]
  simp only [step, computeChainMetric, hs]
  rw [addMetric_ok _ _ _ (hl _ rfl)]
  refine ⟨rfl, _, sget_sset_same _ _ _, ?_⟩
  intro k j hj
  have hproj : (projChainToCycles (chainStat f s.cv sel.subset sel.chain vals) sel.chain sel.subset)[k]? =
      some (if 0 ≤ j then (match sel.chain[j.toNat]? with
        | some c => some (f (chainSamples s.cv sel.subset sel.chain vals c)) | none => none) else none) := by
    simp only [projChainToCycles, projSubsetToCycles, projChainToSubset, chainStat, List.getElem?_map, hj, Option.map_some]
    by_cases h0 : 0 ≤ j
    · simp only [h0, ite_true]
      cases hc : sel.chain[j.toNat]? with
      | none => simp
      | some c =>
        have hlt : c < nChains sel.chain := lt_nChains sel.chain c (List.mem_of_getElem? hc)
        simp [List.getElem?_range hlt]
    · simp [h0]
  cases asInt
  · simp only [Bool.false_eq_true, ite_false, hproj]
  · simp only [ite_true, toIntVals, List.getElem?_map, hproj, Option.map_some]
    by_cases h0 : 0 ≤ j
    · simp only [h0, ite_true]
      cases sel.chain[j.toNat]? <;> rfl
    · simp [h0]

/-- The `chain_position` metric (`compute_position_in_chain`, last step of `compute_chain_timings`): with a
    selection in place the call succeeds, and entry k is -1 for a cycle that is not selected, otherwise the
    number of selected cycles of the same chain that come before it (0 for the first cycle of a chain). -/
theorem chain_position_spec (F : List Char → Option Rat) (s : State) (h : Inv s) (sel : Sel) (hs : s.sel = some sel) :
    (step F s .computeChainTimings).2 = .ok .done ∧
    ∃ col, sget (step F s .computeChainTimings).1.metrics chainPositionName = some col ∧
      ∀ (k : Nat) (j : Int), sel.subset[k]? = some j →
        col[k]? = some (some (if 0 ≤ j then
            (match sel.chain[j.toNat]? with
             | some c => (((sel.chain.take j.toNat).count c : Nat) : Rat)
             | none => -1)
          else -1)) := by
  obtain ⟨h1, h2⟩ := chainTimings_position s h sel hs
  exact ⟨h1, _, h2, fun k j hj => chainPosition_getElem? sel k j hj⟩

/-- The routine itself (`Cycles.compute_position_in_chain`): ValueError without a selection, otherwise it
    stores the vector described in `chain_position_spec` under `chain_position` and touches nothing else. -/
theorem position_in_chain_spec (s : State) :
    (s.sel = none → computePositionInChain s = (s, .error .value)) ∧
    (∀ sel, s.sel = some sel → computePositionInChain s =
        ({ s with metrics := sset s.metrics chainPositionName (chainPosition sel) }, .ok .done)) := by
  refine ⟨fun hs => by simp [computePositionInChain, hs], fun sel hs => computePositionInChain_ok s sel hs⟩

/-! ## Frame: an operation changes only what it names -/

/-- **Frame.**  An operation leaves every metric it does not write exactly as it was (`Op.writes`: the name
    given to compute / add / chain metric, the three timing names, the five chain-timing names, `chain_ind`
    for a selection; nothing for exports and matching), never touches the label vector, the cycle count, the
    phase, the threshold or the cache flag, and only a selection changes the selection. -/
theorem metric_frame (F : List Char → Option Rat) (s : State) (op : Op) (name : Name) (hn : name ∉ op.writes) :
    sget (step F s op).1.metrics name = sget s.metrics name ∧
    (step F s op).1.cv = s.cv ∧ (step F s op).1.K = s.K ∧ (step F s op).1.phase = s.phase ∧
    (step F s op).1.thr = s.thr ∧ (step F s op).1.cache = s.cache ∧
    ((∀ c, op ≠ .pickSubset c) → (step F s op).1.sel = s.sel) :=
  ⟨step_sget_other F s op name hn, (step_frame F s op).1, (step_frame F s op).2.1, (step_frame F s op).2.2.1,
    (step_frame F s op).2.2.2.1, (step_frame F s op).2.2.2.2, step_sel_other F s op⟩

/-- A stored metric persists unchanged through every sequence of operations none of which writes its name. -/
theorem metric_persists (F : List Char → Option Rat) (s : State) (ops : List Op) (name : Name)
    (hn : ∀ op ∈ ops, name ∉ op.writes) : sget (run F s ops).metrics name = sget s.metrics name :=
  run_sget_other F s ops name hn

/-- "After any sequence of operations": a metric computed at some point still has entry k = f on exactly the
    samples labelled k after any later operations that do not write its name. -/
theorem metric_value_persists (F : List Char → Option Rat) (s : State) (h : Inv s) (name : Name) (vals : List Rat)
    (f : List Rat → Rat) (hv : vals.length = s.cv.length) (ops : List Op) (hn : ∀ op ∈ ops, name ∉ op.writes) :
    sget (run F s (.computeMetric name vals f .cycle :: ops)).metrics name =
      some ((List.range s.K).map fun (k : Nat) => some (f (samplesOf s.cv vals (k : Int)))) := by
  rw [run_cons, metric_persists F _ ops name hn]
  exact (metric_value F s h name vals f hv).2

/-! ## The cache changes nothing -/

/-- Slice cache = label lookup: on a well-formed label vector the k-th cached slice holds exactly the
    values of the samples labelled k. -/
theorem sliceCache_eq_lookup (cv : List Int) (K : Nat) (h : WF cv K) (vals : List Rat) (hv : vals.length = cv.length)
    (k : Nat) (hk : k < K) :
    ∃ sl, (sliceCache cv)[k]? = some sl ∧ sliceVals vals sl = samplesOf cv vals (k : Int) :=
  slice_eq_samples h vals hv k hk

/-- Turning the cache flag on or off before an operation changes neither its output nor the state it
    leads to (other than the flag itself) — for every operation, both metric modes, no regularity
    assumption on the phase.  Hypothesis `hv` (`Op.ValsOK`): a per-sample vector handed to
    `compute_cycle_metric` has one value per sample, in BOTH modes.  It cannot be dropped
    (`cache_relevant_short_vals`): the code has no length check and its two routes treat a short vector
    differently.  A vector of another length is not a per-sample vector of the container's record, i.e. not
    one of the inputs the property quantifies over ("compute metric" on the container's samples). -/
theorem cache_irrelevant (F : List Char → Option Rat) (s : State) (op : Op) (h : Inv s) (hv : op.ValsOK s.cv.length) :
    (step F (setCache true s) op).2 = (step F (setCache false s) op).2 ∧
    (step F (setCache true s) op).1 = setCache true (step F (setCache false s) op).1 := by
  rw [step_setCache F true s op h hv, step_setCache F false s op h hv]
  exact ⟨rfl, rfl⟩

/-- **Without one value per sample the cache is NOT irrelevant** (the hypothesis of `cache_irrelevant` is
    needed, and the model keeps the code's behaviour): `compute_cycle_metric` checks no length; on a container
    with at least one cycle and a value vector shorter than the record, the label-lookup route
    (`use_cache=False`) raises IndexError and stores nothing, while the slice-cache route succeeds and stores
    `f` of the clipped slices `vals[start:stop]`.  Real code, phase `[0.1,3.1,6.2]*4`, `vals=arange(7)`,
    `np.sum`: cache on → `[3,12,6,0]`, cache off → IndexError (corpus case tagged `outside-domain`). -/
theorem cache_relevant_short_vals (F : List Char → Option Rat) (s : State) (h : Inv s) (hK : 0 < s.K) (name : Name)
    (vals : List Rat) (f : List Rat → Rat) (hv : vals.length < s.cv.length) :
    step F (setCache false s) (.computeMetric name vals f .cycle) = (setCache false s, .error .index) ∧
    (step F (setCache true s) (.computeMetric name vals f .cycle)).2 = .ok .done ∧
    sget (step F (setCache true s) (.computeMetric name vals f .cycle)).1.metrics name =
      some ((sliceCache s.cv).map fun sl => some (f (sliceVals vals sl))) := by
  refine ⟨computeMetric_short_raises _ (inv_setCache false s h) rfl hK name vals f hv, ?_⟩
  simp only [step, computeMetric_cache_ok _ (inv_setCache true s h) rfl, sget_sset_same, true_and]
  simp [cycleStatV, sliceStat, setCache]

/-- The same in augmented mode, on the example container (6 samples, 3 cycles) with 3 values: cache off
    raises IndexError (the augmented segment of cycle 1 is samples 1..4), cache on stores a metric. -/
theorem cache_relevant_short_vals_augmented (F : List Char → Option Rat) (f : List Rat → Rat) :
    step F (setCache false exState) (.computeMetric ['a'] [1, 2, 3] f .augmented) = (setCache false exState, .error .index) ∧
    (step F (setCache true exState) (.computeMetric ['a'] [1, 2, 3] f .augmented)).2 = .ok .done := by
  constructor
  · have := lookupAugStatE_short f exState.thr exState.phase exState.cv [1, 2, 3] 1 (by decide) (1, 5) exState_aug1
      (by decide) (by decide)
    simp only [step, computeMetric, setCache, cycleStat, this]
  · simp only [step, computeMetric_cache_ok _ (inv_setCache true exState exState_inv) rfl]

/-- Over a whole lifetime: two containers built from the same phase with the cache on and off go through
    the same states (up to the flag) and give the same outputs under every operation sequence. -/
theorem cache_irrelevant_run (F : List Char → Option Rat) (g : Cycles.GoodCfg) (pstep thr : Rat) (ph : List Rat)
    (ops : List Op) (hv : ∀ op ∈ ops, op.ValsOK ph.length) :
    run F (init g pstep thr true ph).1 ops = setCache true (run F (init g pstep thr false ph).1 ops) ∧
    runOuts F (init g pstep thr true ph).1 ops = runOuts F (init g pstep thr false ph).1 ops ∧
    (init g pstep thr true ph).2 = (init g pstep thr false ph).2 := by
  have h0 := init0_inv pstep thr false ph
  have hi : init g pstep thr true ph =
      (setCache true (init g pstep thr false ph).1, (init g pstep thr false ph).2) := by
    rw [init_eq, init_eq]
    exact computeMetric_setCache true (init0 pstep thr false ph) h0 _ _ _ _ (init0_cv_length pstep thr false ph)
  have hI := Inv_init g pstep thr false ph
  have hcv : (init g pstep thr false ph).1.cv.length = ph.length := by
    rw [init_eq, (computeMetric_frame _ _ _ _ _).1]; exact (init0_cv_length pstep thr false ph).symm
  have := run_setCache F true (init g pstep thr false ph).1 ops hI (by rw [hcv]; exact hv)
  rw [hi]
  exact ⟨this.1, this.2, rfl⟩

/-! ## Tabular exports -/

/-- The full export has one column per metric in store order, one row per cycle, and cell (k, metric)
    is that metric's entry for cycle k. -/
theorem export_all_spec (F : List Char → Option Rat) (s : State) (h : Inv s) :
    ∃ t, exportTable F s .all = .ok t ∧ t.cols = s.metrics.map (·.1) ∧ t.rows.length = s.K ∧
      ∀ k, k < s.K → ∃ row, t.rows[k]? = some row ∧ row.length = s.metrics.length ∧
        ∀ (j : Nat) (name : Name) (col : List Val), s.metrics[j]? = some (name, col) →
          ∃ x, col[k]? = some x ∧ row[j]? = some x := by
  refine ⟨tableAll s, rfl, rfl, by simp [tableAll], ?_⟩
  intro k hk
  refine ⟨rowOf s.metrics k, by simp [tableAll, List.getElem?_range hk], by simp [rowOf], ?_⟩
  intro j name col hj
  have hlen : col.length = s.K := h.lens (name, col) (List.mem_of_getElem? hj)
  refine ⟨col[k]'(by omega), List.getElem?_eq_getElem (by omega), ?_⟩
  simp [rowOf, List.getElem?_map, hj, List.getElem?_eq_getElem (show k < col.length by omega)]

/-- The subset export shows exactly the selected cycles, in order: its rows are the cycles with a
    non-negative subset entry, each row being the cycle number followed by that cycle's metric entries. -/
theorem export_subset_spec (F : List Char → Option Rat) (s : State) (h : Inv s) (sel : Sel) (hs : s.sel = some sel)
    (t : Table) (ht : exportTable F s .subset = .ok t) :
    t.rows = (selected sel.subset).map (fun (k : Nat) => some (k : Rat) :: rowOf s.metrics k) ∧
    t.cols.tail = s.metrics.map (·.1) := by
  simp only [exportTable, hs, tableKeep] at ht
  cases hic : indexColumn (s.metrics.map (·.1)) with
  | error e => simp [hic] at ht
  | ok ic =>
    simp only [hic, Except.ok.injEq] at ht
    subst ht
    refine ⟨?_, rfl⟩
    simp only []
    rw [← (h.sel sel hs).len, filter_range_selected]

/-- The conditions export shows exactly the cycles matching all the given conditions, in order. -/
theorem export_conds_spec (F : List Char → Option Rat) (s : State) (conds : List Cond) (valids : List Bool)
    (h : Inv s) (hm : matching F s.metrics conds = .ok valids) (t : Table) (ht : exportTable F s (.conds conds) = .ok t) :
    t.rows = (indicesFrom (fun b => b) 0 valids).map (fun (k : Nat) => some (k : Rat) :: rowOf s.metrics k) ∧
    t.cols.tail = s.metrics.map (·.1) := by
  simp only [exportTable, hm, tableKeep] at ht
  cases hic : indexColumn (s.metrics.map (·.1)) with
  | error e => simp [hic] at ht
  | ok ic =>
    simp only [hic, Except.ok.injEq] at ht
    subst ht
    refine ⟨?_, rfl⟩
    simp only []
    rw [← matching_valids_length h hm, filter_range_true]

/-! ## Non-vacuity: the hypotheses are satisfiable on a concrete, non-trivial container -/

example : Container.Inv exState := exState_inv
example : WF [0, 0, 1, 1, 1, 2] 3 := exState_wf

-- metric values, both modes, any reducing function, on the example container (6 samples, 3 cycles)
example (F : List Char → Option Rat) (f : List Rat → Rat) :=
  metric_value F exState exState_inv ['m'] [1, 2, 3, 4, 5, 6] f (by decide)
example (F : List Char → Option Rat) (f : List Rat → Rat) :=
  metric_value_augmented F exState exState_inv ['a'] [1, 2, 3, 4, 5, 6] f (by decide)
example := augmented_segment exState exState_inv 1 (by decide)
example (F : List Char → Option Rat) (f : List Rat → Rat) :=
  cache_irrelevant F exState (.computeMetric ['m'] [1, 2, 3, 4, 5, 6] f .cycle) exState_inv (by show ([1, 2, 3, 4, 5, 6] : List Rat).length = _; decide)
example (F : List Char → Option Rat) (f : List Rat → Rat) :=
  cache_irrelevant F exState (.computeMetric ['m'] [1, 2, 3, 4, 5, 6] f .augmented) exState_inv (by show ([1, 2, 3, 4, 5, 6] : List Rat).length = _; decide)
example (F : List Char → Option Rat) (f : List Rat → Rat) :=
  chain_metric_value F exState exState_inv _ rfl ['c'] [1, 2, 3, 4, 5, 6] f true (by decide)
example (F : List Char → Option Rat) := pick_selects F exState exState_inv [['i', 's', '_', 'g', 'o', 'o', 'd', '=', '=', '1']]

-- the cache is relevant for a short value vector: 3 values on the 6-sample example container
example (F : List Char → Option Rat) (f : List Rat → Rat) :=
  cache_relevant_short_vals F exState exState_inv (by decide) ['m'] [1, 2, 3] f (by decide)
example (F : List Char → Option Rat) := chain_position_spec F exState exState_inv _ rfl
-- cycles 0 and 2 selected as two chains: both are first in their chain, cycle 1 is not selected
example : chainPosition { conds := [], subset := [0, -1, 1], chain := [0, 1] } = [some 0, some (-1), some 0] := by
  decide +kernel
example : chainPosition { conds := [], subset := [0, 1, 2, -1, 3], chain := [0, 0, 0, 1] } =
    [some 0, some 1, some 2, some (-1), some 0] := by decide +kernel
example (F : List Char → Option Rat) (f : List Rat → Rat) :=
  metric_frame F exState (.computeMetric ['m'] [1, 2, 3, 4, 5, 6] f .cycle) isGoodName
    (by show isGoodName ∉ [['m']]; decide)
example (F : List Char → Option Rat) := metric_frame F exState (.pickSubset []) isGoodName (by decide)

-- a condition with a negative decimal exponent literal: `dur>=-1.5e0`
example (F : List Char → Option Rat) (h : F ['-', '1', '.', '5', 'e', '0'] = some (-3/2)) :
    parseCondition F ['d', 'u', 'r', '>', '=', '-', '1', '.', '5', 'e', '0'] = .ok (['d', 'u', 'r'], .ge, -3/2) := by
  have := parse_print F ['d', 'u', 'r'] .ge ['-', '1', '.', '5', 'e', '0'] (by decide) (by decide)
  rw [h] at this
  exact this

-- subset and chains of a five-cycle selection: cycles 0, 2, 3 selected → two chains {0}, {2, 3}
example : subsetVector [true, false, true, true, false] = [0, -1, 1, 2, -1] := by decide
example : selected [0, -1, 1, 2, -1] = [0, 2, 3] ∧ chainVector [0, -1, 1, 2, -1] = [0, 1, 1] := by decide
example := chain_maximal_runs [0, -1, 1, 2, -1] 1 2 2 3 1 1 (by decide) (by decide) (by decide) (by decide) (by decide)
example := subset_is_rank [true, false, true, true, false] 3 true (by decide)


/-! ### Link to the index-map model (C16)

The container model and the index-map model (`EmdModel/Maps.lean`) were written independently.
In every coherent container state the stored subset and chain vectors are exactly the vectors
`Maps.subsetVector` / `Maps.chainVector` that C16's theorems characterise (rank among selected
cycles, maximal runs, round trips, projections) — so those theorems apply to the container. -/
theorem container_vectors_are_index_map_vectors (s : State) (h : Inv s) (sel : Sel) (hs : s.sel = some sel) :
    ∃ valids : List Bool, valids.length = s.K ∧
      sel.subset = Maps.subsetVector valids ∧
      sel.chain.map (fun (n : Nat) => (n : Int)) = Maps.chainVector (Maps.subsetVector valids) := by
  have ok := h.sel sel hs
  refine ⟨sel.subset.map fun j => decide (0 ≤ j), by simp [ok.len], ?_, ?_⟩
  · rw [← ComposeCycles.subsetVector_agree]; exact ok.rank
  · rw [← ComposeCycles.chainVector_agree, ← ok.rank, ok.chain]


/-- Link to the per-cycle statistics model (C14): the container's label-lookup route computes exactly
    `CycleStats.cycleStat`, of which C14 proves that entry k is f applied to precisely the samples
    carrying label k (for every f and every labelling with gaps). -/
theorem metric_is_cycle_statistic (f : List Rat → Rat) (cv : List Int) (vals : List Rat) :
    lookupStat f cv vals = (CycleStats.cycleStat f vals cv).map some :=
  ComposeStats.lookupStat_eq_cycleStat f cv vals

/-- Link to the cycle detector's model (C12) and to C16's well-formedness: in every state reachable
    from the constructor by any operation history, the container's label vector **is** the C12 cycle
    vector of the phase with all cycles requested and no mask (`get_cycle_vector(phase,
    return_good=False)`; run-shaped and code-shaped model), `K` is the detector's number of cycles, the
    vector has one label per sample and is well formed in the sense of the index-map model (labels
    0..K-1 all used, non-decreasing, contiguous blocks — C16's hypothesis).  With at least one wrap it
    covers every sample with a label in 0..K-1; without a wrap there is no cycle at all. -/
theorem container_cv_is_cycle_vector (F : List Char → Option Rat) (g : Cycles.GoodCfg) (pstep thr : Rat)
    (cache : Bool) (ph : List Rat) (ops : List Op) :
    let s := run F (init g pstep thr cache ph).1 ops
    s.cv = Cycles.getCycleVector g pstep false ph (List.replicate ph.length true) ∧
    s.cv = Cycles.cvIdx (Cycles.wrapAt pstep) (fun _ => true) ph ∧
    s.K = Cycles.nCycles (Cycles.cvSegs (Cycles.wrapAt pstep) (fun _ => true) ph) ∧
    s.cv.length = ph.length ∧
    Maps.WF s.cv s.K ∧
    (Cycles.wrapIdx (Cycles.wrapAt pstep) ph 0 ≠ [] → ∀ l ∈ s.cv, 0 ≤ l ∧ l < (s.K : Int)) ∧
    (Cycles.wrapIdx (Cycles.wrapAt pstep) ph 0 = [] → s.K = 0 ∧ ∀ l ∈ s.cv, l = -1) := by
  intro s
  obtain ⟨hcv, hK⟩ := ComposeContainer.run_cv F g pstep thr cache ph ops
  have hK' : s.K = Cycles.nCycles (Cycles.cvSegs (Cycles.wrapAt pstep) (fun _ => true) ph) := by
    rw [← ComposeContainer.nLabels_paint]; exact hK
  have hwf : Maps.WF s.cv s.K := by
    show Maps.WF (run F (init g pstep thr cache ph).1 ops).cv (run F (init g pstep thr cache ph).1 ops).K
    rw [hcv, hK, ComposeContainer.nLabels_paint]
    exact Maps.paint_cvSegs_wf _ _ _
  have hcode : s.cv = Cycles.cvIdx (Cycles.wrapAt pstep) (fun _ => true) ph := by
    rw [C12.code_model_refines]; exact hcv
  refine ⟨by rw [ComposeContainer.getCycleVector_all]; exact hcv, hcode, hK',
    by show (run F (init g pstep thr cache ph).1 ops).cv.length = _; rw [hcv]; exact C12.cv_length _ _ _, hwf, ?_, ?_⟩
  · intro hw l hl
    refine ⟨?_, (hwf.range l hl).2⟩
    rw [hcode] at hl
    exact C12.code_model_all_cover _ ph hw l hl
  · intro hw
    have hall : ∀ l ∈ s.cv, l = -1 := by
      intro l hl
      rw [hcode] at hl
      exact C12.code_model_no_wrap _ _ ph hw l hl
    refine ⟨?_, hall⟩
    cases hk : s.K with
    | zero => rfl
    | succ k =>
      have := hall _ (hwf.occurs 0 (by omega))
      omega

-- non-vacuity: a phase with two wraps (three cycles) — the hypothesis `wrapIdx … ≠ []` is satisfiable
example : Cycles.wrapIdx (Cycles.wrapAt 4) [1, 5, 0, 3, 6, 1] 0 = [2, 5] := by decide +kernel
example : Cycles.cvIdx (Cycles.wrapAt 4) (fun _ => true) [1, 5, 0, 3, 6, 1] = [0, 0, 1, 1, 1, 2] := by decide +kernel

/-- Link to the quality-check model (C13): `EmdModel/Cycles.lean` has its own model of "the container's
    per-cycle quality flag" (`Cycles.containerIsGood`: `is_good` on every run of the all-cycles partition),
    of which C13 proves that it agrees with the labels of `get_cycle_vector(return_good=True)`
    (`C13.container_flag_agrees`).  The `is_good` metric the container model's constructor stores —
    through `compute_cycle_metric`, cache on or off — is exactly that vector (True ↦ 1.0, False ↦ 0.0). -/
theorem init_is_good_is_quality_flag (g : Cycles.GoodCfg) (pstep thr : Rat) (cache : Bool) (ph : List Rat) :
    sget (init g pstep thr cache ph).1.metrics isGoodName =
      some ((Cycles.containerIsGood g pstep ph).map fun b => some (if b then 1 else 0)) := by
  have h := init_is_good g pstep thr cache ph
  obtain ⟨hcv, hK⟩ := ComposeContainer.run_cv (fun _ => none) g pstep thr cache ph []
  simp only [run, List.foldl_nil] at hcv hK
  simp only [] at h
  rw [h, hcv, hK, ComposeContainer.isGood_metric]

end C15
