import EmdModel.Spectra
namespace C10
theorem placeholder : True := trivial
end C10
