/-
  C10 — the Hilbert-Huang spectrum bins every sample's energy exactly once.
  Property theorems only (helper lemmas and the declarative specs `inBin`, `inRange`,
  `rowSpec`, `hhtSpec`, `hht1dSpec`: Proofs/Lemmas/Spectra.lean).

  All statements are about the executable model `EmdModel.Spectra` of
  `hilberthuang` (dense and sparse) and `hilberthuang_1d`, for every non-decreasing
  edge vector, every frequency array (NaN = `none`, negative, on an edge, out of
  range), every amplitude array, both modes, every size.
-/
import Proofs.Lemmas.Spectra
import Proofs.Lemmas.ComposeStats

namespace C10
open Spectra

/-- `np.digitize` on non-decreasing edges: the result is `b+1` exactly when the value lies in
    the half-open bin `[e[b], e[b+1])`. -/
theorem digitize_spec (e : List Rat) (he : e.Pairwise (· ≤ ·)) (v : Rat) (b : Nat) (hb : b + 1 < e.length) :
    digitize e v = b + 1 ↔ e[b] ≤ v ∧ v < e[b + 1] :=
  Spectra.digitize_spec e he v b hb

/-- … it is `0` exactly below the first edge and `len` exactly at/above the last edge. -/
theorem digitize_out_of_range (e : List Rat) (he : e.Pairwise (· ≤ ·)) (v : Rat) (h : 0 < e.length) :
    (digitize e v = 0 ↔ v < e[0]) ∧ (digitize e v = e.length ↔ e[e.length - 1] ≤ v) := by
  have h0 := lt_digitize_iff e he v 0 h
  have h1 := lt_digitize_iff e he v (e.length - 1) (by omega)
  have hle := digitize_le_length e v
  constructor
  · have : v < e[0] ↔ ¬ e[0] ≤ v := by grind
    rw [this, ← h0]; omega
  · rw [← h1]; omega

/-- Exactly once: a sample lies in exactly one bin when `e[0] ≤ f < e[last]`, and in none when it is
    below the first edge, at/above the last edge, negative or NaN. -/
theorem exactly_one_bin (e : List Rat) (he : e.Pairwise (· ≤ ·)) (f : Freq) :
    (List.range (e.length - 1)).countP (fun b => inBin e b f) = if inRange e f then 1 else 0 := by
  have h := sum_bins_inBin e he f 1
  have hc : ∀ (l : List Nat), ((l.map fun b => if inBin e b f then (1 : Rat) else 0).sum) =
      ((l.countP fun b => inBin e b f : Nat) : Rat) := by
    intro l
    induction l with
    | nil => rfl
    | cons a t ih =>
      rw [List.map_cons, List.sum_cons, ih, List.countP_cons]
      by_cases ha : inBin e a f = true
      · simp only [ha, ite_true]; rw [Rat.add_comm]; exact (Rat.natCast_add _ _).symm
      · simp [ha, Rat.zero_add]
  rw [hc] at h
  by_cases hr : inRange e f = true
  · rw [if_pos hr] at h ⊢
    exact_mod_cast h
  · rw [if_neg hr] at h ⊢
    exact_mod_cast h

/-- **Out of range = no bin at all; in range = the left-closed bin, first edge included.**  A sample below the first
    edge (negative included), at/above the last edge, or NaN gets NO bin index — not the last bin (no wrap-around of
    `digitize − 1 = −1`), not the first (no clamp) — and lies in no bin interval; every other sample gets exactly
    the index `b` with `e[b] ≤ f < e[b+1]`.  A sample exactly on the first edge of a non-empty first bin is in bin 0. -/
theorem out_of_range_no_bin (e : List Rat) (he : e.Pairwise (· ≤ ·)) (f : Freq) :
    (inRange e f = false → binIdx e f = none ∧ ∀ b, inBin e b f = false) ∧
    (inRange e f = true → ∃ b, binIdx e f = some b ∧ b < e.length - 1 ∧ inBin e b f = true) ∧
    (∀ b, binIdx e f = some b ↔ inBin e b f = true) ∧
    (∀ (h : 1 < e.length), e[0] < e[1] → binIdx e (some e[0]) = some 0) := by
  have hiff := binIdx_eq_some_iff e he f
  have hsome := binIdx_isSome_iff e he f
  refine ⟨fun hr => ?_, fun hr => ?_, hiff, fun h hlt => ?_⟩
  · rw [hr] at hsome
    have hn : binIdx e f = none := by
      cases hb : binIdx e f with
      | none => rfl
      | some b => rw [hb] at hsome; simp at hsome
    refine ⟨hn, fun b => ?_⟩
    cases hib : inBin e b f with
    | false => rfl
    | true => rw [(hiff b).mpr hib] at hn; cases hn
  · rw [hr] at hsome
    cases hb : binIdx e f with
    | none => rw [hb] at hsome; simp at hsome
    | some b => exact ⟨b, rfl, binIdx_lt hb, (hiff b).mp hb⟩
  · rw [binIdx_eq_some_iff e he (some e[0]) 0]
    have h0 : e[0]? = some e[0] := List.getElem?_eq_getElem (by omega)
    have h1 : e[0 + 1]? = some e[1] := List.getElem?_eq_getElem h
    simp only [inBin, h0, h1]
    simp [hlt, Rat.le_refl]

/-- Dense spectrum = SPEC: cell `[b][t]` is `Σ_j w(a[t][j])·[e[b] ≤ f[t][j] < e[b+1]]`. In particular a
    sample below the first edge or at/above the last contributes to no cell. -/
theorem hht_dense_eq_spec (e : List Rat) (he : e.Pairwise (· ≤ ·)) (energy : Bool) (F : List (List Freq))
    (A : List (List Rat)) (hs : F.length = A.length) :
    hhtDense e energy F A = hhtSpec e energy F A := by
  unfold hhtDense hhtSpec
  rw [toDense_eq_tab]
  unfold tab
  apply List.map_congr_left
  intro b _
  have hl : F.length = (List.zip F A).length := by simp [hs]
  rw [hl, ← map_range_getElem? (List.zip F A) (fun r => rowSpec e energy r b) 0]
  apply List.map_congr_left
  intro t _
  exact sumIf_hhtCoo e he energy F A b t

/-- Every sparse entry lies inside the `[bins × time]` shape (so `coo_matrix` accepts all of them and
    none is lost). -/
theorem hht_sparse_in_shape (e : List Rat) (energy : Bool) (F : List (List Freq)) (A : List (List Rat)) :
    ∀ x ∈ hhtCoo e energy F A, x.row < e.length - 1 ∧ x.col < F.length := by
  intro x hx
  obtain ⟨i, r, h1, h2⟩ := mem_cooFrom _ x 0 _ hx
  refine ⟨hhtRowTrips_row h2, ?_⟩
  have := hhtRowTrips_col h2
  have hi := (List.getElem?_eq_some_iff.mp h1).1
  simp at hi this
  omega

/-- The sparse form holds exactly one entry per in-range sample (and none for the others). -/
theorem hht_sparse_one_per_sample (e : List Rat) (he : e.Pairwise (· ≤ ·)) (energy : Bool)
    (F : List (List Freq)) (A : List (List Rat)) :
    (hhtCoo e energy F A).length =
      ((List.zip F A).map fun r => (List.zip r.1 r.2).countP fun fa => inRange e fa.1).sum := by
  unfold hhtCoo
  exact length_cooFrom _ _ (fun t r => length_hhtRowTrips e he energy t r) 0 _

/-- Sparse form vs dense form: the dense matrix is the table whose cell `(b, t)` is the sum of the sparse
    entries at `(b, t)` (duplicates accumulate), and the total of the dense matrix equals the total of the
    sparse data. -/
theorem hht_sparse_eq_dense (e : List Rat) (energy : Bool) (F : List (List Freq)) (A : List (List Rat)) :
    hhtDense e energy F A = tab (e.length - 1) F.length (sumIf (hhtCoo e energy F A)) ∧
    ((hhtDense e energy F A).map List.sum).sum = ((hhtCoo e energy F A).map (·.val)).sum := by
  constructor
  · exact toDense_eq_tab _ _ _
  · unfold hhtDense
    rw [toDense_eq_tab, sum_tab_sumIf]
    apply sum_map_congr
    intro x hx
    have := hht_sparse_in_shape e energy F A x hx
    simp [this]

/-- … hence an array whose samples are ALL out of range (below the first edge, at/above the last, negative, NaN)
    yields an empty sparse form and an all-zero dense spectrum: such samples add nothing to ANY bin. -/
theorem out_of_range_contributes_nowhere (e : List Rat) (he : e.Pairwise (· ≤ ·)) (energy : Bool) (F : List (List Freq))
    (A : List (List Rat)) (hall : ∀ r ∈ F, ∀ f ∈ r, inRange e f = false) :
    hhtCoo e energy F A = [] ∧ hhtDense e energy F A = zerosMat (e.length - 1) F.length := by
  have hlen : (hhtCoo e energy F A).length = 0 := by
    rw [hht_sparse_one_per_sample e he energy F A]
    have key : ∀ l : List Nat, (∀ n ∈ l, n = 0) → l.sum = 0 := by
      intro l
      induction l with
      | nil => intro _; rfl
      | cons a t ih => intro h; simp [h a (by simp), ih (fun n hn => h n (by simp [hn]))]
    apply key
    intro n hn
    obtain ⟨r, hr, rfl⟩ := List.mem_map.mp hn
    rw [List.countP_eq_zero]
    intro fa hfa
    have h1 : fa.1 ∈ r.1 := (List.of_mem_zip hfa).1
    have h2 : r.1 ∈ F := (List.of_mem_zip hr).1
    simp [hall r.1 h2 fa.1 h1]
  have hnil : hhtCoo e energy F A = [] := List.eq_nil_of_length_eq_zero hlen
  exact ⟨hnil, by unfold hhtDense; rw [hnil]; rfl⟩

/-- 1-D spectrum = SPEC: cell `[b][j]` is `Σ_t w(a[t][j])·[e[b] ≤ f[t][j] < e[b+1]]`. -/
theorem hht1d_eq_spec (e : List Rat) (he : e.Pairwise (· ≤ ·)) (energy : Bool) (M : Nat)
    (F : List (List Freq)) (A : List (List Rat)) :
    hht1d e energy M F A = hht1dSpec e energy M F A := by
  unfold hht1d hht1dSpec
  apply List.map_congr_left
  intro b hb
  apply List.map_congr_left
  intro j _
  exact hht1dCell_eq_spec e he energy _ b j (by have := List.mem_range.mp hb; omega)

/-- Marginals agree: for every bin, the dense spectrum summed over time equals the 1-D spectrum summed
    over IMFs (`M` = number of IMF columns). -/
theorem hht_marginal (e : List Rat) (he : e.Pairwise (· ≤ ·)) (energy : Bool) (M : Nat)
    (F : List (List Freq)) (A : List (List Rat)) (hs : F.length = A.length) (hM : ∀ r ∈ F, r.length = M) :
    (hhtDense e energy F A).map List.sum = (hht1d e energy M F A).map List.sum := by
  rw [hht_dense_eq_spec e he energy F A hs, hht1d_eq_spec e he]
  unfold hhtSpec hht1dSpec
  simp only [List.map_map, Function.comp_def]
  apply List.map_congr_left
  intro b _
  unfold hht1dSpecCell rowSpec
  rw [sum_map_comm]
  apply sum_map_congr
  intro r hr
  symm
  apply sum_range_getElem?
  have : r.1 ∈ F := (List.of_mem_zip hr).1
  have := hM r.1 this
  simp; omega

/-- Total: the whole spectrum sums to the total weight of the in-range samples
    (`e[0] ≤ f < e[last]`); out-of-range, negative and NaN samples contribute nothing. -/
theorem hht_total (e : List Rat) (he : e.Pairwise (· ≤ ·)) (energy : Bool) (F : List (List Freq))
    (A : List (List Rat)) (hs : F.length = A.length) :
    ((hhtDense e energy F A).map List.sum).sum =
      ((List.zip F A).map fun r =>
        ((List.zip r.1 r.2).map fun fa => if inRange e fa.1 then weight energy fa.2 else 0).sum).sum := by
  rw [hht_dense_eq_spec e he energy F A hs]
  unfold hhtSpec rowSpec
  simp only [List.map_map, Function.comp_def]
  rw [sum_map_comm]
  apply sum_map_congr
  intro r _
  rw [sum_map_comm]
  apply sum_map_congr
  intro fa _
  exact sum_bins_inBin e he fa.1 _

/-- Energy mode squares the amplitude: the energy spectrum is the amplitude spectrum of the squared
    amplitudes (dense, sparse and 1-D), and each entry carries `a²`. -/
theorem energy_is_square (e : List Rat) (F : List (List Freq)) (A : List (List Rat)) (M : Nat) :
    hhtCoo e true F A = hhtCoo e false F (A.map fun r => r.map fun a => a * a) ∧
    hhtDense e true F A = hhtDense e false F (A.map fun r => r.map fun a => a * a) ∧
    hht1d e true M F A = hht1d e false M F (A.map fun r => r.map fun a => a * a) := by
  have hz : List.zip F (A.map fun r => r.map fun a => a * a) =
      (List.zip F A).map (fun r => (r.1, r.2.map fun a => a * a)) := by
    rw [List.zip_map_right]; rfl
  have hrow : ∀ (fr : List Freq) (ar : List Rat), List.zip fr (ar.map fun a => a * a) =
      (List.zip fr ar).map (fun fa => (fa.1, fa.2 * fa.2)) := by
    intro fr ar; rw [List.zip_map_right]; rfl
  have hcoo : hhtCoo e true F A = hhtCoo e false F (A.map fun r => r.map fun a => a * a) := by
    unfold hhtCoo
    rw [hz, cooFrom_map]
    apply cooFrom_congr
    intro t r
    unfold hhtRowTrips hhtRowTripsWith
    simp only [hrow, List.filterMap_map, Function.comp_def, weight]
    rfl
  refine ⟨hcoo, ?_, ?_⟩
  · unfold hhtDense; rw [hcoo]
  · unfold hht1d
    apply List.map_congr_left
    intro b _
    apply List.map_congr_left
    intro j _
    unfold hht1dCell
    rw [hz, List.map_map]
    apply sum_map_congr
    intro r _
    simp only [Function.comp_def, hrow, List.getElem?_map]
    cases (List.zip r.1 r.2)[j]? <;> simp [weight]

/-- D8 (pinned tree): with the clamp `yinds[yinds < 0] = 0` a single sample below the first edge is
    counted in the first bin, so the pinned dense spectrum differs from the SPEC (and from the
    repaired model) on `f = 1/2, a = 3, edges = [1, 2]`. -/
theorem hht_below_range_pinned :
    hhtDensePinned [1, 2] false [[some (1/2)]] [[3]] = [[3]] ∧
    hhtSpec [1, 2] false [[some (1/2)]] [[3]] = [[0]] ∧
    hhtDense [1, 2] false [[some (1/2)]] [[3]] = [[0]] := by
  refine ⟨by decide +kernel, by decide +kernel, by decide +kernel⟩

/-! Non-vacuity: strictly increasing edges, samples below / on edges / inside / on the last edge /
    above / negative / NaN; the hypotheses of the theorems hold and the spectrum is not trivial. -/
example : ([1, 2, 4] : List Rat).Pairwise (· ≤ ·) := by decide +kernel
example : hhtDense [1, 2, 4] true
      [[some (1/2), some 1], [some 3, some 4], [some (-1), none], [some 2, some (3/2)]]
      [[1, 2], [3, 4], [5, 6], [7, 8]] = [[4, 0, 0, 64], [0, 9, 0, 49]] := by decide +kernel
example : hht1d [1, 2, 4] true 2
      [[some (1/2), some 1], [some 3, some 4], [some (-1), none], [some 2, some (3/2)]]
      [[1, 2], [3, 4], [5, 6], [7, 8]] = [[0, 68], [58, 0]] := by decide +kernel
-- all samples out of range (below, on the last edge, above, negative, NaN): nothing anywhere — not in the last bin either
example : hhtDense [1, 2, 4] false [[some (1/2), some 4], [some (-3), none], [some 5, some 0]] [[1, 2], [3, 4], [5, 6]]
    = [[0, 0, 0], [0, 0, 0]] := by decide +kernel
example : ∀ r ∈ [[some (1/2), some 4], [some (-3), none], [some 5, some (0 : Rat)]], ∀ f ∈ r, inRange [1, 2, 4] f = false := by
  decide +kernel
-- a sample exactly on the first edge is in the first bin
example : binIdx [1, 2, 4] (some 1) = some 0 ∧ binIdx [1, 2, 4] (some (1/2)) = none ∧ binIdx [1, 2, 4] (some 4) = none := by
  decide +kernel
example : inRange [1, 2, 4] (some 1) = true ∧ inRange [1, 2, 4] (some 4) = false ∧
    inRange [1, 2, 4] (some (1/2)) = false ∧ inRange [1, 2, 4] none = false := by decide +kernel


/-- The histogram model and the phase-binning model (C14, `bin_by_phase`) use one and the same model of
    `np.digitize` (increasing bins, right=False), so `digitize_spec` above also characterises phase bins. -/
theorem digitize_shared_with_phase_binning (e : List Rat) (v : Rat) :
    Spectra.digitize e v = CycleStats.digitize e v := ComposeStats.digitize_agree e v

end C10
