/-
  C13 — good cycles are exactly those meeting the documented phase criteria.
  Property theorems only (helper lemmas: Proofs/Lemmas/Cycles.lean).
-/
import Proofs.Lemmas.Cycles

namespace C13
open Cycles

/-- The acceptance test of a segment is the conjunction of the documented criteria:
    non-empty, strictly increasing, start within the edge tolerance above 0,
    end within the edge tolerance below 2π. -/
theorem isGood_spec (g : GoodCfg) (ph : List Rat) :
    isGood g ph = true ↔
      ∃ a z, ph.head? = some a ∧ ph.getLast? = some z ∧ ph.Pairwise (· < ·) ∧
        0 ≤ a ∧ a ≤ g.edge ∧ g.endlo ≤ z ∧ z ≤ g.twopi := by
  unfold isGood isGoodChecks
  cases h1 : ph.head? with
  | none => simp
  | some a =>
    cases h2 : ph.getLast? with
    | none => simp
    | some z =>
      simp only [Bool.and_eq_true, decide_eq_true_eq, strictInc_iff, Option.some.injEq]
      constructor
      · rintro ⟨⟨hp, h0, he⟩, hz, hl⟩
        exact ⟨a, z, rfl, rfl, hp, h0, he, hl, hz⟩
      · rintro ⟨a', z', rfl, rfl, hp, h0, he, hl, hz⟩
        exact ⟨⟨hp, h0, he⟩, hz, hl⟩

/-- Soundness and completeness: with at least one wrap, a wrap-delimited segment is labelled
    if and only if it passes the acceptance test (all criteria when only good cycles are
    requested) and none of its samples is masked out. -/
theorem cv_good_iff (g : GoodCfg) (step : Rat) (good : Bool) (xs : List (Rat × Bool))
    (hw : 2 ≤ (runsBy (wrapP step) xs).length) :
    ∀ s ∈ cvSegs (wrapP step) (accept g good) xs,
      (s.2.isSome ↔ (s.1.all (·.2) = true ∧ (good = true → isGood g (s.1.map (·.1)) = true))) := by
  intro s hs
  unfold cvSegs at hs
  have : ¬ (runsBy (wrapP step) xs).length ≤ 1 := by omega
  simp only [this, ite_false] at hs
  rw [labelRuns_label_iff _ _ _ s hs]
  unfold accept
  cases good <;> simp

/-- The partition into segments does not depend on which cycles are requested. -/
theorem good_same_partition {α : Type} (w : α → α → Bool) (acc₁ acc₂ : List α → Bool) (xs : List α) :
    (cvSegs w acc₁ xs).map (·.1) = (cvSegs w acc₂ xs).map (·.1) := by
  rw [cvSegs_runs, cvSegs_runs]

/-- Order-preserving renumbering: the label of a labelled segment is the number of labelled
    segments before it. -/
theorem cv_good_renumbers {α : Type} (w : α → α → Bool) (acc : List α → Bool) (xs : List α)
    (pre post : List (List α × Option Nat)) (run : List α) (k : Nat)
    (h : cvSegs w acc xs = pre ++ (run, some k) :: post) : k = nCycles pre := by
  have hl := C12_labels w acc xs
  rw [h] at hl
  simp only [List.filterMap_append, List.filterMap_cons] at hl
  exact append_cons_eq_range hl
where
  C12_labels {α : Type} (w : α → α → Bool) (acc : List α → Bool) (xs : List α) :
      (cvSegs w acc xs).filterMap (·.2) = List.range (nCycles (cvSegs w acc xs)) := by
    unfold nCycles cvSegs
    simp only []
    split
    · simp [List.filterMap_map, Function.comp_def, filterMap_const_none]
    · have := labelRuns_labels acc 0 (runsBy w xs)
      simpa [List.range'_eq_map_range] using this

/-- The container's per-cycle quality flag agrees with good-cycle detection: the flag of the
    i-th cycle of the all-cycles partition is set exactly when that segment is labelled in the
    good-cycles partition (same edge tolerance, no mask). -/
theorem container_flag_agrees (g : GoodCfg) (step : Rat) (ph : List Rat)
    (hw : 2 ≤ (runsBy (wrapAt step) ph).length) :
    containerIsGood g step ph = (cvSegs (wrapAt step) (isGood g) ph).map (·.2.isSome) := by
  unfold containerIsGood cvSegs
  have : ¬ (runsBy (wrapAt step) ph).length ≤ 1 := by omega
  simp only [this, ite_false]
  generalize runsBy (wrapAt step) ph = rs
  suffices h : ∀ c d, ((labelRuns (fun _ => true) c rs).filter (·.2.isSome)).map (fun s => isGood g s.1)
      = (labelRuns (isGood g) d rs).map (·.2.isSome) from h 0 0
  induction rs with
  | nil => simp [labelRuns]
  | cons r rs ih =>
    intro c d
    simp only [labelRuns, ite_true]
    cases hg : isGood g r
    · simp [hg]; exact ih _ _
    · simp [hg]; exact ih _ _

/-! Non-vacuity -/
example : isGood { edge := 1/4, twopi := 6, endlo := 23/4 } [1/8, 3, 47/8] = true := by
  rw [isGood_spec]; exact ⟨1/8, 47/8, rfl, rfl, by decide +kernel, by decide +kernel, by decide +kernel,
    by decide +kernel, by decide +kernel⟩

end C13
