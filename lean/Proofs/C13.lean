/-
  C13 — good cycles are exactly those meeting the documented phase criteria.
  Property theorems only (helper lemmas: Proofs/Lemmas/Cycles.lean).
-/
import Proofs.Lemmas.Cycles
import Proofs.Lemmas.CyclesSlices
import Proofs.Lemmas.ContainerOpts

namespace C13
open Cycles

/-- The acceptance test of a segment is the conjunction of the documented criteria:
    non-empty, strictly increasing, start within the edge tolerance above 0,
    end within the edge tolerance below 2π. -/
theorem isGood_spec (g : GoodCfg) (ph : List Rat) :
    isGood g ph = true ↔
      ∃ a z, ph.head? = some a ∧ ph.getLast? = some z ∧ ph.Pairwise (· < ·) ∧
        0 ≤ a ∧ a ≤ g.edge ∧ g.endlo ≤ z ∧ z ≤ g.twopi := by
  unfold isGood isGoodChecks
  cases h1 : ph.head? with
  | none => simp
  | some a =>
    cases h2 : ph.getLast? with
    | none => simp
    | some z =>
      simp only [Bool.and_eq_true, decide_eq_true_eq, strictInc_iff, Option.some.injEq]
      constructor
      · rintro ⟨⟨hp, h0, he⟩, hz, hl⟩
        exact ⟨a, z, rfl, rfl, hp, h0, he, hl, hz⟩
      · rintro ⟨a', z', rfl, rfl, hp, h0, he, hl, hz⟩
        exact ⟨⟨hp, h0, he⟩, hz, hl⟩

/-- Soundness and completeness: with at least one wrap, a wrap-delimited segment is labelled
    if and only if it passes the acceptance test (all criteria when only good cycles are
    requested) and none of its samples is masked out. -/
theorem cv_good_iff (g : GoodCfg) (step : Rat) (good : Bool) (xs : List (Rat × Bool))
    (hw : 2 ≤ (runsBy (wrapP step) xs).length) :
    ∀ s ∈ cvSegs (wrapP step) (accept g good) xs,
      (s.2.isSome ↔ (s.1.all (·.2) = true ∧ (good = true → isGood g (s.1.map (·.1)) = true))) := by
  intro s hs
  unfold cvSegs at hs
  have : ¬ (runsBy (wrapP step) xs).length ≤ 1 := by omega
  simp only [this, ite_false] at hs
  rw [labelRuns_label_iff _ _ _ s hs]
  unfold accept
  cases good <;> simp

/-- The partition into segments does not depend on which cycles are requested. -/
theorem good_same_partition {α : Type} (w : α → α → Bool) (acc₁ acc₂ : List α → Bool) (xs : List α) :
    (cvSegs w acc₁ xs).map (·.1) = (cvSegs w acc₂ xs).map (·.1) := by
  rw [cvSegs_runs, cvSegs_runs]

/-- Order-preserving renumbering: the label of a labelled segment is the number of labelled
    segments before it. -/
theorem cv_good_renumbers {α : Type} (w : α → α → Bool) (acc : List α → Bool) (xs : List α)
    (pre post : List (List α × Option Nat)) (run : List α) (k : Nat)
    (h : cvSegs w acc xs = pre ++ (run, some k) :: post) : k = nCycles pre := by
  have hl := C12_labels w acc xs
  rw [h] at hl
  simp only [List.filterMap_append, List.filterMap_cons] at hl
  exact append_cons_eq_range hl
where
  C12_labels {α : Type} (w : α → α → Bool) (acc : List α → Bool) (xs : List α) :
      (cvSegs w acc xs).filterMap (·.2) = List.range (nCycles (cvSegs w acc xs)) := by
    unfold nCycles cvSegs
    simp only []
    split
    · simp [List.filterMap_map, Function.comp_def, filterMap_const_none]
    · have := labelRuns_labels acc 0 (runsBy w xs)
      simpa [List.range'_eq_map_range] using this

/-- The container's per-cycle quality flag agrees with good-cycle detection: the flag of the
    i-th cycle of the all-cycles partition is set exactly when that segment is labelled in the
    good-cycles partition (same edge tolerance, no mask). -/
theorem container_flag_agrees (g : GoodCfg) (step : Rat) (ph : List Rat)
    (hw : 2 ≤ (runsBy (wrapAt step) ph).length) :
    containerIsGood g step ph = (cvSegs (wrapAt step) (isGood g) ph).map (·.2.isSome) := by
  unfold containerIsGood cvSegs
  have : ¬ (runsBy (wrapAt step) ph).length ≤ 1 := by omega
  simp only [this, ite_false]
  generalize runsBy (wrapAt step) ph = rs
  suffices h : ∀ c d, ((labelRuns (fun _ => true) c rs).filter (·.2.isSome)).map (fun s => isGood g s.1)
      = (labelRuns (isGood g) d rs).map (·.2.isSome) from h 0 0
  induction rs with
  | nil => simp [labelRuns]
  | cons r rs ih =>
    intro c d
    simp only [labelRuns, ite_true]
    cases hg : isGood g r
    · simp [hg]; exact ih _ _
    · simp [hg]; exact ih _ _

/-- **Bridge to the public entry point**: `get_cycle_vector(phase, return_good=True)` without a mask
    (model: `getCycleVector g step true ph (all-true mask)`, whose code-shaped form `cvIdx` is what the
    driver runs) is the painted partition whose acceptance test is `is_good` alone — the right-hand side of
    `container_flag_agrees`. -/
theorem getCycleVector_good_eq (g : GoodCfg) (step : Rat) (ph : List Rat) :
    getCycleVector g step true ph (List.replicate ph.length true) = paint (cvSegs (wrapAt step) (isGood g) ph) ∧
    cvIdx (wrapAt step) (isGood g) ph = paint (cvSegs (wrapAt step) (isGood g) ph) := by
  refine ⟨?_, cvIdx_eq_paint _ _ _⟩
  rw [getCycleVector_nomask]
  simp

/-- **The container flag agrees with `get_cycle_vector(return_good=True)`, sample by sample.**  Let sample
    p carry label i in the all-cycles vector `get_cycle_vector(phase, return_good=False)` (so p lies in the
    i-th cycle of the all-cycles partition).  Then the container's quality flag of cycle i is set if and
    only if sample p is labelled (label ≥ 0) in `get_cycle_vector(phase, return_good=True)` — same phase,
    same step and edge tolerance, no mask. -/
theorem container_flag_agrees_getCycleVector (g : GoodCfg) (step : Rat) (ph : List Rat) (p i : Nat)
    (hp : (getCycleVector g step false ph (List.replicate ph.length true))[p]? = some (i : Int)) :
    (containerIsGood g step ph)[i]? = some true ↔
      ∃ l, (getCycleVector g step true ph (List.replicate ph.length true))[p]? = some l ∧ 0 ≤ l := by
  rw [(getCycleVector_good_eq g step ph).1]
  rw [getCycleVector_nomask] at hp
  simp only [Bool.not_false, Bool.true_or] at hp
  unfold containerIsGood
  unfold cvSegs at hp ⊢
  simp only [] at hp ⊢
  by_cases h1 : (runsBy (wrapAt step) ph).length ≤ 1
  · -- no wrap: no sample carries a label
    simp only [h1, ite_true] at hp
    have : ((i : Nat) : Int) ∈ paint ((runsBy (wrapAt step) ph).map fun r => (r, (none : Option Nat))) :=
      List.mem_of_getElem? hp
    obtain ⟨s, hs, hl⟩ := mem_paint this
    obtain ⟨r, _, rfl⟩ := List.mem_map.mp hs
    simp [labelInt] at hl
  · simp only [h1, ite_false] at hp ⊢
    have hmap : ((labelRuns (fun _ => true) 0 (runsBy (wrapAt step) ph)).filter (·.2.isSome)).map (fun s => isGood g s.1)
        = (runsBy (wrapAt step) ph).map (isGood g) := by
      have hall : ∀ s ∈ labelRuns (fun _ => true) 0 (runsBy (wrapAt step) ph), s.2.isSome = true :=
        fun s hs => (labelRuns_label_iff _ _ _ s hs).mpr rfl
      rw [List.filter_eq_self.mpr hall]
      have := congrArg (List.map (isGood g)) (labelRuns_runs (fun _ => true) 0 (runsBy (wrapAt step) ph))
      rw [List.map_map] at this
      exact this
    rw [hmap]
    exact paint_labelRuns_sample (isGood g) (runsBy (wrapAt step) ph) 0 0 p i (by simpa using hp)

/-- **The container's quality flag does not depend on the container's options.**  `Container.initOpts` is the
    constructor `Cycles(IP, phase_step, phase_edge, compute_timings, mode, use_cache)` with every option it
    has.  For every `mode` ∈ {cycle, augmented}, with or without `compute_timings`, cache on or off, the stored
    `is_good` metric is the SAME vector: `containerIsGood` — `is_good` on every wrap-delimited cycle of the
    all-cycles partition, i.e. the documented criteria for the cycle (`isGood_spec`), agreeing with good-cycle
    detection (`container_flag_agrees`) — never the criteria of the augmented segment (seeded change C13-5). -/
theorem container_flag_independent_of_options (g : GoodCfg) (pstep thr : Rat) (cache : Bool)
    (mode : Container.Mode) (timings : Bool) (ph : List Rat) :
    Container.sget (Container.initOpts g pstep thr cache mode timings ph).1.metrics Container.isGoodName =
      some ((containerIsGood g pstep ph).map fun b => some (if b then 1 else 0)) ∧
    Container.isGoodFlags (Container.initOpts g pstep thr cache mode timings ph).1 = some (containerIsGood g pstep ph) ∧
    ∀ (cache' : Bool) (mode' : Container.Mode) (timings' : Bool),
      Container.isGoodFlags (Container.initOpts g pstep thr cache' mode' timings' ph).1 =
        Container.isGoodFlags (Container.initOpts g pstep thr cache mode timings ph).1 := by
  refine ⟨ContainerOpts.initOpts_isGood g pstep thr cache mode timings ph,
    ContainerOpts.initOpts_flags g pstep thr cache mode timings ph, fun cache' mode' timings' => ?_⟩
  rw [ContainerOpts.initOpts_flags, ContainerOpts.initOpts_flags]

/-- … and through the constructor the flag is the documented criteria, cycle by cycle: with at least one wrap,
    flag i of a container built with ANY options is set iff the i-th wrap-delimited segment is non-empty,
    strictly increasing, starts within the edge tolerance above 0 and ends within it below 2π. -/
theorem container_flag_is_criteria (g : GoodCfg) (pstep thr : Rat) (cache : Bool) (mode : Container.Mode)
    (timings : Bool) (ph : List Rat) (hw : 2 ≤ (runsBy (wrapAt pstep) ph).length) :
    ∃ flags, Container.isGoodFlags (Container.initOpts g pstep thr cache mode timings ph).1 = some flags ∧
      flags.length = (runsBy (wrapAt pstep) ph).length ∧
      ∀ (i : Nat) (seg : List Rat), (runsBy (wrapAt pstep) ph)[i]? = some seg →
        (flags[i]? = some true ↔
          ∃ a z, seg.head? = some a ∧ seg.getLast? = some z ∧ seg.Pairwise (· < ·) ∧
            0 ≤ a ∧ a ≤ g.edge ∧ g.endlo ≤ z ∧ z ≤ g.twopi) := by
  have hflags : containerIsGood g pstep ph = (runsBy (wrapAt pstep) ph).map (isGood g) := by
    unfold containerIsGood cvSegs
    have hne : ¬ (runsBy (wrapAt pstep) ph).length ≤ 1 := by omega
    simp only [hne, ite_false]
    have hall : ∀ s ∈ labelRuns (fun _ => true) 0 (runsBy (wrapAt pstep) ph), s.2.isSome = true :=
      fun s hs => (labelRuns_label_iff _ _ _ s hs).mpr rfl
    rw [List.filter_eq_self.mpr hall]
    have := congrArg (List.map (isGood g)) (labelRuns_runs (fun _ => true) 0 (runsBy (wrapAt pstep) ph))
    rw [List.map_map] at this
    exact this
  refine ⟨_, ContainerOpts.initOpts_flags g pstep thr cache mode timings ph, by simp [hflags], ?_⟩
  intro i seg hseg
  rw [hflags, List.getElem?_map, hseg, ← isGood_spec]
  simp

/-- A looser tolerance never rejects what a tighter one accepts: the acceptance test is monotone in
    `phase_edge` (start bound up, end bound down).  A change that compares against the wrong bound, or
    flips one of the inequalities, breaks this for some segment. -/
theorem isGood_mono_edge (g g' : GoodCfg) (ph : List Rat)
    (he : g.edge ≤ g'.edge) (hl : g'.endlo ≤ g.endlo) (ht : g.twopi ≤ g'.twopi)
    (h : isGood g ph = true) : isGood g' ph = true := by
  rw [isGood_spec] at h ⊢
  obtain ⟨a, z, ha, hz, hp, h0, h1, h2, h3⟩ := h
  exact ⟨a, z, ha, hz, hp, h0, Rat.le_trans h1 he, Rat.le_trans hl h2, Rat.le_trans h3 ht⟩

/-- An empty segment is never a good cycle (the implementation raises on it; `isGoodChecks = none`). -/
theorem isGood_nil (g : GoodCfg) : isGood g [] = false := by
  simp [isGood, isGoodChecks]

/-- A one-sample segment is good only if that single phase value lies in BOTH tolerance bands; when the
    bands are disjoint (`edge < endlo`, i.e. `phase_edge < π` — every documented setting) no single sample
    is ever a good cycle. -/
theorem isGood_singleton (g : GoodCfg) (a : Rat) (hd : g.edge < g.endlo) : isGood g [a] = false := by
  cases h : isGood g [a] with
  | false => rfl
  | true =>
    rw [isGood_spec] at h
    obtain ⟨a', z', ha, hz, -, -, h1, h2, -⟩ := h
    simp only [List.head?_cons, Option.some.injEq, List.getLast?_singleton] at ha hz
    subst ha; subst hz
    grind

/-- The criteria read only the segment: strict increase of ALL consecutive pairs.  A good segment of
    length ≥ 2 starts strictly below where it ends. -/
theorem isGood_head_lt_last (g : GoodCfg) (a b : Rat) (t : List Rat) (h : isGood g (a :: b :: t) = true) :
    ∃ z, (a :: b :: t).getLast? = some z ∧ a < z := by
  rw [isGood_spec] at h
  obtain ⟨a', z, ha, hz, hp, -⟩ := h
  refine ⟨z, hz, ?_⟩
  have hmem : z ∈ b :: t := by
    have : (b :: t).getLast? = some z := by simpa [List.getLast?_cons_cons] using hz
    exact List.mem_of_getLast? this
  exact (List.pairwise_cons.mp hp).1 z hmem

/-! Non-vacuity -/
example : isGood { edge := 1/4, twopi := 6, endlo := 23/4 } [1/8, 3, 47/8] = true := by
  rw [isGood_spec]; exact ⟨1/8, 47/8, rfl, rfl, by decide +kernel, by decide +kernel, by decide +kernel,
    by decide +kernel, by decide +kernel⟩

-- three wrap-delimited segments, the middle one fails the end criterion: sample 3 lies in cycle 1 of the
-- all-cycles partition (the hypothesis of `container_flag_agrees_getCycleVector` is satisfiable)
example : (getCycleVector { edge := 1/4, twopi := 6, endlo := 23/4 } 4 false [1/8, 3, 47/8, 1/8, 5, 1/8, 3, 47/8]
    (List.replicate 8 true))[3]? = some ((1 : Nat) : Int) := by decide +kernel
example : getCycleVector { edge := 1/4, twopi := 6, endlo := 23/4 } 4 true [1/8, 3, 47/8, 1/8, 5, 1/8, 3, 47/8]
    (List.replicate 8 true) = [0, 0, 0, -1, -1, 1, 1, 1] := by decide +kernel
-- the round-3 witness: three full cycles, container built with mode='augmented', timings on, cache off: all three flags set
-- (the augmented criteria would reject the first cycle)
example : Container.isGoodFlags (Container.initOpts { edge := 1/4, twopi := 6, endlo := 23/4 } 4 (9/2) false .augmented true
    [1/8, 3, 47/8, 1/8, 3, 47/8, 1/8, 3, 47/8]).1 = some [true, true, true] := by
  rw [(container_flag_independent_of_options _ _ _ _ _ _ _).2.1]; decide +kernel
example : 2 ≤ (runsBy (wrapAt 4) [1/8, 3, 47/8, 1/8, 3, 47/8, 1/8, 3, 47/8]).length := by decide +kernel
example : ({ edge := 1/4, twopi := 6, endlo := 23/4 } : GoodCfg).edge < ({ edge := 1/4, twopi := 6, endlo := 23/4 } : GoodCfg).endlo := by decide +kernel
end C13
