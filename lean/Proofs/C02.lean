/-
  C02 — sifting commutes with rescaling, sign flip and time reversal.
  Property theorems only (helper lemmas: Proofs/Lemmas/Equivariance*.lean).

  PHASE 1: the extrema / envelope layer (`EmdModel.Extrema`: `findPeaks`, `parabolic`, `paddedExtrema`,
  `interpEnvelope I`), for every signal of every length, every pad width, every mode, and every
  interpolant `I` meeting the stated oracle contract.  Exact in ℚ, all by induction over the loops.

  vocabulary (Proofs/Lemmas/EquivarianceScale.lean, …Reverse.lean)
    `Sig.smul c x`        the signal `c • x`
    `Mode.swap`           peaks ↔ troughs (abs_peaks fixed);  `m.under c` = `m` for `c > 0`, `m.swap` otherwise
    `Mode.factor c m`     `c`, and `|c|` for abs_peaks
    `PadResult.smul c`    magnitudes times `c`, locations unchanged;  `EnvResult.smul c` also scales the envelope
    `mirror n l`          the locations `n-1-v`, listed in increasing order again
    `PadResult.mirror n`  locations mirrored, magnitudes reversed;  `EnvResult.mirror n` also reverses the envelope
    `I.Homogeneous`       oracle contract: `I.eval locs (c • mags) t = c * I.eval locs mags t`  (c ≠ 0, both signs)
    `I.Reversible`        oracle contract: `I.eval (mirror n locs) mags.reverse (n-1-t) = I.eval locs mags t`

  PHASE 2 (pending the Sift / Mask models): `sdMetric_smul`, `rillingStop_smul`, `fixedStop_indep`,
  `getNextImf_smul`, `getNextImf_reverse`, `sift_smul`, `sift_reverse`, `maskSift_ratio_smul_pos/_neg`.
-/
import Proofs.Lemmas.EquivarianceReverse

namespace C02
open Extrema

/-! ## 1. Extrema detection -/

/-- Rescaling by a positive constant does not move any extremum. -/
theorem findPeaks_smul_pos (c : Rat) (hc : 0 < c) (x : Sig) :
    findPeaks (Sig.smul c x) = findPeaks x ∧ findTroughs (Sig.smul c x) = findTroughs x := by
  refine ⟨findPeaks_smul_pos' c hc x, ?_⟩
  unfold findTroughs
  rw [neg_smul_comm, findPeaks_smul_pos' c hc]

/-- Rescaling by a negative constant (in particular the sign flip `c = -1`) exchanges peaks and troughs. -/
theorem findPeaks_smul_neg (c : Rat) (hc : c < 0) (x : Sig) :
    findPeaks (Sig.smul c x) = findTroughs x ∧ findTroughs (Sig.smul c x) = findPeaks x :=
  findPeaks_smul_neg' c hc x

/-- Time reversal mirrors the peaks: they are the indices `n-1-i`, in reversed order. -/
theorem findPeaks_reverse (x : Sig) :
    findPeaks x.reverse = ((findPeaks x).map fun i => x.length - 1 - i).reverse ∧
    findTroughs x.reverse = ((findTroughs x).map fun i => x.length - 1 - i).reverse := by
  refine ⟨findPeaks_reverse' x, ?_⟩
  unfold findTroughs
  rw [neg_reverse, findPeaks_reverse', neg_length]

/-! ## 2. Parabolic refinement: the vertex location is scale-free, the vertex height scales -/

theorem parabolic_smul (c : Rat) (hc : c ≠ 0) (y0 y1 y2 : Rat) :
    parabolic (c * y0) (c * y1) (c * y2) = ((parabolic y0 y1 y2).1, c * (parabolic y0 y1 y2).2) :=
  parabolic_smul' c hc y0 y1 y2

/-! ## 3. `get_padded_extrema` under rescaling (with and without parabolic refinement) -/

/-- `c > 0`: every mode returns the same locations and `c` times the magnitudes
    (also `None` ↔ `None`; for abs_peaks `|c| = c`). -/
theorem paddedExtrema_smul_pos (c : Rat) (hc : 0 < c) (w : Nat) (m : Mode) (parab : Bool) (x : Sig) :
    paddedExtrema w m parab (Sig.smul c x) = (paddedExtrema w m parab x).smul c :=
  paddedExtrema_of_extrema w m m parab x _ c (smul_length c x) (extrema_smul_pos m parab c hc x)

/-- `c < 0`: the 'peaks' mode of `c • x` returns the 'troughs' mode of `x` scaled by `c` and vice versa;
    the 'abs_peaks' mode is scaled by `|c|`. -/
theorem paddedExtrema_smul_neg (c : Rat) (hc : c < 0) (w : Nat) (parab : Bool) (x : Sig) :
    paddedExtrema w .peaks parab (Sig.smul c x) = (paddedExtrema w .troughs parab x).smul c ∧
    paddedExtrema w .troughs parab (Sig.smul c x) = (paddedExtrema w .peaks parab x).smul c ∧
    paddedExtrema w .absPeaks parab (Sig.smul c x) = (paddedExtrema w .absPeaks parab x).smul (Rat.abs' c) :=
  ⟨paddedExtrema_of_extrema w .peaks .troughs parab x _ c (smul_length c x) (extrema_smul_neg .peaks parab c hc x),
   paddedExtrema_of_extrema w .troughs .peaks parab x _ c (smul_length c x) (extrema_smul_neg .troughs parab c hc x),
   paddedExtrema_of_extrema w .absPeaks .absPeaks parab x _ _ (smul_length c x) (extrema_smul_neg .absPeaks parab c hc x)⟩

/-- Both signs at once: locations unchanged, magnitudes scaled by `c` (`|c|` for abs_peaks), the kind of
    extremum swapped when `c < 0`. -/
theorem paddedExtrema_smul (c : Rat) (hc : c ≠ 0) (w : Nat) (m : Mode) (parab : Bool) (x : Sig) :
    paddedExtrema w m parab (Sig.smul c x) = (paddedExtrema w (m.under c) parab x).smul (m.factor c) := by
  rcases lt_or_gt_of_ne hc with h | h
  · have : ¬ 0 < c := not_lt.mpr (le_of_lt h)
    simp only [Mode.under, this, if_false]
    exact paddedExtrema_of_extrema w m m.swap parab x _ _ (smul_length c x) (extrema_smul_neg m parab c h x)
  · simp only [Mode.under, h, if_true]
    have hf : m.factor c = c := by cases m <;> simp [Mode.factor, abs'_of_pos c h]
    rw [hf]; exact paddedExtrema_smul_pos c h w m parab x

/-! ## 4. `get_padded_extrema` under time reversal (integer locations) -/

/-- The loop test `max(locs) < n or min(locs) >= 0` is symmetric under mirroring when the
    (strictly ordered) locations are integers: a last location `≥ n` mirrors to a first location `≤ -1`. -/
theorem loopTest_mirror_symmetric (n : Nat) (l : List Rat) (hne : l ≠ []) (hs : l.Pairwise (· < ·)) (hi : IntLocs l) :
    needsMore n (mirror n l) = needsMore n l := needsMore_mirror n l hne hs hi

/-- …and it is not symmetric on fractional locations (why the reversal theorems below are stated for
    unrefined extrema): a first location in `(-1, 0)` ends the loop, its mirror image in `(n-1, n)` does not. -/
theorem loopTest_fractional_asymmetric_witness :
    ∃ (n : Nat) (l : List Rat), l.Pairwise (· < ·) ∧ needsMore n l = false ∧ needsMore n (mirror n l) = true :=
  ⟨2, [-(1 / 2), 5 / 2], by simp only [List.pairwise_cons, List.mem_singleton, forall_eq, List.not_mem_nil,
      false_imp_iff, implies_true, List.Pairwise.nil, and_true]; decide +kernel, by decide +kernel, by decide +kernel⟩

/-- One chunk of odd-reflection padding commutes with mirroring. -/
theorem padOdd_mirror_symmetric (n w : Nat) (l : List Rat) (hl : 2 ≤ l.length) :
    padOdd w (mirror n l) = mirror n (padOdd w l) := padOdd_mirror n w l hl

/-- Without refinement, the padded extrema of the reversed signal are the mirror image of the padded extrema:
    locations `n-1-v` in increasing order, magnitudes reversed — every mode, every pad width, every length
    (`None` ↔ `None`). -/
theorem paddedExtrema_reverse (w : Nat) (m : Mode) (x : Sig) :
    paddedExtrema w m false x.reverse = (paddedExtrema w m false x).mirror x.length :=
  paddedExtrema_reverse' w m x

/-- With parabolic refinement the statement is false (and not demanded by the property, whose quantifier ranges over
    padding widths, not over the refinement flag): for `x = [0,2,1,3,2]` the refined peaks sit at `7/6, 19/6`; one
    round of padding gives `-5/6 … 31/6`, which ends the loop (`31/6 ≥ 5`, `-5/6 < 0`), whereas the mirror image
    `-7/6 … 29/6` of the reversed signal does not (`29/6 < 5`) and is padded once more.
    The real `get_padded_extrema` does the same on this input (corpus case of stream `extrema`). -/
theorem paddedExtrema_reverse_parabolic_witness :
    ∃ (x : Sig) (w : Nat),
      paddedExtrema w .peaks true x = .ok [-5/6, 7/6, 19/6, 31/6] [49/24, 49/24, 73/24, 73/24] ∧
      paddedExtrema w .peaks true x.reverse =
        .ok [-19/6, -7/6, 5/6, 17/6, 29/6, 41/6] [73/24, 73/24, 73/24, 49/24, 49/24, 49/24] ∧
      paddedExtrema w .peaks true x.reverse ≠ (paddedExtrema w .peaks true x).mirror x.length :=
  ⟨[0, 2, 1, 3, 2], 1, by decide +kernel, by decide +kernel, by decide +kernel⟩

/-! ## 5. `interp_envelope` -/

/-- `c > 0`, homogeneous interpolant: every envelope of `c • x` is `c` times that of `x`
    (with or without refinement; `None`, the length error — all outcomes correspond). -/
theorem interpEnvelope_smul_pos (I : Interp) (hI : I.Homogeneous) (c : Rat) (hc : 0 < c) (em : EMode) (w : Nat)
    (parab : Bool) (x : Sig) :
    interpEnvelope I em w parab (Sig.smul c x) = (interpEnvelope I em w parab x).smul c :=
  interpEnvelope_of_padded I hI em em w parab x _ c (ne_of_gt hc) (smul_length c x)
    (paddedExtrema_smul_pos c hc w em.toMode parab x)

/-- `c < 0`: the upper envelope of `c • x` is `c` times the lower envelope of `x` and vice versa;
    the combined-mode envelope scales by `|c|`. -/
theorem interpEnvelope_smul_neg (I : Interp) (hI : I.Homogeneous) (c : Rat) (hc : c < 0) (w : Nat) (parab : Bool) (x : Sig) :
    interpEnvelope I .upper w parab (Sig.smul c x) = (interpEnvelope I .lower w parab x).smul c ∧
    interpEnvelope I .lower w parab (Sig.smul c x) = (interpEnvelope I .upper w parab x).smul c ∧
    interpEnvelope I .combined w parab (Sig.smul c x) = (interpEnvelope I .combined w parab x).smul (Rat.abs' c) := by
  obtain ⟨h1, h2, h3⟩ := paddedExtrema_smul_neg c hc w parab x
  have hne : c ≠ 0 := ne_of_lt hc
  exact ⟨interpEnvelope_of_padded I hI .upper .lower w parab x _ c hne (smul_length c x) h1,
    interpEnvelope_of_padded I hI .lower .upper w parab x _ c hne (smul_length c x) h2,
    interpEnvelope_of_padded I hI .combined .combined w parab x _ _ (ne_of_gt (abs'_pos_of_ne c hne)) (smul_length c x) h3⟩

/-- Both signs at once. -/
theorem interpEnvelope_smul (I : Interp) (hI : I.Homogeneous) (c : Rat) (hc : c ≠ 0) (em : EMode) (w : Nat)
    (parab : Bool) (x : Sig) :
    interpEnvelope I em w parab (Sig.smul c x) = (interpEnvelope I (em.under c) w parab x).smul (em.factor c) := by
  apply interpEnvelope_of_padded I hI em (em.under c) w parab x _ _ (Mode.factor_ne_zero c hc _) (smul_length c x)
  have h := paddedExtrema_smul c hc w em.toMode parab x
  have e : (em.under c).toMode = em.toMode.under c := by
    unfold EMode.under Mode.under; split
    · rfl
    · exact EMode.swap_toMode em
  rw [e]; exact h

/-- Reversible interpolant, pad width ≥ 1, no refinement: the envelope of the reversed signal is the
    reversed envelope (built on the mirrored extrema). -/
theorem interpEnvelope_reverse (I : Interp) (hI : I.Reversible) (em : EMode) (w : Nat) (hw : 1 ≤ w) (x : Sig) :
    interpEnvelope I em w false x.reverse = (interpEnvelope I em w false x).mirror x.length :=
  interpEnvelope_reverse' I hI em w hw x

/-- What the sift uses: the local mean `(upper + lower)/2` of `c • x` is `c` times that of `x`, for either sign —
    for `c < 0` the two envelopes trade places, their mean does not care. -/
theorem envelope_mean_smul (I : Interp) (hI : I.Homogeneous) (c : Rat) (hc : c ≠ 0) (w : Nat) (parab : Bool) (x : Sig)
    (U L lu eu ll el : List Rat)
    (hU : interpEnvelope I .upper w parab x = .ok U lu eu) (hL : interpEnvelope I .lower w parab x = .ok L ll el) :
    ∃ U' L' lu' eu' ll' el', interpEnvelope I .upper w parab (Sig.smul c x) = .ok U' lu' eu' ∧
      interpEnvelope I .lower w parab (Sig.smul c x) = .ok L' ll' el' ∧
      Sig.mean2 U' L' = Sig.smul c (Sig.mean2 U L) := by
  have hmean : ∀ A B : List Rat, Sig.mean2 (Sig.smul c A) (Sig.smul c B) = Sig.smul c (Sig.mean2 A B) := by
    intro A
    induction A with
    | nil => intro B; simp [Sig.mean2, Sig.smul]
    | cons a A ih =>
      intro B
      cases B with
      | nil => simp [Sig.mean2, Sig.smul]
      | cons b B =>
        have := ih B
        simp only [Sig.mean2, Sig.smul, List.map_cons, List.zipWith_cons_cons, List.cons.injEq] at this ⊢
        exact ⟨by ring, this⟩
  have hcomm : ∀ A B : List Rat, Sig.mean2 A B = Sig.mean2 B A := by
    intro A
    induction A with
    | nil => intro B; cases B <;> simp [Sig.mean2]
    | cons a A ih =>
      intro B
      cases B with
      | nil => simp [Sig.mean2]
      | cons b B =>
        have := ih B
        simp only [Sig.mean2, List.zipWith_cons_cons, List.cons.injEq] at this ⊢
        exact ⟨by ring, this⟩
  rcases lt_or_gt_of_ne hc with h | h
  · obtain ⟨h1, h2, _⟩ := interpEnvelope_smul_neg I hI c h w parab x
    refine ⟨Sig.smul c L, Sig.smul c U, ll, Sig.smul c el, lu, Sig.smul c eu, ?_, ?_, ?_⟩
    · rw [h1, hL]; rfl
    · rw [h2, hU]; rfl
    · rw [hmean, hcomm]
  · refine ⟨Sig.smul c U, Sig.smul c L, lu, Sig.smul c eu, ll, Sig.smul c el, ?_, ?_, hmean U L⟩
    · rw [interpEnvelope_smul_pos I hI c h, hU]; rfl
    · rw [interpEnvelope_smul_pos I hI c h, hL]; rfl

/-! ## Non-vacuity: the hypotheses are met on concrete, non-trivial inputs -/

/-- an interpolant meeting both oracle contracts: the sum of the first and the last magnitude -/
def endsInterp : Interp := { eval := fun _ mags _ => mags.head?.getD 0 + mags.getLast?.getD 0 }

example : endsInterp.Homogeneous := by
  intro c locs mags t _ _ _
  cases mags with
  | nil => simp [endsInterp, Sig.smul]
  | cons a m =>
    have h4 : (a :: m).getLast? = some ((a :: m).getLast (by simp)) := List.getLast?_eq_some_getLast (by simp)
    simp only [endsInterp, Sig.smul, List.map_cons, List.head?_cons, Option.getD_some]
    rw [← List.map_cons (f := (c * ·)), List.getLast?_map, h4]
    simp only [Option.map_some, Option.getD_some]
    ring

example : endsInterp.Reversible := by
  intro n locs mags t _ _
  simp only [endsInterp, List.head?_reverse, List.getLast?_reverse]
  ring

-- sign flip and rescaling: the peaks of -2•x are the troughs of x, magnitudes times -2
example : findPeaks (Sig.smul (-2) [0, 1, 0, 2, 0, 1, 1, 0]) = [2, 4] := by decide +kernel
example : findTroughs [0, 1, 0, 2, 0, 1, 1, 0] = [2, 4] := by decide +kernel
example : paddedExtrema 2 .peaks false (Sig.smul (-2) [0, 1, -1, 2, 0, 1, 1, 0]) =
    .ok [-2, 0, 2, 4, 6, 8] [2, 2, 2, 0, 0, 0] := by decide +kernel
example : paddedExtrema 2 .troughs false [0, 1, -1, 2, 0, 1, 1, 0] =
    .ok [-2, 0, 2, 4, 6, 8] [-1, -1, -1, 0, 0, 0] := by decide +kernel
-- refinement: locations unchanged under scaling by -3, heights scaled
example : paddedExtrema 1 .troughs true (Sig.smul (-3) [0, 3, 1, 2, 1/2]) =
    .ok [-5/2, -7/10, 11/10, 29/10, 47/10, 13/2] [-363/40, -363/40, -363/40, -483/80, -483/80, -483/80] := by decide +kernel
-- time reversal of an asymmetric signal: peaks 1, 3 (n = 8) mirror to 4, 6; the plateau 5,6 ↦ 1,2 stays no peak
example : findPeaks [0, 1, 0, 2, 0, 1, 1, 0] = [1, 3] := by decide +kernel
example : findPeaks [0, 1, 0, 2, 0, 1, 1, 0].reverse = [4, 6] := by decide +kernel
example : paddedExtrema 1 .peaks false [0, 1, 0, 2, 0, 1, 1, 0] = .ok [-5, -3, -1, 1, 3, 5, 7, 9] [1, 1, 1, 1, 2, 2, 2, 2] := by
  decide +kernel
example : paddedExtrema 1 .peaks false [0, 1, 0, 2, 0, 1, 1, 0].reverse = .ok [-2, 0, 2, 4, 6, 8, 10, 12] [2, 2, 2, 2, 1, 1, 1, 1] := by
  decide +kernel
-- envelopes exist on both sides of the equations
example : interpEnvelope endsInterp .upper 1 false [0, 1, 0, 2, 0, 1, 1, 0] =
    .ok [3, 3, 3, 3, 3, 3, 3, 3] [-5, -3, -1, 1, 3, 5, 7, 9] [1, 1, 1, 1, 2, 2, 2, 2] := by decide +kernel
example : interpEnvelope endsInterp .lower 1 false (Sig.smul (-1) [0, 1, 0, 2, 0, 1, 1, 0]) =
    .ok [-3, -3, -3, -3, -3, -3, -3, -3] [-5, -3, -1, 1, 3, 5, 7, 9] [-1, -1, -1, -1, -2, -2, -2, -2] := by decide +kernel

end C02
