/-
  C02 — sifting commutes with rescaling, sign flip and time reversal.
  Property theorems only (helper lemmas: Proofs/Lemmas/Equivariance*.lean).

  PHASE 1: the extrema / envelope layer (`EmdModel.Extrema`: `findPeaks`, `parabolic`, `paddedExtrema`,
  `interpEnvelope I`), for every signal of every length, every pad width, every mode, and every
  interpolant `I` meeting the stated oracle contract.  Exact in ℚ, all by induction over the loops.

  vocabulary (Proofs/Lemmas/EquivarianceScale.lean, …Reverse.lean)
    `Sig.smul c x`        the signal `c • x`
    `Mode.swap`           peaks ↔ troughs (abs_peaks fixed);  `m.under c` = `m` for `c > 0`, `m.swap` otherwise
    `Mode.factor c m`     `c`, and `|c|` for abs_peaks
    `PadResult.smul c`    magnitudes times `c`, locations unchanged;  `EnvResult.smul c` also scales the envelope
    `mirror n l`          the locations `n-1-v`, listed in increasing order again
    `PadResult.mirror n`  locations mirrored, magnitudes reversed;  `EnvResult.mirror n` also reverses the envelope
    `I.Homogeneous`       oracle contract: `I.eval locs (c • mags) t = c * I.eval locs mags t`  (c ≠ 0, both signs)
    `I.Reversible`        oracle contract: `I.eval (mirror n locs) mags.reverse (n-1-t) = I.eval locs mags t`

  PHASE 2: the sift layer (`EmdModel.Sift`: `sdStop`, `rillingStop`, `getNextImf`, `sift`; `EmdModel.Mask`: `maskSift`),
  for every envelope / energy / extraction oracle meeting the stated equivariance contract, and instantiated with
  the Extrema-model envelopes (`Sift.extEnv I w parab`) through the phase-1 theorems.

  vocabulary (Proofs/Lemmas/EquivarianceSift.lean, …SiftRev.lean, …Mask.lean)
    `Sift.envSmul c e`    both envelopes times `c`; for `c < 0` upper and lower trade places
    `Sift.EnvSmul c E E'` `E' k (c • h) = envSmul c (E k h)`            (the code: `E' = E`)
    `Sift.EnergySmul c D D'`  `D' (c • a) (c • b) = D a b`              (energy in dB is a ratio)
    `Sift.EnvRev E E'`, `Sift.EnergyRev D D'`, `Sift.EnvLen E`          the same for time reversal
    `ImfResult.smul`, `.rev`   the returned component scaled / reversed, flag unchanged, error ↦ error
    `Sift.extEnv I w parab`    upper / lower envelope of `Extrema.interpEnvelope` as the oracle of `getNextImf`
    `Mask.XSmul c X X'`        `X' (c • y) = (c • (X y).1, (X y).2)`;  `Mask.StdAbsHom c std`: `std (c • y) = |c| * std y`
    `Mask.ShiftClosed unit p`  mask `i + p/2` is the negated mask `i` (phase set closed under +π; needs `p` even)
    `Mask.scaleCfg c cfg`      `sift_thresh` times `|c|`, everything else unchanged
-/
import Proofs.Lemmas.EquivarianceSiftRev
import Proofs.Lemmas.EquivarianceMask
import Proofs.Lemmas.ComposeGniEquiv

namespace C02
open Extrema

/-! ## 1. Extrema detection -/

/-- Rescaling by a positive constant does not move any extremum. -/
theorem findPeaks_smul_pos (c : Rat) (hc : 0 < c) (x : Sig) :
    findPeaks (Sig.smul c x) = findPeaks x ∧ findTroughs (Sig.smul c x) = findTroughs x := by
  refine ⟨findPeaks_smul_pos' c hc x, ?_⟩
  unfold findTroughs
  rw [neg_smul_comm, findPeaks_smul_pos' c hc]

/-- Rescaling by a negative constant (in particular the sign flip `c = -1`) exchanges peaks and troughs. -/
theorem findPeaks_smul_neg (c : Rat) (hc : c < 0) (x : Sig) :
    findPeaks (Sig.smul c x) = findTroughs x ∧ findTroughs (Sig.smul c x) = findPeaks x :=
  findPeaks_smul_neg' c hc x

/-- Time reversal mirrors the peaks: they are the indices `n-1-i`, in reversed order. -/
theorem findPeaks_reverse (x : Sig) :
    findPeaks x.reverse = ((findPeaks x).map fun i => x.length - 1 - i).reverse ∧
    findTroughs x.reverse = ((findTroughs x).map fun i => x.length - 1 - i).reverse := by
  refine ⟨findPeaks_reverse' x, ?_⟩
  unfold findTroughs
  rw [neg_reverse, findPeaks_reverse', neg_length]

/-! ## 2. Parabolic refinement: the vertex location is scale-free, the vertex height scales -/

theorem parabolic_smul (c : Rat) (hc : c ≠ 0) (y0 y1 y2 : Rat) :
    parabolic (c * y0) (c * y1) (c * y2) = ((parabolic y0 y1 y2).1, c * (parabolic y0 y1 y2).2) :=
  parabolic_smul' c hc y0 y1 y2

/-! ## 3. `get_padded_extrema` under rescaling (with and without parabolic refinement) -/

/-- `c > 0`: every mode returns the same locations and `c` times the magnitudes
    (also `None` ↔ `None`; for abs_peaks `|c| = c`). -/
theorem paddedExtrema_smul_pos (c : Rat) (hc : 0 < c) (w : Nat) (m : Mode) (parab : Bool) (x : Sig) :
    paddedExtrema w m parab (Sig.smul c x) = (paddedExtrema w m parab x).smul c :=
  paddedExtrema_of_extrema w m m parab x _ c (smul_length c x) (extrema_smul_pos m parab c hc x)

/-- `c < 0`: the 'peaks' mode of `c • x` returns the 'troughs' mode of `x` scaled by `c` and vice versa;
    the 'abs_peaks' mode is scaled by `|c|`. -/
theorem paddedExtrema_smul_neg (c : Rat) (hc : c < 0) (w : Nat) (parab : Bool) (x : Sig) :
    paddedExtrema w .peaks parab (Sig.smul c x) = (paddedExtrema w .troughs parab x).smul c ∧
    paddedExtrema w .troughs parab (Sig.smul c x) = (paddedExtrema w .peaks parab x).smul c ∧
    paddedExtrema w .absPeaks parab (Sig.smul c x) = (paddedExtrema w .absPeaks parab x).smul (Rat.abs' c) :=
  ⟨paddedExtrema_of_extrema w .peaks .troughs parab x _ c (smul_length c x) (extrema_smul_neg .peaks parab c hc x),
   paddedExtrema_of_extrema w .troughs .peaks parab x _ c (smul_length c x) (extrema_smul_neg .troughs parab c hc x),
   paddedExtrema_of_extrema w .absPeaks .absPeaks parab x _ _ (smul_length c x) (extrema_smul_neg .absPeaks parab c hc x)⟩

/-- Both signs at once: locations unchanged, magnitudes scaled by `c` (`|c|` for abs_peaks), the kind of
    extremum swapped when `c < 0`. -/
theorem paddedExtrema_smul (c : Rat) (hc : c ≠ 0) (w : Nat) (m : Mode) (parab : Bool) (x : Sig) :
    paddedExtrema w m parab (Sig.smul c x) = (paddedExtrema w (m.under c) parab x).smul (m.factor c) := by
  rcases lt_or_gt_of_ne hc with h | h
  · have : ¬ 0 < c := not_lt.mpr (le_of_lt h)
    simp only [Mode.under, this, if_false]
    exact paddedExtrema_of_extrema w m m.swap parab x _ _ (smul_length c x) (extrema_smul_neg m parab c h x)
  · simp only [Mode.under, h, if_true]
    have hf : m.factor c = c := by cases m <;> simp [Mode.factor, abs'_of_pos c h]
    rw [hf]; exact paddedExtrema_smul_pos c h w m parab x

/-! ## 4. `get_padded_extrema` under time reversal (integer locations) -/

/-- The loop test `max(locs) < n or min(locs) >= 0` is symmetric under mirroring when the
    (strictly ordered) locations are integers: a last location `≥ n` mirrors to a first location `≤ -1`. -/
theorem loopTest_mirror_symmetric (n : Nat) (l : List Rat) (hne : l ≠ []) (hs : l.Pairwise (· < ·)) (hi : IntLocs l) :
    needsMore n (mirror n l) = needsMore n l := needsMore_mirror n l hne hs hi

/-- …and it is not symmetric on fractional locations (why the reversal theorems below are stated for
    unrefined extrema): a first location in `(-1, 0)` ends the loop, its mirror image in `(n-1, n)` does not. -/
theorem loopTest_fractional_asymmetric_witness :
    ∃ (n : Nat) (l : List Rat), l.Pairwise (· < ·) ∧ needsMore n l = false ∧ needsMore n (mirror n l) = true :=
  ⟨2, [-(1 / 2), 5 / 2], by simp only [List.pairwise_cons, List.mem_singleton, forall_eq, List.not_mem_nil,
      false_imp_iff, implies_true, List.Pairwise.nil, and_true]; decide +kernel, by decide +kernel, by decide +kernel⟩

/-- One chunk of odd-reflection padding commutes with mirroring. -/
theorem padOdd_mirror_symmetric (n w : Nat) (l : List Rat) (hl : 2 ≤ l.length) :
    padOdd w (mirror n l) = mirror n (padOdd w l) := padOdd_mirror n w l hl

/-- Without refinement, the padded extrema of the reversed signal are the mirror image of the padded extrema:
    locations `n-1-v` in increasing order, magnitudes reversed — every mode, every pad width, every length
    (`None` ↔ `None`). -/
theorem paddedExtrema_reverse (w : Nat) (m : Mode) (x : Sig) :
    paddedExtrema w m false x.reverse = (paddedExtrema w m false x).mirror x.length :=
  paddedExtrema_reverse' w m x

/-- With parabolic refinement the statement is false (and not demanded by the property, whose quantifier ranges over
    padding widths, not over the refinement flag): for `x = [0,2,1,3,2]` the refined peaks sit at `7/6, 19/6`; one
    round of padding gives `-5/6 … 31/6`, which ends the loop (`31/6 ≥ 5`, `-5/6 < 0`), whereas the mirror image
    `-7/6 … 29/6` of the reversed signal does not (`29/6 < 5`) and is padded once more.
    The real `get_padded_extrema` does the same on this input (corpus case of stream `extrema`). -/
theorem paddedExtrema_reverse_parabolic_witness :
    ∃ (x : Sig) (w : Nat),
      paddedExtrema w .peaks true x = .ok [-5/6, 7/6, 19/6, 31/6] [49/24, 49/24, 73/24, 73/24] ∧
      paddedExtrema w .peaks true x.reverse =
        .ok [-19/6, -7/6, 5/6, 17/6, 29/6, 41/6] [73/24, 73/24, 73/24, 49/24, 49/24, 49/24] ∧
      paddedExtrema w .peaks true x.reverse ≠ (paddedExtrema w .peaks true x).mirror x.length :=
  ⟨[0, 2, 1, 3, 2], 1, by decide +kernel, by decide +kernel, by decide +kernel⟩

/-! ## 5. `interp_envelope` -/

/-- `c > 0`, homogeneous interpolant: every envelope of `c • x` is `c` times that of `x`
    (with or without refinement; `None`, the length error — all outcomes correspond). -/
theorem interpEnvelope_smul_pos (I : Interp) (hI : I.Homogeneous) (c : Rat) (hc : 0 < c) (em : EMode) (w : Nat)
    (parab : Bool) (x : Sig) :
    interpEnvelope I em w parab (Sig.smul c x) = (interpEnvelope I em w parab x).smul c :=
  interpEnvelope_of_padded I hI em em w parab x _ c (ne_of_gt hc) (smul_length c x)
    (paddedExtrema_smul_pos c hc w em.toMode parab x)

/-- `c < 0`: the upper envelope of `c • x` is `c` times the lower envelope of `x` and vice versa;
    the combined-mode envelope scales by `|c|`. -/
theorem interpEnvelope_smul_neg (I : Interp) (hI : I.Homogeneous) (c : Rat) (hc : c < 0) (w : Nat) (parab : Bool) (x : Sig) :
    interpEnvelope I .upper w parab (Sig.smul c x) = (interpEnvelope I .lower w parab x).smul c ∧
    interpEnvelope I .lower w parab (Sig.smul c x) = (interpEnvelope I .upper w parab x).smul c ∧
    interpEnvelope I .combined w parab (Sig.smul c x) = (interpEnvelope I .combined w parab x).smul (Rat.abs' c) := by
  obtain ⟨h1, h2, h3⟩ := paddedExtrema_smul_neg c hc w parab x
  have hne : c ≠ 0 := ne_of_lt hc
  exact ⟨interpEnvelope_of_padded I hI .upper .lower w parab x _ c hne (smul_length c x) h1,
    interpEnvelope_of_padded I hI .lower .upper w parab x _ c hne (smul_length c x) h2,
    interpEnvelope_of_padded I hI .combined .combined w parab x _ _ (ne_of_gt (abs'_pos_of_ne c hne)) (smul_length c x) h3⟩

/-- Both signs at once. -/
theorem interpEnvelope_smul (I : Interp) (hI : I.Homogeneous) (c : Rat) (hc : c ≠ 0) (em : EMode) (w : Nat)
    (parab : Bool) (x : Sig) :
    interpEnvelope I em w parab (Sig.smul c x) = (interpEnvelope I (em.under c) w parab x).smul (em.factor c) := by
  apply interpEnvelope_of_padded I hI em (em.under c) w parab x _ _ (Mode.factor_ne_zero c hc _) (smul_length c x)
  have h := paddedExtrema_smul c hc w em.toMode parab x
  have e : (em.under c).toMode = em.toMode.under c := by
    unfold EMode.under Mode.under; split
    · rfl
    · exact EMode.swap_toMode em
  rw [e]; exact h

/-- Reversible interpolant, pad width ≥ 1, no refinement: the envelope of the reversed signal is the
    reversed envelope (built on the mirrored extrema). -/
theorem interpEnvelope_reverse (I : Interp) (hI : I.Reversible) (em : EMode) (w : Nat) (hw : 1 ≤ w) (x : Sig) :
    interpEnvelope I em w false x.reverse = (interpEnvelope I em w false x).mirror x.length :=
  interpEnvelope_reverse' I hI em w hw x

/-- What the sift uses: the local mean `(upper + lower)/2` of `c • x` is `c` times that of `x`, for either sign —
    for `c < 0` the two envelopes trade places, their mean does not care. -/
theorem envelope_mean_smul (I : Interp) (hI : I.Homogeneous) (c : Rat) (hc : c ≠ 0) (w : Nat) (parab : Bool) (x : Sig)
    (U L lu eu ll el : List Rat)
    (hU : interpEnvelope I .upper w parab x = .ok U lu eu) (hL : interpEnvelope I .lower w parab x = .ok L ll el) :
    ∃ U' L' lu' eu' ll' el', interpEnvelope I .upper w parab (Sig.smul c x) = .ok U' lu' eu' ∧
      interpEnvelope I .lower w parab (Sig.smul c x) = .ok L' ll' el' ∧
      Sig.mean2 U' L' = Sig.smul c (Sig.mean2 U L) := by
  have hmean : ∀ A B : List Rat, Sig.mean2 (Sig.smul c A) (Sig.smul c B) = Sig.smul c (Sig.mean2 A B) := by
    intro A
    induction A with
    | nil => intro B; simp [Sig.mean2, Sig.smul]
    | cons a A ih =>
      intro B
      cases B with
      | nil => simp [Sig.mean2, Sig.smul]
      | cons b B =>
        have := ih B
        simp only [Sig.mean2, Sig.smul, List.map_cons, List.zipWith_cons_cons, List.cons.injEq] at this ⊢
        exact ⟨by ring, this⟩
  have hcomm : ∀ A B : List Rat, Sig.mean2 A B = Sig.mean2 B A := by
    intro A
    induction A with
    | nil => intro B; cases B <;> simp [Sig.mean2]
    | cons a A ih =>
      intro B
      cases B with
      | nil => simp [Sig.mean2]
      | cons b B =>
        have := ih B
        simp only [Sig.mean2, List.zipWith_cons_cons, List.cons.injEq] at this ⊢
        exact ⟨by ring, this⟩
  rcases lt_or_gt_of_ne hc with h | h
  · obtain ⟨h1, h2, _⟩ := interpEnvelope_smul_neg I hI c h w parab x
    refine ⟨Sig.smul c L, Sig.smul c U, ll, Sig.smul c el, lu, Sig.smul c eu, ?_, ?_, ?_⟩
    · rw [h1, hL]; rfl
    · rw [h2, hU]; rfl
    · rw [hmean, hcomm]
  · refine ⟨Sig.smul c U, Sig.smul c L, lu, Sig.smul c eu, ll, Sig.smul c el, ?_, ?_, hmean U L⟩
    · rw [interpEnvelope_smul_pos I hI c h, hU]; rfl
    · rw [interpEnvelope_smul_pos I hI c h, hL]; rfl

/-! ## 6. The stopping rules are scale-free (exact in ℚ, any `c ≠ 0`) -/

/-- SD rule: `Σ(h − x1)² / Σh² < thr` takes the same value on `c • h`, `c • x1`. -/
theorem sdMetric_smul (c : Rat) (hc : c ≠ 0) (thr : Rat) (h x1 : Sig) :
    Sift.sdStop thr (Sig.smul c h) (Sig.smul c x1) = Sift.sdStop thr h x1 := Sift.sdStop_smul' c hc thr h x1

/-- Rilling rule: unchanged when both envelopes are scaled by `c`, also when they additionally trade places
    (which is what a negative `c` does). -/
theorem rillingStop_smul (c : Rat) (hc : c ≠ 0) (a b t : Rat) (U L : Sig) :
    Sift.rillingStop a b t (Sig.smul c U) (Sig.smul c L) = Sift.rillingStop a b t U L ∧
    Sift.rillingStop a b t (Sig.smul c L) (Sig.smul c U) = Sift.rillingStop a b t U L :=
  ⟨Sift.rillingStop_smul' c hc a b t U L, by rw [Sift.rillingStop_smul' c hc, Sift.rillingStop_swap]⟩

/-- Fixed rule: depends on the iteration count only, on no signal at all. -/
theorem fixedStop_indep (k m : Nat) (h x1 U L h' x1' U' L' : Sig) :
    Sift.stopTest .fixed k m h x1 U L = Sift.stopTest .fixed k m h' x1' U' L' := rfl

/-! ## 7. Single-IMF extraction -/

/-- `get_next_imf (c • x) = c • get_next_imf x` for every `c ≠ 0`, every stopping rule, step size and iteration limit:
    same exit (stopped / extrema vanished / convergence error), same iteration count, same continue flag —
    for every envelope oracle that is equivariant (`EnvSmul`) and every scale-free energy oracle. -/
theorem getNextImf_smul (c : Rat) (hc : c ≠ 0) (E E' : Nat → Sig → Sift.Env) (hE : Sift.EnvSmul c E E')
    (D D' : Sig → Sig → Rat) (hD : Sift.EnergySmul c D D') (o : Sift.ImfOpts) (x : Sig) :
    Sift.getNextImfIx E' D' o (Sig.smul c x) = (Sift.getNextImfIx E D o x).smul c ∧
    Sift.run E' o (Sig.smul c x) = (Sift.run E o x).smul c :=
  ⟨Sift.getNextImfIx_smul c hc E E' hE D D' hD o x, Sift.loop_smul c hc E E' hE o _ _ x⟩

/-- …in particular with the envelopes of the Extrema model (any pad width ≥ 1, with or without parabolic refinement),
    under the oracle contract `I.Homogeneous`.  `1 ≤ w` is the range in which `Sift.extEnv` represents the code:
    there `interp_envelope` never raises (`C05.interpEnvelope_never_raises`, `C01.pipeline_envelopes_faithful`); at
    `w = 0` the code rejects every oscillatory input (`C05.interpEnvelope_pad0_raises`) and `extEnv`, which maps a
    raising envelope to "no envelope", would describe a state the code never reaches. -/
theorem getNextImf_smul_envelope (I : Extrema.Interp) (hI : I.Homogeneous) (c : Rat) (hc : c ≠ 0) (w : Nat) (_hw : 1 ≤ w)
    (parab : Bool) (D : Sig → Sig → Rat) (hD : Sift.EnergySmul c D D) (o : Sift.ImfOpts) (x : Sig) :
    Sift.getNextImf (Sift.extEnv I w parab) D o (Sig.smul c x) = (Sift.getNextImf (Sift.extEnv I w parab) D o x).smul c :=
  Sift.getNextImfIx_smul c hc _ _ (Sift.extEnv_smul I hI c hc w parab) D D hD o x

/-- `get_next_imf (reversed x) = reversed get_next_imf x` for every oracle that commutes with reversal and returns
    envelopes of the length of its argument. -/
theorem getNextImf_reverse (E E' : Nat → Sig → Sift.Env) (hE : Sift.EnvRev E E') (hLen : Sift.EnvLen E)
    (D D' : Sig → Sig → Rat) (hD : Sift.EnergyRev D D') (o : Sift.ImfOpts) (x : Sig) :
    Sift.getNextImfIx E' D' o x.reverse = (Sift.getNextImfIx E D o x).rev :=
  Sift.getNextImfIx_reverse E E' hE hLen D D' hD o x

/-- …in particular with the unrefined Extrema-model envelopes, pad width ≥ 1, under `I.Reversible`. -/
theorem getNextImf_reverse_envelope (I : Extrema.Interp) (hI : I.Reversible) (w : Nat) (hw : 1 ≤ w)
    (D : Sig → Sig → Rat) (hD : Sift.EnergyRev D D) (o : Sift.ImfOpts) (x : Sig) :
    Sift.getNextImf (Sift.extEnv I w false) D o x.reverse = (Sift.getNextImf (Sift.extEnv I w false) D o x).rev :=
  Sift.getNextImfIx_reverse _ _ (Sift.extEnv_reverse I hI w hw) (Sift.extEnv_len I w false) D D hD o x

/-! ## 8. The classic sift -/

/-- `sift` with the threshold scaled by `|c|`: every column is multiplied by `c`, same number of columns, same exit.
    (The absolute `sift_thresh` is the one test in the code that is not scale-free.) -/
theorem sift_smul (c : Rat) (hc : c ≠ 0) (X X' : Sig → Option (Sig × Bool))
    (hX : ∀ p, X' (Sig.smul c p) = (X p).map fun r => (Sig.smul c r.1, r.2))
    (thr : Rat) (cap : Option Nat) (x : Sig) (fuel : Nat) :
    Sift.sift X' (Rat.abs' c * thr) cap (Sig.smul c x) fuel
      = ((Sift.sift X thr cap x fuel).1.map (Sig.smul c), (Sift.sift X thr cap x fuel).2) :=
  Sift.peelLoop_smul c hc (fun _ p => X p) (fun _ p => X' p) (fun _ p => hX p) thr cap x fuel [] x

/-- Corollary for the unscaled threshold: if no column of the base run has an abs-sum below `thr` or below `thr/|c|`
    (the threshold never fires in either run — the property's regime of order-one amplitudes), the same
    `sift_thresh` gives `sift (c • x) = c • sift x`. -/
theorem sift_smul_thr_silent (c : Rat) (hc : c ≠ 0) (X X' : Sig → Option (Sig × Bool))
    (hX : ∀ p, X' (Sig.smul c p) = (X p).map fun r => (Sig.smul c r.1, r.2))
    (thr : Rat) (cap : Option Nat) (x : Sig) (fuel : Nat)
    (hsilent : ∀ v ∈ (Sift.sift X thr cap x fuel).1, thr ≤ Sig.absSum v ∧ thr ≤ Rat.abs' c * Sig.absSum v) :
    Sift.sift X' thr cap (Sig.smul c x) fuel
      = ((Sift.sift X thr cap x fuel).1.map (Sig.smul c), (Sift.sift X thr cap x fuel).2) := by
  rw [← sift_smul c hc X X' hX thr cap x fuel]
  have hpos := abs'_pos_of_ne c hc
  apply Sift.peelLoop_thr_congr
  intro v hv
  have hscaled := sift_smul c hc X X' hX thr cap x fuel
  unfold Sift.sift Sift.siftIx Sift.siftLoop at hscaled hsilent
  rw [hscaled] at hv
  simp only [List.length_nil, List.drop_zero, List.mem_map] at hv
  obtain ⟨u, hu, rfl⟩ := hv
  obtain ⟨h1, h2⟩ := hsilent u hu
  rw [Sift.absSum_smul]
  have e1 : ¬ (Rat.abs' c * Sig.absSum u < Rat.abs' c * thr) := by
    intro h; exact absurd (lt_of_mul_lt_mul_left h (le_of_lt hpos)) (not_lt.mpr h1)
  have e2 : ¬ (Rat.abs' c * Sig.absSum u < thr) := not_lt.mpr h2
  simp [e1, e2]

/-- …with `get_next_imf` over the Extrema-model envelopes (pad width ≥ 1, see `getNextImf_smul_envelope`) as the
    extractor. -/
theorem sift_smul_envelope (I : Extrema.Interp) (hI : I.Homogeneous) (c : Rat) (hc : c ≠ 0) (w : Nat) (_hw : 1 ≤ w)
    (parab : Bool) (D : Sig → Sig → Rat) (hD : Sift.EnergySmul c D D) (o : Sift.ImfOpts) (thr : Rat) (cap : Option Nat) (x : Sig) (fuel : Nat) :
    Sift.sift (Sift.extractor (Sift.extEnv I w parab) D o) (Rat.abs' c * thr) cap (Sig.smul c x) fuel
      = ((Sift.sift (Sift.extractor (Sift.extEnv I w parab) D o) thr cap x fuel).1.map (Sig.smul c),
         (Sift.sift (Sift.extractor (Sift.extEnv I w parab) D o) thr cap x fuel).2) :=
  sift_smul c hc _ _ (fun p => Sift.extractorIx_smul c hc _ _ (Sift.extEnv_smul I hI c hc w parab) D D hD o p) thr cap x fuel

/-- `sift (reversed x)` is `sift x` with every column reversed (same threshold: the abs-sum does not see the direction
    of time), for every length-preserving extractor that commutes with reversal. -/
theorem sift_reverse (X X' : Sig → Option (Sig × Bool)) (x : Sig)
    (hX : ∀ p, p.length = x.length → X' p.reverse = (X p).map fun r => (r.1.reverse, r.2))
    (hLen : ∀ p v f, p.length = x.length → X p = some (v, f) → v.length = x.length)
    (thr : Rat) (cap : Option Nat) (fuel : Nat) :
    Sift.sift X' thr cap x.reverse fuel
      = ((Sift.sift X thr cap x fuel).1.map List.reverse, (Sift.sift X thr cap x fuel).2) :=
  Sift.peelLoop_reverse (fun _ p => X p) (fun _ p => X' p) x (fun _ p hp => hX p hp) (fun _ p v f hp h => hLen p v f hp h)
    thr cap fuel [] x rfl (by simp)

/-- …with `get_next_imf` over the unrefined Extrema-model envelopes (pad width ≥ 1) as the extractor. -/
theorem sift_reverse_envelope (I : Extrema.Interp) (hI : I.Reversible) (w : Nat) (hw : 1 ≤ w)
    (D : Sig → Sig → Rat) (hD : Sift.EnergyRev D D) (o : Sift.ImfOpts) (thr : Rat) (cap : Option Nat) (x : Sig) (fuel : Nat) :
    Sift.sift (Sift.extractor (Sift.extEnv I w false) D o) thr cap x.reverse fuel
      = ((Sift.sift (Sift.extractor (Sift.extEnv I w false) D o) thr cap x fuel).1.map List.reverse,
         (Sift.sift (Sift.extractor (Sift.extEnv I w false) D o) thr cap x fuel).2) := by
  apply sift_reverse
  · intro p _
    exact Sift.extractorIx_reverse _ _ (Sift.extEnv_reverse I hI w hw) (Sift.extEnv_len I w false) D D hD o p
  · intro p v f hp h
    unfold Sift.extractor Sift.extractorIx at h
    cases hg : Sift.getNextImfIx (fun _ => Sift.extEnv I w false) D o p with
    | imf v' f' =>
      rw [hg] at h
      simp only [Option.some.injEq, Prod.mk.injEq] at h
      rw [← h.1, Sift.imf_length _ (Sift.extEnv_len I w false) D o p v' f' hg, hp]
    | convergeError => rw [hg] at h; cases h

/-! ## 9. The masked sift with ratio amplitudes -/

/-- `c > 0`, amplitude mode `ratio_sig` or `ratio_imf`, any number of phases, any worker schedule: with the threshold
    scaled by `c`, `mask_sift (c • x)` returns `c` times every column and the same mask frequencies —
    given an equivariant single-IMF extraction and `std (c • y) = |c| · std y`. -/
theorem maskSift_ratio_smul_pos (c : Rat) (hc : 0 < c) (σ : Nat → Pool.Schedule) (nproc : Nat)
    (X X' : Sig → Sig × Bool) (hX : Mask.XSmul c X X') (unit : Rat → Nat → Nat → Sig) (std : Sig → Rat)
    (hstd : Mask.StdAbsHom c std) (cfg : Mask.Cfg) (hmode : cfg.mode ≠ .abs) (hσ : ∀ k, (σ k).Valid cfg.p nproc)
    (src : Mask.FreqSrc) (cap : Nat) (x : Sig) :
    Mask.maskSift σ X' unit std (Mask.scaleCfg c cfg) src cap (Sig.smul c x)
      = (Mask.maskSift σ X unit std cfg src cap x).map fun r => (r.1.map (Sig.smul c), r.2) := by
  unfold Mask.maskSift
  dsimp only
  rw [Mask.maskSiftLoop_sched σ nproc X' unit std (Mask.scaleCfg c cfg) _ _ hσ,
    Mask.maskSiftLoop_sched σ nproc X unit std cfg _ _ hσ]
  have h := Mask.maskSiftLoop_smul c (ne_of_gt hc) X X' hX unit std hstd cfg hmode id (by simp)
    (fun f A i _ => Mask.layerMask_pos c hc unit f A cfg.p i) (Mask.maskFreqs src cap).2 x (Mask.maskFreqs src cap).1 0 []
  simp only [List.map_nil, Mask.scaleCfg_p] at h ⊢
  rw [h]
  cases Mask.maskSiftLoop (fun _ => Pool.Schedule.roundRobin cfg.p 1) X unit std cfg (Mask.maskFreqs src cap).2 x 0 []
    (Mask.maskFreqs src cap).1 <;> rfl

/-- `c < 0`: the same law when the number of phases is even and the mask table is closed under the half-turn
    (mask `i + p/2` = −mask `i`, as for `cos(2πft + 2πi/p)`): the masked signals of `c • x` are `c` times the masked
    signals of `x` in a permuted order, and the phase average does not see the order.
    (For odd `nphases` the phase set is not closed under +π and the law is false of the masking rule itself.) -/
theorem maskSift_ratio_smul_neg (c : Rat) (hc : c < 0) (σ : Nat → Pool.Schedule) (nproc : Nat)
    (X X' : Sig → Sig × Bool) (hX : Mask.XSmul c X X') (unit : Rat → Nat → Nat → Sig) (std : Sig → Rat)
    (hstd : Mask.StdAbsHom c std) (cfg : Mask.Cfg) (hmode : cfg.mode ≠ .abs) (hσ : ∀ k, (σ k).Valid cfg.p nproc)
    (heven : cfg.p % 2 = 0) (hu : Mask.ShiftClosed unit cfg.p)
    (src : Mask.FreqSrc) (cap : Nat) (x : Sig) :
    Mask.maskSift σ X' unit std (Mask.scaleCfg c cfg) src cap (Sig.smul c x)
      = (Mask.maskSift σ X unit std cfg src cap x).map fun r => (r.1.map (Sig.smul c), r.2) := by
  unfold Mask.maskSift
  dsimp only
  rw [Mask.maskSiftLoop_sched σ nproc X' unit std (Mask.scaleCfg c cfg) _ _ hσ,
    Mask.maskSiftLoop_sched σ nproc X unit std cfg _ _ hσ]
  have hperm : ((List.range cfg.p).map fun i => (i + cfg.p / 2) % cfg.p).Perm (List.range cfg.p) := by
    have hp : cfg.p = cfg.p / 2 + cfg.p / 2 := by omega
    have := Mask.shift_perm (cfg.p / 2)
    rw [← hp] at this
    exact this
  have h := Mask.maskSiftLoop_smul c (ne_of_lt hc) X X' hX unit std hstd cfg hmode (fun i => (i + cfg.p / 2) % cfg.p) hperm
    (fun f A i hi => Mask.layerMask_neg c hc unit cfg.p hu f A i hi) (Mask.maskFreqs src cap).2 x (Mask.maskFreqs src cap).1 0 []
  simp only [List.map_nil, Mask.scaleCfg_p] at h ⊢
  rw [h]
  cases Mask.maskSiftLoop (fun _ => Pool.Schedule.roundRobin cfg.p 1) X unit std cfg (Mask.maskFreqs src cap).2 x 0 []
    (Mask.maskFreqs src cap).1 <;> rfl

/-- `c < 0` with the documented waveform (`Mask.unitOf cosTurn n`: sample `t` of unit mask `i` is `cosTurn (f·t + i/p)`,
    C07.mask_phase_grid): the half-turn closure is not a hypothesis on a mask table any more — it follows
    (`Mask.unitOf_shiftClosed`) from the one oracle fact `cos(2π(x + 1/2)) = −cos(2πx)` and the even number of phases. -/
theorem maskSift_ratio_smul_neg_cos (c : Rat) (hc : c < 0) (σ : Nat → Pool.Schedule) (nproc : Nat)
    (X X' : Sig → Sig × Bool) (hX : Mask.XSmul c X X') (cosTurn : Rat → Rat)
    (hcos : ∀ x, cosTurn (x + 1 / 2) = - cosTurn x) (n : Nat) (std : Sig → Rat)
    (hstd : Mask.StdAbsHom c std) (cfg : Mask.Cfg) (hmode : cfg.mode ≠ .abs) (hσ : ∀ k, (σ k).Valid cfg.p nproc)
    (heven : cfg.p % 2 = 0) (src : Mask.FreqSrc) (cap : Nat) (x : Sig) :
    Mask.maskSift σ X' (Mask.unitOf cosTurn n) std (Mask.scaleCfg c cfg) src cap (Sig.smul c x)
      = (Mask.maskSift σ X (Mask.unitOf cosTurn n) std cfg src cap x).map fun r => (r.1.map (Sig.smul c), r.2) :=
  maskSift_ratio_smul_neg c hc σ nproc X X' hX _ std hstd cfg hmode hσ heven
    (Mask.unitOf_shiftClosed cosTurn hcos n cfg.p heven) src cap x

/-! ## Non-vacuity: the hypotheses are met on concrete, non-trivial inputs -/

/-- an interpolant meeting both oracle contracts: the sum of the first and the last magnitude -/
def endsInterp : Interp := { eval := fun _ mags _ => mags.head?.getD 0 + mags.getLast?.getD 0 }

example : endsInterp.Homogeneous := by
  intro c locs mags t _ _ _
  cases mags with
  | nil => simp [endsInterp, Sig.smul]
  | cons a m =>
    have h4 : (a :: m).getLast? = some ((a :: m).getLast (by simp)) := List.getLast?_eq_some_getLast (by simp)
    simp only [endsInterp, Sig.smul, List.map_cons, List.head?_cons, Option.getD_some]
    rw [← List.map_cons (f := (c * ·)), List.getLast?_map, h4]
    simp only [Option.map_some, Option.getD_some]
    ring

example : endsInterp.Reversible := by
  intro n locs mags t _ _
  simp only [endsInterp, List.head?_reverse, List.getLast?_reverse]
  ring

-- sign flip and rescaling: the peaks of -2•x are the troughs of x, magnitudes times -2
example : findPeaks (Sig.smul (-2) [0, 1, 0, 2, 0, 1, 1, 0]) = [2, 4] := by decide +kernel
example : findTroughs [0, 1, 0, 2, 0, 1, 1, 0] = [2, 4] := by decide +kernel
example : paddedExtrema 2 .peaks false (Sig.smul (-2) [0, 1, -1, 2, 0, 1, 1, 0]) =
    .ok [-2, 0, 2, 4, 6, 8] [2, 2, 2, 0, 0, 0] := by decide +kernel
example : paddedExtrema 2 .troughs false [0, 1, -1, 2, 0, 1, 1, 0] =
    .ok [-2, 0, 2, 4, 6, 8] [-1, -1, -1, 0, 0, 0] := by decide +kernel
-- refinement: locations unchanged under scaling by -3, heights scaled
example : paddedExtrema 1 .troughs true (Sig.smul (-3) [0, 3, 1, 2, 1/2]) =
    .ok [-5/2, -7/10, 11/10, 29/10, 47/10, 13/2] [-363/40, -363/40, -363/40, -483/80, -483/80, -483/80] := by decide +kernel
-- time reversal of an asymmetric signal: peaks 1, 3 (n = 8) mirror to 4, 6; the plateau 5,6 ↦ 1,2 stays no peak
example : findPeaks [0, 1, 0, 2, 0, 1, 1, 0] = [1, 3] := by decide +kernel
example : findPeaks [0, 1, 0, 2, 0, 1, 1, 0].reverse = [4, 6] := by decide +kernel
example : paddedExtrema 1 .peaks false [0, 1, 0, 2, 0, 1, 1, 0] = .ok [-5, -3, -1, 1, 3, 5, 7, 9] [1, 1, 1, 1, 2, 2, 2, 2] := by
  decide +kernel
example : paddedExtrema 1 .peaks false [0, 1, 0, 2, 0, 1, 1, 0].reverse = .ok [-2, 0, 2, 4, 6, 8, 10, 12] [2, 2, 2, 2, 1, 1, 1, 1] := by
  decide +kernel
-- envelopes exist on both sides of the equations
example : interpEnvelope endsInterp .upper 1 false [0, 1, 0, 2, 0, 1, 1, 0] =
    .ok [3, 3, 3, 3, 3, 3, 3, 3] [-5, -3, -1, 1, 3, 5, 7, 9] [1, 1, 1, 1, 2, 2, 2, 2] := by decide +kernel
example : interpEnvelope endsInterp .lower 1 false (Sig.smul (-1) [0, 1, 0, 2, 0, 1, 1, 0]) =
    .ok [-3, -3, -3, -3, -3, -3, -3, -3] [-5, -3, -1, 1, 3, 5, 7, 9] [-1, -1, -1, -1, -2, -2, -2, -2] := by decide +kernel

/-! ### phase 2: the oracle contracts of the sift layer are satisfiable -/

theorem endsInterp_homogeneous : endsInterp.Homogeneous := by
  intro c locs mags t _ _ _
  cases mags with
  | nil => simp [endsInterp, Sig.smul]
  | cons a m =>
    have h4 : (a :: m).getLast? = some ((a :: m).getLast (by simp)) := List.getLast?_eq_some_getLast (by simp)
    simp only [endsInterp, Sig.smul, List.map_cons, List.head?_cons, Option.getD_some]
    rw [← List.map_cons (f := (c * ·)), List.getLast?_map, h4]
    simp only [Option.map_some, Option.getD_some]
    ring

-- the Extrema-model envelopes are an equivariant oracle of `getNextImf` (both signs)
example : Sift.EnvSmul (-3) (fun _ => Sift.extEnv endsInterp 2 true) (fun _ => Sift.extEnv endsInterp 2 true) :=
  Sift.extEnv_smul endsInterp endsInterp_homogeneous (-3) (by decide +kernel) 2 true

/-- an energy oracle that is a ratio of energies -/
def ratioEnergy : Sig → Sig → Rat := fun a b => Sig.sumSq a / Sig.sumSq b

example (c : Rat) (hc : c ≠ 0) : Sift.EnergySmul c ratioEnergy ratioEnergy := by
  intro a b
  simp only [ratioEnergy, Sift.sumSq_smul]
  have : c * c ≠ 0 := mul_ne_zero hc hc
  by_cases hb : Sig.sumSq b = 0
  · simp [hb]
  · field_simp

example : Sift.EnergyRev ratioEnergy ratioEnergy := by
  intro a b; simp only [ratioEnergy, Sift.sumSq_reverse]

-- a concrete extraction over the Extrema-model envelopes (one mean removal), and the same on -2 • x
example : Sift.getNextImf (Sift.extEnv endsInterp 1 false) ratioEnergy
    { stop := .fixed, step := 1, maxIters := 1, energyThresh := none } [0, 1, -1, 2, 0, 1, -2, 0]
    = .imf [1/2, 3/2, -1/2, 5/2, 1/2, 3/2, -3/2, 1/2] true := by decide +kernel
example : Sift.getNextImf (Sift.extEnv endsInterp 1 false) ratioEnergy
    { stop := .fixed, step := 1, maxIters := 1, energyThresh := none } (Sig.smul (-2) [0, 1, -1, 2, 0, 1, -2, 0])
    = .imf [-1, -3, 1, -5, -1, -3, 3, -1] true := by decide +kernel

-- mask layer: an equivariant extractor, an absolutely homogeneous deviation, a two-phase mask table closed under +π
example (c : Rat) : Mask.XSmul c (fun y => (y, true)) (fun y => (y, true)) := fun _ => rfl
example (c : Rat) : Mask.StdAbsHom c Sig.absSum := fun y => Sift.absSum_smul c y
example : Mask.ShiftClosed (fun _ _ i => if i % 2 = 0 then [1, -1, 1] else [-1, 1, -1]) 2 := by
  intro f i hi
  have : i = 0 ∨ i = 1 := by omega
  rcases this with rfl | rfl <;> simp [Sig.neg]

/-! ## 10. The whole masked pipeline (composition of §3, §7 and §9 with the C07 / C04 models)

  The extraction oracle `X` of §9 is instantiated with `get_next_imf` of the Sift model over the envelopes of
  the Extrema model (`ComposeGni.gniX (Sift.extEnv I w parab) D o`): the contract `Mask.XSmul` is then a
  theorem (`ComposeGni.gniX_XSmul`, from §7), and only the interpolant, the energy oracle and `np.std` remain
  abstract — the model of get_padded_extrema → interp_envelope → get_next_imf → get_next_imf_mask → mask_sift. -/

/-- `mask_sift (c • x) = c • mask_sift x` for the composed pipeline, any `c ≠ 0` (ratio amplitude modes, threshold
    scaled by `|c|`; for `c < 0` an even number of phases and a mask table closed under the half turn; pad width ≥ 1,
    the range in which `Sift.extEnv` represents the code, see `getNextImf_smul_envelope`). -/
theorem maskSift_pipeline_smul (I : Extrema.Interp) (hI : I.Homogeneous) (c : Rat) (hc : c ≠ 0) (w : Nat) (_hw : 1 ≤ w)
    (parab : Bool)
    (D : Sig → Sig → Rat) (hD : Sift.EnergySmul c D D) (o : Sift.ImfOpts)
    (σ : Nat → Pool.Schedule) (nproc : Nat) (unit : Rat → Nat → Nat → Sig) (std : Sig → Rat)
    (hstd : Mask.StdAbsHom c std) (cfg : Mask.Cfg) (hmode : cfg.mode ≠ .abs) (hσ : ∀ k, (σ k).Valid cfg.p nproc)
    (hneg : c < 0 → cfg.p % 2 = 0 ∧ Mask.ShiftClosed unit cfg.p)
    (src : Mask.FreqSrc) (cap : Nat) (x : Sig) :
    Mask.maskSift σ (ComposeGni.gniX (Sift.extEnv I w parab) D o) unit std (Mask.scaleCfg c cfg) src cap (Sig.smul c x)
      = (Mask.maskSift σ (ComposeGni.gniX (Sift.extEnv I w parab) D o) unit std cfg src cap x).map
          fun r => (r.1.map (Sig.smul c), r.2) := by
  have hX : Mask.XSmul c (ComposeGni.gniX (Sift.extEnv I w parab) D o) (ComposeGni.gniX (Sift.extEnv I w parab) D o) :=
    ComposeGni.gniX_XSmul c hc _ _ (Sift.extEnv_smul I hI c hc w parab) D D hD o
  rcases lt_or_gt_of_ne hc with hlt | hgt
  · obtain ⟨heven, hu⟩ := hneg hlt
    exact maskSift_ratio_smul_neg c hlt σ nproc _ _ hX unit std hstd cfg hmode hσ heven hu src cap x
  · exact maskSift_ratio_smul_pos c hgt σ nproc _ _ hX unit std hstd cfg hmode hσ src cap x

end C02
