/-
  C09 — instantaneous phase, frequency and amplitude are consistent and accurate.
  Property theorems only (helper lemmas: Proofs/Lemmas/Phase*.lean).

  All statements are about the executable model `EmdModel.Phase`, in exact rational
  arithmetic, for every input, every length, every sample rate, every value of the float
  constants and every analytic-signal / envelope oracle meeting the stated hypotheses.

  PARTIAL (full property kept visible): "For a pure sinusoid of any in-band frequency,
  amplitude and starting phase the interior estimates recover that frequency, amplitude and
  phase within a small tolerance" is a statement about the numerical accuracy of the FFT
  Hilbert transform, pchip/spline envelopes and a 5-point median filter.  These are oracles
  of the model; that sub-claim is decided by the instance check of harness/props/c09.py only.
  Likewise `x % 2π` can return exactly `2π` in float64 for a tiny negative `x`
  (ulp-level); `wrap_range` below is the exact-arithmetic statement.
-/
import Proofs.Lemmas.Phase
import Proofs.Lemmas.PhaseUnwrap
import Proofs.Lemmas.PhaseNorm

namespace C09
open Phase

/-! ## phase range -/

/-- Wrapped phase lies in `[0, m)` for every modulus `m > 0` (in particular `m = 2π`). -/
theorem wrap_range (m x : Rat) (hm : 0 < m) : 0 ≤ wrap m x ∧ wrap m x < m :=
  ⟨wrap_nonneg hm x, wrap_lt hm x⟩

/-- Wrapping ignores whole periods. -/
theorem wrap_periodic (m x : Rat) (k : Int) (hm : 0 < m) : wrap m (x + k * m) = wrap m x :=
  wrap_add_int_mul (ne_of_gt hm) x k

/-- Specification of `wrap`: the unique `r ∈ [0, m)` with `x = r + k·m`, `k` an integer. -/
theorem wrap_spec (m x r : Rat) (hm : 0 < m) :
    wrap m x = r ↔ (0 ≤ r ∧ r < m ∧ ∃ k : Int, x = r + k * m) := by
  constructor
  · rintro rfl
    exact ⟨wrap_nonneg hm x, wrap_lt hm x, (x / m).floor, wrap_decomp m x⟩
  · rintro ⟨h0, h1, k, hx⟩
    exact wrap_unique k h0 h1 hx

/-- `wrap_phase(mode='-pi2pi')` lands in `[-h, m - h)`. -/
theorem wrapCentered_range (m h x : Rat) (hm : 0 < m) :
    -h ≤ wrapCentered m h x ∧ wrapCentered m h x < m - h := by
  unfold wrapCentered
  have a := wrap_nonneg hm (x + h)
  have b := wrap_lt hm (x + h)
  constructor <;> linarith

/-! ## shapes; frequency is the scaled derivative of the phase that is returned -/

/-- The three outputs of the frequency transform have the length of the input column,
    provided the analytic-signal oracle preserves length. -/
theorem ft_shapes (H : List Rat → List Rat × List Rat) (halfPi twoPi sr : Rat) (x : List Rat)
    (hU : (H x).1.length = x.length) (hA : (H x).2.length = x.length) :
    (frequencyTransform H halfPi twoPi sr x).1.length = x.length ∧
    (frequencyTransform H halfPi twoPi sr x).2.1.length = x.length ∧
    (frequencyTransform H halfPi twoPi sr x).2.2.length = x.length := by
  simp [frequencyTransform, hU, hA]

/-- With `(U, A) = H imf`: the returned phase is `wrap (U + π/2)`, the returned frequency is
    `sr/(2π) · gradient U` *of the same `U`* (the quarter-cycle offset does not reach the
    frequency), the returned amplitude is `A`; every phase sample is in `[0, 2π)`. -/
theorem freq_is_scaled_gradient (H : List Rat → List Rat × List Rat) (halfPi twoPi sr : Rat)
    (x : List Rat) (h2 : 2 ≤ (H x).1.length) (hm : 0 < twoPi) :
    let r := frequencyTransform H halfPi twoPi sr x
    r.1 = (H x).1.map (fun u => wrap twoPi (u + halfPi)) ∧
    r.2.1 = (gradient (H x).1).map (fun g => g / twoPi * sr) ∧
    r.2.2 = (H x).2 ∧
    ∀ p ∈ r.1, 0 ≤ p ∧ p < twoPi := by
  refine ⟨?_, ?_, rfl, ?_⟩
  · simp [frequencyTransform, List.map_map, Function.comp_def]
  · simp only [frequencyTransform, freqFromPhase]
    rw [gradient_add_const halfPi h2]
  · intro p hp
    simp only [frequencyTransform, List.map_map, List.mem_map] at hp
    obtain ⟨u, _, rfl⟩ := hp
    exact ⟨wrap_nonneg hm _, wrap_lt hm _⟩

/-- numpy's `unwrap` inverts `wrap` on a phase whose consecutive samples differ by less than
    half a period, up to the whole number `k` of periods removed from the first sample. -/
theorem unwrap_wrap (m : Rat) (hm : 0 < m) (U : List Rat) (hs : Slow (m / 2) U) :
    ∃ k : Int, unwrap m (U.map (wrap m)) = U.map (fun v => v - k * m) := by
  refine ⟨((U.headD 0) / m).floor, ?_⟩
  rw [unwrap_wrap_list hm U hs]
  apply List.map_congr_left
  intro v _
  have := wrap_decomp m (U.headD 0)
  linarith

/-- The property's own wording: wherever the phase moves by less than π per sample, the
    returned frequency is the sample-rate-scaled derivative of the *unwrapped returned phase*:
    `IF = sr/(2π) · gradient (np.unwrap IP)`. -/
theorem freq_is_gradient_of_unwrapped_output (H : List Rat → List Rat × List Rat)
    (halfPi twoPi sr : Rat) (x : List Rat) (h2 : 2 ≤ (H x).1.length) (hm : 0 < twoPi)
    (hs : Slow (twoPi / 2) (H x).1) :
    let r := frequencyTransform H halfPi twoPi sr x
    r.2.1 = freqFromPhase twoPi sr (unwrap twoPi r.1) := by
  simp only [frequencyTransform]
  have hs' := slow_add_const (twoPi / 2) halfPi _ hs
  rw [unwrap_wrap_list hm _ hs']
  unfold freqFromPhase
  generalize hP : List.map (fun u => u + halfPi) (H x).1 = P
  have hP2 : 2 ≤ P.length := by rw [← hP]; simpa using h2
  generalize P.headD 0 - wrap twoPi (P.headD 0) = c
  have : P.map (fun v => v - c) = P.map (fun v => v + -c) := by
    apply List.map_congr_left; intro v _; ring
  rw [this, gradient_add_const (-c) hP2]

/-! ## scale invariance -/

/-- If rescaling the IMF by `c` leaves the oracle's phase unchanged and scales its amplitude
    (validated on the real library for c > 0), then phase and frequency returned by the
    frequency transform are unchanged and the amplitude scales with `c`. -/
theorem ft_scale_invariant (H : List Rat → List Rat × List Rat) (halfPi twoPi sr c : Rat)
    (x : List Rat) (hH : H (x.map fun v => c * v) = ((H x).1, (H x).2.map fun a => c * a)) :
    let r := frequencyTransform H halfPi twoPi sr x
    frequencyTransform H halfPi twoPi sr (x.map fun v => c * v)
      = (r.1, r.2.1, r.2.2.map fun a => c * a) := by
  simp [frequencyTransform, hH]

/-- The oracle hypothesis of `ft_scale_invariant` for the `hilbert` branch follows from
    linearity of the Hilbert transform, scale invariance of `angle` and homogeneity of `abs`. -/
theorem hilbert_oracle_scale (O : Analytic) (c : Rat) (x : List Rat)
    (hlin : O.hilbert (x.map fun v => c * v) = (O.hilbert x).map fun z => (c * z.1, c * z.2))
    (hang : ∀ z, O.angle (c * z.1, c * z.2) = O.angle z)
    (habs : ∀ z, O.abs (c * z.1, c * z.2) = c * O.abs z) :
    O.hilbertH (x.map fun v => c * v) = ((O.hilbertH x).1, (O.hilbertH x).2.map fun a => c * a) := by
  simp [Analytic.hilbertH, hlin, List.map_map, Function.comp_def, hang, habs]

/-- … and for the `nht` branch from scale-freeness of the amplitude normalisation and
    homogeneity of the envelope. -/
theorem nht_oracle_scale (O : Analytic) (norm env : List Rat → List Rat) (c : Rat) (x : List Rat)
    (hnorm : norm (x.map fun v => c * v) = norm x)
    (henv : env (x.map fun v => c * v) = (env x).map fun a => c * a) :
    O.nhtH norm env (x.map fun v => c * v)
      = ((O.nhtH norm env x).1, (O.nhtH norm env x).2.map fun a => c * a) := by
  simp [Analytic.nhtH, hnorm, henv]

/-- … and for the `quad` branch likewise: the quadrature signal is built from the normalised
    IMF only. -/
theorem quad_oracle_scale (O : Analytic) (norm env sqrtT : List Rat → List Rat) (c : Rat) (x : List Rat)
    (hnorm : norm (x.map fun v => c * v) = norm x)
    (henv : env (x.map fun v => c * v) = (env x).map fun a => c * a) :
    O.quadH norm env sqrtT (x.map fun v => c * v)
      = ((O.quadH norm env sqrtT x).1, (O.quadH norm env sqrtT x).2.map fun a => c * a) := by
  simp [Analytic.quadH, hnorm, henv]

/-- Amplitude normalisation is scale free: with a homogeneous envelope oracle and at least
    one normalisation pass, `c • x` and `x` normalise to the same signal (the first division
    removes the factor; all later iterates coincide). -/
theorem amplitudeNormalise_scale_free (E : Nat → List Rat → Option (List Rat)) (thresh : Rat)
    (maxIters : Nat) (c : Rat) (x : List Rat) (hc : c ≠ 0) (hk : 1 ≤ maxIters)
    (env : List Rat) (hx : E 0 x = some env)
    (hcx : E 0 (x.map fun v => c * v) = some (env.map fun v => c * v)) :
    amplitudeNormalise E thresh maxIters (x.map fun v => c * v)
      = amplitudeNormalise E thresh maxIters x := by
  unfold amplitudeNormalise
  rw [hx, hcx]
  obtain ⟨n, rfl⟩ : ∃ n, maxIters = n + 1 := ⟨maxIters - 1, by omega⟩
  unfold anLoop
  simp only [zipWith_div_smul hc]

/-- Without an envelope (too few extrema) the signal is returned unchanged. -/
theorem amplitudeNormalise_no_envelope (E : Nat → List Rat → Option (List Rat)) (thresh : Rat)
    (maxIters : Nat) (x : List Rat) (hx : E 0 x = none) :
    amplitudeNormalise E thresh maxIters x = x := by
  simp [amplitudeNormalise, hx]

/-- Amplitude normalisation preserves length and the sign of every sample when the
    envelopes are positive and as long as their input. -/
theorem amplitudeNormalise_sign (E : Nat → List Rat → Option (List Rat)) (thresh : Rat)
    (maxIters : Nat) (x : List Rat)
    (hE : ∀ k y env, E k y = some env → env.length = y.length) (hp : PosEnv E) :
    (amplitudeNormalise E thresh maxIters x).length = x.length ∧
    ∀ i, 0 < getR (amplitudeNormalise E thresh maxIters x) i ↔ 0 < getR x i := by
  unfold amplitudeNormalise
  split
  · exact ⟨rfl, fun _ => Iff.rfl⟩
  · rename_i env he
    exact ⟨anLoop_length E thresh hE _ _ _ _ (hE _ _ _ he),
      anLoop_sign E thresh hE hp _ _ _ _ (hE _ _ _ he) (hp _ _ _ he)⟩

/-- The quadrature signal has unit modulus: with `s[i]² = 1 − nX[i]²` (the sqrt table),
    `nX[i]² + q[i]² = 1` at every sample, and `q` has the input's length. -/
theorem quad_unit_modulus (nX s q : List Rat) (hs : s.length = nX.length)
    (hq : quadImag? nX s = some q)
    (hsq : ∀ i, i < nX.length → getR s i * getR s i = 1 - getR nX i * getR nX i) :
    q.length = nX.length ∧
    ∀ i, i < nX.length → getR nX i * getR nX i + getR q i * getR q i = 1 := by
  unfold quadImag? at hq
  split at hq
  · cases hq
  · rename_i hn
    have hn2 : 2 ≤ nX.length := by omega
    have hml := quadMask_length hn2
    cases hq
    refine ⟨by simp [hs, hml], ?_⟩
    intro i hi
    have him : i < (quadMask nX).length := by omega
    have his : i < s.length := by omega
    have hv := quadMask_values nX _ (List.getElem_mem him)
    have : getR (List.zipWith (· * ·) s (quadMask nX)) i = getR s i * (quadMask nX)[i] := by
      simp [getR, his, him]
    rw [this]
    have h1 := hsq i hi
    rcases hv with h | h <;> rw [h] <;> linarith

/-! ## frequency → phase → frequency -/

/-- Converting a frequency profile to phase and back gives, at every interior sample
    `1 ≤ i ≤ n−2`, the mean of the profile at `i` and `i+1` (two-sample averaging of the
    central difference), for every start phase. -/
theorem roundtrip_interior (twoPi sr start : Rat) (htp : twoPi ≠ 0) (hsr : sr ≠ 0) (f : List Rat)
    (i : Nat) (h1 : 1 ≤ i) (h2 : i + 1 < f.length) :
    (freqFromPhase twoPi sr (phaseFromFreq twoPi sr start f))[i]?
      = some ((f[i]'(by omega) + f[i + 1]'h2) / 2) := by
  have hlen : i < (freqFromPhase twoPi sr (phaseFromFreq twoPi sr start f)).length := by simp; omega
  have := roundtrip_getR_interior twoPi sr start htp hsr h1 h2
  rw [getR_of_lt hlen, getR_of_lt (by omega), getR_of_lt h2] at this
  rw [List.getElem?_eq_getElem hlen, this]

/-- At the two ends the one-sided differences give `f[1]` at sample 0 and `f[n−1]` at sample `n−1`. -/
theorem roundtrip_edges (twoPi sr start : Rat) (htp : twoPi ≠ 0) (hsr : sr ≠ 0) (f : List Rat)
    (hn : 2 ≤ f.length) :
    (freqFromPhase twoPi sr (phaseFromFreq twoPi sr start f))[0]? = some (f[1]'(by omega)) ∧
    (freqFromPhase twoPi sr (phaseFromFreq twoPi sr start f))[f.length - 1]?
      = some (f[f.length - 1]'(by omega)) := by
  have hlen : (freqFromPhase twoPi sr (phaseFromFreq twoPi sr start f)).length = f.length := by simp
  constructor
  · have := roundtrip_getR_first twoPi sr start htp hsr hn
    rw [getR_of_lt (by omega), getR_of_lt (by omega)] at this
    rw [List.getElem?_eq_getElem (by omega), this]
  · have := roundtrip_getR_last twoPi sr start htp hsr (f := f) (i := f.length - 1) (by omega) (by omega)
    rw [getR_of_lt (by omega), getR_of_lt (by omega)] at this
    rw [List.getElem?_eq_getElem (by omega), this]

/-- Where the profile is locally constant the round trip is exact. -/
theorem roundtrip_locally_const (twoPi sr start : Rat) (htp : twoPi ≠ 0) (hsr : sr ≠ 0)
    (f : List Rat) (i : Nat) (h1 : 1 ≤ i) (h2 : i + 1 < f.length)
    (hc : f[i + 1]'h2 = f[i]'(by omega)) :
    (freqFromPhase twoPi sr (phaseFromFreq twoPi sr start f))[i]? = some (f[i]'(by omega)) := by
  rw [roundtrip_interior twoPi sr start htp hsr f i h1 h2, hc]
  congr 1; ring

/-- A constant profile is reproduced exactly at every sample, ends included. -/
theorem roundtrip_const (twoPi sr start c : Rat) (htp : twoPi ≠ 0) (hsr : sr ≠ 0) (n : Nat)
    (hn : 2 ≤ n) :
    freqFromPhase twoPi sr (phaseFromFreq twoPi sr start (List.replicate n c))
      = List.replicate n c := by
  apply List.ext_getElem?
  intro i
  by_cases hi : i < n
  · have hl : (List.replicate n c).length = n := by simp
    rw [List.getElem?_replicate, if_pos hi]
    rcases Nat.eq_zero_or_pos i with rfl | hpos
    · have := (roundtrip_edges twoPi sr start htp hsr (List.replicate n c) (by simpa using hn)).1
      rw [this]; simp
    · by_cases hlast : i + 1 = n
      · have hlen : i < (freqFromPhase twoPi sr (phaseFromFreq twoPi sr start (List.replicate n c))).length := by
          simp; omega
        have := roundtrip_getR_last twoPi sr start htp hsr (f := List.replicate n c) (i := i) hpos (by simpa using hlast)
        rw [getR_of_lt hlen, getR_of_lt (by simpa using hi)] at this
        rw [List.getElem?_eq_getElem hlen, this]; simp
      · rw [roundtrip_interior twoPi sr start htp hsr _ i hpos (by simp; omega)]
        simp
  · rw [List.getElem?_eq_none (by simp; omega), List.getElem?_eq_none (by simp; omega)]

/-! ## Non-vacuity: the hypotheses are satisfiable on concrete non-trivial inputs. -/

-- wrap on the two sides of zero and beyond one period (m = 6 stands in for 2π)
example : wrap 6 (-1) = 5 ∧ wrap 6 13 = 1 ∧ wrap 6 6 = 0 := by
  refine ⟨?_, ?_, ?_⟩
  · exact wrap_unique (-1) (by norm_num) (by norm_num) (by norm_num)
  · exact wrap_unique 2 (by norm_num) (by norm_num) (by norm_num)
  · exact wrap_unique 1 (by norm_num) (by norm_num) (by norm_num)

-- a slowly varying phase (all steps below 3 = m/2) satisfies the hypothesis of `unwrap_wrap`
example : Slow (6 / 2) [0, 2, 4, 13 / 2, 9, 8, 10] := by
  simp only [Slow, absR]
  norm_num

-- interior / edge indices exist: n = 4, i ∈ {1, 2}
example : (1 : Nat) ≤ 2 ∧ 2 + 1 < [(1 : Rat), 2, 4, 8].length := by decide

-- the scale hypothesis of `ft_scale_invariant` holds for a genuinely homogeneous oracle
-- (phase table fixed, amplitude proportional to the first sample)
example (c : Rat) (x : List Rat) :
    (fun y : List Rat => ([0, 1, 2], [y.headD 0])) (x.map fun v => c * v)
      = (((fun y : List Rat => ([0, 1, 2], [y.headD 0])) x).1,
         ((fun y : List Rat => ([0, 1, 2], [y.headD 0])) x).2.map fun a => c * a) := by
  cases x <;> simp

-- a homogeneous envelope oracle (every sample divided by the first one): the hypotheses of
-- `amplitudeNormalise_scale_free` hold for x = [2, -4, 6], c = 3, and the theorem applies
example :
    let E : Nat → List Rat → Option (List Rat) := fun _ y => some (y.map fun _ => y.headD 0)
    amplitudeNormalise E (1 / 10) 3 ([2, -4, 6].map fun v => 3 * v)
      = amplitudeNormalise E (1 / 10) 3 [2, -4, 6] := by
  intro E
  exact amplitudeNormalise_scale_free E (1 / 10) 3 3 [2, -4, 6] (by norm_num) (by norm_num)
    [2, 2, 2] (by simp [E]) (by simp [E])

-- the sqrt-table hypothesis of `quad_unit_modulus` on a 3-4-5 sampled half cycle
example : ∀ i, i < [(0 : Rat), 3 / 5, 1, 3 / 5].length →
    getR [(1 : Rat), 4 / 5, 0, 4 / 5] i * getR [(1 : Rat), 4 / 5, 0, 4 / 5] i
      = 1 - getR [(0 : Rat), 3 / 5, 1, 3 / 5] i * getR [(0 : Rat), 3 / 5, 1, 3 / 5] i := by
  intro i hi
  simp only [List.length_cons, List.length_nil] at hi
  have : i = 0 ∨ i = 1 ∨ i = 2 ∨ i = 3 := by omega
  rcases this with rfl | rfl | rfl | rfl <;> norm_num [getR]

end C09
