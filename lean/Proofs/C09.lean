/-
  C09 — instantaneous phase, frequency and amplitude are consistent and accurate.
  Property theorems only (helper lemmas: Proofs/Lemmas/Phase*.lean).

  All statements are about the executable model `EmdModel.Phase`, in exact rational
  arithmetic, for every input, every length, every sample rate, every value of the float
  constants and every analytic-signal / envelope oracle meeting the stated hypotheses.

  PARTIAL (full property kept visible): "For a pure sinusoid of any in-band frequency,
  amplitude and starting phase the interior estimates recover that frequency, amplitude and
  phase within a small tolerance" is a statement about the numerical accuracy of the FFT
  Hilbert transform, pchip/spline envelopes and a 5-point median filter.  These are oracles
  of the model; that sub-claim is decided by the instance check of harness/props/c09.py only.
  Likewise `x % 2π` can return exactly `2π` in float64 for a tiny negative `x`
  (ulp-level); `wrap_range` below is the exact-arithmetic statement.

  Amplitude samples are `Option Rat`, `none` standing for NaN: the `nht` / `quad` methods
  return an all-NaN amplitude column (no error) where the upper envelope does not exist.
-/
import Proofs.Lemmas.Phase
import Proofs.Lemmas.PhaseUnwrap
import Proofs.Lemmas.PhaseNorm
import Proofs.Lemmas.PhaseScale

namespace C09
open Phase

/-! ## phase range -/

/-- Wrapped phase lies in `[0, m)` for every modulus `m > 0` (in particular `m = 2π`). -/
theorem wrap_range (m x : Rat) (hm : 0 < m) : 0 ≤ wrap m x ∧ wrap m x < m :=
  ⟨wrap_nonneg hm x, wrap_lt hm x⟩

/-- Wrapping ignores whole periods. -/
theorem wrap_periodic (m x : Rat) (k : Int) (hm : 0 < m) : wrap m (x + k * m) = wrap m x :=
  wrap_add_int_mul (ne_of_gt hm) x k

/-- Specification of `wrap`: the unique `r ∈ [0, m)` with `x = r + k·m`, `k` an integer. -/
theorem wrap_spec (m x r : Rat) (hm : 0 < m) :
    wrap m x = r ↔ (0 ≤ r ∧ r < m ∧ ∃ k : Int, x = r + k * m) := by
  constructor
  · rintro rfl
    exact ⟨wrap_nonneg hm x, wrap_lt hm x, (x / m).floor, wrap_decomp m x⟩
  · rintro ⟨h0, h1, k, hx⟩
    exact wrap_unique k h0 h1 hx

/-- `wrap_phase(mode='-pi2pi')` lands in `[-h, m - h)`. -/
theorem wrapCentered_range (m h x : Rat) (hm : 0 < m) :
    -h ≤ wrapCentered m h x ∧ wrapCentered m h x < m - h := by
  unfold wrapCentered
  have a := wrap_nonneg hm (x + h)
  have b := wrap_lt hm (x + h)
  constructor <;> linarith

/-! ## shapes; frequency is the scaled derivative of the phase that is returned -/

/-- On a column of at least 2 samples the transform returns, and its three outputs have the
    length of the input column, provided the analytic-signal oracle preserves length. -/
theorem ft_shapes (H : List Rat → List Rat × List (Option Rat)) (halfPi twoPi sr : Rat) (x : List Rat)
    (h2 : 2 ≤ x.length)
    (hU : (H x).1.length = x.length) (hA : (H x).2.length = x.length) :
    ∃ r, frequencyTransform? H halfPi twoPi sr x = some r ∧
      r.1.length = x.length ∧ r.2.1.length = x.length ∧ r.2.2.length = x.length := by
  refine ⟨frequencyTransform H halfPi twoPi sr x, ?_, ?_⟩
  · simp [frequencyTransform?]; omega
  · simp [frequencyTransform, hU, hA]

/-- On fewer than 2 samples the transform raises (the implementation: `np.gradient` ValueError,
    `quadrature_transform` IndexError), whatever the oracle. -/
theorem ft_short_input_raises (H : List Rat → List Rat × List (Option Rat)) (halfPi twoPi sr : Rat)
    (x : List Rat) (h : x.length < 2) : frequencyTransform? H halfPi twoPi sr x = none := by
  simp [frequencyTransform?, h]

/-- ... and where it returns, it returns the value of `frequencyTransform` (about which all
    statements below are made). -/
theorem ft_some_iff (H : List Rat → List Rat × List (Option Rat)) (halfPi twoPi sr : Rat)
    (x : List Rat) (r : List Rat × List Rat × List (Option Rat)) :
    frequencyTransform? H halfPi twoPi sr x = some r ↔
      2 ≤ x.length ∧ r = frequencyTransform H halfPi twoPi sr x := by
  unfold frequencyTransform?
  split
  · simp; omega
  · simp only [Option.some.injEq]
    constructor
    · rintro rfl; exact ⟨by omega, rfl⟩
    · rintro ⟨_, rfl⟩; rfl

/-- With `(U, A) = H imf`: the returned phase is `wrap (U + π/2)`, the returned frequency is
    `sr/(2π) · gradient U` *of the same `U`* (the quarter-cycle offset does not reach the
    frequency), the returned amplitude is `A`; every phase sample is in `[0, 2π)`. -/
theorem freq_is_scaled_gradient (H : List Rat → List Rat × List (Option Rat)) (halfPi twoPi sr : Rat)
    (x : List Rat) (h2 : 2 ≤ (H x).1.length) (hm : 0 < twoPi) :
    let r := frequencyTransform H halfPi twoPi sr x
    r.1 = (H x).1.map (fun u => wrap twoPi (u + halfPi)) ∧
    r.2.1 = (gradient (H x).1).map (fun g => g / twoPi * sr) ∧
    r.2.2 = (H x).2 ∧
    ∀ p ∈ r.1, 0 ≤ p ∧ p < twoPi := by
  refine ⟨?_, ?_, rfl, ?_⟩
  · simp [frequencyTransform, List.map_map, Function.comp_def]
  · simp only [frequencyTransform, freqFromPhase]
    rw [gradient_add_const halfPi h2]
  · intro p hp
    simp only [frequencyTransform, List.map_map, List.mem_map] at hp
    obtain ⟨u, _, rfl⟩ := hp
    exact ⟨wrap_nonneg hm _, wrap_lt hm _⟩

/-- numpy's `unwrap` inverts `wrap` on a phase whose consecutive samples differ by less than
    half a period, up to the whole number `k` of periods removed from the first sample. -/
theorem unwrap_wrap (m : Rat) (hm : 0 < m) (U : List Rat) (hs : Slow (m / 2) U) :
    ∃ k : Int, unwrap m (U.map (wrap m)) = U.map (fun v => v - k * m) := by
  refine ⟨((U.headD 0) / m).floor, ?_⟩
  rw [unwrap_wrap_list hm U hs]
  apply List.map_congr_left
  intro v _
  have := wrap_decomp m (U.headD 0)
  linarith

/-- The property's own wording: wherever the phase moves by less than π per sample, the
    returned frequency is the sample-rate-scaled derivative of the *unwrapped returned phase*:
    `IF = sr/(2π) · gradient (np.unwrap IP)`. -/
theorem freq_is_gradient_of_unwrapped_output (H : List Rat → List Rat × List (Option Rat))
    (halfPi twoPi sr : Rat) (x : List Rat) (h2 : 2 ≤ (H x).1.length) (hm : 0 < twoPi)
    (hs : Slow (twoPi / 2) (H x).1) :
    let r := frequencyTransform H halfPi twoPi sr x
    r.2.1 = freqFromPhase twoPi sr (unwrap twoPi r.1) := by
  simp only [frequencyTransform]
  have hs' := slow_add_const (twoPi / 2) halfPi _ hs
  rw [unwrap_wrap_list hm _ hs']
  unfold freqFromPhase
  generalize hP : List.map (fun u => u + halfPi) (H x).1 = P
  have hP2 : 2 ≤ P.length := by rw [← hP]; simpa using h2
  generalize P.headD 0 - wrap twoPi (P.headD 0) = c
  have : P.map (fun v => v - c) = P.map (fun v => v + -c) := by
    apply List.map_congr_left; intro v _; ring
  rw [this, gradient_add_const (-c) hP2]

/-! ## scale invariance

  `smul c x = x.map (c * ·)`; `smulAmp c a` multiplies every amplitude sample by `c` (NaN stays NaN).
  The three theorems `ft_hilbert_scale`, `ft_nht_scale`, `ft_quad_scale` state the law
  `frequency_transform(c·x) = (phase, frequency, c·amplitude)` of the run on `x` for `c > 0`.
  Their only hypotheses on the library are contracts of single library functions, each evaluated
  on the real functions on every run (harness stream `library_assumptions`):
    hlin  scipy.signal.hilbert(c·x) = c·hilbert(x)
    hang  np.angle(c·z) = np.angle(z)          habs  np.abs(c·z) = c·np.abs(z)
    hEc   interp_envelope(c·x, 'combined') = c·interp_envelope(x, 'combined')   (same None-ness)
    hEu   interp_envelope(c·x, 'upper')    = c·interp_envelope(x, 'upper')      (same None-ness)
  All of them are contracts for `c > 0` only (`abs`, the angle and the combined envelope scale
  with `|c|` / flip for `c < 0`), hence `0 < c` is a hypothesis throughout.
  The reductions of the branch oracles are in Proofs/Lemmas/PhaseScale.lean. -/

/-- Amplitude normalisation is scale free: with a homogeneous envelope oracle and at least
    one normalisation pass, `c • x` and `x` normalise to the same signal (the first division
    removes the factor; all later iterates coincide). -/
theorem amplitudeNormalise_scale_free (E : Nat → List Rat → Option (List Rat)) (thresh : Rat)
    (maxIters : Nat) (c : Rat) (x : List Rat) (hc : 0 < c) (hk : 1 ≤ maxIters)
    (env : List Rat) (hx : E 0 x = some env)
    (hcx : E 0 (smul c x) = some (smul c env)) :
    amplitudeNormalise E thresh maxIters (smul c x)
      = amplitudeNormalise E thresh maxIters x := by
  unfold amplitudeNormalise
  rw [hx, hcx]
  obtain ⟨n, rfl⟩ : ∃ n, maxIters = n + 1 := ⟨maxIters - 1, by omega⟩
  unfold anLoop
  simp only [smul, zipWith_div_smul (ne_of_gt hc)]

/-- **No absolute threshold in the normalisation**: with a positively homogeneous envelope oracle, the normalised
    column of `c • x` is the same for EVERY positive factor `c` — `2⁻⁴⁰` as well as `1` or `2⁴⁰` — whether or not the
    column has an envelope: the result depends on the direction of `x` only; where it has none, the column is
    returned as it is at every amplitude (`amplitudeNormalise_no_envelope`).  A test of the samples against a fixed
    number before normalising (`np.allclose(X, 0)`, seeded C09-5) contradicts this for small `c`. -/
theorem amplitudeNormalise_no_absolute_threshold (E : Nat → List Rat → Option (List Rat)) (thresh : Rat)
    (maxIters : Nat) (x : List Rat) (hk : 1 ≤ maxIters)
    (hE : ∀ c, 0 < c → E 0 (smul c x) = (E 0 x).map (smul c)) (c d : Rat) (hc : 0 < c) (hd : 0 < d) :
    (∀ env, E 0 x = some env →
      amplitudeNormalise E thresh maxIters (smul c x) = amplitudeNormalise E thresh maxIters (smul d x)) ∧
    (E 0 x = none → amplitudeNormalise E thresh maxIters (smul c x) = smul c x) := by
  refine ⟨fun env hx => ?_, fun hx => ?_⟩
  · rw [amplitudeNormalise_scale_free E thresh maxIters c x hc hk env hx (by rw [hE c hc, hx]; rfl),
      amplitudeNormalise_scale_free E thresh maxIters d x hd hk env hx (by rw [hE d hd, hx]; rfl)]
  · have : E 0 (smul c x) = none := by rw [hE c hc, hx]; rfl
    simp [amplitudeNormalise, this]

/-- `hilbert` method: phase and frequency of `c·x` are those of `x`, the amplitude is `c` times
    the amplitude of `x`. -/
theorem ft_hilbert_scale (O : Analytic) (halfPi twoPi sr c : Rat) (x : List Rat) (_hc : 0 < c)
    (hlin : O.hilbert (smul c x) = (O.hilbert x).map fun z => (c * z.1, c * z.2))
    (hang : ∀ z, O.angle (c * z.1, c * z.2) = O.angle z)
    (habs : ∀ z, O.abs (c * z.1, c * z.2) = c * O.abs z) :
    let r := frequencyTransform O.hilbertH halfPi twoPi sr x
    frequencyTransform O.hilbertH halfPi twoPi sr (smul c x) = (r.1, r.2.1, smulAmp c r.2.2) :=
  frequencyTransform_scale_of_oracle _ halfPi twoPi sr c x (hilbertH_scale O c x hlin hang habs)

/-- `nht` method on an oscillatory column (the combined envelope exists, i.e. the column is
    amplitude-normalised at least once: `max_iters = 3` in the implementation): only homogeneity
    of the two envelope interpolants is needed.  The amplitude may still be NaN (`envU x = none`:
    fewer peaks than the upper envelope needs); then it is NaN for `c·x` as well. -/
theorem ft_nht_scale (O : Analytic) (E : Nat → List Rat → Option (List Rat)) (thresh : Rat)
    (maxIters : Nat) (envU : List Rat → Option (List Rat)) (halfPi twoPi sr c : Rat) (x : List Rat)
    (hc : 0 < c) (hk : 1 ≤ maxIters) (env : List Rat) (hx : E 0 x = some env)
    (hEc : E 0 (smul c x) = some (smul c env))
    (hEu : envU (smul c x) = (envU x).map (smul c)) :
    let H := O.nhtH (amplitudeNormalise E thresh maxIters) envU
    let r := frequencyTransform H halfPi twoPi sr x
    frequencyTransform H halfPi twoPi sr (smul c x) = (r.1, r.2.1, smulAmp c r.2.2) :=
  frequencyTransform_scale_of_oracle _ halfPi twoPi sr c x
    (nhtH_scale O _ envU c x (amplitudeNormalise_scale_free E thresh maxIters c x hc hk env hx hEc) hEu)

/-- `nht` method on any column, oscillatory or not: with the Hilbert transform linear and the angle
    scale invariant in addition, the law holds also where `amplitude_normalise` finds no envelope
    and leaves the column as it is. -/
theorem ft_nht_scale_any (O : Analytic) (E : Nat → List Rat → Option (List Rat)) (thresh : Rat)
    (maxIters : Nat) (envU : List Rat → Option (List Rat)) (halfPi twoPi sr c : Rat) (x : List Rat)
    (hc : 0 < c) (hk : 1 ≤ maxIters)
    (hlin : O.hilbert (smul c x) = (O.hilbert x).map fun z => (c * z.1, c * z.2))
    (hang : ∀ z, O.angle (c * z.1, c * z.2) = O.angle z)
    (hEc : E 0 (smul c x) = (E 0 x).map (smul c))
    (hEu : envU (smul c x) = (envU x).map (smul c)) :
    let H := O.nhtH (amplitudeNormalise E thresh maxIters) envU
    let r := frequencyTransform H halfPi twoPi sr x
    frequencyTransform H halfPi twoPi sr (smul c x) = (r.1, r.2.1, smulAmp c r.2.2) := by
  cases hx : E 0 x with
  | some env => exact ft_nht_scale O E thresh maxIters envU halfPi twoPi sr c x hc hk env hx (by rw [hEc, hx]; rfl) hEu
  | none =>
    have hcx : E 0 (smul c x) = none := by rw [hEc, hx]; rfl
    exact frequencyTransform_scale_of_oracle _ halfPi twoPi sr c x
      (nhtH_scale_raw O _ envU c x (by simp [amplitudeNormalise, hx]) (by simp [amplitudeNormalise, hcx])
        hlin hang hEu)

/-- `quad` method on an oscillatory column: the quadrature signal is built from the normalised
    column only, so homogeneity of the two envelope interpolants suffices. -/
theorem ft_quad_scale (O : Analytic) (E : Nat → List Rat → Option (List Rat)) (thresh : Rat)
    (maxIters : Nat) (envU : List Rat → Option (List Rat)) (sqrtT : List Rat → List Rat)
    (halfPi twoPi sr c : Rat) (x : List Rat)
    (hc : 0 < c) (hk : 1 ≤ maxIters) (env : List Rat) (hx : E 0 x = some env)
    (hEc : E 0 (smul c x) = some (smul c env))
    (hEu : envU (smul c x) = (envU x).map (smul c)) :
    let H := O.quadH (amplitudeNormalise E thresh maxIters) envU sqrtT
    let r := frequencyTransform H halfPi twoPi sr x
    frequencyTransform H halfPi twoPi sr (smul c x) = (r.1, r.2.1, smulAmp c r.2.2) :=
  frequencyTransform_scale_of_oracle _ halfPi twoPi sr c x
    (quadH_scale O _ envU sqrtT c x (amplitudeNormalise_scale_free E thresh maxIters c x hc hk env hx hEc) hEu)

/-- The envelope hypothesis `hx` of `ft_quad_scale` cannot be dropped (unlike for `nht`):
    on a column without a combined envelope the clipped *raw* samples enter the quadrature
    signal, and clipping does not commute with rescaling.  Witness: the ramp `[0, 1/4, 1/2, 3/4]`,
    `c = 2`, a library meeting every contract for every input, yet a different phase.  (The real
    `frequency_transform(x, 1, 'quad')` on the same ramp: phases differ by 1.047 rad; corpus case.) -/
theorem ft_quad_scale_needs_envelope :
    ∃ (O : Analytic) (E : Nat → List Rat → Option (List Rat)) (envU : List Rat → Option (List Rat))
      (sqrtT : List Rat → List Rat) (x : List Rat) (c : Rat), 0 < c ∧
      (∀ y, O.hilbert (smul c y) = (O.hilbert y).map fun z => (c * z.1, c * z.2)) ∧
      (∀ z, O.angle (c * z.1, c * z.2) = O.angle z) ∧
      (∀ z, O.abs (c * z.1, c * z.2) = c * O.abs z) ∧
      (∀ k y, E k (smul c y) = (E k y).map (smul c)) ∧
      (∀ y, envU (smul c y) = (envU y).map (smul c)) ∧
      E 0 x = none ∧
      (frequencyTransform (O.quadH (amplitudeNormalise E (1 / 10) 3) envU sqrtT) 0 4 1 (smul c x)).1
        ≠ (frequencyTransform (O.quadH (amplitudeNormalise E (1 / 10) 3) envU sqrtT) 0 4 1 x).1 := by
  refine ⟨Witness.O, fun _ _ => none, Witness.noEnv, Witness.sq, [0, 1 / 4, 1 / 2, 3 / 4], 2, by norm_num,
    Witness.O_hilbert_linear 2, fun z => Witness.O_angle_scale (by norm_num) z,
    fun z => Witness.O_abs_scale (by norm_num) z, fun _ _ => rfl, fun _ => rfl, rfl, ?_⟩
  have h0 : wrap 4 0 = 0 := wrap_unique 0 (by norm_num) (by norm_num) (by norm_num)
  have h1 : wrap 4 1 = 1 := wrap_unique 0 (by norm_num) (by norm_num) (by norm_num)
  norm_num [frequencyTransform, Analytic.quadH, amplitudeNormalise, Witness.O, Witness.sq, clip1,
    quadImag?, quadMask, diff, h0, h1]

/-! ## the non-oscillatory column: NaN amplitude -/

/-- `nht` / `quad` on a column for which `interp_envelope(mode='upper')` returns `None`
    (fewer peaks than the envelope needs, e.g. a ramp or a constant): the amplitude is NaN at
    every sample — silently, no error — while phase and frequency are computed as usual. -/
theorem ft_nht_nonoscillatory (O : Analytic) (norm : List Rat → List Rat)
    (envU : List Rat → Option (List Rat)) (halfPi twoPi sr : Rat) (x : List Rat)
    (h : envU x = none) :
    (frequencyTransform (O.nhtH norm envU) halfPi twoPi sr x).2.2 = List.replicate x.length none := by
  simp [frequencyTransform, Analytic.nhtH, h, ampOfEnv]

theorem ft_quad_nonoscillatory (O : Analytic) (norm : List Rat → List Rat)
    (envU : List Rat → Option (List Rat)) (sqrtT : List Rat → List Rat) (halfPi twoPi sr : Rat)
    (x : List Rat) (h : envU x = none) :
    (frequencyTransform (O.quadH norm envU sqrtT) halfPi twoPi sr x).2.2
      = List.replicate x.length none := by
  simp [frequencyTransform, Analytic.quadH, h, ampOfEnv]

/-- Conversely the amplitude of `nht` / `quad` is NaN-free exactly when the upper envelope
    exists, and then it is that envelope. -/
theorem ft_nht_amplitude_is_envelope (O : Analytic) (norm : List Rat → List Rat)
    (envU : List Rat → Option (List Rat)) (sqrtT : List Rat → List Rat) (halfPi twoPi sr : Rat)
    (x e : List Rat) (h : envU x = some e) :
    (frequencyTransform (O.nhtH norm envU) halfPi twoPi sr x).2.2 = e.map some ∧
    (frequencyTransform (O.quadH norm envU sqrtT) halfPi twoPi sr x).2.2 = e.map some := by
  simp [frequencyTransform, Analytic.nhtH, Analytic.quadH, h, ampOfEnv]

/-- The `hilbert` method never returns a NaN amplitude. -/
theorem ft_hilbert_amplitude_finite (O : Analytic) (halfPi twoPi sr : Rat) (x : List Rat) :
    ∀ a ∈ (frequencyTransform O.hilbertH halfPi twoPi sr x).2.2, a.isSome := by
  intro a ha
  simp only [frequencyTransform, Analytic.hilbertH, List.mem_map] at ha
  obtain ⟨_, _, rfl⟩ := ha
  rfl

/-- On a column without combined envelope the `nht` phase is that of the plain Hilbert method
    (the normalisation is the identity there). -/
theorem ft_nht_no_envelope_phase (O : Analytic) (E : Nat → List Rat → Option (List Rat)) (thresh : Rat)
    (maxIters : Nat) (envU : List Rat → Option (List Rat)) (halfPi twoPi sr : Rat) (x : List Rat)
    (h : E 0 x = none) :
    let r := frequencyTransform (O.nhtH (amplitudeNormalise E thresh maxIters) envU) halfPi twoPi sr x
    let rh := frequencyTransform O.hilbertH halfPi twoPi sr x
    r.1 = rh.1 ∧ r.2.1 = rh.2.1 := by
  simp [frequencyTransform, Analytic.nhtH, Analytic.hilbertH, amplitudeNormalise, h]

/-- Without an envelope (too few extrema) the signal is returned unchanged. -/
theorem amplitudeNormalise_no_envelope (E : Nat → List Rat → Option (List Rat)) (thresh : Rat)
    (maxIters : Nat) (x : List Rat) (hx : E 0 x = none) :
    amplitudeNormalise E thresh maxIters x = x := by
  simp [amplitudeNormalise, hx]

/-- Amplitude normalisation preserves length and the sign of every sample when the
    envelopes are positive and as long as their input. -/
theorem amplitudeNormalise_sign (E : Nat → List Rat → Option (List Rat)) (thresh : Rat)
    (maxIters : Nat) (x : List Rat)
    (hE : ∀ k y env, E k y = some env → env.length = y.length) (hp : PosEnv E) :
    (amplitudeNormalise E thresh maxIters x).length = x.length ∧
    ∀ i, 0 < getR (amplitudeNormalise E thresh maxIters x) i ↔ 0 < getR x i := by
  unfold amplitudeNormalise
  split
  · exact ⟨rfl, fun _ => Iff.rfl⟩
  · rename_i env he
    exact ⟨anLoop_length E thresh hE _ _ _ _ (hE _ _ _ he),
      anLoop_sign E thresh hE hp _ _ _ _ (hE _ _ _ he) (hp _ _ _ he)⟩

/-- Positivity of the envelopes cannot be weakened to "never zero": with a negative envelope
    (length-preserving, nowhere zero) the normalised sample has the opposite sign.  Real library:
    the `splrep` combined envelope of some noise records dips below 0 and
    `amplitude_normalise(interp_method='splrep')` flips signs there (harness corpus), which is why
    `PosEnv` is validated on every run and assumed for the pchip interpolants only. -/
theorem amplitudeNormalise_sign_needs_posEnv :
    ∃ (E : Nat → List Rat → Option (List Rat)) (x : List Rat),
      (∀ k y env, E k y = some env → env.length = y.length) ∧
      (∀ k y env, E k y = some env → ∀ e ∈ env, e ≠ 0) ∧
      0 < getR x 0 ∧ ¬ 0 < getR (amplitudeNormalise E (1 / 10) 3 x) 0 := by
  refine ⟨fun _ y => some (y.map fun _ => -1), [1], ?_, ?_, by norm_num [getR], ?_⟩
  · intro k y env h; cases h; simp
  · intro k y env h e he; cases h
    simp only [List.mem_map] at he
    obtain ⟨_, _, rfl⟩ := he; norm_num
  · norm_num [amplitudeNormalise, anLoop, getR, absR, sumR]

/-- The quadrature signal has unit modulus: with `s[i]² = 1 − nX[i]²` (the sqrt table),
    `nX[i]² + q[i]² = 1` at every sample, and `q` has the input's length. -/
theorem quad_unit_modulus (nX s q : List Rat) (hs : s.length = nX.length)
    (hq : quadImag? nX s = some q)
    (hsq : ∀ i, i < nX.length → getR s i * getR s i = 1 - getR nX i * getR nX i) :
    q.length = nX.length ∧
    ∀ i, i < nX.length → getR nX i * getR nX i + getR q i * getR q i = 1 := by
  unfold quadImag? at hq
  split at hq
  · cases hq
  · rename_i hn
    have hn2 : 2 ≤ nX.length := by omega
    have hml := quadMask_length hn2
    cases hq
    refine ⟨by simp [hs, hml], ?_⟩
    intro i hi
    have him : i < (quadMask nX).length := by omega
    have his : i < s.length := by omega
    have hv := quadMask_values nX _ (List.getElem_mem him)
    have : getR (List.zipWith (· * ·) s (quadMask nX)) i = getR s i * (quadMask nX)[i] := by
      simp [getR, his, him]
    rw [this]
    have h1 := hsq i hi
    rcases hv with h | h <;> rw [h] <;> linarith

/-! ## frequency → phase → frequency -/

/-- Converting a frequency profile to phase and back gives, at every interior sample
    `1 ≤ i ≤ n−2`, the mean of the profile at `i` and `i+1` (two-sample averaging of the
    central difference), for every start phase. -/
theorem roundtrip_interior (twoPi sr start : Rat) (htp : twoPi ≠ 0) (hsr : sr ≠ 0) (f : List Rat)
    (i : Nat) (h1 : 1 ≤ i) (h2 : i + 1 < f.length) :
    (freqFromPhase twoPi sr (phaseFromFreq twoPi sr start f))[i]?
      = some ((f[i]'(by omega) + f[i + 1]'h2) / 2) := by
  have hlen : i < (freqFromPhase twoPi sr (phaseFromFreq twoPi sr start f)).length := by simp; omega
  have := roundtrip_getR_interior twoPi sr start htp hsr h1 h2
  rw [getR_of_lt hlen, getR_of_lt (by omega), getR_of_lt h2] at this
  rw [List.getElem?_eq_getElem hlen, this]

/-- At the two ends the one-sided differences give `f[1]` at sample 0 and `f[n−1]` at sample `n−1`. -/
theorem roundtrip_edges (twoPi sr start : Rat) (htp : twoPi ≠ 0) (hsr : sr ≠ 0) (f : List Rat)
    (hn : 2 ≤ f.length) :
    (freqFromPhase twoPi sr (phaseFromFreq twoPi sr start f))[0]? = some (f[1]'(by omega)) ∧
    (freqFromPhase twoPi sr (phaseFromFreq twoPi sr start f))[f.length - 1]?
      = some (f[f.length - 1]'(by omega)) := by
  have hlen : (freqFromPhase twoPi sr (phaseFromFreq twoPi sr start f)).length = f.length := by simp
  constructor
  · have := roundtrip_getR_first twoPi sr start htp hsr hn
    rw [getR_of_lt (by omega), getR_of_lt (by omega)] at this
    rw [List.getElem?_eq_getElem (by omega), this]
  · have := roundtrip_getR_last twoPi sr start htp hsr (f := f) (i := f.length - 1) (by omega) (by omega)
    rw [getR_of_lt (by omega), getR_of_lt (by omega)] at this
    rw [List.getElem?_eq_getElem (by omega), this]

/-- Where the profile is locally constant the round trip is exact. -/
theorem roundtrip_locally_const (twoPi sr start : Rat) (htp : twoPi ≠ 0) (hsr : sr ≠ 0)
    (f : List Rat) (i : Nat) (h1 : 1 ≤ i) (h2 : i + 1 < f.length)
    (hc : f[i + 1]'h2 = f[i]'(by omega)) :
    (freqFromPhase twoPi sr (phaseFromFreq twoPi sr start f))[i]? = some (f[i]'(by omega)) := by
  rw [roundtrip_interior twoPi sr start htp hsr f i h1 h2, hc]
  congr 1; ring

/-- A constant profile is reproduced exactly at every sample, ends included. -/
theorem roundtrip_const (twoPi sr start c : Rat) (htp : twoPi ≠ 0) (hsr : sr ≠ 0) (n : Nat)
    (hn : 2 ≤ n) :
    freqFromPhase twoPi sr (phaseFromFreq twoPi sr start (List.replicate n c))
      = List.replicate n c := by
  apply List.ext_getElem?
  intro i
  by_cases hi : i < n
  · have hl : (List.replicate n c).length = n := by simp
    rw [List.getElem?_replicate, if_pos hi]
    rcases Nat.eq_zero_or_pos i with rfl | hpos
    · have := (roundtrip_edges twoPi sr start htp hsr (List.replicate n c) (by simpa using hn)).1
      rw [this]; simp
    · by_cases hlast : i + 1 = n
      · have hlen : i < (freqFromPhase twoPi sr (phaseFromFreq twoPi sr start (List.replicate n c))).length := by
          simp; omega
        have := roundtrip_getR_last twoPi sr start htp hsr (f := List.replicate n c) (i := i) hpos (by simpa using hlast)
        rw [getR_of_lt hlen, getR_of_lt (by simpa using hi)] at this
        rw [List.getElem?_eq_getElem hlen, this]; simp
      · rw [roundtrip_interior twoPi sr start htp hsr _ i hpos (by simp; omega)]
        simp
  · rw [List.getElem?_eq_none (by simp; omega), List.getElem?_eq_none (by simp; omega)]

/-! ## Non-vacuity: the hypotheses are satisfiable on concrete non-trivial inputs. -/

-- wrap on the two sides of zero and beyond one period (m = 6 stands in for 2π)
example : wrap 6 (-1) = 5 ∧ wrap 6 13 = 1 ∧ wrap 6 6 = 0 := by
  refine ⟨?_, ?_, ?_⟩
  · exact wrap_unique (-1) (by norm_num) (by norm_num) (by norm_num)
  · exact wrap_unique 2 (by norm_num) (by norm_num) (by norm_num)
  · exact wrap_unique 1 (by norm_num) (by norm_num) (by norm_num)

-- a slowly varying phase (all steps below 3 = m/2) satisfies the hypothesis of `unwrap_wrap`
example : Slow (6 / 2) [0, 2, 4, 13 / 2, 9, 8, 10] := by
  simp only [Slow, absR]
  norm_num

-- interior / edge indices exist: n = 4, i ∈ {1, 2}
example : (1 : Nat) ≤ 2 ∧ 2 + 1 < [(1 : Rat), 2, 4, 8].length := by decide

-- the hypotheses of the three scale theorems are met together by the toy library `Witness.O`
-- (linear `hilbert`, scale-invariant `angle`, homogeneous `abs`) and the homogeneous envelope
-- oracle `Witness.E`, on x = [2, -4, 6], c = 3; the theorems apply
example :
    let r := frequencyTransform Witness.O.hilbertH 1 6 100 [2, -4, 6]
    frequencyTransform Witness.O.hilbertH 1 6 100 (smul 3 [2, -4, 6]) = (r.1, r.2.1, smulAmp 3 r.2.2) :=
  ft_hilbert_scale Witness.O 1 6 100 3 [2, -4, 6] (by norm_num) (Witness.O_hilbert_linear 3 _)
    (fun z => Witness.O_angle_scale (by norm_num) z) (fun z => Witness.O_abs_scale (by norm_num) z)

example : Witness.E 0 [2, -4, 6] = some [2, 2, 2] ∧
    Witness.E 0 (smul 3 [2, -4, 6]) = some (smul 3 [2, 2, 2]) := by
  constructor <;> norm_num [Witness.E, smul, absR]

example :
    let H := Witness.O.nhtH (amplitudeNormalise Witness.E (1 / 10) 3) (Witness.E 0)
    let r := frequencyTransform H 1 6 100 [2, -4, 6]
    frequencyTransform H 1 6 100 (smul 3 [2, -4, 6]) = (r.1, r.2.1, smulAmp 3 r.2.2) :=
  ft_nht_scale Witness.O Witness.E (1 / 10) 3 (Witness.E 0) 1 6 100 3 [2, -4, 6] (by norm_num) (by norm_num)
    [2, 2, 2] (by norm_num [Witness.E, absR]) (by norm_num [Witness.E, smul, absR])
    (Witness.E_homogeneous (by norm_num) 0 _)

example :
    let H := Witness.O.quadH (amplitudeNormalise Witness.E (1 / 10) 3) (Witness.E 0) Witness.sq
    let r := frequencyTransform H 1 6 100 [2, -4, 6]
    frequencyTransform H 1 6 100 (smul 3 [2, -4, 6]) = (r.1, r.2.1, smulAmp 3 r.2.2) :=
  ft_quad_scale Witness.O Witness.E (1 / 10) 3 (Witness.E 0) Witness.sq 1 6 100 3 [2, -4, 6] (by norm_num)
    (by norm_num) [2, 2, 2] (by norm_num [Witness.E, absR]) (by norm_num [Witness.E, smul, absR])
    (Witness.E_homogeneous (by norm_num) 0 _)

-- `ft_nht_scale_any` on a column without envelope (2 samples: `Witness.E` answers `none`)
example :
    let H := Witness.O.nhtH (amplitudeNormalise Witness.E (1 / 10) 3) (Witness.E 0)
    let r := frequencyTransform H 1 6 100 [2, -4]
    Witness.E 0 [2, -4] = none ∧
    frequencyTransform H 1 6 100 (smul 3 [2, -4]) = (r.1, r.2.1, smulAmp 3 r.2.2) :=
  ⟨by simp [Witness.E],
   ft_nht_scale_any Witness.O Witness.E (1 / 10) 3 (Witness.E 0) 1 6 100 3 [2, -4] (by norm_num) (by norm_num)
    (Witness.O_hilbert_linear 3 _) (fun z => Witness.O_angle_scale (by norm_num) z)
    (Witness.E_homogeneous (by norm_num) 0 _) (Witness.E_homogeneous (by norm_num) 0 _)⟩

-- the non-oscillatory hypothesis is met by `Witness.E 0` on a 2-sample column, and the amplitude
-- really is NaN at both samples
example : (frequencyTransform (Witness.O.nhtH id (Witness.E 0)) 1 6 100 [2, -4]).2.2 = [none, none] :=
  ft_nht_nonoscillatory Witness.O id (Witness.E 0) 1 6 100 [2, -4] (by simp [Witness.E])

-- the hypotheses of `amplitudeNormalise_scale_free` hold for x = [2, -4, 6], c = 3
example :
    amplitudeNormalise Witness.E (1 / 10) 3 (smul 3 [2, -4, 6])
      = amplitudeNormalise Witness.E (1 / 10) 3 [2, -4, 6] :=
  amplitudeNormalise_scale_free Witness.E (1 / 10) 3 3 [2, -4, 6] (by norm_num) (by norm_num)
    [2, 2, 2] (by norm_num [Witness.E, absR]) (by norm_num [Witness.E, smul, absR])

-- … and for a tiny factor: c = 2⁻⁴⁰ (samples ≈ 1e-12, far below any fixed tolerance) normalises to the same column
example :
    amplitudeNormalise Witness.E (1 / 10) 3 (smul (1 / 1099511627776) [2, -4, 6])
      = amplitudeNormalise Witness.E (1 / 10) 3 (smul 1 [2, -4, 6]) :=
  (amplitudeNormalise_no_absolute_threshold Witness.E (1 / 10) 3 [2, -4, 6] (by norm_num)
    (fun c hc => Witness.E_homogeneous hc 0 _) (1 / 1099511627776) 1 (by norm_num) (by norm_num)).1
    [2, 2, 2] (by norm_num [Witness.E, absR])

-- short and long input of `frequencyTransform?`
example : ([] : List Rat).length < 2 ∧ [(1 : Rat)].length < 2 ∧ 2 ≤ [(1 : Rat), 2].length := by decide

-- the sqrt-table hypothesis of `quad_unit_modulus` on a 3-4-5 sampled half cycle
example : ∀ i, i < [(0 : Rat), 3 / 5, 1, 3 / 5].length →
    getR [(1 : Rat), 4 / 5, 0, 4 / 5] i * getR [(1 : Rat), 4 / 5, 0, 4 / 5] i
      = 1 - getR [(0 : Rat), 3 / 5, 1, 3 / 5] i * getR [(0 : Rat), 3 / 5, 1, 3 / 5] i := by
  intro i hi
  simp only [List.length_cons, List.length_nil] at hi
  have : i = 0 ∨ i = 1 ∨ i = 2 ∨ i = 3 := by omega
  rcases this with rfl | rfl | rfl | rfl <;> norm_num [getR]

end C09
