/-
  C04 — single-IMF extraction obeys its stopping rule and always terminates.
  Property theorems only (helper lemmas and the predicates `Continues`, `Fires`, `Vanishes`,
  `Spec`, `EnvLen`: Proofs/Lemmas/Sift.lean).

  All statements are about the executable model `EmdModel.Sift` (`loop`, `run`, `finish`,
  `getNextImfIx`, `getNextImf`), for every envelope oracle `E` (also iteration dependent),
  every energy oracle `D`, every option record and every input signal.

  Spec sequence (`iter`): h₀ = x, h_{k+1} = h_k − step·mean(U h_k, L h_k), undefined once an
  envelope is missing.  `Continues k` = h_k has both envelopes and the rule does not fire on it;
  `Fires k c` = h_k has both envelopes, the rule fires and c = h_k − mean (FULL mean);
  `Vanishes k h` = h_k = h has an undefined envelope.

  Termination: `loop` is structurally recursive on the remaining iteration budget, which is
  derived from the configured limit (`budget`), so `getNextImf` is total by construction — there is
  no fuel parameter.  For `fixed` with `max_iters = 0` the real loop does not terminate (outside
  the documented range `max_iters > 0`); theorems that depend on it carry `0 < o.maxIters`.
-/
import Proofs.Lemmas.Sift

namespace C04
open Sift

/-- Each sifting iterate is the previous one minus the step-scaled mean of its envelopes. -/
theorem iter_succ (E : Nat → Sig → Env) (s : Rat) (x : Sig) (k : Nat) (h U L : Sig)
    (hk : iter E s k x = some h) (he : E k h = (some U, some L)) :
    iter E s (k + 1) x = some (Sig.sub h (Sig.smul s (Sig.mean2 U L))) :=
  iter_step E s x k h U L hk he

/-- The loop refines the declarative specification: it leaves
    (a) `stopped k c`: k is the LEAST index at which the rule fires, every earlier iterate had both
        envelopes and did not fire, c = h_k − mean(U h_k, L h_k), and k is within the limit;
    (b) `noExtrema k h`: k is the least index with an undefined envelope, h = h_k, no earlier fire;
    (c) `noConverge`: only if all `budget o` iterates had envelopes and none fired. -/
theorem run_spec (E : Nat → Sig → Env) (o : ImfOpts) (x : Sig) : Spec E o x (run E o x) :=
  run_spec' E o x

/-- …and the specification admits no other outcome (so it characterises the result exactly). -/
theorem spec_unique (E : Nat → Sig → Env) (o : ImfOpts) (x : Sig) (r : Outcome)
    (h : Spec E o x r) : r = run E o x :=
  spec_det E o x r (run E o x) h (run_spec E o x)

/-- Bounded by the configured limit: whatever is returned was found at an iterate index ≤ max_iters
    (at most max_iters+1 mean-envelope evaluations; exactly index max_iters−1 for `fixed`, see `fixed_count`). -/
theorem exit_within_limit (E : Nat → Sig → Env) (o : ImfOpts) (x : Sig) (k : Nat) (c : Sig)
    (hr : run E o x = .stopped k c ∨ run E o x = .noExtrema k c) : k ≤ o.maxIters := by
  have hs := run_spec E o x
  have hb : budget o ≤ o.maxIters + 1 := by unfold budget; split <;> omega
  rcases hr with hr | hr <;> rw [hr] at hs <;> have := hs.1 <;> omega

/-- The returned IMF has the FULL envelope mean removed (not `step·mean`), whatever the step size. -/
theorem stopped_full_mean (E : Nat → Sig → Env) (o : ImfOpts) (x : Sig) (k : Nat) (c : Sig)
    (hr : run E o x = .stopped k c) :
    ∃ h U L, iter E o.step k x = some h ∧ E k h = (some U, some L) ∧ c = Sig.sub h (Sig.mean2 U L) := by
  have hs := run_spec E o x
  rw [hr] at hs
  obtain ⟨_, _, h, U, L, h1, h2, _, h4⟩ := hs
  exact ⟨h, U, L, h1, h2, h4⟩

/-- Fixed count n: the rule fires in iteration n exactly (iterate index n−1), never earlier or later. -/
theorem fixed_count (E : Nat → Sig → Env) (o : ImfOpts) (x : Sig) (k : Nat) (c : Sig)
    (hf : o.stop = .fixed) (hr : run E o x = .stopped k c) : k + 1 = o.maxIters := by
  have hs := run_spec E o x
  rw [hr] at hs
  obtain ⟨_, _, h, U, L, _, _, h3, _⟩ := hs
  simpa [stopTest, hf] using h3

/-- The fixed rule never ends in the convergence error (documented range max_iters ≥ 1). -/
theorem fixed_never_convergeError (E : Nat → Sig → Env) (o : ImfOpts) (x : Sig)
    (hf : o.stop = .fixed) (hm : 0 < o.maxIters) : run E o x ≠ .noConverge := by
  intro hr
  have hs := run_spec E o x
  rw [hr] at hs
  have hb : budget o = o.maxIters := by simp [budget, hf]
  obtain ⟨h, U, L, _, _, h3⟩ := hs (o.maxIters - 1) (by omega)
  have : o.maxIters - 1 + 1 = o.maxIters := by omega
  simp [stopTest, hf, this] at h3

/-- The convergence error is raised exactly when every iterate within the limit had envelopes and the
    rule fired on none of them (max_iters+1 iterates for sd/rilling: the limit is tested before the
    increment) — the extraction never loops on, and never silently returns an unconverged iterate. -/
theorem convergeError_iff (E : Nat → Sig → Env) (D : Sig → Sig → Rat) (o : ImfOpts) (x : Sig) :
    getNextImfIx E D o x = .convergeError ↔ ∀ j, j < budget o → Continues E o x j := by
  constructor
  · intro h
    have hs := run_spec E o x
    unfold getNextImfIx at h
    cases hr : run E o x with
    | stopped k c => rw [hr] at h; simp [finish] at h
    | noExtrema k g => rw [hr] at h; simp [finish] at h
    | noConverge => rw [hr] at hs; exact hs
  · intro h
    have : Outcome.noConverge = run E o x := spec_unique E o x _ h
    unfold getNextImfIx
    rw [← this]; rfl

/-- Every returned component is accounted for: it is the first fired iterate with its full mean
    removed, or the first iterate without envelopes. -/
theorem result_cases (E : Nat → Sig → Env) (D : Sig → Sig → Rat) (o : ImfOpts) (x c : Sig) (f : Bool)
    (h : getNextImfIx E D o x = .imf c f) :
    ∃ k, k < budget o ∧ (∀ j, j < k → Continues E o x j) ∧ (Fires E o x k c ∨ Vanishes E o x k c) :=
  imf_cases E D o x c f h

/-- Without an energy threshold the continue flag is cleared exactly when the input itself has an
    undefined envelope, and then the input is returned unmodified. -/
theorem flag_false_iff (E : Nat → Sig → Env) (D : Sig → Sig → Rat) (o : ImfOpts) (x c : Sig)
    (he : o.energyThresh = none) (hb : 0 < budget o) :
    getNextImfIx E D o x = .imf c false ↔ (c = x ∧ ((E 0 x).1 = none ∨ (E 0 x).2 = none)) := by
  constructor
  · exact flag_false_unmodified E D o x c he
  · rintro ⟨rfl, hn⟩
    have : Outcome.noExtrema 0 c = run E o c :=
      spec_unique E o c _ ⟨hb, fun j hj => absurd hj (Nat.not_lt_zero j), rfl, hn⟩
    unfold getNextImfIx
    rw [← this]
    simp [finish, energyFlag, he]

/-- A component that differs from the input is never flagged as the final residual (no energy
    threshold): extrema vanishing after k ≥ 1 mean removals leaves the flag set. -/
theorem flag_true_of_modified (E : Nat → Sig → Env) (D : Sig → Sig → Rat) (o : ImfOpts) (x c : Sig) (f : Bool)
    (he : o.energyThresh = none) (h : getNextImfIx E D o x = .imf c f) (hne : c ≠ x) : f = true := by
  cases f with
  | true => rfl
  | false =>
    have hs := run_spec E o x
    unfold getNextImfIx at h
    cases hr : run E o x with
    | stopped k c' => rw [hr] at h; simp [finish, energyFlag, he] at h
    | noExtrema k g =>
      rw [hr] at h hs
      simp only [finish, energyFlag, he, ImfResult.imf.injEq] at h
      obtain ⟨rfl, hk⟩ := h
      have hk0 : k = 0 := by simpa using hk
      subst hk0
      obtain ⟨_, _, h1, _⟩ := hs
      simp only [iter, Option.some.injEq] at h1
      exact (hne h1.symm).elim
    | noConverge => rw [hr] at h; simp [finish] at h

/-- Energy threshold: the flag is the loop's flag AND NOT (energy difference of input vs. residual
    above the threshold); without a threshold it is the loop's flag. -/
theorem energy_flag (D : Sig → Sig → Rat) (o : ImfOpts) (x c : Sig) (f : Bool) :
    energyFlag D o x c f =
      match o.energyThresh with
      | none => f
      | some t => f && !(decide (t < D x (Sig.sub x c))) := by
  unfold energyFlag; rfl

/-- With an energy threshold the flag can only be cleared in addition, never set. -/
theorem energy_flag_le (D : Sig → Sig → Rat) (o : ImfOpts) (x c : Sig) (f : Bool)
    (h : energyFlag D o x c f = true) : f = true := by
  unfold energyFlag at h
  cases he : o.energyThresh with
  | none => simpa [he] using h
  | some t => rw [he] at h; simp at h; exact h.1

/-- The returned component has the length of the input (envelopes having the length of their signal). -/
theorem result_length (E : Nat → Sig → Env) (hE : EnvLen E) (D : Sig → Sig → Rat) (o : ImfOpts)
    (x c : Sig) (f : Bool) (h : getNextImfIx E D o x = .imf c f) : c.length = x.length :=
  imf_length E hE D o x c f h

/-- `get_next_imf` proper (iteration-independent envelope oracle) is the instance `fun _ => E`:
    every theorem above applies to it. -/
theorem getNextImf_eq (E : Sig → Env) (D : Sig → Sig → Rat) (o : ImfOpts) (x : Sig) :
    getNextImf E D o x = getNextImfIx (fun _ => E) D o x := rfl

/-! ### Non-vacuity: concrete runs through every exit (integer-valued rationals, table envelopes). -/

/-- a toy envelope oracle: envelopes exist while the first sample is non-zero; mean = the signal's
    own value scaled, so iterates shrink: U = h, L = 0·h -/
def toyE : Nat → Sig → Env := fun _ h =>
  match h with
  | a :: _ => if a = 0 then (none, none) else (some h, some (h.map fun _ => 0))
  | [] => (none, none)

def toyO (r : StopRule) (m : Nat) : ImfOpts := { stop := r, step := 1, maxIters := m, energyThresh := none }

-- fixed, n = 3: three iterations, exit index 2, the returned value is h₂ − mean = 4·(1/2)^3
example : run toyE (toyO .fixed 3) [4, 8] = .stopped 2 [1/2, 1] := by decide +kernel
example : iter toyE 1 2 [4, 8] = some [1, 2] := by decide +kernel
-- step 1/2: iterates shrink by 3/4, but the returned component still has the FULL mean removed
example : run toyE { stop := .fixed, step := 1/2, maxIters := 2, energyThresh := none } [4, 8] = .stopped 1 [3/2, 3] := by
  decide +kernel
-- sd rule: threshold 1/2 > metric 1/4 fires at once
example : run toyE (toyO (.sd (1/2)) 5) [4, 8] = .stopped 0 [2, 4] := by decide +kernel
-- input without envelopes: returned unmodified, flag cleared
example : getNextImfIx toyE (fun _ _ => 0) (toyO (.sd (1/10)) 5) [0, 3] = .imf [0, 3] false := by decide +kernel
-- envelopes vanish after one mean removal ([2,_] → [1,_] → … never 0 here, so use a table): flag stays set
def toyE2 : Nat → Sig → Env := fun k h => if k = 0 then (some h, some h) else (none, none)
example : getNextImfIx toyE2 (fun _ _ => 0) (toyO .fixed 3) [4, 8] = .imf [0, 0] true := by decide +kernel
-- premises of `flag_false_iff` / `fixed_never_convergeError` are satisfiable
example : 0 < budget (toyO (.sd (1/10)) 5) := by decide
example : (toyO .fixed 3).stop = .fixed ∧ 0 < (toyO .fixed 3).maxIters := by simp [toyO]
-- convergence error: sd threshold 0 never fires (metric < 0 impossible); limit 1 ⇒ 2 iterations, then the error
example : getNextImfIx toyE (fun _ _ => 0) (toyO (.sd 0) 1) [4, 8] = .convergeError := by decide +kernel
-- energy threshold clears the flag of a regular stop
example : getNextImfIx toyE (fun _ _ => 60) { stop := .sd (1/2), step := 1, maxIters := 5, energyThresh := some 50 } [4, 8]
    = .imf [2, 4] false := by decide +kernel
-- toyE satisfies EnvLen
example : EnvLen toyE := by
  intro k h U L he
  unfold toyE at he
  split at he
  · split at he
    · cases he
    · cases he; simp
  · cases he

end C04
