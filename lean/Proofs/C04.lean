/-
  C04 — single-IMF extraction obeys its stopping rule and always terminates.
  Property theorems only (helper lemmas and the predicates `Continues`, `Fires`, `Vanishes`,
  `Spec`, `EnvLen`: Proofs/Lemmas/Sift.lean).

  All statements are about the executable model `EmdModel.Sift` (`loop`, `run`, `finish`,
  `getNextImfIx`, `getNextImf`), for every envelope oracle `E` (also iteration dependent),
  every energy oracle `D`, every option record and every input signal.

  Spec sequence (`iter`): h₀ = x, h_{k+1} = h_k − step·mean(U h_k, L h_k), undefined once an
  envelope is missing.  `Continues k` = h_k has both envelopes and the rule does not fire on it;
  `Fires k c` = h_k has both envelopes, the rule fires and c = h_k − mean (FULL mean);
  `Vanishes k h` = h_k = h has an undefined envelope.

  Termination: `loop` is structurally recursive on the remaining iteration budget, which is
  derived from the configured limit (`budget`), so `getNextImf` is total by construction — there is
  no fuel parameter.

  RANGE.  For `fixed` with `max_iters = 0` the real loop never terminates (`fixed_stop(niters, 0)` is
  never true for niters ≥ 1 and the fixed rule has no limit test) — outside the documented range
  `max_iters > 0`.  The model is total and answers `convergeError` there
  (`fixed_zero_iters_model_convergeError`): a model artefact, not a behaviour of the code, and no
  correspondence case touches it (the driver answers `bad-op`).  Every theorem whose conclusion speaks
  about a run that could be this one carries the range hypothesis
  `hm : o.stop = .fixed → 0 < o.maxIters` (equivalently `0 < budget o`, `budget_pos_iff`): `run_spec`,
  `spec_unique`, `convergeError_iff`, `fixed_never_convergeError`, `flag_false_iff`.  The others assume a
  run that returned (`run … = .stopped/.noExtrema`, `getNextImfIx … = .imf c f`), which already excludes it.
-/
import Proofs.Lemmas.Sift
import Proofs.Lemmas.SiftStop

namespace C04
open Sift

/-- Each sifting iterate is the previous one minus the step-scaled mean of its envelopes
    (the recursion equation of `iter`; its content is `iter_eq_iterate` + `run_spec`). -/
theorem iter_succ (E : Nat → Sig → Env) (s : Rat) (x : Sig) (k : Nat) (h U L : Sig)
    (hk : iter E s k x = some h) (he : E k h = (some U, some L)) :
    iter E s (k + 1) x = some (Sig.sub h (Sig.smul s (Sig.mean2 U L))) :=
  iter_step E s x k h U L hk he

/-- The spec sequence is the k-fold application of ONE mean-removal step
    `meanStep E s h = h − s·mean(U h, L h)` (undefined when an envelope is missing) to the input — it
    involves neither the stopping rule nor the iteration limit nor the energy threshold. -/
theorem iter_eq_iterate (E : Sig → Env) (s : Rat) (k : Nat) (x : Sig) :
    iter (fun _ => E) s k x = (fun r : Option Sig => r.bind (meanStep E s))^[k] (some x) :=
  iter_eq_iterate' E s k x

/-- Consequently the stopping rule (and the iteration limit) influence the returned IMF only through
    the exit index: two option records with the same step size that stop at the same index return the
    same component. -/
theorem stopped_indep_of_rule (E : Nat → Sig → Env) (o o' : ImfOpts) (hs : o.step = o'.step) (x : Sig) (k : Nat)
    (c c' : Sig) (h : run E o x = .stopped k c) (h' : run E o' x = .stopped k c') : c = c' := by
  have s1 := run_spec' E o x
  have s2 := run_spec' E o' x
  rw [h] at s1; rw [h'] at s2
  obtain ⟨_, _, g, U, L, a1, a2, _, a4⟩ := s1
  obtain ⟨_, _, g', U', L', b1, b2, _, b4⟩ := s2
  rw [hs, b1] at a1; cases a1
  rw [a2] at b2; cases b2
  rw [a4, b4]

/-- The loop refines the declarative specification: it leaves
    (a) `stopped k c`: k is the LEAST index at which the rule fires, every earlier iterate had both
        envelopes and did not fire, c = h_k − mean(U h_k, L h_k), and k is within the limit;
    (b) `noExtrema k h`: k is the least index with an undefined envelope, h = h_k, no earlier fire;
    (c) `noConverge`: only if all `budget o` iterates had envelopes and none fired.
    (`hm`: documented range, see the header — for fixed/0 the code does not leave the loop at all.) -/
theorem run_spec (E : Nat → Sig → Env) (o : ImfOpts) (_hm : o.stop = .fixed → 0 < o.maxIters) (x : Sig) :
    Spec E o x (run E o x) :=
  run_spec' E o x

/-- …and the specification admits no other outcome (so it characterises the result exactly). -/
theorem spec_unique (E : Nat → Sig → Env) (o : ImfOpts) (_hm : o.stop = .fixed → 0 < o.maxIters) (x : Sig)
    (r : Outcome) (h : Spec E o x r) : r = run E o x :=
  spec_det E o x r (run E o x) h (run_spec' E o x)

/-- The range hypothesis in terms of the iteration budget. -/
theorem budget_pos_iff (o : ImfOpts) : 0 < budget o ↔ (o.stop = .fixed → 0 < o.maxIters) :=
  Sift.budget_pos_iff o

/-- OUTSIDE THE RANGE: fixed rule with `max_iters = 0`.  The model has no iteration to perform and
    answers `convergeError`; the code loops for ever (no limit test for `fixed`, `niters == 0` never
    holds).  This is the one input on which model and code part; it is excluded by hypothesis above. -/
theorem fixed_zero_iters_model_convergeError (E : Nat → Sig → Env) (D : Sig → Sig → Rat) (o : ImfOpts)
    (hf : o.stop = .fixed) (h0 : o.maxIters = 0) (x : Sig) :
    budget o = 0 ∧ run E o x = .noConverge ∧ getNextImfIx E D o x = .convergeError := by
  have hb : budget o = 0 := by simp [budget, hf, h0]
  have hr : run E o x = .noConverge := by unfold run; rw [hb]; rfl
  exact ⟨hb, hr, by unfold getNextImfIx; rw [hr]; rfl⟩

/-- Bounded by the configured limit: whatever is returned was found at an iterate index ≤ max_iters
    (at most max_iters+1 mean-envelope evaluations; exactly index max_iters−1 for `fixed`, see `fixed_count`). -/
theorem exit_within_limit (E : Nat → Sig → Env) (o : ImfOpts) (x : Sig) (k : Nat) (c : Sig)
    (hr : run E o x = .stopped k c ∨ run E o x = .noExtrema k c) : k ≤ o.maxIters := by
  have hs := run_spec' E o x
  have hb : budget o ≤ o.maxIters + 1 := by unfold budget; split <;> omega
  rcases hr with hr | hr <;> rw [hr] at hs <;> have := hs.1 <;> omega

/-- The returned IMF has the FULL envelope mean removed (not `step·mean`), whatever the step size. -/
theorem stopped_full_mean (E : Nat → Sig → Env) (o : ImfOpts) (x : Sig) (k : Nat) (c : Sig)
    (hr : run E o x = .stopped k c) :
    ∃ h U L, iter E o.step k x = some h ∧ E k h = (some U, some L) ∧ c = Sig.sub h (Sig.mean2 U L) := by
  have hs := run_spec' E o x
  rw [hr] at hs
  obtain ⟨_, _, h, U, L, h1, h2, _, h4⟩ := hs
  exact ⟨h, U, L, h1, h2, h4⟩

/-- Fixed count n: the rule fires in iteration n exactly (iterate index n−1), never earlier or later. -/
theorem fixed_count (E : Nat → Sig → Env) (o : ImfOpts) (x : Sig) (k : Nat) (c : Sig)
    (hf : o.stop = .fixed) (hr : run E o x = .stopped k c) : k + 1 = o.maxIters := by
  have hs := run_spec' E o x
  rw [hr] at hs
  obtain ⟨_, _, h, U, L, _, _, h3, _⟩ := hs
  simpa [stopTest, hf] using h3

/-- The fixed rule never ends in the convergence error (documented range max_iters ≥ 1). -/
theorem fixed_never_convergeError (E : Nat → Sig → Env) (o : ImfOpts) (x : Sig)
    (hf : o.stop = .fixed) (hm : 0 < o.maxIters) : run E o x ≠ .noConverge := by
  intro hr
  have hs := run_spec' E o x
  rw [hr] at hs
  have hb : budget o = o.maxIters := by simp [budget, hf]
  obtain ⟨h, U, L, _, _, h3⟩ := hs (o.maxIters - 1) (by omega)
  have : o.maxIters - 1 + 1 = o.maxIters := by omega
  simp [stopTest, hf, this] at h3

/-- The convergence error is raised exactly when every iterate within the limit had envelopes and the
    rule fired on none of them (max_iters+1 iterates for sd/rilling: the limit is tested before the
    increment) — the extraction never loops on, and never silently returns an unconverged iterate. -/
theorem convergeError_iff (E : Nat → Sig → Env) (D : Sig → Sig → Rat) (o : ImfOpts)
    (_hm : o.stop = .fixed → 0 < o.maxIters) (x : Sig) :
    getNextImfIx E D o x = .convergeError ↔ ∀ j, j < budget o → Continues E o x j := by
  constructor
  · intro h
    have hs := run_spec' E o x
    unfold getNextImfIx at h
    cases hr : run E o x with
    | stopped k c => rw [hr] at h; simp [finish] at h
    | noExtrema k g => rw [hr] at h; simp [finish] at h
    | noConverge => rw [hr] at hs; exact hs
  · intro h
    have : Outcome.noConverge = run E o x := spec_det E o x _ _ h (run_spec' E o x)
    unfold getNextImfIx
    rw [← this]; rfl

/-- Every returned component is accounted for: it is the first fired iterate with its full mean
    removed, or the first iterate without envelopes. -/
theorem result_cases (E : Nat → Sig → Env) (D : Sig → Sig → Rat) (o : ImfOpts) (x c : Sig) (f : Bool)
    (h : getNextImfIx E D o x = .imf c f) :
    ∃ k, k < budget o ∧ (∀ j, j < k → Continues E o x j) ∧ (Fires E o x k c ∨ Vanishes E o x k c) :=
  imf_cases E D o x c f h

/-- Without an energy threshold the continue flag is cleared exactly when the input itself has an
    undefined envelope, and then the input is returned unmodified. -/
theorem flag_false_iff (E : Nat → Sig → Env) (D : Sig → Sig → Rat) (o : ImfOpts) (x c : Sig)
    (he : o.energyThresh = none) (hb : 0 < budget o) :
    getNextImfIx E D o x = .imf c false ↔ (c = x ∧ ((E 0 x).1 = none ∨ (E 0 x).2 = none)) := by
  constructor
  · exact flag_false_unmodified E D o x c he
  · rintro ⟨rfl, hn⟩
    have : Outcome.noExtrema 0 c = run E o c :=
      spec_det E o c _ _ ⟨hb, fun j hj => absurd hj (Nat.not_lt_zero j), rfl, hn⟩ (run_spec' E o c)
    unfold getNextImfIx
    rw [← this]
    simp [finish, energyFlag, he]

/-- A component that differs from the input is never flagged as the final residual (no energy
    threshold): extrema vanishing after k ≥ 1 mean removals leaves the flag set. -/
theorem flag_true_of_modified (E : Nat → Sig → Env) (D : Sig → Sig → Rat) (o : ImfOpts) (x c : Sig) (f : Bool)
    (he : o.energyThresh = none) (h : getNextImfIx E D o x = .imf c f) (hne : c ≠ x) : f = true := by
  cases f with
  | true => rfl
  | false =>
    have hs := run_spec' E o x
    unfold getNextImfIx at h
    cases hr : run E o x with
    | stopped k c' => rw [hr] at h; simp [finish, energyFlag, he] at h
    | noExtrema k g =>
      rw [hr] at h hs
      simp only [finish, energyFlag, he, ImfResult.imf.injEq] at h
      obtain ⟨rfl, hk⟩ := h
      have hk0 : k = 0 := by simpa using hk
      subst hk0
      obtain ⟨_, _, h1, _⟩ := hs
      simp only [iter, Option.some.injEq] at h1
      exact (hne h1.symm).elim
    | noConverge => rw [hr] at h; simp [finish] at h

/-- Energy threshold: the flag is the loop's flag AND NOT (energy difference of input vs. residual
    above the threshold); without a threshold it is the loop's flag.  (Definitional — the statements
    with content are `energyFlag_false_iff` and `flag_iff_energy` below.) -/
theorem energy_flag (D : Sig → Sig → Rat) (o : ImfOpts) (x c : Sig) (f : Bool) :
    energyFlag D o x c f =
      match o.energyThresh with
      | none => f
      | some t => f && !(decide (t < D x (Sig.sub x c))) := by
  unfold energyFlag; rfl

/-- With an energy threshold the flag can only be cleared in addition, never set. -/
theorem energy_flag_le (D : Sig → Sig → Rat) (o : ImfOpts) (x c : Sig) (f : Bool)
    (h : energyFlag D o x c f = true) : f = true := by
  unfold energyFlag at h
  cases he : o.energyThresh with
  | none => simpa [he] using h
  | some t => rw [he] at h; simp at h; exact h.1

/-! ### The stopping rules against their documented formulas

The model writes every float comparison `a/b < t` cross-multiplied (`a < t·b`), which also reproduces
numpy's inf/nan outcomes for `b = 0`.  These theorems tie the cross-multiplied tests to the documented
ratios. -/

/-- `sd_stop`: fires iff `Σ(h−x1)² < sd·Σh²`; when `Σh² ≠ 0` iff the documented ratio
    `Σ(h−x1)²/Σh² < sd`; when `Σh² = 0` never (numpy: 0/0 = nan, x/0 = inf, both `< sd` False). -/
theorem sdStop_iff (thr : Rat) (h x1 : Sig) :
    (sdStop thr h x1 = true ↔ Sig.sumSq (Sig.sub h x1) < thr * Sig.sumSq h) ∧
    (Sig.sumSq h ≠ 0 → (sdStop thr h x1 = true ↔ Sig.sumSq (Sig.sub h x1) / Sig.sumSq h < thr)) ∧
    (Sig.sumSq h = 0 → sdStop thr h x1 = false) := by
  have h1 : sdStop thr h x1 = true ↔ Sig.sumSq (Sig.sub h x1) < thr * Sig.sumSq h := by simp [sdStop]
  refine ⟨h1, fun hne => ?_, fun h0 => ?_⟩
  · have hpos : 0 < Sig.sumSq h := lt_of_le_of_ne (sumSq_nonneg h) (Ne.symm hne)
    rw [h1, div_lt_iff₀ hpos]
  · have := sumSq_nonneg (Sig.sub h x1)
    simp only [sdStop, h0, mul_zero, decide_eq_false_iff_not, not_lt]
    exact this

/-- One sample of the Rilling metric, `abs(avg_env)/amp > sd` with `avg_env = (u+l)/2`,
    `amp = abs(u−l)/2`: for `amp ≠ 0` the model's test `RillingExceeds` IS the documented ratio test;
    for `amp = 0` (envelopes touch) it holds iff `avg_env ≠ 0` (numpy: x/0 = inf > sd, 0/0 = nan > sd False). -/
theorem rillingExceeds_iff_ratio (sd u l : Rat) :
    (u ≠ l → (RillingExceeds sd u l ↔ sd < Rat.abs' ((u + l) / 2) / (Rat.abs' (u - l) / 2))) ∧
    (u = l → (RillingExceeds sd u l ↔ u ≠ 0)) := by
  constructor
  · intro hne
    have hpos : 0 < Rat.abs' (u - l) / 2 := by
      have h1 := abs'_nonneg (u - l)
      have h2 : Rat.abs' (u - l) ≠ 0 := fun h => hne (by have := (abs'_eq_zero_iff _).mp h; linarith)
      have : 0 < Rat.abs' (u - l) := lt_of_le_of_ne h1 (Ne.symm h2)
      linarith
    unfold RillingExceeds
    rw [lt_div_iff₀ hpos]
  · rintro rfl
    unfold RillingExceeds
    have h0 : Rat.abs' (u - u) = 0 := (abs'_eq_zero_iff _).mpr (by linarith)
    have h1 : (u + u) / 2 = u := by linarith
    rw [h0, h1]
    simp only [zero_div, mul_zero]
    constructor
    · intro h hu; rw [hu] at h; simp [Rat.abs'] at h
    · intro hu
      exact lt_of_le_of_ne (abs'_nonneg u) (fun h => hu ((abs'_eq_zero_iff u).mp h.symm))

/-- `rilling_stop(upper, lower, sd1, sd2, tol)` with the code's exact comparisons
    (`mean(eval > sd1) > tol` and `any(eval > sd2)` both False): it fires iff the NUMBER of samples whose
    metric exceeds `sd1` is at most `tol·N` and no sample exceeds `sd2` (samples = pairs of the two
    envelopes; N = 0 fires, as numpy's nan > tol is False). -/
theorem rillingStop_iff (sd1 sd2 tol : Rat) (U L : Sig) :
    rillingStop sd1 sd2 tol U L = true ↔
      (((List.zip U L).countP (fun p => decide (RillingExceeds sd1 p.1 p.2)) : Nat) : Rat)
          ≤ tol * ((List.zip U L).length : Rat) ∧
      ∀ p ∈ List.zip U L, ¬ RillingExceeds sd2 p.1 p.2 := by
  unfold rillingStop
  simp only [rillingBig_eq, count_true_map, List.length_map, Bool.not_eq_true', Bool.or_eq_false_iff,
    decide_eq_false_iff_not, not_lt, List.any_eq_false, List.mem_map, id_eq, forall_exists_index, and_imp]
  constructor
  · rintro ⟨h1, h2⟩
    refine ⟨h1, fun p hp hex => ?_⟩
    exact h2 _ p hp rfl (by simpa using hex)
  · rintro ⟨h1, h2⟩
    refine ⟨h1, ?_⟩
    rintro b p hp rfl
    simpa using h2 p hp

/-- …in the documented form for a non-empty envelope: the FRACTION of samples exceeding `sd1` is ≤ `tol`. -/
theorem rillingStop_iff_fraction (sd1 sd2 tol : Rat) (U L : Sig) (hne : List.zip U L ≠ []) :
    rillingStop sd1 sd2 tol U L = true ↔
      (((List.zip U L).countP (fun p => decide (RillingExceeds sd1 p.1 p.2)) : Nat) : Rat)
          / ((List.zip U L).length : Rat) ≤ tol ∧
      ∀ p ∈ List.zip U L, ¬ RillingExceeds sd2 p.1 p.2 := by
  have hpos : (0 : Rat) < ((List.zip U L).length : Rat) := by
    have : 0 < (List.zip U L).length := List.length_pos_iff.mpr hne
    exact_mod_cast this
  rw [rillingStop_iff, div_le_iff₀ hpos]

/-- `fixed_stop(niters, max_iters)`: fires iff the (1-based) iteration number equals `max_iters`;
    in particular never when `max_iters = 0` (iteration numbers start at 1). -/
theorem fixedStop_iff (niters maxIters : Nat) (h x1 U L : Sig) :
    (stopTest .fixed niters maxIters h x1 U L = true ↔ niters = maxIters) ∧
    (maxIters = 0 → stopTest .fixed (niters + 1) maxIters h x1 U L = false) := by
  constructor
  · simp [stopTest]
  · rintro rfl; simp [stopTest]

/-- The rule evaluated in the loop is one of these three (dispatch on `stop_method`). -/
theorem stopTest_dispatch (niters maxIters : Nat) (h x1 U L : Sig) :
    (∀ thr, stopTest (.sd thr) niters maxIters h x1 U L = sdStop thr h x1) ∧
    (∀ a b t, stopTest (.rilling a b t) niters maxIters h x1 U L = rillingStop a b t U L) :=
  ⟨fun _ => rfl, fun _ _ _ => rfl⟩

/-! ### The continue flag with an energy threshold -/

/-- The energy stage clears the flag exactly when it was already cleared or the threshold is set and
    the energy difference exceeds it (`_energy_difference(X, X − imf) > energy_thresh`, strict). -/
theorem energyFlag_false_iff (D : Sig → Sig → Rat) (o : ImfOpts) (x c : Sig) (f : Bool) :
    energyFlag D o x c f = false ↔ f = false ∨ ∃ t, o.energyThresh = some t ∧ t < D x (Sig.sub x c) :=
  energyFlag_false_iff' D o x c f

/-- THE CONTINUE FLAG, every option record: of a returned `(c, f)` the flag is cleared exactly when
    the input itself has an undefined envelope (then `c = x`, unmodified) OR the energy threshold is
    set and exceeded.  (`flag_false_iff` is the `energyThresh = none` instance.) -/
theorem flag_iff_energy (E : Nat → Sig → Env) (D : Sig → Sig → Rat) (o : ImfOpts) (x c : Sig) (f : Bool)
    (h : getNextImfIx E D o x = .imf c f) :
    f = false ↔ (c = x ∧ ((E 0 x).1 = none ∨ (E 0 x).2 = none)) ∨
      ∃ t, o.energyThresh = some t ∧ t < D x (Sig.sub x c) :=
  flag_iff_energy' E D o x c f h

/-- The returned component has the length of the input (envelopes having the length of their signal). -/
theorem result_length (E : Nat → Sig → Env) (hE : EnvLen E) (D : Sig → Sig → Rat) (o : ImfOpts)
    (x c : Sig) (f : Bool) (h : getNextImfIx E D o x = .imf c f) : c.length = x.length :=
  imf_length E hE D o x c f h

/-- `get_next_imf` proper (iteration-independent envelope oracle) is the instance `fun _ => E`:
    every theorem above applies to it. -/
theorem getNextImf_eq (E : Sig → Env) (D : Sig → Sig → Rat) (o : ImfOpts) (x : Sig) :
    getNextImf E D o x = getNextImfIx (fun _ => E) D o x := rfl

/-! ### Non-vacuity: concrete runs through every exit (integer-valued rationals, table envelopes). -/

/-- a toy envelope oracle: envelopes exist while the first sample is non-zero; mean = the signal's
    own value scaled, so iterates shrink: U = h, L = 0·h -/
def toyE : Nat → Sig → Env := fun _ h =>
  match h with
  | a :: _ => if a = 0 then (none, none) else (some h, some (h.map fun _ => 0))
  | [] => (none, none)

def toyO (r : StopRule) (m : Nat) : ImfOpts := { stop := r, step := 1, maxIters := m, energyThresh := none }

-- fixed, n = 3: three iterations, exit index 2, the returned value is h₂ − mean = 4·(1/2)^3
example : run toyE (toyO .fixed 3) [4, 8] = .stopped 2 [1/2, 1] := by decide +kernel
example : iter toyE 1 2 [4, 8] = some [1, 2] := by decide +kernel
-- step 1/2: iterates shrink by 3/4, but the returned component still has the FULL mean removed
example : run toyE { stop := .fixed, step := 1/2, maxIters := 2, energyThresh := none } [4, 8] = .stopped 1 [3/2, 3] := by
  decide +kernel
-- sd rule: threshold 1/2 > metric 1/4 fires at once
example : run toyE (toyO (.sd (1/2)) 5) [4, 8] = .stopped 0 [2, 4] := by decide +kernel
-- input without envelopes: returned unmodified, flag cleared
example : getNextImfIx toyE (fun _ _ => 0) (toyO (.sd (1/10)) 5) [0, 3] = .imf [0, 3] false := by decide +kernel
-- envelopes vanish after one mean removal ([2,_] → [1,_] → … never 0 here, so use a table): flag stays set
def toyE2 : Nat → Sig → Env := fun k h => if k = 0 then (some h, some h) else (none, none)
example : getNextImfIx toyE2 (fun _ _ => 0) (toyO .fixed 3) [4, 8] = .imf [0, 0] true := by decide +kernel
-- premises of `flag_false_iff` / `fixed_never_convergeError` are satisfiable
example : 0 < budget (toyO (.sd (1/10)) 5) := by decide
example : (toyO .fixed 3).stop = .fixed ∧ 0 < (toyO .fixed 3).maxIters := by simp [toyO]
-- convergence error: sd threshold 0 never fires (metric < 0 impossible); limit 1 ⇒ 2 iterations, then the error
example : getNextImfIx toyE (fun _ _ => 0) (toyO (.sd 0) 1) [4, 8] = .convergeError := by decide +kernel
-- energy threshold clears the flag of a regular stop
example : getNextImfIx toyE (fun _ _ => 60) { stop := .sd (1/2), step := 1, maxIters := 5, energyThresh := some 50 } [4, 8]
    = .imf [2, 4] false := by decide +kernel
-- outside the range: fixed rule, max_iters = 0 — the model says convergeError (the code would loop for ever)
example : getNextImfIx toyE (fun _ _ => 0) (toyO .fixed 0) [4, 8] = .convergeError := by decide +kernel
example : ¬ ((toyO .fixed 0).stop = .fixed → 0 < (toyO .fixed 0).maxIters) := by simp [toyO]
-- Rilling rule on three samples with metrics |avg|/amp = 0, 1/3, 1 and sd1 = 1/4 (two samples exceed it)
example : rillingStop (1/4) 2 (2/3) [1, 2, 1] [-1, -1, 0] = true := by decide +kernel      -- 2 ≤ tol·3 = 2, none exceeds sd2 = 2
example : rillingStop (1/4) (1/2) (2/3) [1, 2, 1] [-1, -1, 0] = false := by decide +kernel  -- the third sample exceeds sd2 = 1/2
example : rillingStop (1/4) 2 (1/2) [1, 2, 1] [-1, -1, 0] = false := by decide +kernel      -- 2 > tol·3 = 3/2
-- the iterates as an iteration of the mean-removal step
example : (fun r : Option Sig => r.bind (meanStep (toyE 0) 1))^[2] (some [4, 8]) = some [1, 2] := by decide +kernel
-- toyE satisfies EnvLen
example : EnvLen toyE := by
  intro k h U L he
  unfold toyE at he
  split at he
  · split at he
    · cases he
    · cases he; simp
  · cases he

end C04
