/-
  C03 — IMFs are peeled one at a time from the running residual; caps are respected.
  Property theorems only (helpers: Proofs/Lemmas/SiftOuter.lean, Proofs/Lemmas/SiftVariants.lean).

  Model (EmdModel/Sift.lean): `peelLoop` is the outer loop shared by `sift` (`siftIx`, extraction
  indexed by the layer) and `mask_sift` (`maskSift`, extraction may depend on the columns so far:
  mask frequency / amplitude of the layer; cap lowered to the number of user frequencies, `effCap`);
  `ensembleCols` / `ensembleSift` (column-wise mean of the members, as wide as the widest member);
  `ceemd` / `ceemdLoop` (counter logic of complete_ensemble_sift with an abstract per-layer
  ensemble step); `secondLayer` / `padCols` (one capped sift per first-layer column stored in a
  zero array of width cap); `maskSecondLayer` (`mask_sift_second_layer`: one capped mask sift per first-layer
  column, the highest-frequency mask dropped per column, IndexError when the masks run out).  `resid x cols = x − Σ cols`.  All statements hold for every
  extractor, threshold, cap ≥ 1, input and fuel.

  Partial: "every result is finite for finite input" is not a theorem (ℚ has no inf/NaN); it is
  decided by the instance check on the implementation only.
-/
import Proofs.Lemmas.SiftVariants

namespace C03
open Sift

/-! ### classic sift -/

/-- The k-th component is the single-IMF extraction applied to the input minus the first k components. -/
theorem sift_col_eq_extract (X : Nat → Sig → Option (Sig × Bool)) (thr : Rat) (cap : Option Nat) (x : Sig)
    (fuel : Nat) (out : List Sig) (e : SiftEnd) (h : siftIx X thr cap x fuel = (out, e)) :
    ∀ k, k < out.length → ∃ c f, out[k]? = some c ∧ X k (resid x (out.take k)) = some (c, f) :=
  fun k hk => siftLoop_cols X thr cap x fuel [] x out e (resid_nil x).symm h k (Nat.zero_le k) hk

/-- Capping at k ≥ 1 returns exactly the first k components of the uncapped run (same fuel; also when
    the uncapped run is cut off by the fuel or by a raising extraction). -/
theorem sift_cap_prefix (X : Nat → Sig → Option (Sig × Bool)) (thr : Rat) (x : Sig) (fuel k : Nat) (hk : 0 < k) :
    (siftIx X thr (some k) x fuel).1 = (siftIx X thr none x fuel).1.take k :=
  peelLoop_cap_prefix _ thr x k fuel [] x (by simpa using hk)

/-- A cap k ≥ 1 is never exceeded. -/
theorem sift_cols_le_cap (X : Nat → Sig → Option (Sig × Bool)) (thr : Rat) (x : Sig) (fuel k : Nat) (hk : 0 < k) :
    (siftIx X thr (some k) x fuel).1.length ≤ k :=
  peelLoop_le_cap _ thr x k fuel [] x (by simpa using hk)

/-- Capped runs are nested: for k ≤ K the k-capped result is the first k components of the K-capped one. -/
theorem sift_cap_nested (X : Nat → Sig → Option (Sig × Bool)) (thr : Rat) (x : Sig) (fuel k K : Nat)
    (hk : 0 < k) (hK : k ≤ K) :
    (siftIx X thr (some k) x fuel).1 = (siftIx X thr (some K) x fuel).1.take k := by
  rw [sift_cap_prefix X thr x fuel k hk, sift_cap_prefix X thr x fuel K (by omega), List.take_take]
  congr 1; omega

/-! ### mask sift -/

/-- The k-th masked component is the masked extraction of its layer applied to the input minus the
    first k components. -/
theorem maskSift_col_eq_extract (M : List Sig → Sig → Option (Sig × Bool)) (thr : Rat) (cap : Nat)
    (nf : Option Nat) (x : Sig) (fuel : Nat) (out : List Sig) (e : SiftEnd)
    (h : maskSift M thr cap nf x fuel = (out, e)) :
    ∀ k, k < out.length →
      ∃ c f, out[k]? = some c ∧ M (out.take k) (resid x (out.take k)) = some (c, f) :=
  fun k hk => peelLoop_cols M thr _ x fuel [] x out e (resid_nil x).symm h k (Nat.zero_le k) hk

/-- mask_sift never returns more components than the cap, nor more than the user supplied frequencies. -/
theorem maskSift_cols_le_cap (M : List Sig → Sig → Option (Sig × Bool)) (thr : Rat) (cap : Nat)
    (nf : Option Nat) (x : Sig) (fuel : Nat) (hc : 0 < cap) (hm : ∀ m, nf = some m → 0 < m) :
    (maskSift M thr cap nf x fuel).1.length ≤ cap ∧
    (∀ m, nf = some m → (maskSift M thr cap nf x fuel).1.length ≤ m) := by
  have hpos := effCap_pos cap nf hc hm
  have hle := peelLoop_le_cap M thr x (effCap cap nf) fuel [] x (by simpa using hpos)
  refine ⟨Nat.le_trans hle (effCap_le_cap cap nf), ?_⟩
  intro m hnf
  subst hnf
  exact Nat.le_trans hle (effCap_le_nfreqs cap m)

/-- Capped masked runs are nested: cap k ≤ K gives the first k components of the K-capped run. -/
theorem maskSift_cap_prefix (M : List Sig → Sig → Option (Sig × Bool)) (thr : Rat) (k K : Nat)
    (nf : Option Nat) (x : Sig) (fuel : Nat) (hk : 0 < k) (hK : k ≤ K) (hm : ∀ m, nf = some m → 0 < m) :
    (maskSift M thr k nf x fuel).1 = (maskSift M thr K nf x fuel).1.take k := by
  have h1 := peelLoop_cap_prefix M thr x (effCap k nf) fuel [] x (by simpa using effCap_pos k nf hk hm)
  have h2 := peelLoop_cap_prefix M thr x (effCap K nf) fuel [] x
    (by simpa using effCap_pos K nf (by omega) hm)
  unfold maskSift
  rw [h1, h2, List.take_take]
  congr 1
  have := effCap_mono k K nf hK
  have := effCap_le_cap k nf
  cases nf with
  | none => simp [effCap] at *; omega
  | some m => simp only [effCap_eq_min] at *; omega

/-- every masked component is a [samples]-long column (masked extraction meeting the contract `PeelOK`) -/
theorem maskSift_col_lengths (M : List Sig → Sig → Option (Sig × Bool)) (thr : Rat) (cap : Nat) (nf : Option Nat)
    (x : Sig) (fuel : Nat) (hM : PeelOK M x.length) : ∀ c ∈ (maskSift M thr cap nf x fuel).1, c.length = x.length :=
  peelLoop_lengths M thr _ x hM fuel [] x (resid_nil x).symm (by simp)

/-! ### ensemble sift -/

/-- The ensemble result is exactly as wide as its widest member … -/
theorem ensemble_cols_eq_widest (n : Nat) (members : List (List Sig)) :
    (ensembleCols n members).length = maxWidth members ∧ ∀ m ∈ members, m.length ≤ maxWidth members :=
  ⟨ensembleCols_length n members, le_maxWidth members⟩

/-- … hence never wider than a bound that holds for every member. -/
theorem ensemble_cols_le_cap (n : Nat) (members : List (List Sig)) (k : Nat) (h : ∀ m ∈ members, m.length ≤ k) :
    (ensembleCols n members).length ≤ k := by
  rw [ensembleCols_length]; exact maxWidth_le members k h

/-- ensemble_sift with cap k ≥ 1 returns at most k components, for every noise set. -/
theorem ensembleSift_cols_le_cap (X : Nat → Sig → Option (Sig × Bool)) (thr : Rat) (x : Sig) (fuel k : Nat)
    (hk : 0 < k) (noises : List Sig) : (ensembleSift X thr (some k) x fuel noises).length ≤ k := by
  unfold ensembleSift
  apply ensemble_cols_le_cap
  intro m hm
  simp only [List.mem_map] at hm
  obtain ⟨nz, _, rfl⟩ := hm
  exact sift_cols_le_cap X thr (Sig.add x nz) fuel k hk

/-- every ensemble component is a [samples]-long column -/
theorem ensemble_col_lengths (n : Nat) (members : List (List Sig)) (h : ∀ m ∈ members, ∀ c ∈ m, c.length = n) :
    ∀ c ∈ ensembleCols n members, c.length = n := by
  intro c hc
  simp only [ensembleCols, List.mem_map, List.mem_range] at hc
  obtain ⟨j, _, rfl⟩ := hc
  apply meanOf_length
  intro v hv
  simp only [List.mem_map] at hv
  obtain ⟨m, hm, rfl⟩ := hv
  exact colOr_length n m j (h m hm)

/-! ### complete ensemble sift -/

/-- complete_ensemble_sift with cap k ≥ 1 returns between 1 and k components. -/
theorem ceemd_cols_le_cap (Nx : List Sig → Sig → Sig) (thr : Rat) (x : Sig) (fuel k : Nat) (hk : 0 < k) :
    1 ≤ (ceemd Nx thr (some k) x fuel).1.length ∧ (ceemd Nx thr (some k) x fuel).1.length ≤ k := by
  unfold ceemd
  simp only []
  split
  · simp; omega
  · next hgt =>
    constructor
    · obtain ⟨t, ht⟩ := ceemdLoop_prefix Nx thr (some k) x fuel [Nx [] x]
      rw [← ht]; simp
    · exact ceemdLoop_le_cap Nx thr x k fuel [Nx [] x] (by simp; omega)

/-- complete_ensemble_sift capped at ONE component returns exactly one — the plain ensemble step on the input itself
    (mean of the members' first IMFs of input ± noise); the loop is never entered, whatever the ensemble step, the
    threshold, the input and the fuel; the run ends "by the cap".  With cap 2 the second (and last) column is the
    ensemble step on the residual `x − first column`. -/
theorem ceemd_cap_one (Nx : List Sig → Sig → Sig) (thr : Rat) (x : Sig) (fuel : Nat) :
    ceemd Nx thr (some 1) x fuel = ([Nx [] x], .done false true false) ∧
    (ceemd Nx thr (some 2) x (fuel + 1)).1
      = [Nx [] x, Nx [Nx [] x] (Sig.sub x (Sig.vsum x.length [Nx [] x]))] := by
  refine ⟨by simp [ceemd], ?_⟩
  simp [ceemd, ceemdLoop]

/-- every complete-ensemble component is a [samples]-long column when the ensemble step (mean of first IMFs of
    residual ± noise) returns [samples]-long columns -/
theorem ceemd_col_lengths (Nx : List Sig → Sig → Sig) (thr : Rat) (cap : Option Nat) (x : Sig) (fuel : Nat)
    (hN : ∀ cols p, p.length = x.length → (Nx cols p).length = x.length) :
    ∀ c ∈ (ceemd Nx thr cap x fuel).1, c.length = x.length := by
  have h0 : ∀ c ∈ [Nx [] x], c.length = x.length := by
    intro c hc; simp only [List.mem_singleton] at hc; subst hc; exact hN [] x rfl
  unfold ceemd
  simp only []
  split
  · split
    · exact h0
    · exact ceemdLoop_lengths Nx thr _ x hN fuel _ h0
  · exact ceemdLoop_lengths Nx thr _ x hN fuel _ h0

/-! ### second layer -/

/-- sift_second_layer returns a [samples × first-layer components × cap] array (cap defaults to the
    number of first-layer components): one block per first-layer column, each exactly `cap` wide,
    all columns [samples] long. -/
theorem secondLayer_shape (S : Nat → Sig → List Sig) (n : Nat) (ia : List Sig) (cap : Option Nat)
    (hS : ∀ k col, ∀ c ∈ S k col, c.length = n) :
    (secondLayer S n ia cap).length = ia.length ∧
    ∀ blk ∈ secondLayer S n ia cap, blk.length = cap.getD ia.length ∧ ∀ c ∈ blk, c.length = n := by
  refine ⟨by simp [secondLayer], ?_⟩
  intro blk hb
  simp only [secondLayer, List.mem_map] at hb
  obtain ⟨col, _, rfl⟩ := hb
  exact ⟨padCols_length _ _ _, padCols_col_length n _ _ (hS _ col)⟩

/-- block i holds the second-layer sift of first-layer column i (zero columns after its last
    component): nothing is lost when that sift respects the cap. -/
theorem secondLayer_block (S : Nat → Sig → List Sig) (n : Nat) (ia : List Sig) (cap : Option Nat) (i : Nat)
    (col : Sig) (hi : ia[i]? = some col) (hle : (S (cap.getD ia.length) col).length ≤ cap.getD ia.length) :
    ∃ blk, (secondLayer S n ia cap)[i]? = some blk ∧
      (∀ j, j < (S (cap.getD ia.length) col).length → blk[j]? = (S (cap.getD ia.length) col)[j]?) ∧
      (∀ j, (S (cap.getD ia.length) col).length ≤ j → j < cap.getD ia.length → blk[j]? = some (Sig.zeros n)) := by
  refine ⟨padCols n (cap.getD ia.length) (S (cap.getD ia.length) col), ?_, ?_, ?_⟩
  · simp [secondLayer, List.getElem?_map, hi]
  · intro j hj; exact padCols_getElem n _ _ j hj (by omega)
  · intro j hj hk; exact padCols_zero n _ _ j hj hk

/-- Composition with the classic sift of this model (the default `sift_func` of `sift_second_layer`):
    with `S k col` = the `k`-capped classic sift of the column, for any extractor meeting the contract
    `ExtractorOK`, the hypotheses of the two theorems above hold by themselves (`sift_cols_le_cap`, column
    lengths of the sift): the second-layer array has the documented shape and block `i` is the second-layer
    sift of first-layer column `i` followed by zero columns — nothing is ever cut off. -/
theorem secondLayer_over_sift (X : Nat → Sig → Option (Sig × Bool)) (thr : Rat) (fuel n : Nat)
    (hX : ExtractorOK X n) (ia : List Sig) (hia : ∀ c ∈ ia, c.length = n) (cap : Option Nat) (hc : cap ≠ some 0) :
    (secondLayer (fun k col => (siftIx X thr (some k) col fuel).1) n ia cap).length = ia.length ∧
    (∀ blk ∈ secondLayer (fun k col => (siftIx X thr (some k) col fuel).1) n ia cap,
      blk.length = cap.getD ia.length ∧ ∀ c ∈ blk, c.length = n) ∧
    ∀ (i : Nat) (col : Sig), ia[i]? = some col →
      ∃ blk, (secondLayer (fun k col => (siftIx X thr (some k) col fuel).1) n ia cap)[i]? = some blk ∧
        (∀ j : Nat, j < (siftIx X thr (some (cap.getD ia.length)) col fuel).1.length →
          blk[j]? = (siftIx X thr (some (cap.getD ia.length)) col fuel).1[j]?) ∧
        (∀ j : Nat, (siftIx X thr (some (cap.getD ia.length)) col fuel).1.length ≤ j → j < cap.getD ia.length →
          blk[j]? = some (Sig.zeros n)) := by
  refine ⟨by simp [secondLayer], ?_, ?_⟩
  · intro blk hb
    simp only [secondLayer, List.mem_map] at hb
    obtain ⟨col, hcol, rfl⟩ := hb
    refine ⟨padCols_length _ _ _, padCols_col_length n _ _ ?_⟩
    have hn := hia col hcol
    intro c hcm
    rw [← hn]
    exact siftLoop_lengths X thr _ col (hn ▸ hX) fuel [] col (resid_nil col).symm (by simp) c hcm
  · intro i col hi
    have hpos : 0 < cap.getD ia.length := by
      cases cap with
      | none =>
        have : i < ia.length := by
          apply Nat.lt_of_not_le; intro h; rw [List.getElem?_eq_none h] at hi; cases hi
        simp; omega
      | some k => cases k with
        | zero => exact absurd rfl hc
        | succ k => simp
    exact secondLayer_block _ n ia cap i col hi (sift_cols_le_cap X thr col fuel _ hpos)

/-! ### mask second layer (`mask_sift_second_layer`)

  `maskSecondLayer MS n ia nfreqs cap`: `MS ii k col` is the mask sift of first-layer column `ii` with the masks
  `mask_freqs[ii:]` and `max_imfs = k` (`none` = it raised); `nfreqs = len(mask_freqs)`. -/

/-- mask_sift_second_layer, when it returns, returns a [samples × first-layer components × cap] array (cap defaults
    to the number of first-layer components): one block for EVERY first-layer column, each exactly `cap` wide, all
    columns [samples] long — and it can only return when there is at least one mask per first-layer column. -/
theorem maskSecondLayer_shape (MS : Nat → Nat → Sig → Option (List Sig)) (n : Nat) (ia : List Sig) (nfreqs : Nat)
    (cap : Option Nat) (blocks : List (List Sig))
    (hS : ∀ i k col cols, MS i k col = some cols → ∀ c ∈ cols, c.length = n)
    (h : maskSecondLayer MS n ia nfreqs cap = .ok blocks) :
    blocks.length = ia.length ∧ ia.length ≤ nfreqs ∧
    ∀ blk ∈ blocks, blk.length = cap.getD ia.length ∧ ∀ c ∈ blk, c.length = n := by
  obtain ⟨h1, h2, h3⟩ := maskSecondLoop_ok MS n _ nfreqs ia 0 blocks h
  refine ⟨h1, ?_, ?_⟩
  · cases hl : ia.length with
    | zero => omega
    | succ m => have := h2 m (by omega); omega
  · intro blk hb
    obtain ⟨j, hj⟩ := List.getElem?_of_mem hb
    have hjl : j < ia.length := by
      rw [← h1]; apply Nat.lt_of_not_le; intro hge; rw [List.getElem?_eq_none hge] at hj; cases hj
    obtain ⟨cols, e1, e2⟩ := h3 j ia[j] (List.getElem?_eq_getElem hjl)
    rw [hj] at e2
    simp only [Option.some.injEq] at e2
    subst e2
    exact ⟨padCols_length _ _ _, padCols_col_length n _ _ (hS _ _ _ _ e1)⟩

/-- block i holds the mask sift of first-layer column i — taken with the masks `mask_freqs[i:]` (the highest-frequency
    mask dropped for each successive column) and the common cap — followed by zero columns. -/
theorem maskSecondLayer_block (MS : Nat → Nat → Sig → Option (List Sig)) (n : Nat) (ia : List Sig) (nfreqs : Nat)
    (cap : Option Nat) (blocks : List (List Sig)) (h : maskSecondLayer MS n ia nfreqs cap = .ok blocks)
    (i : Nat) (col : Sig) (hi : ia[i]? = some col) :
    ∃ cols blk, MS i (cap.getD ia.length) col = some cols ∧ blocks[i]? = some blk ∧
      (∀ j, j < cols.length → j < cap.getD ia.length → blk[j]? = cols[j]?) ∧
      (∀ j, cols.length ≤ j → j < cap.getD ia.length → blk[j]? = some (Sig.zeros n)) := by
  obtain ⟨_, _, h3⟩ := maskSecondLoop_ok MS n _ nfreqs ia 0 blocks h
  obtain ⟨cols, e1, e2⟩ := h3 i col hi
  rw [Nat.zero_add] at e1
  exact ⟨cols, _, e1, e2, fun j hj hk => padCols_getElem n _ _ j hj hk, fun j hj hk => padCols_zero n _ _ j hj hk⟩

/-- When does it return: exactly when there are at least as many masks as first-layer columns and no column's mask
    sift raises.  With fewer masks, the first column left without a mask (index `len(mask_freqs)`) raises IndexError
    — after the earlier columns have been sifted. -/
theorem maskSecondLayer_ok_iff (MS : Nat → Nat → Sig → Option (List Sig)) (n : Nat) (ia : List Sig) (nfreqs : Nat)
    (cap : Option Nat) :
    ((∃ blocks, maskSecondLayer MS n ia nfreqs cap = .ok blocks) ↔
      ia.length ≤ nfreqs ∧ ∀ i col, ia[i]? = some col → MS i (cap.getD ia.length) col ≠ none) ∧
    (nfreqs < ia.length → (∀ i col, i < nfreqs → ia[i]? = some col → MS i (cap.getD ia.length) col ≠ none) →
      maskSecondLayer MS n ia nfreqs cap = .indexError nfreqs) := by
  refine ⟨⟨?_, ?_⟩, ?_⟩
  · rintro ⟨blocks, h⟩
    obtain ⟨h1, h2, h3⟩ := maskSecondLoop_ok MS n _ nfreqs ia 0 blocks h
    refine ⟨?_, ?_⟩
    · cases hl : ia.length with
      | zero => omega
      | succ m => have := h2 m (by omega); omega
    · intro i col hi
      obtain ⟨cols, e1, _⟩ := h3 i col hi
      rw [Nat.zero_add] at e1
      simp [e1]
  · rintro ⟨hle, hm⟩
    exact maskSecondLoop_total MS n _ nfreqs ia 0 (fun j hj => by omega)
      (fun j col hj => by rw [Nat.zero_add]; exact hm j col hj)
  · intro hlt hm
    exact maskSecondLoop_exhausted MS n _ nfreqs ia 0 (Nat.zero_le _) (by omega)
      (fun j col hj hl => by rw [Nat.zero_add] at hj ⊢; exact hm j col hj hl)

/-- Composition with the mask sift of this model (`maskSiftCol`: `Sift.maskSift` on the masks left for the column):
    for any masked extraction meeting the contract `PeelOK`, a returning `mask_sift_second_layer` has the documented
    shape, and block `i` is the mask sift of first-layer column `i` followed by zero columns, where that sift has
    at most `cap` components and at most `len(mask_freqs) - i` (the masks left) — nothing is ever cut off. -/
theorem maskSecondLayer_over_maskSift (M : Nat → List Sig → Sig → Option (Sig × Bool)) (thr : Rat) (fuel n : Nat)
    (hM : ∀ i, PeelOK (M i) n) (ia : List Sig) (hia : ∀ c ∈ ia, c.length = n) (nfreqs : Nat) (cap : Option Nat)
    (hc : cap ≠ some 0) (blocks : List (List Sig))
    (h : maskSecondLayer (maskSiftCol M thr nfreqs fuel) n ia nfreqs cap = .ok blocks) :
    blocks.length = ia.length ∧ ia.length ≤ nfreqs ∧
    (∀ blk ∈ blocks, blk.length = cap.getD ia.length ∧ ∀ c ∈ blk, c.length = n) ∧
    ∀ (i : Nat) (col : Sig), ia[i]? = some col →
      ∃ blk, blocks[i]? = some blk ∧
        (maskSift (M i) thr (cap.getD ia.length) (some (nfreqs - i)) col fuel).1.length ≤ cap.getD ia.length ∧
        (maskSift (M i) thr (cap.getD ia.length) (some (nfreqs - i)) col fuel).1.length ≤ nfreqs - i ∧
        (∀ j : Nat, j < (maskSift (M i) thr (cap.getD ia.length) (some (nfreqs - i)) col fuel).1.length →
          blk[j]? = (maskSift (M i) thr (cap.getD ia.length) (some (nfreqs - i)) col fuel).1[j]?) ∧
        (∀ j : Nat, (maskSift (M i) thr (cap.getD ia.length) (some (nfreqs - i)) col fuel).1.length ≤ j →
          j < cap.getD ia.length → blk[j]? = some (Sig.zeros n)) := by
  have hcols : ∀ i k col, col ∈ ia → ∀ c ∈ (maskSift (M i) thr k (some (nfreqs - i)) col fuel).1, c.length = n := by
    intro i k col hcol c hcm
    have hn := hia col hcol
    rw [← hn]
    exact peelLoop_lengths (M i) thr _ col (hn ▸ hM i) fuel [] col (resid_nil col).symm (by simp) c hcm
  obtain ⟨h1, h2, h3⟩ := maskSecondLoop_ok _ n _ nfreqs ia 0 blocks h
  have hle : ia.length ≤ nfreqs := by
    cases hl : ia.length with
    | zero => omega
    | succ m => have := h2 m (by omega); omega
  refine ⟨h1, hle, ?_, ?_⟩
  · intro blk hb
    obtain ⟨j, hj⟩ := List.getElem?_of_mem hb
    have hjl : j < ia.length := by
      rw [← h1]; apply Nat.lt_of_not_le; intro hge; rw [List.getElem?_eq_none hge] at hj; cases hj
    obtain ⟨cols, e1, e2⟩ := h3 j ia[j] (List.getElem?_eq_getElem hjl)
    rw [hj] at e2
    simp only [Option.some.injEq] at e2
    subst e2
    refine ⟨padCols_length _ _ _, padCols_col_length n _ _ ?_⟩
    rw [maskSiftCol_some M thr nfreqs fuel _ _ _ cols e1]
    exact hcols _ _ _ (List.getElem_mem hjl)
  · intro i col hi
    have hil : i < ia.length := by
      apply Nat.lt_of_not_le; intro hge; rw [List.getElem?_eq_none hge] at hi; cases hi
    obtain ⟨cols, e1, e2⟩ := h3 i col hi
    rw [Nat.zero_add] at e1
    have hcs := maskSiftCol_some M thr nfreqs fuel _ _ _ cols e1
    have hpos : 0 < cap.getD ia.length := by
      cases cap with
      | none => simp; omega
      | some k => cases k with
        | zero => exact absurd rfl hc
        | succ k => simp
    have hcap := maskSift_cols_le_cap (M i) thr (cap.getD ia.length) (some (nfreqs - i)) col fuel hpos
      (fun m hm => by simp only [Option.some.injEq] at hm; omega)
    rw [← hcs]
    rw [← hcs] at hcap
    refine ⟨_, e2, hcap.1, hcap.2 _ rfl, ?_, ?_⟩
    · intro j hj; exact padCols_getElem n _ _ j hj (by omega)
    · intro j hj hk; exact padCols_zero n _ _ j hj hk

/-! ### Non-vacuity -/

/-- a table extractor that never clears the flag: layer k returns the constant column k+1 -/
def tabX : Nat → Sig → Option (Sig × Bool) := fun k p => some (p.map fun _ => (k + 1 : Rat), true)

example : (siftIx tabX 0 none [5, 7, 9] 4).1 = [[1, 1, 1], [2, 2, 2], [3, 3, 3], [4, 4, 4]] := by decide +kernel
example : (siftIx tabX 0 (some 2) [5, 7, 9] 4) = ([[1, 1, 1], [2, 2, 2]], .done false true false) := by decide +kernel
example : effCap 9 (some 3) = 3 ∧ effCap 2 (some 3) = 2 ∧ effCap 4 none = 4 := by decide
example : (maskSift (fun cols p => tabX cols.length p) 0 9 (some 3) [5, 7, 9] 6).1.length = 3 := by decide +kernel
example : ensembleCols 2 [[[1, 2], [3, 4]], [[3, 4]]] = [[2, 3], [3/2, 2]] := by decide +kernel
/-- an oscillating ensemble step (three maxima), so only the cap can stop the loop -/
def tabN : List Sig → Sig → Sig := fun cols _ => [0, 5, 0, 5, 0, 5, 0].map (· + (cols.length : Rat))
example : (ceemd tabN 0 (some 3) [0, 5, 0, 5, 0, 5, 0] 9).1.length = 3 := by decide +kernel
example : (ceemd tabN 0 (some 1) [0, 5, 0, 5, 0, 5, 0] 9).1.length = 1 := by decide +kernel
example : (ceemd tabN 0 none [0, 5, 0, 5, 0, 5, 0] 4).1.length = 5 := by decide +kernel
example : secondLayer (fun k col => [col, col].take k) 2 [[1, 2], [3, 4], [5, 6]] (some 3)
    = [[[1, 2], [1, 2], [0, 0]], [[3, 4], [3, 4], [0, 0]], [[5, 6], [5, 6], [0, 0]]] := by decide +kernel
/-- a masked extraction that never clears the flag: layer k of column ii returns the constant column ii+k+1 -/
def tabM : Nat → List Sig → Sig → Option (Sig × Bool) := fun ii cols p => some (p.map fun _ => (ii + cols.length + 1 : Rat), true)
-- three first-layer columns, three masks, default cap 3: column i keeps 3 - i masks (the staircase of the real code)
example : maskSecondLayer (maskSiftCol tabM 0 3 9) 2 [[1, 2], [3, 4], [5, 6]] 3 none
    = .ok [[[1, 1], [2, 2], [3, 3]], [[2, 2], [3, 3], [0, 0]], [[3, 3], [0, 0], [0, 0]]] := by decide +kernel
-- two masks for three columns: IndexError at column 2
example : maskSecondLayer (maskSiftCol tabM 0 2 9) 2 [[1, 2], [3, 4], [5, 6]] 2 none = .indexError 2 := by decide +kernel
-- five masks, cap 2: every block is full
example : maskSecondLayer (maskSiftCol tabM 0 5 9) 2 [[1, 2], [3, 4], [5, 6]] 5 (some 2)
    = .ok [[[1, 1], [2, 2]], [[2, 2], [3, 3]], [[3, 3], [4, 4]]] := by decide +kernel
example : ∀ i, PeelOK (tabM i) 2 :=
  fun i => ⟨fun cols p c f hp hx => by simp only [tabM, Option.some.injEq, Prod.mk.injEq] at hx; rw [← hx.1]; simpa using hp,
            fun cols p c hx => by simp [tabM] at hx⟩

end C03
