import Proofs.Lemmas.Spectra
namespace C11
theorem placeholder : True := trivial
end C11
