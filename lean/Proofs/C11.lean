/-
  C11 — the holospectrum bins jointly by carrier and amplitude-modulation frequency.
  Property theorems only (helper lemmas and the declarative spec `holoSpec` / `holoRowSpec`:
  Proofs/Lemmas/SpectraHolo.lean; `inBin`, `tab`: Proofs/Lemmas/Spectra.lean).

  All statements are about the executable model `EmdModel.Spectra` of `holospectrum`
  (digitise both frequencies, fold the two bin indices into one sparse column, scatter-add,
  optionally sum / average over time, reshape C-order to (L2+1, L1+1), trim [1:-1, 1:-1]),
  for all non-decreasing carrier and AM edge vectors, all frequency arrays (NaN = `none`),
  all amplitude arrays, both modes, every size.

  Edge orientation.  `np.digitize` also accepts DEcreasing edges, with the mirrored convention
  `edges[i-1] > v ≥ edges[i]` (NaN ↦ 0); the model follows it (`digitizeM`, theorem
  `decreasing_edges_digitize`), so the theorems without a sortedness hypothesis (`holo_sparse_in_shape`,
  `holo_shape`, `holo_sum_eq`, `holo_mean_eq`, `holo_energy_is_square`, `holo_nnz`) and the correspondence
  check cover decreasing edges too.  The histogram SPEC theorems (`holo_eq_spec`, `holo_total`,
  `holo_sparse_one_per_sample`) are stated for non-decreasing edges only: on decreasing edges bin b
  collects `edges[b+1] ≤ f < edges[b]` (cases tagged `outside-domain:decreasing-edges`).  Non-monotonic
  edges: ValueError (protocol handler).

  `squash_time`: the code tests `is False`, `== 'mean'`, `== 'sum'`; every other value raises TypeError
  after the sparse matrix is built (`squash_other_raises`); the mean over an empty time axis raises
  ZeroDivisionError (`mean_empty_raises`) — in ℚ `x / 0 = 0`, so `holo_mean_eq` is stated for `0 < T`.
-/
import Proofs.Lemmas.SpectraHolo

namespace C11
open Spectra

/-- The fold packs (carrier index `d1 ≤ L1`, AM index `d2`) into one column without loss:
    `idx / (L1+1) = d2` and `idx % (L1+1) = d1`. -/
theorem unfold_fold (L1 d1 d2 : Nat) (h : d1 ≤ L1) :
    foldIdx L1 d1 d2 / (L1 + 1) = d2 ∧ foldIdx L1 d1 d2 % (L1 + 1) = d1 :=
  Spectra.unfold_fold L1 d1 d2 h

/-- The digitised carrier index always satisfies the side condition of `unfold_fold`, and every sparse
    entry lies inside the `[T × (L1+1)(L2+1)]` matrix (so `coo_matrix` accepts all of them). -/
theorem holo_sparse_in_shape (e1 e2 : List Rat) (energy : Bool) (rows : List HoloRow) :
    (∀ f, digitizeM e1 f ≤ e1.length) ∧
    ∀ x ∈ holoCoo e1 e2 energy rows, x.row < rows.length ∧ x.col < holoCols e1 e2 := by
  refine ⟨digitizeM_le_length e1, ?_⟩
  intro x hx
  obtain ⟨i, r, h1, h2⟩ := mem_cooFrom _ x 0 _ hx
  have hi := (List.getElem?_eq_some_iff.mp h1).1
  have := holoRowTrips_row h2
  exact ⟨by omega, holoRowTrips_col h2⟩

/-- Full output = SPEC: cell `[t][a][c]` is
    `Σ_j Σ_k w(a2[t][j][k])·[e2[a] ≤ f2[t][j][k] < e2[a+1]]·[e1[c] ≤ f1[t][j] < e1[c+1]]`;
    a sample whose carrier or AM frequency is out of range (or NaN) reaches no cell. -/
theorem holo_eq_spec (e1 e2 : List Rat) (he1 : e1.Pairwise (· ≤ ·)) (he2 : e2.Pairwise (· ≤ ·))
    (energy : Bool) (rows : List HoloRow) :
    holo3d e1 e2 energy rows = holoSpec e1 e2 energy rows := by
  rw [holo3d_eq]
  unfold holoSpec
  rw [← map_range_getElem? rows (fun r => tab (e2.length - 1) (e1.length - 1) (holoRowSpec e1 e2 energy r)) []]
  apply List.map_congr_left
  intro t ht
  have ht' := List.mem_range.mp ht
  rw [List.getElem?_eq_getElem ht']
  simp only [Option.map_some, Option.getD_some]
  apply tab_congr
  intro a c ha hc
  rw [sumIf_holoCoo, List.getElem?_eq_getElem ht']
  simp only [Option.map_some, Option.getD_some]
  exact sumIf_holoRowTrips e1 e2 he1 he2 energy t rows[t] a c (by omega) (by omega)

/-- Shape: `[time × AM bins × carrier bins]` for the full output, `[AM bins × carrier bins]` for the
    time-summed and time-averaged outputs. -/
theorem holo_shape (e1 e2 : List Rat) (energy : Bool) (rows : List HoloRow) :
    (holo3d e1 e2 energy rows).length = rows.length ∧
    (∀ m ∈ holo3d e1 e2 energy rows, m.length = e2.length - 1 ∧ ∀ row ∈ m, row.length = e1.length - 1) ∧
    ((holoSum e1 e2 energy rows).length = e2.length - 1 ∧
      ∀ row ∈ holoSum e1 e2 energy rows, row.length = e1.length - 1) ∧
    ((holoMean e1 e2 energy rows).length = e2.length - 1 ∧
      ∀ row ∈ holoMean e1 e2 energy rows, row.length = e1.length - 1) := by
  have htab : ∀ (g : Nat → Nat → Rat), (tab (e2.length - 1) (e1.length - 1) g).length = e2.length - 1 ∧
      ∀ row ∈ tab (e2.length - 1) (e1.length - 1) g, row.length = e1.length - 1 := by
    intro g
    unfold tab
    refine ⟨by simp, ?_⟩
    intro row hrow
    obtain ⟨r, _, rfl⟩ := List.mem_map.mp hrow
    simp
  refine ⟨?_, ?_, ?_, ?_⟩
  · rw [holo3d_eq]; simp
  · intro m hm
    rw [holo3d_eq] at hm
    obtain ⟨t, _, rfl⟩ := List.mem_map.mp hm
    exact htab _
  · unfold holoSum
    rw [holoFlat_eq]
    have := colSums_tab rows.length (holoCols e1 e2) (fun t i => sumIf (holoCoo e1 e2 energy rows) t i)
    unfold tab at this
    rw [this, unfoldTrim_map_range]
    exact htab _
  · unfold holoMean
    rw [holoFlat_eq]
    have := colSums_tab rows.length (holoCols e1 e2) (fun t i => sumIf (holoCoo e1 e2 energy rows) t i)
    unfold tab at this
    rw [this, List.map_map, unfoldTrim_map_range]
    exact htab _

/-- `squash_time='sum'`: the output (computed on the sparse matrix before unfolding and trimming) equals
    the sum over time of the full output, cell by cell. -/
theorem holo_sum_eq (e1 e2 : List Rat) (energy : Bool) (rows : List HoloRow) :
    holoSum e1 e2 energy rows =
      tab (e2.length - 1) (e1.length - 1) fun a c =>
        ((holo3d e1 e2 energy rows).map fun m => cellAt m a c).sum := by
  unfold holoSum
  rw [holoFlat_eq]
  have := colSums_tab rows.length (holoCols e1 e2) (fun t i => sumIf (holoCoo e1 e2 energy rows) t i)
  unfold tab at this
  rw [this, unfoldTrim_map_range, holo3d_eq, ]
  apply tab_congr
  intro a c ha hc
  rw [List.map_map]
  apply sum_map_congr
  intro t _
  simp only [Function.comp_def]
  rw [cellAt_tab _ _ _ a c ha hc]

/-- `squash_time='mean'`: the output equals the mean over time of the full output, cell by cell — for at
    least one time sample (`_hT`; the code raises ZeroDivisionError on an empty time axis, see
    `mean_empty_raises`; the equation itself also holds at T = 0 in ℚ, where `x / 0 = 0`, but says nothing
    about the code there). -/
theorem holo_mean_eq (e1 e2 : List Rat) (energy : Bool) (rows : List HoloRow) (_hT : 0 < rows.length) :
    holoMean e1 e2 energy rows =
      tab (e2.length - 1) (e1.length - 1) fun a c =>
        ((holo3d e1 e2 energy rows).map fun m => cellAt m a c).sum / (rows.length : Rat) := by
  unfold holoMean
  rw [holoFlat_eq]
  have := colSums_tab rows.length (holoCols e1 e2) (fun t i => sumIf (holoCoo e1 e2 energy rows) t i)
  unfold tab at this
  rw [this, List.map_map, unfoldTrim_map_range, holo3d_eq]
  apply tab_congr
  intro a c ha hc
  simp only [Function.comp_def]
  congr 1
  rw [List.map_map]
  apply sum_map_congr
  intro t _
  simp only [Function.comp_def]
  rw [cellAt_tab _ _ _ a c ha hc]

/-- Exactly one cell, or none: the full output sums to the total weight of the samples whose carrier
    frequency lies in `[e1[0], e1[last])` AND whose AM frequency lies in `[e2[0], e2[last])`; a sample
    with either frequency out of range (below, at/above the last edge, negative, NaN) contributes nothing. -/
theorem holo_total (e1 e2 : List Rat) (he1 : e1.Pairwise (· ≤ ·)) (he2 : e2.Pairwise (· ≤ ·))
    (energy : Bool) (rows : List HoloRow) :
    ((holo3d e1 e2 energy rows).map fun m => (m.map List.sum).sum).sum =
      (rows.map fun r =>
        ((List.zip r.f1 (List.zip r.f2 r.a2)).map fun x =>
          ((List.zip x.2.1 x.2.2).map fun fa =>
            if inRange e2 fa.1 && inRange e1 x.1 then weight energy fa.2 else 0).sum).sum).sum := by
  rw [holo_eq_spec e1 e2 he1 he2]
  unfold holoSpec
  rw [List.map_map]
  apply sum_map_congr
  intro r _
  exact holoRowSpec_total e1 e2 he1 he2 energy r

/-- Energy mode squares the amplitude: the energy holospectrum is the amplitude holospectrum of the
    squared second-level amplitudes, for the sparse entries and all three `squash_time` settings. -/
theorem holo_energy_is_square (e1 e2 : List Rat) (rows : List HoloRow) :
    holoCoo e1 e2 true rows = holoCoo e1 e2 false (rows.map sqRow) ∧
    holo3d e1 e2 true rows = holo3d e1 e2 false (rows.map sqRow) ∧
    holoSum e1 e2 true rows = holoSum e1 e2 false (rows.map sqRow) ∧
    holoMean e1 e2 true rows = holoMean e1 e2 false (rows.map sqRow) := by
  have hc := holoCoo_sq e1 e2 rows
  have hf : holoFlat e1 e2 true rows = holoFlat e1 e2 false (rows.map sqRow) := by
    unfold holoFlat; rw [hc, List.length_map]
  refine ⟨hc, ?_, ?_, ?_⟩
  · unfold holo3d; rw [hf]
  · unfold holoSum; rw [hf]
  · unfold holoMean; rw [hf, List.length_map]

/-! ## One sparse entry per sample -/

/-- The sparse matrix holds exactly one entry per second-level sample (in range or not: an out-of-range
    sample sits in a margin column that the final trim removes), and the entries that survive the trim
    `[1:-1, 1:-1]` are exactly the samples whose carrier AND AM frequency are in range — one entry per
    in-range sample (the analogue of `C10.hht_sparse_one_per_sample`). -/
theorem holo_sparse_one_per_sample (e1 e2 : List Rat) (he1 : e1.Pairwise (· ≤ ·)) (he2 : e2.Pairwise (· ≤ ·))
    (energy : Bool) (rows : List HoloRow) :
    (holoCoo e1 e2 energy rows).length = (rows.map rowSamples).sum ∧
    (holoCoo e1 e2 energy rows).countP (interior e1 e2) =
      (rows.map fun r => ((List.zip r.f1 (List.zip r.f2 r.a2)).map fun x =>
        (List.zip x.2.1 x.2.2).countP fun fa => inRange e2 fa.1 && inRange e1 x.1).sum).sum := by
  unfold holoCoo
  exact ⟨length_cooFrom _ _ (fun t r => length_holoRowTrips e1 e2 energy t r) 0 rows,
    countP_cooFrom _ _ _ (fun t r => countP_interior_holoRowTrips e1 e2 he1 he2 energy t r) 0 rows⟩

/-- On rectangular input `[T × M]`, `[T × M × K]`, `[T × M × K]` the sparse matrix has `T·M·K` entries: no
    sample is dropped (edges of either orientation). -/
theorem holo_nnz (e1 e2 : List Rat) (energy : Bool) (M K : Nat) (rows : List HoloRow) (h : Rect M K rows) :
    (holoCoo e1 e2 energy rows).length = rows.length * M * K := by
  unfold holoCoo
  rw [length_cooFrom _ _ (fun t r => length_holoRowTrips e1 e2 energy t r) 0 rows,
    sum_map_const rows rowSamples (M * K), Nat.mul_assoc]
  intro r hr
  obtain ⟨h1, h2, h3, h4, h5⟩ := h r hr
  exact rowSamples_rect M K r h1 h2 h3 h4 h5

/-! ## Decreasing edges, other `squash_time` values, empty time axis -/

/-- What the model (and `np.digitize`) does on a DEcreasing edge vector that is not also non-decreasing:
    the index is `b + 1` exactly for `e[b+1] ≤ v < e[b]`, NaN gets index 0, every index is ≤ len(e).  So
    on decreasing edges output bin b is the interval between edges b and b+1 again, closed at its lower
    end `e[b+1]`. -/
theorem decreasing_edges_digitize (e : List Rat) (hle : sortedLe e = false) (hge : sortedGe e = true) :
    (∀ (v : Rat) (b : Nat) (hb : b + 1 < e.length), digitizeM e (some v) = b + 1 ↔ e[b + 1] ≤ v ∧ v < e[b]) ∧
    digitizeM e none = 0 ∧ ∀ f, digitizeM e f ≤ e.length := by
  refine ⟨fun v b hb => ?_, by simp [digitizeM, hle, digitizeDecF], digitizeM_le_length e⟩
  simp only [digitizeM, hle, Bool.false_eq_true, ite_false, digitizeDecF]
  exact digitizeDec_spec e (pairwise_ge_of_sortedGe e hge) v b hb

/-- On non-decreasing edges the model's digitiser is the increasing-edge one used by the SPEC theorems. -/
theorem increasing_edges_digitize (e : List Rat) (he : e.Pairwise (· ≤ ·)) (f : Freq) :
    digitizeM e f = digitizeF e f := digitizeM_of_pairwise e he f

/-- A `squash_time` that is none of `False`, `'sum'`, `'mean'` (e.g. `True`, `0`, `None`, `'Sum'`) raises
    TypeError (the code subscripts the still-sparse matrix), whatever the data. -/
theorem squash_other_raises (e1 e2 : List Rat) (energy : Bool) (rows : List HoloRow) :
    holoOut .other e1 e2 energy rows = .error .typeError := rfl

/-- The mean over an empty time axis raises ZeroDivisionError; with at least one time sample the three
    recognised settings return the three outputs characterised above. -/
theorem mean_empty_raises (e1 e2 : List Rat) (energy : Bool) (rows : List HoloRow) :
    (holoOut .mean e1 e2 energy rows = .error .zeroDivision ↔ rows.length = 0) ∧
    (0 < rows.length → holoOut .mean e1 e2 energy rows = .ok (.flat (holoMean e1 e2 energy rows))) ∧
    holoOut .sum e1 e2 energy rows = .ok (.flat (holoSum e1 e2 energy rows)) ∧
    holoOut .full e1 e2 energy rows = .ok (.full (holo3d e1 e2 energy rows)) := by
  refine ⟨?_, ?_, rfl, rfl⟩
  · unfold holoOut
    by_cases h : rows.length = 0 <;> simp [h]
  · intro h
    unfold holoOut
    simp only []
    rw [if_neg (by omega)]

/-! Non-vacuity: 2 time rows, 2 first-level IMFs, 2 second-level IMFs, independent bin sets
    (3 carrier bins, 2 AM bins), frequencies in range, on edges, out of range and NaN. -/
def exRows : List HoloRow :=
  [⟨[some (3/2), some 5], [[some 1, some (1/2)], [some 1, some 1]], [[1, 2], [4, 8]]⟩,
   ⟨[some 2, some 3], [[some 0, some 2], [none, some (3/2)]], [[3, 5], [7, 2]]⟩]
example : ([1, 2, 3, 4] : List Rat).Pairwise (· ≤ ·) ∧ ([0, 1, 2] : List Rat).Pairwise (· ≤ ·) := by
  constructor <;> decide +kernel
example : holo3d [1, 2, 3, 4] [0, 1, 2] true exRows =
    [[[4, 0, 0], [1, 0, 0]], [[0, 9, 0], [0, 0, 4]]] := by decide +kernel
example : holoSum [1, 2, 3, 4] [0, 1, 2] true exRows = [[4, 9, 0], [1, 0, 4]] := by decide +kernel
example : holoMean [1, 2, 3, 4] [0, 1, 2] false exRows = [[1, 3/2, 0], [1/2, 0, 1]] := by decide +kernel
example : Rect 2 2 exRows := by
  intro r hr
  simp only [exRows, List.mem_cons, List.not_mem_nil, or_false] at hr
  rcases hr with rfl | rfl <;> simp
example : (holoCoo [1, 2, 3, 4] [0, 1, 2] true exRows).length = 2 * 2 * 2 := by decide +kernel
-- 4 of the 8 samples are in range on both axes: 4 entries survive the trim
example : (holoCoo [1, 2, 3, 4] [0, 1, 2] true exRows).countP (interior [1, 2, 3, 4] [0, 1, 2]) = 4 := by decide +kernel
/-- Decreasing carrier edges (checked against the real code, c11.py corpus `decreasing-edges`):
    `holospectrum(F1, F2, A2, [3,2,1], [0,1,2], mode='amplitude', squash_time=False)` with
    F1 = [[1.5,2.5],[3.0,0.5]], F2 = [[[0.5,1.5],[1.0,2.0]],[[0.0,1.2],[nan,0.1]]], A2 = 1,2,4,…,128. -/
def decRows : List HoloRow :=
  [⟨[some (3/2), some (5/2)], [[some (1/2), some (3/2)], [some 1, some 2]], [[1, 2], [4, 8]]⟩,
   ⟨[some 3, some (1/2)], [[some 0, some (6/5)], [none, some (1/10)]], [[16, 32], [64, 128]]⟩]
example : sortedLe [3, 2, 1] = false ∧ sortedGe [3, 2, 1] = true := by constructor <;> decide +kernel
example : holo3d [3, 2, 1] [0, 1, 2] false decRows = [[[0, 1], [4, 2]], [[0, 0], [0, 0]]] := by decide +kernel
example : holoSum [1, 2, 3] [2, 1, 0] false decRows = [[2, 4], [1, 0]] := by decide +kernel

end C11
