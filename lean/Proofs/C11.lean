/-
  C11 — the holospectrum bins jointly by carrier and amplitude-modulation frequency.
  Property theorems only (helper lemmas and the declarative spec `holoSpec` / `holoRowSpec`:
  Proofs/Lemmas/SpectraHolo.lean; `inBin`, `tab`: Proofs/Lemmas/Spectra.lean).

  All statements are about the executable model `EmdModel.Spectra` of `holospectrum`
  (digitise both frequencies, fold the two bin indices into one sparse column, scatter-add,
  optionally sum / average over time, reshape C-order to (L2+1, L1+1), trim [1:-1, 1:-1]),
  for all non-decreasing carrier and AM edge vectors, all frequency arrays (NaN = `none`),
  all amplitude arrays, both modes, every size.
-/
import Proofs.Lemmas.SpectraHolo

namespace C11
open Spectra

/-- The fold packs (carrier index `d1 ≤ L1`, AM index `d2`) into one column without loss:
    `idx / (L1+1) = d2` and `idx % (L1+1) = d1`. -/
theorem unfold_fold (L1 d1 d2 : Nat) (h : d1 ≤ L1) :
    foldIdx L1 d1 d2 / (L1 + 1) = d2 ∧ foldIdx L1 d1 d2 % (L1 + 1) = d1 :=
  Spectra.unfold_fold L1 d1 d2 h

/-- The digitised carrier index always satisfies the side condition of `unfold_fold`, and every sparse
    entry lies inside the `[T × (L1+1)(L2+1)]` matrix (so `coo_matrix` accepts all of them). -/
theorem holo_sparse_in_shape (e1 e2 : List Rat) (energy : Bool) (rows : List HoloRow) :
    (∀ f, digitizeF e1 f ≤ e1.length) ∧
    ∀ x ∈ holoCoo e1 e2 energy rows, x.row < rows.length ∧ x.col < holoCols e1 e2 := by
  refine ⟨digitizeF_le_length e1, ?_⟩
  intro x hx
  obtain ⟨i, r, h1, h2⟩ := mem_cooFrom _ x 0 _ hx
  have hi := (List.getElem?_eq_some_iff.mp h1).1
  have := holoRowTrips_row h2
  exact ⟨by omega, holoRowTrips_col h2⟩

/-- Full output = SPEC: cell `[t][a][c]` is
    `Σ_j Σ_k w(a2[t][j][k])·[e2[a] ≤ f2[t][j][k] < e2[a+1]]·[e1[c] ≤ f1[t][j] < e1[c+1]]`;
    a sample whose carrier or AM frequency is out of range (or NaN) reaches no cell. -/
theorem holo_eq_spec (e1 e2 : List Rat) (he1 : e1.Pairwise (· ≤ ·)) (he2 : e2.Pairwise (· ≤ ·))
    (energy : Bool) (rows : List HoloRow) :
    holo3d e1 e2 energy rows = holoSpec e1 e2 energy rows := by
  rw [holo3d_eq]
  unfold holoSpec
  rw [← map_range_getElem? rows (fun r => tab (e2.length - 1) (e1.length - 1) (holoRowSpec e1 e2 energy r)) []]
  apply List.map_congr_left
  intro t ht
  have ht' := List.mem_range.mp ht
  rw [List.getElem?_eq_getElem ht']
  simp only [Option.map_some, Option.getD_some]
  apply tab_congr
  intro a c ha hc
  rw [sumIf_holoCoo, List.getElem?_eq_getElem ht']
  simp only [Option.map_some, Option.getD_some]
  exact sumIf_holoRowTrips e1 e2 he1 he2 energy t rows[t] a c (by omega) (by omega)

/-- Shape: `[time × AM bins × carrier bins]` for the full output, `[AM bins × carrier bins]` for the
    time-summed and time-averaged outputs. -/
theorem holo_shape (e1 e2 : List Rat) (energy : Bool) (rows : List HoloRow) :
    (holo3d e1 e2 energy rows).length = rows.length ∧
    (∀ m ∈ holo3d e1 e2 energy rows, m.length = e2.length - 1 ∧ ∀ row ∈ m, row.length = e1.length - 1) ∧
    ((holoSum e1 e2 energy rows).length = e2.length - 1 ∧
      ∀ row ∈ holoSum e1 e2 energy rows, row.length = e1.length - 1) ∧
    ((holoMean e1 e2 energy rows).length = e2.length - 1 ∧
      ∀ row ∈ holoMean e1 e2 energy rows, row.length = e1.length - 1) := by
  have htab : ∀ (g : Nat → Nat → Rat), (tab (e2.length - 1) (e1.length - 1) g).length = e2.length - 1 ∧
      ∀ row ∈ tab (e2.length - 1) (e1.length - 1) g, row.length = e1.length - 1 := by
    intro g
    unfold tab
    refine ⟨by simp, ?_⟩
    intro row hrow
    obtain ⟨r, _, rfl⟩ := List.mem_map.mp hrow
    simp
  refine ⟨?_, ?_, ?_, ?_⟩
  · rw [holo3d_eq]; simp
  · intro m hm
    rw [holo3d_eq] at hm
    obtain ⟨t, _, rfl⟩ := List.mem_map.mp hm
    exact htab _
  · unfold holoSum
    rw [holoFlat_eq]
    have := colSums_tab rows.length (holoCols e1 e2) (fun t i => sumIf (holoCoo e1 e2 energy rows) t i)
    unfold tab at this
    rw [this, unfoldTrim_map_range]
    exact htab _
  · unfold holoMean
    rw [holoFlat_eq]
    have := colSums_tab rows.length (holoCols e1 e2) (fun t i => sumIf (holoCoo e1 e2 energy rows) t i)
    unfold tab at this
    rw [this, List.map_map, unfoldTrim_map_range]
    exact htab _

/-- `squash_time='sum'`: the output (computed on the sparse matrix before unfolding and trimming) equals
    the sum over time of the full output, cell by cell. -/
theorem holo_sum_eq (e1 e2 : List Rat) (energy : Bool) (rows : List HoloRow) :
    holoSum e1 e2 energy rows =
      tab (e2.length - 1) (e1.length - 1) fun a c =>
        ((holo3d e1 e2 energy rows).map fun m => cellAt m a c).sum := by
  unfold holoSum
  rw [holoFlat_eq]
  have := colSums_tab rows.length (holoCols e1 e2) (fun t i => sumIf (holoCoo e1 e2 energy rows) t i)
  unfold tab at this
  rw [this, unfoldTrim_map_range, holo3d_eq, ]
  apply tab_congr
  intro a c ha hc
  rw [List.map_map]
  apply sum_map_congr
  intro t _
  simp only [Function.comp_def]
  rw [cellAt_tab _ _ _ a c ha hc]

/-- `squash_time='mean'`: the output equals the mean over time of the full output, cell by cell. -/
theorem holo_mean_eq (e1 e2 : List Rat) (energy : Bool) (rows : List HoloRow) :
    holoMean e1 e2 energy rows =
      tab (e2.length - 1) (e1.length - 1) fun a c =>
        ((holo3d e1 e2 energy rows).map fun m => cellAt m a c).sum / (rows.length : Rat) := by
  unfold holoMean
  rw [holoFlat_eq]
  have := colSums_tab rows.length (holoCols e1 e2) (fun t i => sumIf (holoCoo e1 e2 energy rows) t i)
  unfold tab at this
  rw [this, List.map_map, unfoldTrim_map_range, holo3d_eq]
  apply tab_congr
  intro a c ha hc
  simp only [Function.comp_def]
  congr 1
  rw [List.map_map]
  apply sum_map_congr
  intro t _
  simp only [Function.comp_def]
  rw [cellAt_tab _ _ _ a c ha hc]

/-- Exactly one cell, or none: the full output sums to the total weight of the samples whose carrier
    frequency lies in `[e1[0], e1[last])` AND whose AM frequency lies in `[e2[0], e2[last])`; a sample
    with either frequency out of range (below, at/above the last edge, negative, NaN) contributes nothing. -/
theorem holo_total (e1 e2 : List Rat) (he1 : e1.Pairwise (· ≤ ·)) (he2 : e2.Pairwise (· ≤ ·))
    (energy : Bool) (rows : List HoloRow) :
    ((holo3d e1 e2 energy rows).map fun m => (m.map List.sum).sum).sum =
      (rows.map fun r =>
        ((List.zip r.f1 (List.zip r.f2 r.a2)).map fun x =>
          ((List.zip x.2.1 x.2.2).map fun fa =>
            if inRange e2 fa.1 && inRange e1 x.1 then weight energy fa.2 else 0).sum).sum).sum := by
  rw [holo_eq_spec e1 e2 he1 he2]
  unfold holoSpec
  rw [List.map_map]
  apply sum_map_congr
  intro r _
  exact holoRowSpec_total e1 e2 he1 he2 energy r

/-- Energy mode squares the amplitude: the energy holospectrum is the amplitude holospectrum of the
    squared second-level amplitudes, for the sparse entries and all three `squash_time` settings. -/
theorem holo_energy_is_square (e1 e2 : List Rat) (rows : List HoloRow) :
    holoCoo e1 e2 true rows = holoCoo e1 e2 false (rows.map sqRow) ∧
    holo3d e1 e2 true rows = holo3d e1 e2 false (rows.map sqRow) ∧
    holoSum e1 e2 true rows = holoSum e1 e2 false (rows.map sqRow) ∧
    holoMean e1 e2 true rows = holoMean e1 e2 false (rows.map sqRow) := by
  have hc := holoCoo_sq e1 e2 rows
  have hf : holoFlat e1 e2 true rows = holoFlat e1 e2 false (rows.map sqRow) := by
    unfold holoFlat; rw [hc, List.length_map]
  refine ⟨hc, ?_, ?_, ?_⟩
  · unfold holo3d; rw [hf]
  · unfold holoSum; rw [hf]
  · unfold holoMean; rw [hf, List.length_map]

/-! Non-vacuity: 2 time rows, 2 first-level IMFs, 2 second-level IMFs, independent bin sets
    (3 carrier bins, 2 AM bins), frequencies in range, on edges, out of range and NaN. -/
def exRows : List HoloRow :=
  [⟨[some (3/2), some 5], [[some 1, some (1/2)], [some 1, some 1]], [[1, 2], [4, 8]]⟩,
   ⟨[some 2, some 3], [[some 0, some 2], [none, some (3/2)]], [[3, 5], [7, 2]]⟩]
example : ([1, 2, 3, 4] : List Rat).Pairwise (· ≤ ·) ∧ ([0, 1, 2] : List Rat).Pairwise (· ≤ ·) := by
  constructor <;> decide +kernel
example : holo3d [1, 2, 3, 4] [0, 1, 2] true exRows =
    [[[4, 0, 0], [1, 0, 0]], [[0, 9, 0], [0, 0, 4]]] := by decide +kernel
example : holoSum [1, 2, 3, 4] [0, 1, 2] true exRows = [[4, 9, 0], [1, 0, 4]] := by decide +kernel
example : holoMean [1, 2, 3, 4] [0, 1, 2] false exRows = [[1, 3/2, 0], [1/2, 0, 1]] := by decide +kernel

end C11
