import EmdModel.Basic
import EmdModel.Protocol
import EmdModel.Driver
import EmdModel.Cycles
