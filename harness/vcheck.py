"""Entry point of every registered check: ./vcheck Cxx --tier quick|thorough [--replay file]."""
import argparse
import importlib
import json
import os
import sys

HERE = os.path.dirname(os.path.abspath(__file__))
REPO = os.environ.get('EMD_REPO', '/repo')
# the implementation under test is /repo's current working tree
sys.path.insert(0, REPO)
sys.path.insert(1, HERE)
sys.dont_write_bytecode = True


def main():
    ap = argparse.ArgumentParser()
    ap.add_argument('prop')
    ap.add_argument('--tier', default=os.environ.get('VERIF_TIER', 'quick'), choices=['quick', 'thorough'])
    ap.add_argument('--replay', default=None)
    ap.add_argument('--workers', type=int, default=None)
    a = ap.parse_args()
    seed = int(os.environ.get('VERIF_SEED', '20260926'))
    from common import framework, lean
    import warnings
    warnings.filterwarnings('ignore')
    try:
        import emd  # noqa: F401
        if not os.path.abspath(emd.__file__).startswith(os.path.abspath(REPO)):
            print('infrastructure error: emd imported from %s, not %s' % (emd.__file__, REPO))
            return 2
        prop = importlib.import_module('props.' + a.prop.lower())
        replay = None
        if a.replay:
            replay = json.load(open(a.replay))
            if replay.get('case') is None:
                print('replay file names a broken obligation, not an input:')
                print(json.dumps(replay.get('broken'), indent=1, default=str)[:3000])
                replay = None
        return framework.run_check(prop, a.tier, seed, replay=replay, workers=a.workers)
    except lean.InfraError as e:
        print('infrastructure error (not a violation): %s' % e)
        return 2


if __name__ == '__main__':
    rc = main()
    sys.stdout.flush()
    sys.stderr.flush()
    os._exit(rc)   # skip finalizers of pools the library leaves open (noise on stderr only)
