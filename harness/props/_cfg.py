"""Shared pieces of the configuration / option-routing checks (C18, C06).

Wire format of a Python option value (mirrors EmdModel/Config.lean):
    N | B0 | B1 | I<int> | R<num>[:<den>] | S<cp>.<cp>... | L<n> t... | U<n> t... | A<n> t... | D<n> (S.. t)...
    | Jb0 | Jb1 | Ji<dtype>:<int> | Jf<dtype>:<num>[:<den>]      (numpy scalars stored as option values)
comma separated, prefix coded.  Floats are exact rationals; ints, floats and bools stay distinct.

JSON form of a value inside a case dict (cases must be JSON-able):
    scalars / None as themselves, lists as lists,
    {"$": "tuple", "v": [...]}, {"$": "array", "v": [...]}, {"$": "dict", "v": [[key, value], ...]},
    {"$": "np", "t": "<dtype name>", "v": <python scalar>}   (a numpy scalar, e.g. np.float64(0.1))
"""
import copy
import math
from fractions import Fraction

import numpy as np


class Unencodable(Exception):
    pass


# ---------------------------------------------------------------- JSON form <-> Python object

def build(j):
    """JSON form -> fresh Python object (no sharing between calls)."""
    if isinstance(j, dict):
        tag = j['$']
        if tag == 'tuple':
            return tuple(build(x) for x in j['v'])
        if tag == 'array':
            return np.array(j['v'])
        if tag == 'dict':
            return {k: build(v) for k, v in j['v']}
        if tag == 'np':
            return np.dtype(j['t']).type(j['v'])
        raise ValueError(tag)
    if isinstance(j, list):
        return [build(x) for x in j]
    return j


def jform(o):
    """Python object -> JSON form."""
    if isinstance(o, dict):
        return {'$': 'dict', 'v': [[k, jform(v)] for k, v in o.items()]}
    if isinstance(o, tuple):
        return {'$': 'tuple', 'v': [jform(x) for x in o]}
    if isinstance(o, np.ndarray):
        return {'$': 'array', 'v': o.tolist()}
    if isinstance(o, list):
        return [jform(x) for x in o]
    if isinstance(o, (np.bool_, np.integer, np.floating)):
        return {'$': 'np', 't': o.dtype.name, 'v': o.item()}
    if isinstance(o, np.generic):
        return o.item()
    return o


# ---------------------------------------------------------------- Python object -> wire

def _rat(f):
    if math.isnan(f) or math.isinf(f):
        raise Unencodable('non-finite float')
    n, d = float(f).as_integer_ratio()
    return 'R%d' % n if d == 1 else 'R%d:%d' % (n, d)


def _str(s):
    return 'S' + '.'.join(str(ord(c)) for c in s)


def toks(o, in_array=False):
    if o is None:
        return ['N']
    if isinstance(o, (bool, np.bool_)) and (in_array or isinstance(o, bool)):
        return ['B1' if o else 'B0']
    if (isinstance(o, int) and not isinstance(o, np.generic)) or (in_array and isinstance(o, np.integer)):
        return ['I%d' % int(o)]
    if (isinstance(o, float) and not isinstance(o, np.generic)) or (in_array and isinstance(o, np.floating)):
        return [_rat(float(o))]
    if isinstance(o, str):
        return [_str(o)]
    # numpy scalars stored directly as option values (np.float64 IS a float subclass: tested before `float` above
    # only inside arrays, where tolist() semantics apply)
    if isinstance(o, np.bool_):
        return ['Jb1' if o else 'Jb0']
    if isinstance(o, np.integer):
        return ['Ji%s:%d' % (o.dtype.name, int(o))]
    if isinstance(o, np.floating) and o.dtype.itemsize <= 8:
        return ['Jf%s:%s' % (o.dtype.name, _rat(float(o))[1:])]
    if isinstance(o, list):
        out = ['L%d' % len(o)]
        for x in o:
            out += toks(x)
        return out
    if isinstance(o, tuple):
        out = ['U%d' % len(o)]
        for x in o:
            out += toks(x)
        return out
    if isinstance(o, np.ndarray):
        if o.ndim == 0:
            raise Unencodable('0-d array')
        out = ['A%d' % o.shape[0]]
        for x in o:
            out += toks(x, in_array=True)
        return out
    if isinstance(o, dict):
        out = ['D%d' % len(o)]
        for k, v in o.items():
            if not isinstance(k, str):
                raise Unencodable('non-string key %r' % (k,))
            out.append(_str(k))
            out += toks(v)
        return out
    raise Unencodable('%s' % type(o).__name__)


def wire(o):
    return ','.join(toks(o))


def wire_key(s):
    return _str(s)


def safe_wire(o):
    """wire(o), or a marker when the object is outside the modelled value universe."""
    try:
        return wire(o)
    except Unencodable as e:
        return '?unencodable:%s' % e


# ---------------------------------------------------------------- wire -> Python object

def _unstr(body):
    return '' if body == '' else ''.join(chr(int(c)) for c in body.split('.'))


def _parse(ts, i):
    t = ts[i]
    h, body = t[0], t[1:]
    if t == 'N':
        return None, i + 1
    if t == 'B0':
        return False, i + 1
    if t == 'B1':
        return True, i + 1
    if h == 'I':
        return int(body), i + 1
    if h == 'R':
        if ':' in body:
            n, d = body.split(':')
            return float(Fraction(int(n), int(d))), i + 1
        return float(int(body)), i + 1
    if h == 'S':
        return _unstr(body), i + 1
    if h == 'J':
        if body[0] == 'b':
            return np.bool_(body[1] == '1'), i + 1
        parts = body[1:].split(':')
        if body[0] == 'i':
            return np.dtype(parts[0]).type(int(parts[1])), i + 1
        return np.dtype(parts[0]).type(float(Fraction(int(parts[1]), int(parts[2]) if len(parts) > 2 else 1))), i + 1
    if h in 'LUA':
        n = int(body)
        xs = []
        i += 1
        for _ in range(n):
            x, i = _parse(ts, i)
            xs.append(x)
        return (xs if h == 'L' else tuple(xs) if h == 'U' else np.array(xs)), i
    if h == 'D':
        n = int(body)
        d = {}
        i += 1
        for _ in range(n):
            k, i = _parse(ts, i)
            v, i = _parse(ts, i)
            d[k] = v
        return d, i
    raise ValueError('bad token %r' % t)


def unwire(s):
    o, i = _parse(s.split(','), 0)
    assert i == len(s.split(','))
    return o


# ---------------------------------------------------------------- independent oracles

def forget_kinds(o):
    """tuples / arrays -> lists, recursively ("tuples may become lists")."""
    if isinstance(o, np.ndarray):
        return forget_kinds(o.tolist())
    if isinstance(o, (list, tuple)):
        return [forget_kinds(x) for x in o]
    if isinstance(o, dict):
        return {k: forget_kinds(v) for k, v in o.items()}
    if isinstance(o, np.generic):
        return o.item()
    return o


def typed_equal(a, b):
    """Equality that distinguishes 1 / 1.0 / True, list / tuple / array, and dict order."""
    return safe_wire(a) == safe_wire(b)


def has_array(o):
    if isinstance(o, np.ndarray):
        return True
    if isinstance(o, (list, tuple)):
        return any(has_array(x) for x in o)
    if isinstance(o, dict):
        return any(has_array(v) for v in o.values())
    return False


def is_plain(o, top=True):
    """The value universe of the property: scalars, None, lists/tuples without arrays, arrays of
    scalars, dictionaries of such values."""
    if isinstance(o, dict):
        return all(isinstance(k, str) and is_plain(v) for k, v in o.items())
    if isinstance(o, np.ndarray):
        return o.dtype.kind in 'fib' and o.ndim >= 1
    if isinstance(o, (list, tuple)):
        return not has_array(o) and all(_encodable(x) for x in o)
    return _encodable(o)


def _encodable(o):
    try:
        toks(o)
        return True
    except Unencodable:
        return False


def deep(o):
    return copy.deepcopy(o)


# ---------------------------------------------------------------- random option values

WORDS = ['sd', 'rilling', 'fixed', 'splrep', 'pchip', 'mono_pchip', 'reflect', 'odd', 'median', '',
         'a b', 'null', '1', 'true', '~', 'x: y', '- z', "it's", 'ünï', '#c', '1e3', 'Unknown']
FLOATS = [0.0, 1.0, -1.0, 0.5, 0.1, 0.05, 1e-8, 1 / 3, 2.5e10, -7.25, 1e-300, 123456.789]
INTS = [0, 1, 2, 3, -1, 4, 1000, 10 ** 12]


NP_FLOATS = [0.1, 0.05, 0.5, 1.0, 0.0, -7.25, 1e-8, 2.5e10, 1 / 3]


def rand_np_scalar(rng):
    """JSON form of a numpy scalar (values computed with numpy are the usual way such option values arise)."""
    r = rng.random()
    if r < 0.4:
        return {'$': 'np', 't': 'float64', 'v': rng.choice(NP_FLOATS)}
    if r < 0.55:
        return {'$': 'np', 't': rng.choice(['float32', 'float16']), 'v': rng.choice([0.5, 0.25, 1.0, 0.0, -2.0, 3.0])}
    if r < 0.65:
        # a float32 whose value is not a short decimal: float(np.float32(0.1)) = 0.10000000149011612
        return {'$': 'np', 't': 'float32', 'v': float(np.float32(rng.choice([0.1, 0.05, 1 / 3])))}
    if r < 0.88:
        return {'$': 'np', 't': rng.choice(['int64', 'int64', 'int32', 'uint8']), 'v': rng.choice([0, 1, 2, 3, 4, 100])}
    return {'$': 'np', 't': 'bool', 'v': rng.choice([True, False])}


def rand_scalar(rng, np_scalars=0.0):
    if np_scalars and rng.random() < np_scalars:
        return rand_np_scalar(rng)
    r = rng.random()
    if r < 0.12:
        return None
    if r < 0.24:
        return rng.choice([True, False])
    if r < 0.45:
        return rng.choice(INTS)
    if r < 0.75:
        return rng.choice(FLOATS) if rng.random() < 0.7 else rng.uniform(-10, 10)
    return rng.choice(WORDS)


def rand_value(rng, depth=2, plain_only=True, np_scalars=0.0):
    """JSON form of a random option value (`np_scalars`: probability of a numpy scalar where a scalar is drawn)."""
    if np_scalars:
        return _rand_value_np(rng, depth, plain_only, np_scalars)
    r = rng.random()
    if r < 0.35 or depth <= 0:
        return rand_scalar(rng)
    if r < 0.5:
        return [rand_scalar(rng) for _ in range(rng.randint(0, 4))]
    if r < 0.62:
        return {'$': 'tuple', 'v': [rand_scalar(rng) for _ in range(rng.randint(0, 4))]}
    if r < 0.78:
        kind = rng.random()
        n = rng.randint(1, 5)
        if kind < 0.5:
            v = [rng.choice(FLOATS) for _ in range(n)]
        elif kind < 0.75:
            v = [rng.choice(INTS[:7]) for _ in range(n)]
        elif kind < 0.87:
            v = [rng.choice([True, False]) for _ in range(n)]
        else:
            v = [[rng.choice(FLOATS) for _ in range(n)] for _ in range(rng.randint(1, 3))]
        return {'$': 'array', 'v': v}
    if r < 0.86:
        # nested sequences (lists of lists / tuples inside lists): array-free, so still plain
        return [rand_value(rng, 0), {'$': 'tuple', 'v': [rand_scalar(rng)]}, [rand_scalar(rng), [rand_scalar(rng)]]]
    if r < 0.9 and not plain_only:
        return [1, {'$': 'array', 'v': [1.0, 2.0]}]           # array inside a list: outside the yaml-safe universe
    keys = rng.sample(['mode', 'stat_length', 'reflect_type', 'alpha', 'k', 'end_values', 'a/b'], rng.randint(0, 3))
    keys = [x for x in keys if '/' not in x or not plain_only]
    return {'$': 'dict', 'v': [[x, rand_value(rng, depth - 1, plain_only)] for x in keys]}


def _rand_value_np(rng, depth, plain_only, q):
    """rand_value with numpy scalars as option values, inside lists / tuples (also nested) and inside dict values."""
    r = rng.random()
    sc = lambda: rand_scalar(rng, q)  # noqa
    if r < 0.4 or depth <= 0:
        return sc()
    if r < 0.55:
        return [sc() for _ in range(rng.randint(0, 4))]
    if r < 0.7:
        return {'$': 'tuple', 'v': [sc() for _ in range(rng.randint(0, 4))]}
    if r < 0.8:
        return rand_value(rng, depth, plain_only)           # arrays and the other shapes, without numpy scalars
    if r < 0.9:
        return [sc(), {'$': 'tuple', 'v': [sc(), [sc()]]}, [sc(), {'$': 'dict', 'v': [['k', sc()]]}]]
    keys = rng.sample(['mode', 'stat_length', 'reflect_type', 'alpha', 'k', 'end_values'], rng.randint(0, 3))
    return {'$': 'dict', 'v': [[x, _rand_value_np(rng, depth - 1, plain_only, q)] for x in keys]}
