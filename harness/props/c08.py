"""C08 — ensemble sifts average genuinely independent noise realisations."""
import functools
import os
import pickle
import time

import numpy as np

from common import proto
from common.framework import Failure, ImplError, Stream, case_key
from props import _msk

ID = 'C08'
LEAN_MODULES = ['Proofs.C08']
REQUIRED = ['C08.pool_map_schedule_indep', 'C08.ensemble_mean', 'C08.flip_member_mean',
            'C08.ensemble_zero_noise_eq_sift', 'C08.ensemble_member_noise', 'C08.ensemble_noise_distinct',
            'C08.ensemble_schedule_indep', 'C08.forkdraw_member_noise', 'C08.ensemble_noise_shared_forkdraw_witness',
            'C08.ceemd_noise_by_column', 'C08.ceemd_stage_mean',
            # cross-model consistency with the Sift model (C01/C03/C04)
            'C08.ensemble_mean_agrees_with_sift_model', 'C08.ensembleSift_agrees_with_sift_model',
            'C08.ensemble_cols_le_cap_classic_sift', 'C08.ensemble_zero_noise_eq_classic_sift',
            'C08.ensemble_zero_noise_eq_getNextImf_sift', 'C08.ensemble_zero_noise_complete',
            'C08.ceemd_agrees_with_sift_model', 'C08.ceemd_composed_cols_le_cap']
TRUSTED = [
    'oracle: the classic sift S = the real public emd.sift.sift, tabulated on the member inputs of the same run (lookup by argument within 1e-9)',
    'oracle: the random generator is an abstract stream; the arrays it hands out are taken from the traced numpy.random.randn / random_sample calls',
    'oracle: np.std (noise scale = X.std() * ensemble_noise is computed by the harness with the documented expression)',
    'multiprocessing.Pool with the fork start method modelled as: every worker starts from a copy of the parent state; every job is run '
    'exactly once by some worker; results are collected by job index',
    'observation from outside only: numpy.random.randn / random_sample and the public emd.sift.sift are wrapped before the pool forks '
    '(workers inherit the wrappers); pid, monotonic time, input array of every call go to per-pid files in a mkdtemp directory removed afterwards',
]
ASSUMPTIONS = [
    'PARTIAL: the real OS scheduling of pool workers is sampled (nprocesses 1..8, randomised worker delays), not enumerated; '
    'the theorems cover every schedule (execution order x job-to-worker assignment) of the model',
    'successive draws of one generator are distinct arrays (hypothesis `Function.Injective (nthDraw draw g)`): validated on every traced run',
    'Pool.starmap returns results in argument order (validated by C07 stream pool_order)',
    'members with different column counts are averaged with absent columns counting as zero and the result has as many columns as the widest '
    'member (behaviour of the DESIGN 9-D3 repair owned by C03); on a tree without that repair such cases raise IndexError and are counted '
    'under the tag d3-ragged-pinned, not compared',
    'complete_ensemble_sift stop logic (number of stages) is taken from the output; C03 owns it',
]
RULE = ('grid: nensembles 1..8 x nprocesses 1..8 x noise_mode {single, flip} x ensemble_noise {0, 0.05, 2.0} x cap {None, 2, 3, 4}; quick samples '
        'the grid, thorough enumerates nensembles x nprocesses x mode x level completely for ensemble_sift and samples complete_ensemble_sift; signals from the tones / chirp / noise / '
        'walk families, n in 48..128; numpy seed per case; random worker delays in 60% of the cases. Non-trivial: nensembles >= 2, '
        'nprocesses >= 2 and non-zero noise.')

MODEL_DRAW = 'parent'        # where the modelled code draws the member noise ('fork' = pinned code, inside the worker)
LEVELS = [0.0, 0.05, 2.0]
IMPL_TIMEOUT = 20          # seconds per traced call (normal calls take < 0.3 s)


# ----------------------------------------------------------------------------- tracing

def _traced_call(case, fn):
    """Run fn() with numpy.random.randn / random_sample and the public emd.sift.sift wrapped. Returns
    (result or None, error kind or None, msg, events) — events sorted by monotonic time."""
    import emd
    o_randn, o_rs, o_sift = np.random.randn, np.random.random_sample, emd.sift.sift
    parent = os.getpid()
    with _msk.TraceDir() as td:
        def log(kind, arr, extra):
            td.log(pickle.dumps((time.monotonic_ns(), os.getpid(), kind, np.array(arr, dtype=float), extra)))

        def randn(*shape):
            out = o_randn(*shape)
            log('randn', out, None)
            return out

        def random_sample(size=None):
            out = o_rs(size)
            log('random_sample', out, None)
            return out

        @functools.wraps(o_sift)
        def sift(*a, **k):
            log('sift', a[0] if a else k.get('X'), {'npos': len(a), 'max_imfs': k.get('max_imfs', a[2] if len(a) > 2 else None)})
            if case.get('delay'):
                _msk.jitter()
            return o_sift(*a, **k)
        np.random.randn, np.random.random_sample, emd.sift.sift = randn, random_sample, sift
        res = err = None
        msg = ''
        try:
            np.random.seed(case['seed'])
            with _msk.time_limit(IMPL_TIMEOUT):
                res = fn(emd)
        except Exception as e:  # noqa
            from common.framework import err_kind
            err, msg = err_kind(e), repr(e)[-300:]
        finally:
            np.random.randn, np.random.random_sample, emd.sift.sift = o_randn, o_rs, o_sift
        events = []
        for pid, data in td.files().items():
            import io
            f = io.BytesIO(data)
            while True:
                try:
                    events.append(pickle.load(f))
                except EOFError:
                    break
    events.sort(key=lambda e: e[0])
    pids = {}
    out = []
    for (t, pid, kind, arr, extra) in events:
        w = -1 if pid == parent else pids.setdefault(pid, len(pids))
        out.append({'w': w, 'kind': kind, 'shape': list(arr.shape), 'v': _msk.vlist(arr), 'extra': extra})
    return res, err, msg, out


def _opts(case):
    return dict(_msk.IMF_OPTS[case.get('opts', 0)])


def _classic(x, cap, opts, thresh=1e-8):
    import emd
    r = emd.sift.sift(np.asarray(x, dtype=float), sift_thresh=thresh, max_imfs=cap, imf_opts=opts or None)
    return [np.asarray(r)[:, j].copy() for j in range(r.shape[1])]


def _zero_padded_mean(n, members, K):
    out = []
    for j in range(K):
        out.append(np.mean([m[j] if j < len(m) else np.zeros(n) for m in members], axis=0))
    return out


def _flip_mean(n, a, b):
    K = max(len(a), len(b))
    return [((a[j] if j < len(a) else np.zeros(n)) + (b[j] if j < len(b) else np.zeros(n))) / 2 for j in range(K)]


def _partition(keys):
    first = {}
    return [first.setdefault(k, len(first)) for k in keys]


class _Base(Stream):
    parallel = False

    def __init__(self):
        self._cache = {}

    def _memo(self, case, fn):
        k = case_key(case)
        if k not in self._cache:
            if len(self._cache) > 4:
                self._cache.clear()
            self._cache[k] = fn()
        return self._cache[k]

    def tags(self, case, out):
        t = ['N=%d' % case['N'], 'nproc=%d' % case['nproc'], 'mode=' + case['mode'], 'level=%s' % case['level'],
             'cap=%s' % case.get('cap'), 'delay' if case.get('delay') else 'no-delay']
        if isinstance(out, ImplError):
            t.append('harness-error=' + out['error'])
            return t
        if out.get('error'):
            t.append('error=' + out['error'])
        ws = set(e['w'] for e in out['events'] if e['kind'] == 'sift')
        t.append('workers-used=%d' % len(ws))
        return t

    def nontrivial(self, case, out):
        return case['N'] >= 2 and case['nproc'] >= 2 and case['level'] > 0 and not isinstance(out, ImplError) and not out.get('error')

    def shrink(self, case):
        if case['sig']['n'] > 48:
            yield dict(case, sig=dict(case['sig'], n=48))
        if case.get('delay'):
            yield dict(case, delay=False)
        if case['N'] > 2:
            yield dict(case, N=case['N'] - 1)
        if case['nproc'] > 2:
            yield dict(case, nproc=case['nproc'] - 1)
        if case.get('opts'):
            yield dict(case, opts=0)


class Ensemble(_Base):
    name = 'ensemble'
    timeout_s = 300

    def corpus(self):
        s = {'fam': 'tones', 'n': 64, 'seed': 21, 'scale': 1.0}
        base = {'sig': s, 'N': 4, 'nproc': 4, 'mode': 'single', 'level': 0.2, 'cap': 3, 'seed': 12345, 'opts': 0, 'delay': False}
        return [
            base,                                                    # D7 witness: 4 members on 4 workers
            dict(base, nproc=2),                                     # D7 witness: 4 members on 2 workers
            dict(base, nproc=1),
            dict(base, mode='flip', nproc=3),
            dict(base, mode='flip', cap=None, level=0.2, nproc=1, seed=1),      # D7b witness: +/- runs of different width
            dict(base, mode='flip', cap=None, level=2.0, nproc=2, N=6, seed=7),
            dict(base, cap=None, level=2.0, N=8, nproc=8, seed=3),   # ragged member widths
            dict(base, level=0.0, cap=None, N=3, nproc=2),           # zero noise = classic sift
            dict(base, level=0.0, cap=2, N=5, nproc=5, mode='flip'),
            dict(base, N=1, nproc=1), dict(base, N=1, nproc=8), dict(base, N=8, nproc=1, mode='flip'),
            # zero noise, classic sift stops before the cap (witness of trailing all-zero columns with K = cap)
            {'sig': {'fam': 'tones', 'n': 48, 'seed': 698097774, 'scale': 250.0}, 'N': 1, 'nproc': 1, 'mode': 'flip',
             'level': 0.0, 'cap': 3, 'seed': 482678724, 'opts': 0, 'delay': False},
            {'sig': {'fam': 'walk', 'n': 48, 'seed': 5, 'scale': 1.0}, 'N': 3, 'nproc': 2, 'mode': 'single',
             'level': 0.0, 'cap': 6, 'seed': 4, 'opts': 0, 'delay': False},
            {'sig': {'fam': 'walk', 'n': 48, 'seed': 5, 'scale': 1.0}, 'N': 4, 'nproc': 3, 'mode': 'flip',
             'level': 0.05, 'cap': 6, 'seed': 4, 'opts': 0, 'delay': False},
        ]

    def generate(self, rng, tier):
        sizes = [48, 64, 96, 128]

        def mk(N, nproc, mode, level):
            sig = _msk.rand_signal_spec(rng, sizes)
            sig['fam'] = rng.choice(['tones', 'tones', 'chirp', 'noise', 'walk'])
            return {'sig': sig, 'N': N, 'nproc': nproc, 'mode': mode, 'level': level,
                    'cap': rng.choice([None, 2, 3, 4, 3]), 'seed': rng.randrange(1 << 31),
                    'opts': rng.choice([0, 0, 2, 3, 4]), 'delay': rng.random() < 0.6}
        if tier == 'thorough':
            for N in range(1, 9):
                for nproc in range(1, 9):
                    for mode in ('single', 'flip'):
                        for level in LEVELS:
                            yield mk(N, nproc, mode, level)
        else:
            for _ in range(70):
                yield mk(rng.randint(1, 8), rng.randint(1, 8), rng.choice(['single', 'flip']),
                         rng.choice([0.0, 0.05, 0.05, 2.0, 2.0]))

    def impl(self, case):
        x = _msk.make_signal(case['sig'])
        res, err, msg, events = _traced_call(case, lambda emd: emd.sift.ensemble_sift(
            x, nensembles=case['N'], ensemble_noise=case['level'], noise_mode=case['mode'],
            nprocesses=case['nproc'], max_imfs=case['cap'], imf_opts=_opts(case) or None))
        out = {'error': err, 'msg': msg, 'events': events}
        if res is not None:
            res = np.asarray(res)
            out['cols'] = [_msk.vlist(res[:, j]) for j in range(res.shape[1])]
        return out

    # -- analysis of one traced run (cached)
    def _analyse(self, case, out):
        def run():
            x = _msk.make_signal(case['sig'])
            n = len(x)
            scale = float(x.std() * case['level'])
            opts = _opts(case)
            sifts = [e for e in out['events'] if e['kind'] == 'sift']
            draws = [e for e in out['events'] if e['kind'] == 'randn']
            # members = sift calls grouped per worker in time order (flip: consecutive pairs)
            per = 2 if case['mode'] == 'flip' else 1
            byw = {}
            for idx, e in enumerate(sifts):
                byw.setdefault(e['w'], []).append((idx, e))
            members = []
            for w, lst in byw.items():
                for i in range(0, len(lst) - per + 1, per):
                    members.append({'w': w, 't': lst[i][0], 'plus': np.array(lst[i][1]['v']),
                                    'minus': np.array(lst[i + 1][1]['v']) if per == 2 else None})
            members.sort(key=lambda m: m['t'])
            # unit noise columns handed out by the generator, in call order per process
            units = []
            for e in draws:
                a = np.array(e['v']).reshape(e['shape'])
                a = a.reshape(n, -1) if a.size % n == 0 and a.size else a.reshape(-1, 1)
                for j in range(a.shape[1]):
                    units.append({'w': e['w'], 'u': a[:, j].copy()})
            for i, m in enumerate(members):
                m['unit'] = None
                if scale == 0:          # nothing added: any assignment reproduces the inputs; take draw order
                    m['unit'] = units[i] if i < len(units) and len(units[i]['u']) == n else None
                    continue
                for u in units:
                    if len(u['u']) == n and np.array_equal(x + u['u'] * scale, m['plus']):
                        m['unit'] = u
                        break
            # member decompositions recomputed with the public sift on the traced inputs
            for m in members:
                a = _classic(m['plus'], case['cap'], opts)
                m['a'] = a
                if per == 2:
                    b = _classic(m['minus'], case['cap'], opts)
                    m['b'] = b
                    m['dec'] = _flip_mean(n, a, b)
                else:
                    m['dec'] = a
            widths = [len(m['dec']) for m in members]
            return {'x': x, 'scale': scale, 'members': members, 'units': units, 'widths': widths,
                    'sub_ragged': per == 2 and any(len(m['a']) != len(m['b']) for m in members),
                    'nsift': len(sifts)}
        return self._memo(case, run)

    def _ragged(self, case, an):
        K = max(an['widths']) if an['widths'] else 0
        return any(w != K for w in an['widths']), K

    def _pinned_d3(self, case, out, an):
        """members of different widths (or narrower than the cap) on a tree that still has the un-repaired
        averaging loop of DESIGN 9-D3 (owned by C03): IndexError, or columns cut to the width of member 0"""
        ragged, K = self._ragged(case, an)
        if len(an['members']) != case['N']:
            return False
        narrow = case['cap'] is not None and K < case['cap']
        if not (ragged or narrow):
            return False
        if out.get('error') == 'IndexError':
            return True
        if out.get('cols') is not None and case['cap'] is None and len(out['cols']) < K:
            return True
        return False

    def ops(self, case, out):
        if isinstance(out, ImplError):
            return []
        an = self._analyse(case, out)
        ms = an['members']
        if len(ms) != case['N'] or any(m['unit'] is None for m in ms):
            return []
        x, scale = an['x'], an['scale']
        order = list(range(len(ms)))
        wmap = {}
        workers = [wmap.setdefault(m['w'], len(wmap)) for m in ms]
        ops = [proto.op('POOLNOISE', {'n': len(ms), 'p': max(case['nproc'], 1), 'model': MODEL_DRAW}, [order, workers])]
        vecs = [_msk.vlist(x), order, workers] + [_msk.vlist(m['unit']['u']) for m in ms]
        widths, tbl = [], []
        for m in ms:
            for arg, cols in ((m['plus'], m['a']),) + (((m['minus'], m['b']),) if m['minus'] is not None else ()):
                widths.append(len(cols))
                tbl.append(_msk.vlist(arg))
                tbl += [_msk.vlist(c) for c in cols]
        vecs += [widths] + tbl
        ops.append(proto.op('ENS', {'n': len(ms), 'flip': 1 if case['mode'] == 'flip' else 0, 'scale': scale,
                                    'tol': _msk.TOL * max(1.0, _msk.max_abs(x) + 6 * scale), 'p': max(case['nproc'], 1)}, vecs))
        return ops

    def compare(self, case, out, results):
        if isinstance(out, ImplError):
            return 'harness/trace failure: %s %s' % (out['error'], out['msg'])
        an = self._analyse(case, out)
        ms = an['members']
        if out.get('error') and not self._pinned_d3(case, out, an):
            return 'implementation raised %s (%s)' % (out['error'], out['msg'][-100:])
        if len(ms) != case['N']:
            return 'traced %d member sifts (%d sift calls) for nensembles=%d' % (len(ms), an['nsift'], case['N'])
        if any(m['unit'] is None for m in ms):
            return 'a member input is not x + scale * (an array handed out by numpy.random.randn)'
        pn, ens = results
        # 1. which draw does each member get: equality pattern under the observed schedule
        if not pn.ok:
            return 'POOLNOISE: %s' % pn.raw[:120]
        model_pat = _partition([int(v) for v in pn.vecs[0]])
        real_pat = _partition([_msk.sha(m['unit']['u']) for m in ms])
        if case['level'] > 0:
            if model_pat != real_pat:
                return ('noise sharing pattern: model (%s-side draws) %s, traced %s (workers %s)'
                        % (MODEL_DRAW, model_pat, real_pat, [m['w'] for m in ms]))
        # 2. ensemble output
        if self._pinned_d3(case, out, an):
            return 'skip:d3-ragged-pinned'
        if out.get('error'):
            return 'implementation raised %s (%s); model: %s' % (out['error'], out['msg'][-100:], ens.raw[:80])
        if not ens.ok:
            return 'ENS: %s' % ens.raw[:160]
        if int(ens.args['k']) != len(out['cols']):
            return 'columns: model %s impl %d (member widths %s)' % (ens.args['k'], len(out['cols']), an['widths'])
        tol = _msk.TOL * max(1.0, _msk.max_abs(an['x']) + 6 * an['scale'])
        for j, c in enumerate(out['cols']):
            if not _msk.frac_close(ens.vecs[j], c, tol):
                return 'ensemble column %d differs from the model mean' % j
        return None

    def holds(self, case, out):
        if isinstance(out, ImplError):
            return [Failure('trace-failed:' + out['error'], out['msg'])]
        an = self._analyse(case, out)
        ms, x, n = an['members'], an['x'], len(an['x'])
        fs = []
        if len(ms) != case['N'] and not out.get('error'):
            fs.append(Failure('wrong-number-of-member-sifts', '%d members traced for nensembles=%d' % (len(ms), case['N'])))
        # own noise realisation per member
        if case['level'] > 0 and ms:
            digests = [_msk.sha(m['plus'] - x) for m in ms]
            if len(set(digests)) != len(ms):
                fs.append(Failure('members-share-noise', '%d distinct noise arrays for %d members on %d worker processes '
                                  '(nprocesses=%d, mode=%s); sharing pattern %s by worker %s'
                                  % (len(set(digests)), len(ms), len(set(m['w'] for m in ms)), case['nproc'], case['mode'],
                                     _partition(digests), [m['w'] for m in ms])))
        # successive draws of one process are distinct (assumption of the distinctness theorem)
        seen = {}
        for u in an['units']:
            k = (u['w'], _msk.sha(u['u']))
            if k in seen:
                fs.append(Failure('generator-repeats-a-draw', 'process %s handed out the same array twice' % u['w']))
                break
            seen[k] = 1
        if case['mode'] == 'flip':
            for m in ms:
                if np.max(np.abs((m['plus'] - x) + (m['minus'] - x))) > 1e-12 * max(1.0, _msk.max_abs(x) + an['scale'] * 6):
                    fs.append(Failure('flip-second-run-not-sign-flipped-noise', 'x+nu and x-nu do not use the same nu'))
                    break
        if out.get('error'):
            if self._pinned_d3(case, out, an):
                return fs
            kind = 'raises:' + out['error']
            if out['error'] == 'ValueError' and case['mode'] == 'flip' and 'broadcast' in out['msg']:
                kind += ':flip-runs-differ-in-column-count'
            fs.append(Failure(kind, out['msg']))
            return fs
        if self._pinned_d3(case, out, an) or len(ms) != case['N']:
            return fs
        cols = [np.array(c) for c in out['cols']]
        K = max(an['widths'])
        want = _zero_padded_mean(n, [m['dec'] for m in ms], K)
        tol = _msk.TOL * max(1.0, _msk.max_abs(x) + 6 * an['scale'])
        if len(cols) != len(want):
            fs.append(Failure('ensemble-wrong-column-count', '%d columns, members have %s, cap %s' % (len(cols), an['widths'], case['cap'])))
        else:
            for j in range(len(cols)):
                dev = float(np.max(np.abs(cols[j] - want[j])))
                if dev > tol:
                    kind = 'ensemble-not-mean-of-members'
                    if case['mode'] == 'flip':
                        kind += ':flip'
                    fs.append(Failure(kind, 'column %d deviates %.3g from the mean over the %d member decompositions recomputed '
                                      'from the traced noise' % (j, dev, len(ms))))
                    break
        if case['level'] == 0:
            ref = _classic(x, case['cap'], _opts(case))
            ztol = 1e-12 * max(1.0, _msk.max_abs(x))
            same_prefix = all(np.max(np.abs(a - b)) <= ztol for a, b in zip(ref, cols))
            if len(cols) > len(ref) and same_prefix and all(np.max(np.abs(c)) == 0 for c in cols[len(ref):]):
                fs.append(Failure('zero-noise-trailing-zero-columns',
                                  'ensemble_sift(ensemble_noise=0, max_imfs=%s) returns %d columns: the %d columns of sift(x, max_imfs=%s) '
                                  'followed by %d all-zero columns' % (case['cap'], len(cols), len(ref), case['cap'], len(cols) - len(ref))))
            elif len(ref) != len(cols) or not same_prefix:
                fs.append(Failure('zero-noise-differs-from-classic-sift', '%d vs %d columns' % (len(cols), len(ref))))
        return fs

    def tags(self, case, out):
        t = super().tags(case, out)
        if not isinstance(out, ImplError):
            an = self._analyse(case, out)
            if self._ragged(case, an)[0]:
                t.append('ragged-member-widths')
            if an['sub_ragged']:
                t.append('flip-runs-differ-in-width')
            if self._pinned_d3(case, out, an):
                t.append('d3-ragged-pinned')
            t.append('opts=%d' % case.get('opts', 0))
        return t


class Complete(_Base):
    name = 'complete'
    timeout_s = 300

    def corpus(self):
        s = {'fam': 'tones', 'n': 64, 'seed': 22, 'scale': 1.0}
        base = {'sig': s, 'N': 4, 'nproc': 4, 'mode': 'single', 'level': 0.2, 'cap': 2, 'seed': 99, 'delay': False}
        return [base, dict(base, nproc=1), dict(base, mode='flip', nproc=3, N=5), dict(base, level=0.0, N=2, nproc=2),
                dict(base, N=1, nproc=2, level=2.0), dict(base, N=8, nproc=8, cap=None, level=0.05)]

    def generate(self, rng, tier):
        sizes = [48, 64, 96]
        for _ in range(160 if tier == 'thorough' else 22):
            sig = _msk.rand_signal_spec(rng, sizes)
            sig['fam'] = rng.choice(['tones', 'tones', 'chirp', 'noise', 'walk'])
            yield {'sig': sig, 'N': rng.randint(1, 8), 'nproc': rng.randint(1, 8), 'mode': rng.choice(['single', 'flip']),
                   'level': rng.choice([0.0, 0.05, 0.05, 2.0, 2.0]), 'cap': rng.choice([None, 1, 2, 3]),
                   'seed': rng.randrange(1 << 31), 'delay': rng.random() < 0.6}

    def impl(self, case):
        x = _msk.make_signal(case['sig'])
        res, err, msg, events = _traced_call(case, lambda emd: emd.sift.complete_ensemble_sift(
            x, nensembles=case['N'], ensemble_noise=case['level'], noise_mode=case['mode'],
            nprocesses=case['nproc'], max_imfs=case['cap']))
        out = {'error': err, 'msg': msg, 'events': events}
        if res is not None:
            imf, noise = np.asarray(res[0]), np.asarray(res[1])
            out['cols'] = [_msk.vlist(imf[:, j]) for j in range(imf.shape[1])]
            out['noise'] = [_msk.vlist(noise[:, j]) for j in range(noise.shape[1])]
        return out

    def _analyse(self, case, out):
        def run():
            import emd
            x = _msk.make_signal(case['sig'])
            n, N = len(x), case['N']
            scale = float(x.std() * case['level'])
            rs = [e for e in out['events'] if e['kind'] == 'random_sample']
            M = np.array(rs[0]['v']).reshape(rs[0]['shape']) if rs else None
            sifts = [e for e in out['events'] if e['kind'] == 'sift']
            per = 2 if case['mode'] == 'flip' else 1
            # stage structure: N*per member sifts, then N noise sifts, repeated (starmap is a barrier)
            stages_traced = []
            i = 0
            while i + N * per + N <= len(sifts):
                stages_traced.append({'members': sifts[i:i + N * per], 'noise': sifts[i + N * per:i + N * per + N]})
                i += N * per + N
            leftovers = len(sifts) - i
            stages = (len(out['cols']) - 1) if out.get('cols') else max(0, len(stages_traced) - 1)
            # rule: run the documented recursion with the public sift
            spec = None
            if M is not None and M.shape == (n, N):
                F = lambda y: np.asarray(emd.sift.sift(y, sift_thresh=1e-8, max_imfs=1))[:, 0]   # noqa
                tf, tn = [], []

                def member(proto_, nu):
                    a = F(proto_ + nu)
                    tf.append((proto_ + nu, a))
                    if per == 2:
                        b = F(proto_ - nu)
                        tf.append((proto_ - nu, b))
                        return (a + b) / 2
                    return a
                noise = M * scale
                inputs = []
                st_in = [(x, noise[:, i] * scale) for i in range(N)]
                inputs.append(st_in)
                imf = [np.mean([member(p_, nu) for p_, nu in st_in], axis=0)]

                def step(noise):
                    new = noise.copy()
                    for i in range(N):
                        r = F(noise[:, i])
                        tn.append((noise[:, i].copy(), r))
                        new[:, i] = noise[:, i] - r
                    return new
                noise_in = [noise.copy()]
                noise = step(noise)
                for k in range(stages):
                    proto_ = x - np.sum(imf, axis=0)
                    st_in = [(proto_, noise[:, i].copy()) for i in range(N)]
                    inputs.append(st_in)
                    imf.append(np.mean([member(p_, nu) for p_, nu in st_in], axis=0))
                    noise_in.append(noise.copy())
                    noise = step(noise)
                spec = {'imf': imf, 'noise': noise, 'inputs': inputs, 'noise_in': noise_in, 'tf': tf, 'tn': tn}
            return {'x': x, 'scale': scale, 'M': M, 'stages_traced': stages_traced, 'leftovers': leftovers,
                    'stages': stages, 'spec': spec, 'per': per}
        return self._memo(case, run)

    def ops(self, case, out):
        if isinstance(out, ImplError) or out.get('error'):
            return []
        an = self._analyse(case, out)
        sp = an['spec']
        if sp is None:
            return []
        x = an['x']
        vecs = [_msk.vlist(x)] + [_msk.vlist(an['M'][:, i]) for i in range(case['N'])]
        for a, r in sp['tf']:
            vecs += [_msk.vlist(a), _msk.vlist(r)]
        for a, r in sp['tn']:
            vecs += [_msk.vlist(a), _msk.vlist(r)]
        return [proto.op('CEEMD', {'n': case['N'], 'flip': 1 if case['mode'] == 'flip' else 0, 'scale': an['scale'],
                                   'tol': _msk.TOL * max(1.0, _msk.max_abs(x) + an['scale']), 'stages': an['stages'],
                                   'nf': len(sp['tf']), 'nn': len(sp['tn']), 'rot': case['nproc']}, vecs)]

    def _input_mismatch(self, case, an):
        """traced member inputs per stage vs. residual +/- column i of the stage's noise matrix (as multisets)"""
        sp = an['spec']
        tol = 1e-12 * max(1.0, _msk.max_abs(an['x']) + an['scale'])
        for k, st in enumerate(an['stages_traced']):
            if k >= len(sp['inputs']):
                break
            want = []
            for p_, nu in sp['inputs'][k]:
                want.append(p_ + nu)
                if an['per'] == 2:
                    want.append(p_ - nu)
            got = [np.array(e['v']) for e in st['members']]
            used = [False] * len(want)
            for g in got:
                hit = False
                for i, w_ in enumerate(want):
                    if not used[i] and len(w_) == len(g) and np.max(np.abs(w_ - g)) <= tol:
                        used[i] = hit = True
                        break
                if not hit:
                    return 'stage %d: a member was sifted on an input that is not residual +/- column i of the noise matrix' % k
            wantn = [sp['noise_in'][k][:, i] for i in range(case['N'])]
            gotn = [np.array(e['v']) for e in st['noise']]
            usedn = [False] * len(wantn)
            for g in gotn:
                hit = False
                for i, w_ in enumerate(wantn):
                    if not usedn[i] and np.max(np.abs(w_ - g)) <= tol:
                        usedn[i] = hit = True
                        break
                if not hit:
                    return 'stage %d: noise sift on something that is not a column of the noise matrix' % k
        return None

    def compare(self, case, out, results):
        if isinstance(out, ImplError):
            return 'harness/trace failure: %s %s' % (out['error'], out['msg'])
        if out.get('error'):
            return 'implementation raised %s (%s)' % (out['error'], out['msg'][-120:])
        an = self._analyse(case, out)
        if an['spec'] is None:
            return 'no parent-side random_sample((n, nensembles)) matrix traced'
        if an['leftovers'] or len(an['stages_traced']) != an['stages'] + 1:
            return 'traced %d complete stages (+%d calls) for %d columns' % (len(an['stages_traced']), an['leftovers'], len(out['cols']))
        mm = self._input_mismatch(case, an)
        if mm:
            return mm
        r = results[0]
        if not r.ok:
            return 'CEEMD: %s' % r.raw[:160]
        K = len(out['cols'])
        if int(r.args['k']) != K:
            return 'columns: model %s impl %d' % (r.args['k'], K)
        tol = _msk.TOL * max(1.0, _msk.max_abs(an['x']) + an['scale'])
        for j, c in enumerate(out['cols']):
            if not _msk.frac_close(r.vecs[j], c, tol):
                return 'column %d differs from the model mean over members' % j
        for j, c in enumerate(out['noise']):
            if not _msk.frac_close(r.vecs[K + j], c, tol):
                return 'returned noise column %d differs from the model' % j
        return None

    def holds(self, case, out):
        if isinstance(out, ImplError):
            return [Failure('trace-failed:' + out['error'], out['msg'])]
        if out.get('error'):
            return [Failure('raises:' + out['error'], out['msg'])]
        an = self._analyse(case, out)
        fs = []
        if an['spec'] is None:
            return [Failure('ceemd-no-parent-noise-matrix', 'no random_sample((n, nensembles)) call traced in the parent')]
        x = an['x']
        if case['level'] > 0:
            for k, st in enumerate(an['stages_traced']):
                # a noise column whose modes are exhausted becomes exactly zero in later stages (that is the algorithm);
                # distinct inputs are demanded wherever the columns of the stage's noise matrix are distinct
                if k >= len(an['spec']['noise_in']):
                    break
                colsk = [_msk.sha(an['spec']['noise_in'][k][:, i]) for i in range(case['N'])]
                if len(set(colsk)) != len(colsk):
                    continue
                byw = {}
                for e in st['members']:
                    byw.setdefault(e['w'], []).append(e)
                plus = [e for lst in byw.values() for e in lst[::an['per']]]     # a job runs +nu then -nu on one worker
                d = [_msk.sha(np.array(e['v'])) for e in plus]
                if len(set(d)) != len(d):
                    fs.append(Failure('members-share-noise', 'stage %d: %d distinct member inputs for %d members' % (k, len(set(d)), len(d))))
                    break
        mm = self._input_mismatch(case, an)
        if mm:
            fs.append(Failure('ceemd-member-noise-not-own-column', mm))
        tol = _msk.TOL * max(1.0, _msk.max_abs(x) + an['scale'])
        for j, c in enumerate(out['cols']):
            if j < len(an['spec']['imf']):
                dev = float(np.max(np.abs(np.array(c) - an['spec']['imf'][j])))
                if dev > tol:
                    fs.append(Failure('ceemd-imf-not-mean-of-members' + (':flip' if case['mode'] == 'flip' else ''),
                                      'column %d deviates %.3g from the mean over members' % (j, dev)))
                    break
        return fs

    def tags(self, case, out):
        t = super().tags(case, out)
        if not isinstance(out, ImplError) and out.get('cols'):
            t.append('columns=%d' % len(out['cols']))
        return t


STREAMS = [Ensemble(), Complete()]
