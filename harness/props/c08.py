"""C08 — ensemble sifts average genuinely independent noise realisations.

What is observed (from outside only): every signal handed to the PUBLIC emd.sift.sift during one ensemble_sift /
complete_ensemble_sift call (wrapper installed on the module attribute before the pool forks, per-pid trace files),
whatever process, private helper, order or grouping of jobs produced the call.  With X the (1-d) input,
d_j = S_j - X is the noise actually added to the j-th sifted signal.  The property's own words are evaluated on the
multiset of these d_j and on the returned array; nothing depends on which private function ran where, nor on which
numpy.random entry point produced the noise (attribution of the noise to RNG draws is recorded, a failure to attribute
is skipped and counted, never a violation)."""
import functools
import io
import os
import pickle
import time

import numpy as np

from common import proto
from common.framework import Failure, ImplError, Stream, case_key
from props import _msk

ID = 'C08'
LEAN_MODULES = ['Proofs.C08']
REQUIRED = ['C08.pool_map_schedule_indep', 'C08.ensemble_mean', 'C08.flip_member_mean',
            'C08.ensemble_zero_noise_eq_sift', 'C08.ensemble_member_noise', 'C08.ensemble_noise_distinct',
            'C08.ensemble_schedule_indep', 'C08.forkdraw_member_noise', 'C08.ensemble_noise_shared_forkdraw_witness',
            'C08.ceemd_noise_by_column', 'C08.ceemd_noise_distinct', 'C08.ceemd_stage_mean',
            # clause 4 closed over all stages: distinctness of the noise matrix at every fan-out from stage-0 distinctness
            # + the stated hypothesis on the noise-only sift; its necessity; what the members actually sift
            'C08.ceemd_noise_step_distinct_iff', 'C08.ceemd_noise_distinct_all_stages',
            'C08.ceemd_noise_distinct_all_stages_of_injective', 'C08.ceemd_noise_distinct_all_stages_iff',
            'C08.ceemd_cols_are_fanout_means', 'C08.ceemd_noise_distinct_every_fanout',
            'C08.ceemd_live_noise_distinct_all_stages', 'C08.ceemd_noise_distinctness_lost_witness',
            'C08.ceemd_first_stage_scaled_once', 'C08.pinned_first_fanout_double_scaled', 'C08.ensemble_members_distinct_inputs',
            # cross-model consistency with the Sift model (C01/C03/C04)
            'C08.ensemble_mean_agrees_with_sift_model', 'C08.ensembleSift_agrees_with_sift_model',
            'C08.ensemble_cols_le_cap_classic_sift', 'C08.ensemble_zero_noise_eq_classic_sift',
            'C08.ensemble_zero_noise_eq_getNextImf_sift', 'C08.ensemble_zero_noise_complete',
            'C08.ceemd_agrees_with_sift_model', 'C08.ceemd_composed_cols_le_cap',
            # the scale law (seeded C08-8 np.isclose shortcut, fix 6e31bea double scaling): the noise amplitude is linear in
            # the amplitude of the signal at every amplitude, no absolute threshold; ensemble(c.x) = c.ensemble(x)
            'C08.noise_scale_linear', 'C08.ensemble_member_adds_member_noise', 'C08.ensemble_member_noise_scales',
            'C08.ensemble_noise_never_negligible', 'C08.ensemble_scale_law', 'C08.ensemble_members_scale',
            'C08.ceemd_scale_law', 'C08.ensemble_scale_law_classic_sift']
TRUSTED = [
    'oracle: the classic sift S = the real public emd.sift.sift, tabulated on the signals that were actually sifted in the same run '
    '(lookup by argument within 1e-9)',
    'oracle: the random generator is an abstract stream; the model is fed the noise arrays observed at the sifted signals '
    '(d = S - X), members ordered by the draw they are attributed to (numpy.random.randn / standard_normal / normal / '
    'random_sample / random / rand / ranf / sample / uniform are wrapped) or, when no draw can be attributed, by time',
    'oracle: np.std (noise scale = X.std() * ensemble_noise is computed by the harness with the documented expression)',
    'multiprocessing.Pool with the fork start method modelled as: every worker starts from a copy of the parent state; every job is run '
    'exactly once by some worker; results are collected by job index',
    'observation from outside only: the public emd.sift.sift and the module-level numpy.random functions are wrapped before the pool '
    'forks (workers inherit the wrappers); pid, monotonic time, array of every call go to per-pid files in a mkdtemp directory '
    'removed afterwards. Nothing depends on private helpers, on the process a sift ran in, or on the order / grouping of pool jobs',
    'complete_ensemble_sift: pure-noise sifts are told from member sifts by content (an all-zero input, or an input P whose '
    'P - firstIMF(P) is itself sifted later or is a column of the returned noise); member sifts are grouped into stages by time '
    '(stage k+1 inputs depend on the results of all stage k sifts, so the order of stages is causal)',
    'MODELLED AS IT IS, not demanded or excluded by C08 (a questionable behaviour of complete_ensemble_sift, verified on the code '
    'by tracing the noise): the noise matrix is drawn with np.random.random_sample((n, nensembles)) - uniform on [0, 1), mean 1/2, '
    'variance 1/12 - whereas ensemble_sift draws np.random.randn (zero-mean, unit variance): the model takes the matrix M as an arbitrary '
    'input and the harness feeds it the traced one, so no theorem depends on the distribution, but in single mode every member noise of a '
    'stage has a positive offset that the mean over the members does not remove (flip mode cancels it)',
    'REPAIRED (repo commit "fix: complete_ensemble_sift adds the (already scaled) noise matrix as it is in the first stage"): the pinned '
    'first fan-out handed _sift_with_noise the ALREADY scaled matrix noise = U * noise_scaling TOGETHER WITH noise_scaling, which multiplied '
    'once more: stage-0 members sifted X +/- noise_scaling^2 * U_i (Lean: C08.pinned_first_fanout_double_scaled). With noise_scaling = '
    'X.std() * ensemble_noise the first-stage noise was proportional to the SQUARE of the signal amplitude: on the corpus signal x 1e-13 with '
    'ensemble_noise = 0.005 it fell below the rounding of the signal, two of four first-stage members sifted the bare input and only three '
    'distinct inputs were sifted (the property\'s own words fail; witness in the corpus of stream complete); x 1e6 gave noise ~1e3 times the '
    'signal. Model and code now add the matrix as it is at every stage (C08.ceemd_first_stage_scaled_once)',
]
ASSUMPTIONS = [
    'PARTIAL: the real OS scheduling of pool workers is sampled (nprocesses 1..8, randomised worker delays), not enumerated; '
    'the theorems cover every schedule (execution order x job-to-worker assignment) of the model',
    'successive draws of one generator are distinct arrays (hypothesis `Function.Injective (nthDraw draw g)`): checked on every traced run, '
    'a repeat would show as the tag ASSUMPTION-BROKEN:generator-repeats-a-draw in the distribution (a statement about numpy, not about emd)',
    'Pool.starmap returns results in argument order (validated by C07 stream pool_order)',
    'members with different column counts are averaged with absent columns counting as zero and the result has as many columns as the widest '
    'member (behaviour of the DESIGN 9-D3 repair owned by C03); on a tree without that repair such cases raise IndexError and are counted '
    'under the tag d3-ragged-pinned, not compared',
    'complete_ensemble_sift stop logic (number of stages) is taken from the output; C03 owns it',
    'complete_ensemble_sift, independence of the member noise at the LATER fan-outs rests on a hypothesis on the noise-only sift (an oracle): '
    'nu -> nu - firstIMF(nu) separates the columns present in the noise matrix at every stage (hFn of C08.ceemd_noise_distinct_all_stages / '
    'ceemd_noise_distinct_every_fanout; by C08.ceemd_noise_distinct_all_stages_iff exactly equivalent, given a non-zero scale and distinct '
    'drawn columns, to every stage matrix having pairwise distinct columns). It does not hold for an arbitrary sift '
    '(C08.ceemd_noise_distinctness_lost_witness: a column without extrema is its own first IMF, its residual is the zero column; replayed '
    'on the real code with two distinct monotone columns injected as the drawn matrix - both residuals all-zero, the stage-1 members sift '
    'the same signal). VALIDATED PER RUN: on every traced complete_ensemble_sift run with non-zero noise the matrix of every stage (columns '
    'handed to the noise-only sifts of stage 0..K-1 = the matrices of the fan-outs, and the returned matrix) is checked for pairwise distinct '
    'columns: two equal columns with a non-zero sample are the failure ceemd:stage-noise-duplicate; two or more exhausted (exactly zero) '
    'columns at a fan-out are what the algorithm does once a noise column runs out of extrema - the strict hypothesis is then broken for '
    'that run (tag HYPOTHESIS-BROKEN:several-exhausted-noise-columns-coincide-at-a-fan-out) and only '
    'C08.ceemd_live_noise_distinct_all_stages applies (the columns that are still live are pairwise distinct), which is what the check demands',
    'skip-and-count (never a violation): the public sift is not called at all (tag untraceable); the member noise cannot be attributed to a '
    'traced numpy.random draw; the stage structure of a complete_ensemble_sift run is not recognised; its member noise is not among the '
    'noise columns that are sifted themselves',
]
RULE = ('grid: nensembles 1..8 x nprocesses 1..8 x noise_mode {single, flip} x ensemble_noise {0, 0.05, 2.0} x cap {None, 2, 3, 4}; quick samples '
        'the grid, thorough enumerates nensembles x nprocesses x mode x level completely for ensemble_sift and samples complete_ensemble_sift; signals from the tones / chirp / noise / '
        'walk families, n in 48..128, amplitude x1 / x0.01 / x250 and (20 % + corpus) the same signals in other physical units x1e-13 / x1e-6 / x1e6 '
        '(there also the level 0.005); all tolerances relative to the signal amplitude; numpy seed per case; random worker delays in 60% of the cases. Non-trivial: nensembles >= 2, '
        'nprocesses >= 2 and non-zero noise. Instance check on the multiset of sifted signals S_j (d_j = S_j - X): single mode = exactly '
        'nensembles signals with pairwise distinct d_j; flip mode = 2*nensembles signals that pair up as (nu, -nu) with pairwise distinct nu; '
        'result = zero-padded per-IMF mean of the public sift of those signals; zero noise = classic sift with the same cap. '
        'At a non-zero level no member sifts the bare input, no two members\' noise are rescaled / shifted / perturbed copies of one '
        'realisation (|correlation| >= 0.999), and (single mode) the result is not the classic sift; sifts of the bare input beside the '
        'members (a warm-up run) are set aside; any other number of traced sifts is mechanism-level, EXCEPT (literal, flip mode, '
        'non-negligible noise) when the sifted signals identify every member as a pair (x+nu, x-nu) or a lone x+nu whose x-nu was never '
        'sifted and the result is not the mean over the members of the pair means, the missing -noise decompositions supplied by the '
        'public sift (flip-member-without-minus-noise-run: seeded serial fast path for nprocesses == 1 that dropped noise_mode). '
        'complete_ensemble_sift additionally: per stage the members (residual +/- noise column) have pairwise distinct non-zero noise; the '
        'noise a member gets at a later fan-out is what is left of ITS OWN column (never column a minus the first mode of column b: '
        'scheduling dependent, nprocesses >= 2, replay cases repeat the call up to 6 times); zero noise = the columns of the classic sift; '
        'mechanism-level: the noise matrix of every stage (fan-outs 0..K-1 and the returned matrix) has pairwise distinct non-zero columns.')

MODEL_DRAW = 'parent'        # where the modelled code draws the member noise ('fork' = pinned code, inside the worker)
LEVELS = [0.0, 0.05, 2.0]
UNIT_SCALES = [1e-6, 1e-13, 1e6]      # the same signals in other physical units (volts, tesla, ...)
IMPL_TIMEOUT = 20          # seconds per traced call (normal calls take < 0.3 s)
RNG_FUNCS = ('randn', 'standard_normal', 'normal', 'random_sample', 'random', 'rand', 'ranf', 'sample', 'uniform')
SKIP_UNTRACEABLE = 'skip:public-sift-not-traced'
SKIP_UNATTRIBUTED = 'skip:member-noise-not-attributed-to-a-traced-numpy.random-draw'


# ----------------------------------------------------------------------------- tracing

def _traced_call(case, fn):
    """Run fn() with the public emd.sift.sift and the module-level numpy.random functions wrapped. Returns
    (result or None, error kind or None, msg, events) — events sorted by monotonic time."""
    import emd
    o_sift = emd.sift.sift
    o_rng = {name: getattr(np.random, name) for name in RNG_FUNCS if hasattr(np.random, name)}
    parent = os.getpid()
    with _msk.TraceDir() as td:
        def log(kind, arr, extra):
            td.log(pickle.dumps((time.monotonic_ns(), os.getpid(), kind, np.array(arr, dtype=float), extra)))

        def rng_wrapper(name, orig):
            @functools.wraps(orig)
            def wrapped(*a, **k):
                out = orig(*a, **k)
                try:
                    log('rng', out, {'fn': name})
                except Exception:   # noqa  (not an array of numbers: nothing to attribute)
                    pass
                return out
            return wrapped

        @functools.wraps(o_sift)
        def sift(*a, **k):
            log('sift', a[0] if a else k.get('X'), {'npos': len(a), 'max_imfs': k.get('max_imfs', a[2] if len(a) > 2 else None)})
            if case.get('delay'):
                _msk.jitter()
            return o_sift(*a, **k)
        for name, orig in o_rng.items():
            setattr(np.random, name, rng_wrapper(name, orig))
        emd.sift.sift = sift
        res = err = None
        msg = ''
        try:
            np.random.seed(case['seed'])
            with _msk.time_limit(IMPL_TIMEOUT):
                res = fn(emd)
        except Exception as e:  # noqa
            from common.framework import err_kind
            err, msg = err_kind(e), repr(e)[-300:]
        finally:
            emd.sift.sift = o_sift
            for name, orig in o_rng.items():
                setattr(np.random, name, orig)
        events = []
        for pid, data in td.files().items():
            f = io.BytesIO(data)
            while True:
                try:
                    events.append(pickle.load(f))
                except EOFError:
                    break
    events.sort(key=lambda e: e[0])
    pids = {}
    out = []
    for (t, pid, kind, arr, extra) in events:
        w = -1 if pid == parent else pids.setdefault(pid, len(pids))
        out.append({'w': w, 'kind': kind, 'shape': list(arr.shape), 'v': _msk.vlist(arr), 'extra': extra})
    return res, err, msg, out


def _signal(spec):
    """_msk.make_signal, plus 'explicit' signals given by their samples (witnesses found outside the families)"""
    if spec.get('fam') == 'explicit':
        return np.ascontiguousarray(np.array(spec['v'], dtype=float) * float(spec.get('scale', 1.0)))
    return _msk.make_signal(spec)


def _opts(case):
    return dict(_msk.IMF_OPTS[case.get('opts', 0)])


def _classic(x, cap, opts, thresh=1e-8):
    import emd
    r = emd.sift.sift(np.asarray(x, dtype=float), sift_thresh=thresh, max_imfs=cap, imf_opts=opts or None)
    return [np.asarray(r)[:, j].copy() for j in range(r.shape[1])]


def _zero_padded_mean(n, members, K):
    out = []
    for j in range(K):
        out.append(np.mean([m[j] if j < len(m) else np.zeros(n) for m in members], axis=0))
    return out


def _partition(keys):
    first = {}
    return [first.setdefault(k, len(first)) for k in keys]


# ----------------------------------------------------------------------------- the observed run

def _sifted(out, n):
    """(signals of length n handed to the public sift, in time order; number of sift calls on anything else)"""
    sig, other = [], 0
    for t, e in enumerate(out['events']):
        if e['kind'] != 'sift':
            continue
        if len(e['v']) == n and n > 0 and np.all(np.isfinite(e['v'])):
            sig.append({'v': np.array(e['v'], dtype=float), 'w': e['w'], 't': t})
        else:
            other += 1
    return sig, other


def _rng_units(out, n):
    """every length-n array that a traced numpy.random call handed out, as a contiguous chunk or as a column of a
    block whose leading dimension is n — in draw order"""
    units = []
    for e in out['events']:
        if e['kind'] != 'rng' or n == 0 or len(e['v']) < n or len(e['v']) % n:
            continue
        a = np.array(e['v'], dtype=float)
        cands = list(a.reshape(-1, n))
        if len(a) > n:
            cands += list(a.reshape(n, -1).T)
        seen = set()
        for u in cands:
            k = u.tobytes()
            if k not in seen and np.all(np.isfinite(u)):
                seen.add(k)
                units.append({'u': np.ascontiguousarray(u), 'w': e['w'], 'fn': (e.get('extra') or {}).get('fn')})
    return units


def _amp(x, extra=0.0):
    """amplitude the tolerances are relative to: the signal's own (the quantifier ranges over signals of any physical
    unit - 1e-13 as well as 1e6 - so there is no absolute floor), plus the noise amplitude where noise is added"""
    return max(_msk.max_abs(x) + float(extra), 1e-300)


def _mag(*arrs):
    return max([_msk.max_abs(a) for a in arrs] + [0.0])


def _pair_up(ds, tol):
    """match arrays into pairs (a, b) with a + b = 0 within tol. Returns (pairs of indices, unmatched indices)."""
    free = list(range(len(ds)))
    pairs, unmatched = [], []
    while free:
        i = free.pop(0)
        best, bdev = None, None
        for k in free:
            dev = float(np.max(np.abs(ds[i] + ds[k]))) if len(ds[i]) else 0.0
            if dev <= tol and (best is None or dev < bdev):
                best, bdev = k, dev
        if best is None:
            unmatched.append(i)
        else:
            free.remove(best)
            pairs.append((i, best))
    return pairs, unmatched


def _same_noise_classes(nus, tol, up_to_sign, ignore=None):
    """class index per array: two arrays are in one class when they are equal within tol (flip mode: or sign-flipped,
    the pair {x+nu, x-nu} being the same for nu and -nu). Arrays flagged in `ignore` get a class of their own."""
    cls = []
    for i, a in enumerate(nus):
        c = None
        if not (ignore and ignore[i]):
            for k in range(i):
                if ignore and ignore[k]:
                    continue
                if float(np.max(np.abs(a - nus[k]))) <= tol or (up_to_sign and float(np.max(np.abs(a + nus[k]))) <= tol):
                    c = cls[k]
                    break
        cls.append(c if c is not None else (max(cls) + 1 if cls else 0))
    return cls


def _dependent_copies(nus, thr=0.999):
    """pairs (i, k, r) of noise arrays that are rescaled / shifted / sign-flipped / slightly perturbed copies of one
    another: |Pearson correlation| >= thr. Independent realisations of n >= 48 samples have |r| of the order
    1/sqrt(n) (|r| >= 0.999 has no measurable probability); constant arrays are left out."""
    out = []
    c = []
    for a in nus:
        a = np.asarray(a, dtype=float)
        a = a - a.mean() if len(a) else a
        nrm = float(np.sqrt(np.sum(a * a))) if len(a) else 0.0
        c.append(a / nrm if nrm > 0 and np.isfinite(nrm) else None)
    for i in range(len(c)):
        for k in range(i):
            if c[i] is not None and c[k] is not None and len(c[i]) >= 16:
                r = float(np.sum(c[i] * c[k]))
                if abs(r) >= thr:
                    out.append((k, i, r))
    return out


def _multiset_match(A, B, tol):
    """A and B hold the same arrays (within tol) with the same multiplicities"""
    if len(A) != len(B):
        return False
    free = list(range(len(B)))
    for a in A:
        hit = next((j for j in free if float(np.max(np.abs(a - B[j]))) <= tol), None) if len(a) else (free[0] if free else None)
        if hit is None:
            return False
        free.remove(hit)
    return True


def _stage_noise_matrices(S, pure, nxt, ret_noise, K, N, tol):
    """The parent's noise matrix at every stage, as observed from outside: the pure-noise sifts in time order are the
    columns handed to the noise-only starmap of stage 0, 1, ..., K-1 (N per stage; stage k's matrix is also the one the
    members of fan-out k were given), followed by the returned matrix (stage K). Stages are separated by time (the
    noise sifts of stage k run after all member sifts of stage k and before those of stage k+1). Also reported: whether
    the chain closes, i.e. the matrix of stage k+1 is, as a multiset, {P - firstIMF(P) : P column of stage k} with the
    first IMF by the public sift (an open chain is a tag; the model comparison is what flags it).
    Returns (list of K+1 lists of N columns | None, note)."""
    pidx = [i for i in range(len(S)) if pure[i]]
    if len(pidx) != K * N:
        return None, 'noise-sift-count-%s' % ('low' if len(pidx) < K * N else 'high')
    if len(ret_noise) != N:
        return None, 'returned-noise-width'
    mats = [[S[i] for i in pidx[k * N:(k + 1) * N]] for k in range(K)] + [ret_noise]
    for k in range(K):
        if not _multiset_match([nxt[i] for i in pidx[k * N:(k + 1) * N]], mats[k + 1], tol):
            return mats, 'noise-chain-open-after-stage-%d' % k
    return mats, ''


def _column_duplicates(cols):
    """(pairs of equal columns with a non-zero sample, number of all-zero columns). Equal = bit-identical or within
    1e-13 of the larger magnitude (columns are copies of one another when a matrix repeats a column)."""
    live = [i for i, c in enumerate(cols) if _msk.max_abs(c) > 0]
    dup = []
    for a in range(len(live)):
        for b in range(a + 1, len(live)):
            u, v = cols[live[a]], cols[live[b]]
            if float(np.max(np.abs(u - v))) <= 1e-13 * max(_msk.max_abs(u), _msk.max_abs(v)):
                dup.append((live[a], live[b]))
    return dup, len(cols) - len(live)


class _Base(Stream):
    parallel = False

    def __init__(self):
        self._cache = {}

    def _memo(self, case, fn):
        k = case_key(case)
        if k not in self._cache:
            if len(self._cache) > 4:
                self._cache.clear()
            self._cache[k] = fn()
        return self._cache[k]

    def tags(self, case, out):
        sc = case['sig'].get('scale', 1.0)
        t = ['signal-units=' + ('x%g' % sc if sc in UNIT_SCALES else 'order-one(x0.01..x250)'),
             'N=%d' % case['N'], 'nproc=%d' % case['nproc'], 'mode=' + case['mode'], 'level=%s' % case['level'],
             'cap=%s' % case.get('cap'), 'delay' if case.get('delay') else 'no-delay']
        if isinstance(out, ImplError):
            t.append('harness-error=' + out['error'])
            return t
        if out.get('error'):
            t.append('error=' + out['error'])
        ws = set(e['w'] for e in out['events'] if e['kind'] == 'sift')
        t.append('workers-used=%d' % len(ws))
        fns = sorted(set((e.get('extra') or {}).get('fn') or '?' for e in out['events'] if e['kind'] == 'rng'))
        t.append('rng=' + ('+'.join(fns) if fns else 'none-traced'))
        return t

    def nontrivial(self, case, out):
        return case['N'] >= 2 and case['nproc'] >= 2 and case['level'] > 0 and not isinstance(out, ImplError) and not out.get('error')

    def shrink(self, case):
        if case['sig']['n'] > 48:
            if case['sig'].get('fam') == 'explicit':
                yield dict(case, sig=dict(case['sig'], n=48, v=case['sig']['v'][:48]))
            else:
                yield dict(case, sig=dict(case['sig'], n=48))
        if case.get('delay'):
            yield dict(case, delay=False)
        if case['N'] > 2:
            yield dict(case, N=case['N'] - 1)
        if case['nproc'] > 2:
            yield dict(case, nproc=case['nproc'] - 1)
        if case.get('opts'):
            yield dict(case, opts=0)


class Ensemble(_Base):
    name = 'ensemble'
    timeout_s = 300

    def corpus(self):
        s = {'fam': 'tones', 'n': 64, 'seed': 21, 'scale': 1.0}
        base = {'sig': s, 'N': 4, 'nproc': 4, 'mode': 'single', 'level': 0.2, 'cap': 3, 'seed': 12345, 'opts': 0, 'delay': False}
        return [
            base,                                                    # D7 witness: 4 members on 4 workers
            dict(base, nproc=2),                                     # D7 witness: 4 members on 2 workers
            dict(base, nproc=1),
            dict(base, mode='flip', nproc=3),
            dict(base, mode='flip', cap=None, level=0.2, nproc=1, seed=1),      # D7b witness: +/- runs of different width
            dict(base, mode='flip', cap=None, level=2.0, nproc=2, N=6, seed=7),
            dict(base, cap=None, level=2.0, N=8, nproc=8, seed=3),   # ragged member widths
            dict(base, level=0.0, cap=None, N=3, nproc=2),           # zero noise = classic sift
            dict(base, level=0.0, cap=2, N=5, nproc=5, mode='flip'),
            dict(base, N=1, nproc=1), dict(base, N=1, nproc=8), dict(base, N=8, nproc=1, mode='flip'),
            # zero noise, classic sift stops before the cap (witness of trailing all-zero columns with K = cap)
            {'sig': {'fam': 'tones', 'n': 48, 'seed': 698097774, 'scale': 250.0}, 'N': 1, 'nproc': 1, 'mode': 'flip',
             'level': 0.0, 'cap': 3, 'seed': 482678724, 'opts': 0, 'delay': False},
            {'sig': {'fam': 'walk', 'n': 48, 'seed': 5, 'scale': 1.0}, 'N': 3, 'nproc': 2, 'mode': 'single',
             'level': 0.0, 'cap': 6, 'seed': 4, 'opts': 0, 'delay': False},
            {'sig': {'fam': 'walk', 'n': 48, 'seed': 5, 'scale': 1.0}, 'N': 4, 'nproc': 3, 'mode': 'flip',
             'level': 0.05, 'cap': 6, 'seed': 4, 'opts': 0, 'delay': False},
            # one pool chunk holds several jobs (nensembles > 4 * nprocesses): jobs of a chunk share one unpickled X
            dict(base, N=6, nproc=1, mode='flip'), dict(base, N=7, nproc=1, mode='single', level=2.0),
            # the same signal in other physical units: a non-zero noise LEVEL is relative to the signal's own spread, so
            # the members are noisy and pairwise different whatever the amplitude (round-4 change: an absolute
            # `isclose(noise_scaling, 0)` shortcut gave 1e-13 / 1e-6 scaled signals no noise at all)
            dict(base, sig=dict(s, scale=1e-13), N=3, nproc=2), dict(base, sig=dict(s, scale=1e-13), N=4, nproc=3, mode='flip', level=2.0),
            dict(base, sig=dict(s, scale=1e-13), N=1, nproc=1, level=0.05),
            dict(base, sig=dict(s, scale=1e-6), N=3, nproc=2, level=0.005), dict(base, sig=dict(s, scale=1e-6), N=2, nproc=1, level=0.005, mode='flip'),
            dict(base, sig=dict(s, scale=1e6), N=3, nproc=2, level=0.05), dict(base, sig=dict(s, scale=1e6), N=2, nproc=2, level=0.0),
            dict(base, sig=dict(s, scale=1e-13), N=2, nproc=2, level=0.0),
        ]

    def generate(self, rng, tier):
        sizes = [48, 64, 96, 128]

        def mk(N, nproc, mode, level):
            sig = _msk.rand_signal_spec(rng, sizes)
            sig['fam'] = rng.choice(['tones', 'tones', 'chirp', 'noise', 'walk'])
            if rng.random() < 0.2:
                sig['scale'] = rng.choice(UNIT_SCALES)
                if level > 0 and rng.random() < 0.5:
                    level = 0.005      # a small level on a small signal: noise amplitude far below any absolute threshold
            return {'sig': sig, 'N': N, 'nproc': nproc, 'mode': mode, 'level': level,
                    'cap': rng.choice([None, 2, 3, 4, 3]), 'seed': rng.randrange(1 << 31),
                    'opts': rng.choice([0, 0, 2, 3, 4]), 'delay': rng.random() < 0.6}
        if tier == 'thorough':
            for N in range(1, 9):
                for nproc in range(1, 9):
                    for mode in ('single', 'flip'):
                        for level in LEVELS:
                            yield mk(N, nproc, mode, level)
        else:
            for _ in range(70):
                yield mk(rng.randint(1, 8), rng.randint(1, 8), rng.choice(['single', 'flip']),
                         rng.choice([0.0, 0.05, 0.05, 2.0, 2.0]))

    def impl(self, case):
        x = _signal(case['sig'])
        res, err, msg, events = _traced_call(case, lambda emd: emd.sift.ensemble_sift(
            x, nensembles=case['N'], ensemble_noise=case['level'], noise_mode=case['mode'],
            nprocesses=case['nproc'], max_imfs=case['cap'], imf_opts=_opts(case) or None))
        out = {'error': err, 'msg': msg, 'events': events}
        if res is not None:
            res = np.asarray(res)
            out['cols'] = [_msk.vlist(res[:, j]) for j in range(res.shape[1])]
        return out

    # -- analysis of one traced run (cached)
    def _analyse(self, case, out):
        def run():
            x = _signal(case['sig'])
            n, N = len(x), case['N']
            scale = float(x.std() * case['level'])
            opts = _opts(case)
            flip = case['mode'] == 'flip'
            per = 2 if flip else 1
            sig, other = _sifted(out, n)
            traced = len(sig)
            extra = 0
            if scale > 0 and len(sig) > N * per:
                # the property speaks about one noise realisation per member: sifts of OTHER inputs (here: of the
                # input itself, nothing added - a warm-up / sizing run) are no member sifts and must not matter
                keep = [e for e in sig if float(np.max(np.abs(e['v'] - x))) > 1e-12 * max(_mag(x), 1e-300)]
                if len(keep) == N * per:
                    extra, sig = len(sig) - len(keep), keep
            S = [e['v'] for e in sig]
            d = [s - x for s in S]
            tol = 1e-12 * max(_mag(x) + _mag(*d), 1e-300)
            an = {'x': x, 'scale': scale, 'tol': tol, 'sig': sig, 'd': d, 'other': other, 'expected': N * per,
                  'traceable': traced > 0, 'count_ok': len(S) == N * per, 'members': None, 'unmatched': [],
                  'decs': None, 'widths': [], 'attributed': False, 'units': _rng_units(out, n),
                  'extra_sifts_of_input': extra, 'traced': traced}
            # the public sift of every signal that was sifted (the property's member decompositions)
            if S and (an['count_ok'] or scale == 0):
                an['decs'] = [_classic(s, case['cap'], opts) for s in S]
                an['widths'] = [len(c) for c in an['decs']]
            # members: single = every sifted signal; flip = pairs (x + nu, x - nu)
            if an['count_ok']:
                if flip:
                    pairs, unmatched = _pair_up(d, tol)
                    an['unmatched'] = unmatched
                    if not unmatched:
                        an['members'] = [{'plus': i, 'minus': k} for i, k in pairs]
                else:
                    an['members'] = [{'plus': i, 'minus': None} for i in range(len(S))]
            ms = an['members']
            if ms is not None:
                for m in ms:
                    m['nu'] = d[m['plus']]
                    m['t'] = min(sig[m['plus']]['t'], sig[m['minus']]['t']) if flip else sig[m['plus']]['t']
                    m['w'] = sig[m['plus']]['w']
                    m['unit'] = None
                # attribution of the member noise to traced generator draws (model: noise = scale * draw)
                if scale > 0:
                    for m in ms:
                        for ui, u in enumerate(an['units']):
                            if float(np.max(np.abs((x + u['u'] * scale) - S[m['plus']]))) <= tol:
                                m['unit'] = ui
                            elif flip and float(np.max(np.abs((x + u['u'] * scale) - S[m['minus']]))) <= tol:
                                m['unit'] = ui         # the run with + (draw * scale) is the other one of the pair
                                m['plus'], m['minus'] = m['minus'], m['plus']
                                m['nu'] = d[m['plus']]
                            if m['unit'] is not None:
                                break
                    an['attributed'] = all(m['unit'] is not None for m in ms)
                else:
                    an['attributed'] = True      # nothing added: nothing to attribute
                if scale > 0 and an['attributed']:
                    ms.sort(key=lambda m: (m['unit'], m['t']))
                else:
                    ms.sort(key=lambda m: m['t'])
                an['classes'] = _same_noise_classes([m['nu'] for m in ms], tol, flip)
                an['copies'] = _dependent_copies([m['nu'] for m in ms])
            return an
        return self._memo(case, run)

    def _ragged(self, case, an):
        K = max(an['widths']) if an['widths'] else 0
        return any(w != K for w in an['widths']), K

    def _pinned_d3(self, case, out, an):
        """members of different widths (or narrower than the cap) on a tree that still has the un-repaired
        averaging loop of DESIGN 9-D3 (owned by C03): IndexError, or columns cut to the width of member 0"""
        if an['decs'] is None:
            return False
        ragged, K = self._ragged(case, an)
        narrow = case['cap'] is not None and K < case['cap']
        if not (ragged or narrow):
            return False
        if out.get('error') == 'IndexError':
            return True
        if out.get('cols') is not None and case['cap'] is None and len(out['cols']) < K:
            return True
        return False

    def ops(self, case, out):
        if isinstance(out, ImplError):
            return []
        an = self._analyse(case, out)
        x, scale, n, N = an['x'], an['scale'], len(an['x']), case['N']
        flip = case['mode'] == 'flip'
        tol = _msk.TOL * _amp(x, 6 * scale)
        if scale == 0:
            # zero noise: the model's members all sift x itself; the oracle table holds the classic sift of x
            # (the harness's own call of the public sift) and whatever was traced
            if N < 1:
                return []
            order, workers = list(range(N)), [0] * N
            noises = [[0.0] * n for _ in range(N)]
            entries = [(x, _classic(x, case['cap'], _opts(case)))]
            if an['decs'] is not None:
                entries += [(e['v'], c) for e, c in zip(an['sig'], an['decs'])][:2 * N]
        else:
            ms = an['members']
            if ms is None or an['decs'] is None:
                return []
            rank = sorted(range(len(ms)), key=lambda i: ms[i]['t'])
            order = rank
            wmap = {}
            workers = [wmap.setdefault(m['w'], len(wmap)) for m in ms]
            noises = []
            for m in ms:
                u = an['units'][m['unit']]['u'] if an['attributed'] else m['nu'] / scale
                noises.append(_msk.vlist(u))
            entries = []
            for m in ms:
                for i in ((m['plus'], m['minus']) if flip else (m['plus'],)):
                    entries.append((an['sig'][i]['v'], an['decs'][i]))
        p = max(case['nproc'], 1, max(workers) + 1)
        ops = [proto.op('POOLNOISE', {'n': len(order), 'p': p, 'model': MODEL_DRAW}, [order, workers])]
        vecs = [_msk.vlist(x), order, workers] + noises
        widths, tbl = [], []
        for arg, cols in entries:
            widths.append(len(cols))
            tbl.append(_msk.vlist(arg))
            tbl += [_msk.vlist(c) for c in cols]
        vecs += [widths] + tbl
        # the model forms the noise amplitude itself (Ensemble.noiseScale = std * level; C08.noise_scale_linear,
        # ensemble_scale_law): it is handed np.std(x) and the requested level, not the product
        ops.append(proto.op('ENS', {'n': len(order), 'flip': 1 if flip else 0, 'std': float(x.std()), 'level': float(case['level']),
                                    'tol': tol, 'p': p}, vecs))
        return ops

    def compare(self, case, out, results):
        if isinstance(out, ImplError):
            return 'harness/trace failure: %s %s' % (out['error'], out['msg'])
        an = self._analyse(case, out)
        if out.get('error') and not self._pinned_d3(case, out, an):
            return 'implementation raised %s (%s)' % (out['error'], out['msg'][-100:])
        if case['level'] > 0:
            if not an['traceable']:
                return SKIP_UNTRACEABLE
            if not an['count_ok']:
                return 'traced %d sifted signals for nensembles=%d, mode=%s' % (len(an['sig']), case['N'], case['mode'])
            if an['members'] is None:
                return 'flip mode: the sifted signals do not pair up as x + nu / x - nu'
        if len(results) != 2:
            return 'no model answer'
        pn, ens = results
        # 1. which draw does each member get: equality pattern under the observed schedule
        if not pn.ok:
            return 'POOLNOISE: %s' % pn.raw[:120]
        if case['level'] > 0:
            model_pat = _partition([int(v) for v in pn.vecs[0]])
            real_pat = _partition(an['classes'])
            if model_pat != real_pat:
                return ('noise sharing pattern: model (%s-side draws) %s, traced %s (workers %s)'
                        % (MODEL_DRAW, model_pat, real_pat, [m['w'] for m in an['members']]))
        # 2. ensemble output
        if self._pinned_d3(case, out, an):
            return 'skip:d3-ragged-pinned'
        if out.get('error'):
            return 'implementation raised %s (%s); model: %s' % (out['error'], out['msg'][-100:], ens.raw[:80])
        if not ens.ok:
            return 'ENS: %s' % ens.raw[:160]
        if int(ens.args['k']) != len(out['cols']):
            return 'columns: model %s impl %d (widths of the sifted signals %s)' % (ens.args['k'], len(out['cols']), an['widths'])
        tol = _msk.TOL * _amp(an['x'], 6 * an['scale'])
        for j, c in enumerate(out['cols']):
            if not _msk.frac_close(ens.vecs[j], c, tol):
                return 'ensemble column %d differs from the model mean' % j
        if case['level'] > 0 and not an['attributed']:
            return SKIP_UNATTRIBUTED
        return None

    def _flip_lone_members(self, case, out, an):
        """Flip mode, non-zero level, a number of traced sifts other than 2 * nensembles. Literal only when ALL of this
        holds (else None - the run stays mechanism-level):
          * the sifted signals other than the bare input fall into (x + nu, x - nu) pairs and lone signals x + nu whose
            x - nu was never handed to the public sift, pairs + lone = nensembles (so every member is identified), at
            least one lone member, every lone nu non-negligible (far above the comparison tolerance);
          * the returned array is NOT the per-IMF zero-padded mean over the members of the pair means, the missing
            -noise decompositions being supplied by the harness with the public sift (same cap / options): a rewrite
            that makes the -noise run through a private core returns that mean and is not flagged.
        Returns the failure detail."""
        if an['scale'] <= 0 or out.get('cols') is None or out.get('error'):
            return None
        x, n, N = an['x'], len(an['x']), case['N']
        cmp_tol = _msk.TOL * _amp(x, 6 * an['scale'])
        S = [e['v'] for e in an['sig'] if float(np.max(np.abs(e['v'] - x))) > 1e-12 * max(_mag(x), 1e-300)]
        if not S or len(S) >= 2 * N:
            return None
        d = [s - x for s in S]
        pairs, lone = _pair_up(d, 1e-12 * max(_mag(x) + _mag(*d), 1e-300))
        if not lone or len(pairs) + len(lone) != N or any(_msk.max_abs(d[i]) <= 1e3 * cmp_tol for i in lone):
            return None
        cols = [np.array(c) for c in out['cols']]
        opts = _opts(case)
        try:
            traced = [_classic(s, case['cap'], opts) for s in S]
            supplied = [_classic(x - d[i], case['cap'], opts) for i in lone]
        except Exception:   # noqa  (non-convergence of the harness's own sifts: nothing is claimed)
            return None
        decs = traced + supplied          # mean over members of (a + b) / 2 = mean over all 2N decompositions, zero-padded
        K = max(len(c) for c in decs)
        want = _zero_padded_mean(n, decs, K)
        if len(cols) == K:
            dev = max(float(np.max(np.abs(cols[j] - want[j]))) for j in range(K))
            if dev <= cmp_tol:
                return None
            how = 'deviates %.3g (tolerance %.3g) from' % (dev, cmp_tol)
        else:
            how = 'has %d columns, not the %d of' % (len(cols), K)
        alone = _zero_padded_mean(n, [traced[i] for i in lone], max(len(traced[i]) for i in lone)) if len(lone) == N else None
        note = ''
        if alone is not None and len(alone) == len(cols) and \
                max(float(np.max(np.abs(cols[j] - alone[j]))) for j in range(len(cols))) <= cmp_tol:
            note = '; it IS the mean of the +noise decompositions alone'
        return ('%d of the %d members: x + nu was sifted, x - nu never (noise amplitude %.3g, signal %.3g; %d signals sifted, '
                'nprocesses=%d); the result %s the mean over the members of the +noise / -noise pair means recomputed with the '
                'public sift%s' % (len(lone), N, max(_msk.max_abs(d[i]) for i in lone), _msk.max_abs(x), len(an['sig']),
                                   case['nproc'], how, note))

    def holds(self, case, out):
        if isinstance(out, ImplError):
            # the tracer / harness failed (framework time-out, pickling of the trace): not the property's words
            return [Failure('trace-failed:' + out['error'], out['msg'], literal=False)]
        an = self._analyse(case, out)
        x, n, N = an['x'], len(an['x']), case['N']
        flip = case['mode'] == 'flip'
        fs = []
        # -- own noise realisation per member (needs the sifted signals; nothing traced = skipped and counted)
        if case['level'] > 0 and an['traceable'] and not out.get('error'):
            if not an['count_ok']:
                lone = self._flip_lone_members(case, out, an) if flip else None
                if lone is not None:
                    # the property's own words: "in flip mode each member is itself the mean of the +noise and -noise
                    # decompositions" - members whose x + nu was sifted, whose x - nu never was, AND a result that is
                    # not the mean over the members of the pair means (so the -noise run was not made elsewhere either)
                    fs.append(Failure('flip-member-without-minus-noise-run', lone))
                else:
                    # mechanism-level: HOW MANY calls of the public sift a run makes is not the property's subject (a
                    # member run through a private core, a retry, a probe run of another signal); sifts of the bare input
                    # were already set aside. The members cannot be told apart here, so nothing literal is claimed.
                    fs.append(Failure('wrong-number-of-member-sifts', '%d signals were sifted for nensembles=%d in %s mode (expected %d)'
                                      % (len(an['sig']), N, case['mode'], an['expected']), literal=False))
            elif an['members'] is None:
                fs.append(Failure('flip-second-run-not-sign-flipped-noise',
                                  '%d of the %d sifted signals have no partner x - nu for their x + nu'
                                  % (len(an['unmatched']), len(an['sig']))))
            else:
                cl = an['classes']
                if len(set(cl)) != len(cl):
                    ms = an['members']
                    fs.append(Failure('members-share-noise', '%d distinct noise arrays for %d members on %d worker processes '
                                      '(nprocesses=%d, mode=%s); sharing pattern %s by worker %s'
                                      % (len(set(cl)), len(ms), len(set(m['w'] for m in ms)), case['nproc'], case['mode'],
                                         _partition(cl), [m['w'] for m in ms])))
                elif an['scale'] > 0 and any(_msk.max_abs(m['nu']) == 0 for m in an['members']):
                    k0 = sum(1 for m in an['members'] if _msk.max_abs(m['nu']) == 0)
                    fs.append(Failure('member-sifted-without-noise', '%d of the %d members sifted the input itself although the noise '
                                      'level is %s (noise amplitude %.3g for a signal of amplitude %.3g)'
                                      % (k0, len(an['members']), case['level'], an['scale'], _msk.max_abs(x))))
                elif an.get('copies'):
                    a, b, r = an['copies'][0]
                    fs.append(Failure('members-share-noise:rescaled-or-shifted-copy',
                                      'the noise of members %d and %d is one realisation up to scale / offset / sign / a tiny '
                                      'perturbation (correlation %.6f over %d samples; %d such pairs among %d members)'
                                      % (a, b, r, n, len(an['copies']), len(an['members']))))
        if out.get('error'):
            if self._pinned_d3(case, out, an):
                return fs
            if out['error'] == 'EMDSiftCovergeError':
                return fs      # documented non-convergence error of an underlying extraction: C04's matter, not C08's
            if out['error'] == 'Timeout':
                # run time is not the property's subject (the call forks up to 8 workers under a 20 s wall-clock budget)
                fs.append(Failure('raises:Timeout', out['msg'], literal=False))
                return fs
            kind = 'raises:' + out['error']
            lit = True
            if out['error'] == 'ValueError' and flip and 'broadcast' in out['msg']:
                # +/- runs of different width: "the mean of the two decompositions" is not defined by the property
                kind += ':flip-runs-differ-in-column-count'
                lit = False
            fs.append(Failure(kind, out['msg'], literal=lit))
            return fs
        cols = [np.array(c) for c in out['cols']]
        # -- result = per-IMF mean over the members, recomputed with the public sift from the sifted signals
        #    (flip: the mean over members of (a + b) / 2 is the mean over all 2N decompositions, zero-padded)
        if an['decs'] is not None and not self._pinned_d3(case, out, an):
            K = max(an['widths'])
            want = _zero_padded_mean(n, an['decs'], K)
            tol = _msk.TOL * _amp(x, 6 * an['scale'])
            if len(cols) != len(want):
                fs.append(Failure('ensemble-wrong-column-count', '%d columns, the sifted signals have %s, cap %s'
                                  % (len(cols), an['widths'], case['cap'])))
            else:
                for j in range(len(cols)):
                    dev = float(np.max(np.abs(cols[j] - want[j])))
                    if dev > tol:
                        kind = 'ensemble-not-mean-of-members'
                        if flip:
                            kind += ':flip'
                        fs.append(Failure(kind, 'column %d deviates %.3g from the mean over the %d decompositions recomputed '
                                          'from the sifted signals' % (j, dev, len(an['decs']))))
                        break
        if case['level'] > 0 and an['scale'] > 0 and cols:
            # a non-zero noise level (relative to the signal's own spread) perturbs every member: whatever was traced, a
            # result that IS the classic sift of the input to within rounding was made without any noise. Literal in
            # single mode (mean_i sift(x + nu_i) = sift(x) needs mean_i nu_i = 0). In flip mode small noise cancels
            # exactly when it moves no extremum and no stop decision (the sift is then linear in its input: witnessed on
            # the unchanged code, scale 1e-6, level 0.005), so there the verdict needs the trace - only the bare input
            # was sifted - and stays mechanism-level.
            ref = _classic(x, case['cap'], _opts(case))
            if len(ref) == len(cols) and all(float(np.max(np.abs(a - b))) <= 1e-12 * _amp(x) for a, b in zip(ref, cols)):
                allsig = _sifted(out, n)[0]
                bare = sum(1 for e in allsig if float(np.max(np.abs(e['v'] - x))) == 0)
                if not flip or (allsig and bare == len(allsig)):
                    fs.append(Failure('nonzero-noise-level-but-result-is-the-classic-sift',
                                      'ensemble_noise=%s on a signal of amplitude %.3g (noise amplitude %.3g): the result equals '
                                      'sift(x, max_imfs=%s) to within 1e-12 relative; %d sifted signals traced, %d of them the input itself'
                                      % (case['level'], _msk.max_abs(x), an['scale'], case['cap'], len(allsig), bare), literal=not flip))
        if case['level'] == 0:
            ref = _classic(x, case['cap'], _opts(case))
            ztol = 1e-12 * _amp(x)
            same_prefix = all(np.max(np.abs(a - b)) <= ztol for a, b in zip(ref, cols))
            if len(cols) > len(ref) and same_prefix and all(np.max(np.abs(c)) == 0 for c in cols[len(ref):]):
                fs.append(Failure('zero-noise-trailing-zero-columns',
                                  'ensemble_sift(ensemble_noise=0, max_imfs=%s) returns %d columns: the %d columns of sift(x, max_imfs=%s) '
                                  'followed by %d all-zero columns' % (case['cap'], len(cols), len(ref), case['cap'], len(cols) - len(ref))))
            elif len(ref) != len(cols) or not same_prefix:
                fs.append(Failure('zero-noise-differs-from-classic-sift', '%d vs %d columns' % (len(cols), len(ref))))
        return fs

    def tags(self, case, out):
        t = super().tags(case, out)
        if not isinstance(out, ImplError):
            an = self._analyse(case, out)
            if self._ragged(case, an)[0]:
                t.append('ragged-member-widths')
            if an['members'] is not None and case['mode'] == 'flip' and an['decs'] is not None and \
                    any(len(an['decs'][m['plus']]) != len(an['decs'][m['minus']]) for m in an['members']):
                t.append('flip-runs-differ-in-width')
            if self._pinned_d3(case, out, an):
                t.append('d3-ragged-pinned')
            t.append('opts=%d' % case.get('opts', 0))
            if not an['traceable']:
                t.append('untraceable')
            elif case['level'] > 0 and an['members'] is not None:
                t.append('noise-attributed-to-rng-draws' if an['attributed'] else 'noise-not-attributed-to-rng-draws')
            if an['other']:
                t.append('sifts-of-other-signals')
            if an.get('extra_sifts_of_input'):
                t.append('extra-sifts-of-the-bare-input-set-aside')
            # successive draws of one process are distinct (assumption of the distinctness theorem; about numpy, not emd)
            seen = set()
            for u in an['units']:
                k = (u['w'], u['fn'], _msk.sha(u['u']))
                if k in seen and len(set(u['u'].tolist())) > 1:
                    t.append('ASSUMPTION-BROKEN:generator-repeats-a-draw')
                    break
                seen.add(k)
            if len(set(e['w'] for e in an['sig'])) and any(e['w'] == -1 for e in an['sig']):
                t.append('sift-in-parent-process')
        return t


class Complete(_Base):
    name = 'complete'
    timeout_s = 300

    def corpus(self):
        s = {'fam': 'tones', 'n': 64, 'seed': 22, 'scale': 1.0}
        base = {'sig': s, 'N': 4, 'nproc': 4, 'mode': 'single', 'level': 0.2, 'cap': 2, 'seed': 99, 'delay': False}
        t = np.linspace(0, 2, 128)
        return [base, dict(base, nproc=1), dict(base, mode='flip', nproc=3, N=5), dict(base, level=0.0, N=2, nproc=2),
                dict(base, N=1, nproc=2, level=2.0), dict(base, N=8, nproc=8, cap=None, level=0.05),
                dict(base, N=6, nproc=1, mode='flip', cap=3),
                # the same signal in other physical units. D-C08-ceemd (repaired): the first fan-out scaled the noise twice,
                # so on a 1e-13 signal with a small level the noise fell below the rounding of the signal - two of four
                # stage-0 members sifted the bare input, three distinct inputs for four members (first case = the witness)
                {'sig': {'fam': 'explicit', 'n': 128, 'seed': 0, 'scale': 1e-13,
                         'v': _msk.vlist(np.sin(2 * np.pi * 5 * t) + .6 * np.cos(2 * np.pi * 23 * t) + t)},
                 'N': 4, 'nproc': 1, 'mode': 'single', 'level': 0.005, 'cap': 2, 'seed': 1, 'delay': False},
                dict(base, sig=dict(s, scale=1e-13), level=0.005), dict(base, sig=dict(s, scale=1e-13), level=0.05, mode='flip', N=3, nproc=2),
                dict(base, sig=dict(s, scale=1e-6), level=0.005, N=3, nproc=2), dict(base, sig=dict(s, scale=1e6), level=0.05, N=3, nproc=3),
                dict(base, sig=dict(s, scale=1e6), level=2.0, N=2, nproc=2, mode='flip'), dict(base, sig=dict(s, scale=1e-13), level=0.0, N=2)]

    def generate(self, rng, tier):
        sizes = [48, 64, 96]
        for _ in range(160 if tier == 'thorough' else 22):
            sig = _msk.rand_signal_spec(rng, sizes)
            sig['fam'] = rng.choice(['tones', 'tones', 'chirp', 'noise', 'walk'])
            level = rng.choice([0.0, 0.05, 0.05, 2.0, 2.0])
            if rng.random() < 0.2:
                sig['scale'] = rng.choice(UNIT_SCALES)
                if level > 0 and rng.random() < 0.5:
                    level = 0.005
            yield {'sig': sig, 'N': rng.randint(1, 8), 'nproc': rng.randint(1, 8), 'mode': rng.choice(['single', 'flip']),
                   'level': level, 'cap': rng.choice([None, 1, 2, 3]),
                   'seed': rng.randrange(1 << 31), 'delay': rng.random() < 0.6}

    def _impl_once(self, case):
        x = _signal(case['sig'])
        res, err, msg, events = _traced_call(case, lambda emd: emd.sift.complete_ensemble_sift(
            x, nensembles=case['N'], ensemble_noise=case['level'], noise_mode=case['mode'],
            nprocesses=case['nproc'], max_imfs=case['cap']))
        out = {'error': err, 'msg': msg, 'events': events}
        if res is not None:
            imf, noise = np.asarray(res[0]), np.asarray(res[1])
            out['cols'] = [_msk.vlist(imf[:, j]) for j in range(imf.shape[1])]
            out['noise'] = [_msk.vlist(noise[:, j]) for j in range(noise.shape[1])]
        return out

    def impl(self, case):
        # The quantifier ranges over "all job-to-worker assignments the pool produces": what one call does depends on
        # the scheduling of that call. A case may therefore ask for several calls (`repeat`, set by the shrinker so
        # that a replay file reproduces a scheduling-dependent failure): the first call whose member noise is not the
        # members' own (see `mixed`) or that raises is the one reported, else the last one.
        out = None
        for attempt in range(max(1, int(case.get('repeat') or 1))):
            out = self._impl_once(case)
            if attempt + 1 >= int(case.get('repeat') or 1) or out.get('error'):
                break
            if self._analyse_run(case, out).get('mixed'):
                break
        out['attempts'] = attempt + 1
        return out

    def _analyse(self, case, out):
        return self._memo(case, lambda: self._analyse_run(case, out))

    def _analyse_run(self, case, out):
        def run():
            import emd
            x = _signal(case['sig'])
            n, N = len(x), case['N']
            scale = float(x.std() * case['level'])
            flip = case['mode'] == 'flip'
            per = 2 if flip else 1
            sig, other = _sifted(out, n)
            an = {'x': x, 'scale': scale, 'per': per, 'sig': sig, 'other': other, 'traceable': len(sig) > 0,
                  'stages': None, 'recognised': False, 'why': 'nothing-traced', 'units': _rng_units(out, n),
                  'noise0': None, 'noise_attributed': False}
            if not sig or not out.get('cols'):
                return an
            cols = [np.array(c) for c in out['cols']]
            K = len(cols)
            ret_noise = [np.array(c) for c in (out.get('noise') or [])]
            resid = [x - (np.sum(cols[:k], axis=0) if k else 0.0) for k in range(K)]
            S = [e['v'] for e in sig]
            tol = 1e-12 * max(_mag(x) + _mag(*S), 1e-300)
            an['tol'] = tol
            memo = {}

            def F(y):       # first IMF by the public sift, as both fan-outs of the code ask for it
                k = y.tobytes()
                if k not in memo:
                    memo[k] = np.asarray(emd.sift.sift(y, sift_thresh=1e-8, max_imfs=1))[:, 0].copy()
                return memo[k]
            first = [F(s) for s in S]
            an['first'] = first
            nxt = [s - f for s, f in zip(S, first)]

            def near(a, pool, skip=None):
                return any(j != skip and float(np.max(np.abs(a - b))) <= tol for j, b in enumerate(pool))
            # pure-noise sifts vs member sifts, by content: a noise column P is sifted to take its first mode out, and
            # what is left (P - firstIMF(P)) is sifted in the next stage or returned. (A signal without extrema is its
            # own first IMF, so "what is left" of an exhausted member input and of an exhausted noise column are both
            # exactly zero: zero remainders link nothing.)
            nz = [_msk.max_abs(v) > 0 for v in nxt]
            pure = []
            for i, s in enumerate(S):
                if _msk.max_abs(s) == 0:
                    pure.append(True)                       # an exhausted / zero-amplitude noise column
                elif near(s, resid):
                    pure.append(False)                      # residual + zero noise: a member whose noise is exhausted
                elif nz[i] and (near(nxt[i], S, skip=i) or near(nxt[i], ret_noise)):
                    pure.append(True)                       # its remainder is sifted later / returned
                else:                                       # it is the remainder of an earlier noise sift
                    pure.append(any(j != i and nz[j] and float(np.max(np.abs(s - nxt[j]))) <= tol for j in range(len(S))))
            members = [i for i in range(len(S)) if not pure[i]]      # in time order
            an['by_rounds'] = False
            if len(members) != K * N * per and len(S) == K * N * (per + 1) and scale > 0:
                # The content rule needs every sifted noise column's own remainder to turn up again. When it does not
                # (that is what the check below is about), fall back on the barrier structure of a run: every fan-out is
                # collected completely before the next one is handed out, so in time order the trace is K rounds of
                # N*per member sifts followed by N noise-only sifts. Accepted only if every stage-0 member signal is the
                # input +/- a multiple of one of the columns sifted in the first noise round.
                rp = []
                for k in range(K):
                    rp += [False] * (N * per) + [True] * N
                P0 = [S[i] for i in range(N * per, N * (per + 1))]

                def multiple_of_some(e):
                    for q in P0:
                        qq = float(np.dot(q, q))
                        if qq > 0 and float(np.max(np.abs(e - (float(np.dot(e, q)) / qq) * q))) <= 1e-9 * max(_mag(e), 1e-300):
                            return True
                    return False
                if all(multiple_of_some(S[i] - x) for i in range(N * per)):
                    pure, an['by_rounds'] = rp, True
                    members = [i for i in range(len(S)) if not pure[i]]
            an['pure'] = pure
            if len(members) != K * N * per:
                an['why'] = 'member-sift-count-%s-for-%d-stages' % ('low' if len(members) < K * N * per else 'high', K)
                return an
            an['recognised'], an['why'] = True, ''
            stages = []
            for k in range(K):
                idx = members[k * N * per:(k + 1) * N * per]
                e = [S[i] - resid[k] for i in idx]
                st = {'idx': idx, 'e': e, 'resid': resid[k], 'col': cols[k]}
                st['negligible'] = [_msk.max_abs(v) <= 1e-9 * max(_mag(x), 1e-300) for v in e]
                if flip:
                    st['pairs'], st['unmatched'] = _pair_up(e, tol)
                    reps = [a for a, b in st['pairs']] if not st['unmatched'] else None
                else:
                    st['pairs'], st['unmatched'] = None, []
                    reps = list(range(len(idx)))
                st['reps'] = reps
                if reps is not None:
                    st['classes'] = _same_noise_classes([e[r] for r in reps], tol, flip, ignore=[st['negligible'][r] for r in reps])
                stages.append(st)
            an['stages'] = stages
            an['stage_noise'], an['stage_noise_why'] = _stage_noise_matrices(S, pure, nxt, ret_noise, K, N, tol)
            # own noise realisation at the LATER fan-outs: the noise matrix handed to the members of stage k+1 holds, per
            # member, what is left of that member's column after its own first mode was taken out. A column that is
            # instead (column of member a) - (first mode of the column of ANOTHER member b) mixes two members'
            # realisations; it is reported when a member of stage k+1 was demonstrably sifted with it.
            an['mixed'] = []
            mats = an['stage_noise']
            if mats is not None and scale > 0:
                pidx = [i for i in range(len(S)) if pure[i]]
                for k in range(K - 1):
                    rnd = pidx[k * N:(k + 1) * N]
                    tk = 1e-12 * max(_mag(*[S[i] for i in rnd]), _mag(resid[k + 1]), 1e-300)     # stage-local tolerance
                    for c, q in enumerate(mats[k + 1]):
                        if _msk.max_abs(q) == 0 or any(float(np.max(np.abs(q - nxt[i]))) <= max(tol, tk) for i in rnd):
                            continue
                        hit = next(((a, b) for a in range(N) for b in range(N) if a != b and
                                    float(np.max(np.abs(q - (S[rnd[a]] - first[rnd[b]])))) <= tk), None)
                        if hit is None:
                            continue
                        if any(float(np.max(np.abs(e - q))) <= tk or float(np.max(np.abs(e + q))) <= tk for e in stages[k + 1]['e']):
                            own = min(float(np.max(np.abs(q - nxt[i]))) for i in rnd)
                            an['mixed'].append({'stage': k + 1, 'col': c, 'a': hit[0], 'b': hit[1], 'dev': own})
            # stage-0 noise columns as the model sees them: member noise = +/- (a noise column P that is sifted itself)
            st0 = stages[0]
            if st0['reps'] is not None:
                P = [S[i] for i in range(len(S)) if pure[i]]
                noise0 = []
                for r in st0['reps']:
                    hit = None
                    if scale == 0:
                        hit = np.zeros(n)
                    else:
                        for p_ in P:
                            if float(np.max(np.abs(st0['e'][r] - p_))) <= tol or \
                                    (flip and float(np.max(np.abs(st0['e'][r] + p_))) <= tol):
                                hit = p_
                                break
                    noise0.append(hit)
                if all(h is not None for h in noise0):
                    an['noise0'] = noise0
                    if scale > 0:
                        an['noise_attributed'] = all(
                            any(float(np.max(np.abs(u['u'] * scale - p_))) <= tol for u in an['units']) for p_ in noise0)
                    else:
                        an['noise_attributed'] = True
            return an
        return run()

    def ops(self, case, out):
        if isinstance(out, ImplError) or out.get('error'):
            return []
        an = self._analyse(case, out)
        if not an['recognised'] or an['noise0'] is None:
            return []
        x, scale, N = an['x'], an['scale'], case['N']
        S = [e['v'] for e in an['sig']]
        M = [(p_ / scale if scale > 0 else p_) for p_ in an['noise0']]
        vecs = [_msk.vlist(x)] + [_msk.vlist(m) for m in M]
        tf = [i for i in range(len(S)) if not an['pure'][i]]
        tn, seen = [], set()
        for i in range(len(S)):
            if an['pure'][i] and S[i].tobytes() not in seen:
                seen.add(S[i].tobytes())
                tn.append(i)
        for i in tf + tn:
            vecs += [_msk.vlist(S[i]), _msk.vlist(an['first'][i])]
        return [proto.op('CEEMD', {'n': N, 'flip': 1 if case['mode'] == 'flip' else 0, 'std': float(x.std()), 'level': float(case['level']),
                                   'tol': _msk.TOL * _amp(x, scale), 'stages': len(an['stages']) - 1,
                                   'nf': len(tf), 'nn': len(tn), 'rot': case['nproc']}, vecs)]

    def compare(self, case, out, results):
        if isinstance(out, ImplError):
            return 'harness/trace failure: %s %s' % (out['error'], out['msg'])
        if out.get('error'):
            return 'implementation raised %s (%s)' % (out['error'], out['msg'][-120:])
        an = self._analyse(case, out)
        if not an['traceable']:
            return SKIP_UNTRACEABLE
        if not an['recognised']:
            return 'skip:ceemd-stage-structure-not-recognised'
        if an['stages'][0]['reps'] is None:
            return 'flip mode: the signals sifted in stage 0 do not pair up as x + nu / x - nu'
        if an['noise0'] is None:
            return 'skip:ceemd-member-noise-not-among-the-sifted-noise-columns'
        if not results:
            return 'no model answer'
        r = results[0]
        if not r.ok:
            return 'CEEMD: %s' % r.raw[:160]
        K = len(out['cols'])
        if int(r.args['k']) != K:
            return 'columns: model %s impl %d' % (r.args['k'], K)
        tol = _msk.TOL * _amp(an['x'], an['scale'])
        for j, c in enumerate(out['cols']):
            if not _msk.frac_close(r.vecs[j], c, tol):
                return 'column %d differs from the model mean over members' % j
        # returned noise matrix: which member holds which column is not observable from outside -> compared as a multiset
        model_noise = [[float(v) for v in vec] for vec in r.vecs[K:]]
        if len(model_noise) != len(out['noise']):
            return 'returned noise: model %d columns, impl %d' % (len(model_noise), len(out['noise']))
        free = list(range(len(model_noise)))
        for j, c in enumerate(out['noise']):
            hit = next((i for i in free if max([abs(a - b) for a, b in zip(model_noise[i], c)] + [0.0]) <= tol), None)
            if hit is None:
                return 'returned noise column %d is not a column of the model\'s noise matrix' % j
            free.remove(hit)
        if case['level'] > 0 and not an['noise_attributed']:
            return SKIP_UNATTRIBUTED
        return None

    def holds(self, case, out):
        if isinstance(out, ImplError):
            return [Failure('trace-failed:' + out['error'], out['msg'], literal=False)]     # tracer / harness failure
        if out.get('error'):
            if out['error'] == 'EMDSiftCovergeError':
                return []      # documented non-convergence error of an underlying extraction (C04)
            # run time is not the property's subject (20 s wall clock for a call that forks up to 8 workers)
            return [Failure('raises:' + out['error'], out['msg'], literal=out['error'] != 'Timeout')]
        an = self._analyse(case, out)
        fs = []
        x, flip = an["x"], case['mode'] == 'flip'
        if case['level'] == 0 and out.get('cols'):
            # zero noise amplitude: every member of every stage sifts the running residual itself, so the columns are
            # those of the classic sift (to within rounding; compared on the columns both runs produce - when to stop
            # is C03's subject)
            ref = _classic(x, case['cap'], {})
            cols = [np.array(c) for c in out['cols']]
            ztol = _msk.TOL * _amp(x)
            for j in range(min(len(ref), len(cols))):
                dev = float(np.max(np.abs(ref[j] - cols[j])))
                if dev > ztol:
                    fs.append(Failure('zero-noise-differs-from-classic-sift', 'complete_ensemble_sift(ensemble_noise=0): column %d '
                                      'deviates %.3g from column %d of sift(x, max_imfs=%s)' % (j, dev, j, case['cap'])))
                    break
        if not an['recognised']:
            return fs            # skipped and counted by compare()
        if an.get('by_rounds'):
            # stages told apart by the pool rounds only (the content rule did not close): nothing but the own-remainder
            # check, which is what that recognition exists for, is judged on such a run
            return fs + self._mixed_failure(case, out, an)
        tol = _msk.TOL * _amp(x, an['scale'])
        for k, st in enumerate(an['stages']):
            if flip and st['unmatched']:
                fs.append(Failure('flip-second-run-not-sign-flipped-noise',
                                  'stage %d: %d of the %d member signals have no partner residual - nu for their residual + nu'
                                  % (k, len(st['unmatched']), len(st['idx']))))
                break
        st0 = an['stages'][0]
        if case['level'] > 0 and an['scale'] > 0 and any(st0['negligible']):
            # the drawn matrix (stage 0) is the members' noise: at a non-zero level, relative to the signal's own spread,
            # every member's is far above rounding whatever the amplitude of the signal (later stages: see below)
            k0 = sum(1 for v in st0['negligible'] if v)
            fs.append(Failure('member-sifted-without-noise', 'stage 0: %d of the %d member signals are the input itself to within '
                              '1e-9 of its amplitude although the noise level is %s (noise amplitude %.3g, signal amplitude %.3g); '
                              '%d distinct inputs' % (k0, len(st0['e']), case['level'], an['scale'], _msk.max_abs(x),
                                                      len({np.asarray(v).tobytes() for v in st0['e']}))))
        if case['level'] > 0:
            for k, st in enumerate(an['stages']):
                # a noise column whose modes are exhausted becomes exactly zero in later stages (that is the algorithm);
                # distinct noise is demanded among the members whose noise is not (numerically) zero
                if st['reps'] is None:
                    continue
                cl = [c for c, r in zip(st['classes'], st['reps']) if not st['negligible'][r]]
                if len(set(cl)) != len(cl):
                    fs.append(Failure('members-share-noise', 'stage %d: %d distinct noise arrays for %d members with non-zero noise'
                                      % (k, len(set(cl)), len(cl))))
                    break
            # rescaled / shifted / perturbed copies of one realisation: judged on the drawn matrix (stage 0) only - the
            # later matrices hold what is left of a column after its fast modes are gone (slow trends correlate by nature)
            st0 = an['stages'][0]
            if not fs and st0['reps'] is not None:
                live = [st0['e'][r] for r in st0['reps'] if not st0['negligible'][r]]
                cp = _dependent_copies(live)
                if cp:
                    fs.append(Failure('members-share-noise:rescaled-or-shifted-copy',
                                      'stage 0: the noise of members %d and %d is one realisation up to scale / offset / sign / a '
                                      'tiny perturbation (correlation %.6f; %d such pairs among %d members)'
                                      % (cp[0][0], cp[0][1], cp[0][2], len(cp), len(live))))
            fs += self._mixed_failure(case, out, an)
        # hypothesis of C08.ceemd_noise_distinct_all_stages / ceemd_noise_distinct_every_fanout, as observed: the noise
        # matrix of EVERY stage (fan-outs 0..K-1 and the returned one) has pairwise distinct columns. Columns that are
        # exactly zero are exhausted (own first IMF removed): they coincide by the algorithm, are reported as a tag and
        # fall under C08.ceemd_live_noise_distinct_all_stages (distinctness of the columns that are still live).
        if case['level'] > 0 and an.get('stage_noise') is not None:
            for k, mat in enumerate(an['stage_noise']):
                dup, _ = _column_duplicates(mat)
                if dup:
                    where = 'returned noise matrix' if k == len(an['stages']) else 'noise matrix of fan-out %d' % k
                    # hypothesis of the all-stages distinctness theorem as observed on the parent's matrices (incl. the
                    # RETURNED one, which no member sifts): mechanism-level; the property's words are `members-share-noise`
                    fs.append(Failure('ceemd:stage-noise-duplicate', '%s: columns %s coincide (%d columns, non-zero)'
                                      % (where, dup[:3], len(mat)), literal=False))
                    break
        for k, st in enumerate(an['stages']):
            want = np.mean([an['first'][i] for i in st['idx']], axis=0)
            dev = float(np.max(np.abs(st['col'] - want)))
            if dev > tol:
                fs.append(Failure('ceemd-imf-not-mean-of-members' + (':flip' if flip else ''),
                                  'column %d deviates %.3g from the mean over the first IMFs of the %d signals sifted in that stage'
                                  % (k, dev, len(st['idx']))))
                break
        return fs

    def _mixed_failure(self, case, out, an):
        if not an.get('mixed'):
            return []
        m = an['mixed'][0]
        return [Failure('ceemd-member-noise-mixes-two-members-realisations',
                        'stage %d (nprocesses=%d, call %s of this case): a member is sifted with column %d of the noise matrix of that '
                        'stage, which is (noise column of member %d after stage %d) - (first mode of the noise column of '
                        'member %d): not that member\'s own realisation with its own first mode removed (differs from every '
                        'own remainder by >= %.3g); %d such columns in this run'
                        % (m['stage'], case['nproc'], out.get('attempts', 1), m['col'], m['a'], m['stage'] - 1, m['b'],
                           m['dev'], len(an['mixed'])))]

    def shrink(self, case):
        # scheduling-dependent failures: first make the case ask for several delayed calls, so that the smaller
        # variants (and the replay file) reproduce it with high probability
        if case['nproc'] >= 2 and int(case.get('repeat') or 1) < 6:
            yield dict(case, repeat=6, delay=True)
        for c in super().shrink(case):
            if c.get('repeat') and not c.get('delay'):
                continue
            yield c

    def tags(self, case, out):
        t = super().tags(case, out)
        if not isinstance(out, ImplError) and out.get('cols'):
            t.append('columns=%d' % len(out['cols']))
            an = self._analyse(case, out)
            if not an['traceable']:
                t.append('untraceable')
            elif not an['recognised']:
                t.append('stage-structure-not-recognised:' + an['why'])
            else:
                if an['noise0'] is None:
                    t.append('member-noise-not-among-sifted-noise-columns')
                elif case['level'] > 0:
                    t.append('noise-attributed-to-rng-draws' if an['noise_attributed'] else 'noise-not-attributed-to-rng-draws')
                if any(any(st['negligible']) for st in an['stages']) and case['level'] > 0:
                    t.append('exhausted-noise-column')
                if an.get('by_rounds'):
                    t.append('stages-recognised-by-pool-rounds')
                if case['level'] > 0 and case['nproc'] >= 2 and case['N'] >= 2 and len(an['stages']) >= 2 \
                        and an.get('stage_noise') is not None:
                    t.append('later-fan-out-noise-checked-against-own-remainders(nproc>=2)')
                if case['level'] > 0:
                    if an.get('stage_noise') is None:
                        t.append('stage-noise-matrices-not-recognised:' + an.get('stage_noise_why', '?'))
                    else:
                        if an.get('stage_noise_why'):
                            t.append('stage-noise-chain-open')
                        K = len(an['stages'])
                        zeros = [_column_duplicates(m)[1] for m in an['stage_noise']]
                        if any(_column_duplicates(m)[0] for m in an['stage_noise']):
                            t.append('stage-noise-duplicate')
                        elif any(z >= 2 for z in zeros[:K]):
                            t.append('HYPOTHESIS-BROKEN:several-exhausted-noise-columns-coincide-at-a-fan-out(live-columns-distinct)')
                        elif zeros[K] >= 2:
                            t.append('stage-noise-nodup-at-every-fan-out(returned-matrix-has-several-exhausted-columns)')
                        else:
                            t.append('stage-noise-nodup-at-every-stage')
        return t


STREAMS = [Ensemble(), Complete()]


def _guard(fn):
    """An exception inside an instance check is a harness fault (an oracle tripping over an unexpected but legal
    output container), not the property's words failing: reported as mechanism-level, never as a violation."""
    def holds(self, case, out):
        try:
            return fn(self, case, out)
        except Exception as e:  # noqa
            return [Failure('instance-check-crashed', repr(e), literal=False)]
    return holds


for _cls in {_b for _s in STREAMS for _b in type(_s).__mro__ if _b.__module__ == __name__ and 'holds' in _b.__dict__}:
    _cls.holds = _guard(_cls.holds)
