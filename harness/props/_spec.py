"""Shared pieces of the spectrum checks (C10 hilberthuang / hilberthuang_1d, C11 holospectrum).

Everything is EXACT (DESIGN.md section 3 rule 3): amplitudes are small integers / short dyadics, so every
float sum the implementation forms is exact and is compared with `==` against the rational model;
frequencies are compared with the bin edges as raw inputs (no arithmetic), so the float comparison and
the rational comparison are the same comparison.  NaN frequencies are sent to the model as a mask.
"""
import itertools
import math
import os
from fractions import Fraction

import numpy as np

from common import proto
from common.framework import Failure, err_kind

MODES = ('energy', 'amplitude')


# ---------------------------------------------------------------------------------------------
# bin edges come from the real emd.spectra.define_hist_bins / define_hist_bins_from_data

def make_edges(espec, data=None):
    """espec: {'lo','hi','n','scale'} | {'from_data': 1,'n','scale'} | {'explicit': [...]}"""
    from emd import spectra
    if 'explicit' in espec:
        return np.array(espec['explicit'], dtype=float)
    if espec.get('from_data'):
        X = np.asarray(data, dtype=float)
        X = X[np.isfinite(X)]
        e, _ = spectra.define_hist_bins_from_data(X, nbins=espec['n'], scale=espec.get('scale', 'linear'))
        return e
    e, _ = spectra.define_hist_bins(espec['lo'], espec['hi'], espec['n'], scale=espec.get('scale', 'linear'))
    return e


def grid_for(e, with_nan=True, fine=False):
    """Edge-hitting alphabet for an edge vector: [(label, value-or-None)].
    below / negative / each edge exactly / each bin interior / above (/ NaN); `fine` adds the floats
    adjacent to the first and last edge."""
    e = [float(v) for v in e]
    g = []
    lo, hi = e[0], e[-1]
    span = (hi - lo) if hi > lo else 1.0
    g.append(('below', lo - span / 4 if lo - span / 4 > 0 or lo <= 0 else lo / 2))
    g.append(('negative', -abs(hi) - 1.0))
    for i, v in enumerate(e):
        g.append(('edge%d' % i if i < len(e) - 1 else 'last-edge', v))
    for i in range(len(e) - 1):
        m = (e[i] + e[i + 1]) / 2
        if e[i] < m < e[i + 1]:
            g.append(('interior%d' % i, m))
    g.append(('above', hi + span / 4))
    if fine:
        g.append(('just-below-first', float(np.nextafter(lo, -np.inf))))
        g.append(('just-below-last', float(np.nextafter(hi, -np.inf))))
        g.append(('just-above-last', float(np.nextafter(hi, np.inf))))
    if with_nan:
        g.append(('nan', None))
    return g


def bin_of(e, f):
    """The property's own words: the b with e[b] <= f < e[b+1], else None (brute force, no digitize)."""
    if f is None:
        return None
    f = float(f)
    if f != f:
        return None
    for b in range(len(e) - 1):
        if e[b] <= f < e[b + 1]:
            return b
    return None


def category(e, f):
    if f is None or f != f:
        return 'nan'
    if f < 0:
        return 'negative'
    if f < e[0]:
        return 'below'
    if f == e[-1]:
        return 'at-last-edge'
    if f > e[-1]:
        return 'above'
    if any(f == v for v in e):
        return 'on-edge'
    return 'interior'


def arr(x):
    return np.array(x, dtype=float)      # None -> nan


def nan_split(x):
    a = arr(x)
    m = np.isnan(a)
    return np.where(m, 0.0, a).ravel().tolist(), m.ravel().astype(int).tolist(), list(a.shape)


def wt(a, mode):
    return a * a if mode == 'energy' else a


def frac_list(v):
    return [proto.fr(x) for x in np.asarray(v, dtype=float).ravel().tolist()]


# ---------------------------------------------------------------------------------------------
# C10

def _guard(fn):
    try:
        return fn()
    except Exception as ex:  # noqa
        return {'error': err_kind(ex), 'msg': str(ex)[:200]}


def run_hht(F, A, e, mode, do_1d=True):
    """Call the three public entry points on one input; JSON-able result."""
    from emd import spectra
    F = arr(F)
    A = arr(A)
    e = np.asarray(e, dtype=float)

    def dense():
        d = spectra.hilberthuang(F.copy(), A.copy(), e.copy(), mode=mode)
        return {'shape': list(d.shape), 'v': np.asarray(d, dtype=float).ravel().tolist()}

    def sparse():
        s = spectra.hilberthuang(F.copy(), A.copy(), e.copy(), mode=mode, return_sparse=True)
        return {'shape': list(s.shape), 'data': np.asarray(s.data, dtype=float).tolist(),
                'row': [int(v) for v in s.row], 'col': [int(v) for v in s.col],
                'toarray': np.asarray(s.toarray(), dtype=float).ravel().tolist()}

    def oned():
        d = spectra.hilberthuang_1d(F.copy(), A.copy(), e.copy(), mode=mode)
        return {'shape': list(d.shape), 'v': np.asarray(d, dtype=float).ravel().tolist()}

    out = {'dense': _guard(dense), 'sparse': _guard(sparse)}
    if do_1d:
        out['oned'] = _guard(oned)
    return out


def hht_ops(F, A, e, mode, do_1d=True, name=None):
    # C10_MODEL_OP=HHTPIN selects the model of the pinned (pre-D8-repair) tree: a diagnosis aid only
    name = name or os.environ.get('C10_MODEL_OP', 'HHT')
    fv, fm, fs = nan_split(F)
    Aa = arr(A)
    ops = [proto.op(name, {'mode': mode}, [list(map(float, e)), fs, list(Aa.shape), fv, fm, Aa.ravel().tolist()])]
    if do_1d:
        ops.append(proto.op('HHT1D', {'mode': mode}, [list(map(float, e)), fs, fv, fm, Aa.ravel().tolist()]))
    return ops


def _same(impl_vals, model_vals):
    mv = model_vals or []
    return len(impl_vals) == len(mv) and all(proto.fr(a) == b for a, b in zip(impl_vals, mv))


def hht_compare(out, results, do_1d=True):
    """Exact correspondence of dense, sparse triplets (as a multiset: the storage order of COO triplets is not
    observable through the matrix they denote) and the 1-D spectrum."""
    r = results[0]
    d, s = out['dense'], out['sparse']
    if r.status == 'err':
        kind = r.words[0]
        for nm, o in (('dense', d), ('sparse', s)):
            if o.get('error') != kind:
                return 'model: err %s; implementation %s: %s' % (kind, nm, o.get('error', 'returned a value'))
    elif r.ok:
        if 'error' in d or 'error' in s:
            return 'model returns a spectrum; implementation raised %s / %s' % (d.get('error'), s.get('error'))
        nb, T = int(r.args['nb']), int(r.args['T'])
        if d['shape'] != [nb, T] or s['shape'] != [nb, T]:
            return 'shape: impl dense %s sparse %s, model [%d, %d]' % (d['shape'], s['shape'], nb, T)
        if not _same(d['v'], r.vecs[0]):
            return 'dense differs: impl %s model %s' % (d['v'][:24], r.raw[:200])
        impl_trip = sorted(zip(s['row'], s['col'], [proto.fr(v) for v in s['data']]))
        model_trip = sorted(zip([int(v) for v in r.vecs[1]], [int(v) for v in r.vecs[2]], list(r.vecs[3] or [])))
        if impl_trip != model_trip:
            return 'sparse triplets differ: impl rows %s cols %s data %s; model %s' % (s['row'][:12], s['col'][:12], s['data'][:12], r.raw[:240])
    else:
        return 'model answered %s' % r.raw[:100]
    if do_1d:
        r = results[1]
        o = out['oned']
        if r.status == 'err':
            if o.get('error') != r.words[0]:
                return 'model 1d: err %s; implementation: %s' % (r.words[0], o.get('error', 'returned a value'))
        elif r.ok:
            if 'error' in o:
                return 'model returns a 1-D spectrum; implementation raised %s' % o['error']
            if o['shape'] != [int(r.args['nb']), int(r.args['M'])]:
                return '1d shape: impl %s model %s' % (o['shape'], r.raw[:60])
            if not _same(o['v'], r.vecs[0]):
                return '1d differs: impl %s model %s' % (o['v'][:24], r.raw[:200])
        else:
            return 'model answered %s' % r.raw[:100]
    return None


def brute_hht(F, A, e, mode):
    """Per-sample histogram in the property's words. F, A: 2-D arrays [T x M]."""
    T, M = F.shape
    nb = len(e) - 1
    dense = [[0.0] * T for _ in range(nb)]
    oned = [[0.0] * M for _ in range(nb)]
    total = 0.0
    for t in range(T):
        for j in range(M):
            b = bin_of(e, F[t, j])
            if b is not None:
                w = wt(float(A[t, j]), mode)
                dense[b][t] += w
                oned[b][j] += w
                total += w
    return dense, oned, total


def edges_assumption(e, what='edges'):
    """Validator of the theorems' hypothesis on the real edge vector (non-decreasing, finite)."""
    e = [float(v) for v in e]
    if any(v != v for v in e) or any(a > b for a, b in zip(e, e[1:])):
        return [Failure('assumption:%s-not-increasing' % what, str(e))]
    return []


def hht_holds(F, A, e, mode, out, do_1d=True):
    F = arr(F)
    A = arr(A)
    if F.ndim == 1:
        F = F[:, None]
    if A.ndim == 1:
        A = A[:, None]
    e = [float(v) for v in e]
    T, M = F.shape
    nb = len(e) - 1
    fs = []
    d, s = out['dense'], out['sparse']
    for nm, o in (('dense', d), ('sparse', s)) + ((('1d', out['oned']),) if do_1d else ()):
        if 'error' in o:
            fs.append(Failure('raises:%s:%s' % (nm, o['error']), o.get('msg', '')))
    if fs:
        return fs
    fs += edges_assumption(e)
    exp_d, exp_1, total = brute_hht(F, A, e, mode)
    flat_d = [v for row in exp_d for v in row]
    if d['shape'] != [nb, T]:
        fs.append(Failure('dense-shape', 'got %s expected [%d, %d]' % (d['shape'], nb, T)))
    elif d['v'] != flat_d:
        # diagnose: which kind of sample was mis-binned
        kind = 'dense-ne-bruteforce'
        for t in range(T):
            below = sum(wt(float(A[t, j]), mode) for j in range(M)
                        if category(e, float(F[t, j])) in ('below', 'negative'))
            col_i = [d['v'][b * T + t] for b in range(nb)]
            col_e = [exp_d[b][t] for b in range(nb)]
            if col_i != col_e:
                if below != 0 and col_i[0] - col_e[0] == below and col_i[1:] == col_e[1:]:
                    kind = 'dense-ne-bruteforce:below-range-counted-in-first-bin'
                elif sum(col_i) > sum(col_e):
                    kind = 'dense-ne-bruteforce:extra-weight-in-time-column'
                elif sum(col_i) < sum(col_e):
                    kind = 'dense-ne-bruteforce:weight-missing-from-time-column'
                else:
                    kind = 'dense-ne-bruteforce:weight-in-wrong-bin'
                detail = 'time %d: freqs %s amps %s edges %s mode %s: got column %s expected %s' % (
                    t, F[t].tolist(), A[t].tolist(), e, mode, col_i, col_e)
                break
        fs.append(Failure(kind, detail))
    if s['shape'] != [nb, T]:
        fs.append(Failure('sparse-shape', 'got %s' % (s['shape'],)))
    else:
        if s['toarray'] != d['v']:
            fs.append(Failure('sparse-ne-dense', 'sparse.toarray() %s dense %s' % (s['toarray'][:20], d['v'][:20])))
        acc = [0.0] * (nb * T)
        bad = False
        for v, r, c in zip(s['data'], s['row'], s['col']):
            if not (0 <= r < nb and 0 <= c < T):
                bad = True
            else:
                acc[r * T + c] += v
        if bad or acc != flat_d:
            fs.append(Failure('sparse-triplets-ne-bruteforce', 'accumulated triplets %s expected %s' % (acc[:20], flat_d[:20])))
        if sum(s['data']) != total:
            fs.append(Failure('sparse-total-ne-inrange-total', 'sum(data)=%r in-range total=%r' % (sum(s['data']), total)))
    if sum(d['v']) != total:
        fs.append(Failure('dense-total-ne-inrange-total', 'sum(dense)=%r in-range total=%r' % (sum(d['v']), total)))
    if do_1d:
        o = out['oned']
        flat_1 = [v for row in exp_1 for v in row]
        if o['shape'] != [nb, M]:
            fs.append(Failure('1d-shape', 'got %s expected [%d, %d]' % (o['shape'], nb, M)))
        else:
            if o['v'] != flat_1:
                cats = sorted({category(e, float(v)) for v in F.ravel()})
                fs.append(Failure('1d-ne-bruteforce', 'got %s expected %s (sample kinds %s)' % (o['v'][:20], flat_1[:20], cats)))
            if d['shape'] == [nb, T]:
                md = [sum(d['v'][b * T:(b + 1) * T]) for b in range(nb)]
                m1 = [sum(o['v'][b * M:(b + 1) * M]) for b in range(nb)]
                if md != m1:
                    fs.append(Failure('dense-marginal-ne-1d-marginal', 'sum over time of dense %s; sum over IMFs of 1-D %s' % (md, m1)))
    return fs


def hht_tags(F, e, mode):
    Fa = arr(F)
    t = ['mode=' + mode, 'nbins=%d' % (len(e) - 1), 'ndim=%d' % Fa.ndim]
    cats = {category([float(v) for v in e], float(v)) for v in Fa.ravel()}
    t += ['has:' + c for c in sorted(cats)]
    return t


# ---------------------------------------------------------------------------------------------
# C11

SQUASH = (('none', False), ('sum', 'sum'), ('mean', 'mean'))


def run_holo(F1, F2, A2, e1, e2, mode):
    from emd import spectra
    F1, F2, A2 = arr(F1), arr(F2), arr(A2)
    e1 = np.asarray(e1, dtype=float)
    e2 = np.asarray(e2, dtype=float)
    out = {}
    for nm, sq in SQUASH:
        def go(sq=sq):
            h = spectra.holospectrum(F1.copy(), F2.copy(), A2.copy(), e1.copy(), e2.copy(), mode=mode, squash_time=sq)
            return {'shape': list(np.shape(h)), 'v': np.asarray(h, dtype=float).ravel().tolist(),
                    'type': type(h).__name__}
        out[nm] = _guard(go)
    return out


def holo_ops(F1, F2, A2, e1, e2, mode):
    f1v, f1m, s1 = nan_split(F1)
    f2v, f2m, s2 = nan_split(F2)
    A = arr(A2)
    vecs = [list(map(float, e1)), list(map(float, e2)), s1, s2, list(A.shape), f1v, f1m, f2v, f2m, A.ravel().tolist()]
    return [proto.op('HOLO', {'mode': mode, 'squash': nm}, vecs) for nm, _ in SQUASH]


def holo_compare(out, results, T, scale):
    for (nm, _), r in zip(SQUASH, results):
        o = out[nm]
        if r.status == 'err':
            if o.get('error') != r.words[0]:
                return 'squash=%s: model err %s; implementation %s' % (nm, r.words[0], o.get('error', 'returned a value'))
            continue
        if not r.ok:
            return 'squash=%s: model answered %s' % (nm, r.raw[:100])
        if 'error' in o:
            return 'squash=%s: model returns a spectrum; implementation raised %s (%s)' % (nm, o['error'], o.get('msg'))
        shp = [int(r.args['na']), int(r.args['nc'])]
        if nm == 'none':
            shp = [int(r.args['T'])] + shp
        if o['shape'] != shp:
            return 'squash=%s: shape impl %s model %s' % (nm, o['shape'], shp)
        mv = r.vecs[0] or []
        if len(mv) != len(o['v']):
            return 'squash=%s: %d values vs %d' % (nm, len(o['v']), len(mv))
        if nm == 'mean':
            # scipy forms sum(x * (1/T)): not exact unless T is a power of two -> rule 1 tolerance
            tol = 1e-9 * max(1.0, scale)
            bad = [i for i, (a, b) in enumerate(zip(o['v'], mv)) if abs(proto.fr(a) - b) > tol]
        else:
            bad = [i for i, (a, b) in enumerate(zip(o['v'], mv)) if proto.fr(a) != b]
        if bad:
            i = bad[0]
            return 'squash=%s: cell %d impl %r model %s' % (nm, i, o['v'][i], mv[i])
    return None


def brute_holo(F1, F2, A2, e1, e2, mode):
    T, M = F1.shape
    K = F2.shape[2]
    na, nc = len(e2) - 1, len(e1) - 1
    full = np.zeros((T, na, nc))
    for t in range(T):
        for j in range(M):
            c = bin_of(e1, F1[t, j])
            for k in range(K):
                a = bin_of(e2, F2[t, j, k])
                if a is not None and c is not None:
                    full[t, a, c] += wt(float(A2[t, j, k]), mode)
    return full


def holo_holds(F1, F2, A2, e1, e2, mode, out):
    F1, F2, A2 = arr(F1), arr(F2), arr(A2)
    if F1.ndim == 1:
        F1 = F1[:, None]
    e1 = [float(v) for v in e1]
    e2 = [float(v) for v in e2]
    fs = []
    for nm, _ in SQUASH:
        if 'error' in out[nm]:
            fs.append(Failure('raises:%s:%s' % (nm, out[nm]['error']), out[nm].get('msg', '')))
    if fs:
        return fs
    T = F1.shape[0]
    na, nc = len(e2) - 1, len(e1) - 1
    fs += edges_assumption(e1, 'carrier-edges') + edges_assumption(e2, 'am-edges')
    exp = brute_holo(F1, F2, A2, e1, e2, mode)
    full, sm, mn = out['none'], out['sum'], out['mean']
    scale = max(1.0, float(np.max(np.abs(A2))) ** (2 if mode == 'energy' else 1) if A2.size else 1.0)
    if full['shape'] != [T, na, nc]:
        fs.append(Failure('holo-shape:full', 'got %s expected [time=%d, AM bins=%d, carrier bins=%d]' % (full['shape'], T, na, nc)))
    elif full['v'] != exp.ravel().tolist():
        got = np.array(full['v']).reshape(T, na, nc)
        idx = np.argwhere(got != exp)[0].tolist()
        only_out = (exp == 0).all() or bool((got.sum() != exp.sum()))
        fs.append(Failure('holo-full-ne-bruteforce' + (':total-differs' if only_out else ':same-total-wrong-cell'),
                          'first differing cell [t,am,carrier]=%s got %r expected %r' % (idx, got[tuple(idx)], exp[tuple(idx)])))
    for nm, o in (('sum', sm), ('mean', mn)):
        if o['shape'] != [na, nc]:
            fs.append(Failure('holo-shape:' + nm, 'got %s expected [%d, %d]' % (o['shape'], na, nc)))
    if not fs:
        got = np.array(full['v']).reshape(T, na, nc)
        if sm['v'] != got.sum(axis=0).ravel().tolist():
            fs.append(Failure('holo-sum-ne-time-sum-of-full', 'sum output %s; full.sum(0) %s' % (sm['v'][:16], got.sum(axis=0).ravel().tolist()[:16])))
        if T > 0:
            exact = [Fraction(v) / T for v in map(proto.fr, got.sum(axis=0).ravel().tolist())]
            if any(abs(proto.fr(a) - b) > Fraction(1, 10 ** 9) * Fraction(scale) for a, b in zip(mn['v'], exact)):
                fs.append(Failure('holo-mean-ne-time-mean-of-full', 'mean output %s; full.mean(0) %s' % (mn['v'][:16], got.mean(axis=0).ravel().tolist()[:16])))
    return fs
