"""Shared pieces of the spectrum checks (C10 hilberthuang / hilberthuang_1d, C11 holospectrum).

Everything is EXACT (DESIGN.md section 3 rule 3): amplitudes are small integers / short dyadics, so every
float sum the implementation forms is exact and is compared with `==` against the rational model;
frequencies are compared with the bin edges as raw inputs (no arithmetic), so the float comparison and
the rational comparison are the same comparison.  NaN frequencies are sent to the model as a mask.
"""
import itertools
import math
import os
from fractions import Fraction

import numpy as np

from common import proto
from common.framework import Failure, err_kind

MODES = ('energy', 'amplitude')


# ---------------------------------------------------------------------------------------------
# bin edges come from the real emd.spectra.define_hist_bins / define_hist_bins_from_data

def make_edges(espec, data=None):
    """espec: {'lo','hi','n','scale'} | {'from_data': 1,'n','scale'} | {'explicit': [...]}"""
    from emd import spectra
    if 'explicit' in espec:
        return np.array(espec['explicit'], dtype=float)
    if espec.get('from_data'):
        X = np.asarray(data, dtype=float)
        X = X[np.isfinite(X)]
        e, _ = spectra.define_hist_bins_from_data(X, nbins=espec['n'], scale=espec.get('scale', 'linear'))
        return e
    e, _ = spectra.define_hist_bins(espec['lo'], espec['hi'], espec['n'], scale=espec.get('scale', 'linear'))
    return e


def grid_for(e, with_nan=True, fine=False):
    """Edge-hitting alphabet for an edge vector: [(label, value-or-None)].
    below / negative / each edge exactly / each bin interior / above (/ NaN); `fine` adds the floats
    adjacent to the first and last edge."""
    e = [float(v) for v in e]
    g = []
    lo, hi = e[0], e[-1]
    span = (hi - lo) if hi > lo else 1.0
    g.append(('below', lo - span / 4 if lo - span / 4 > 0 or lo <= 0 else lo / 2))
    g.append(('negative', -abs(hi) - 1.0))
    for i, v in enumerate(e):
        g.append(('edge%d' % i if i < len(e) - 1 else 'last-edge', v))
    for i in range(len(e) - 1):
        m = (e[i] + e[i + 1]) / 2
        if e[i] < m < e[i + 1]:
            g.append(('interior%d' % i, m))
    g.append(('above', hi + span / 4))
    if fine:
        g.append(('just-below-first', float(np.nextafter(lo, -np.inf))))
        g.append(('just-below-last', float(np.nextafter(hi, -np.inf))))
        g.append(('just-above-last', float(np.nextafter(hi, np.inf))))
    if with_nan:
        g.append(('nan', None))
    return g


def bin_of(e, f):
    """The property's own words: the b with e[b] <= f < e[b+1], else None (brute force, no digitize)."""
    if f is None:
        return None
    f = float(f)
    if f != f:
        return None
    for b in range(len(e) - 1):
        if e[b] <= f < e[b + 1]:
            return b
    return None


def category(e, f):
    if f is None or f != f:
        return 'nan'
    if f < 0:
        return 'negative'
    if f < e[0]:
        return 'below'
    if f == e[-1]:
        return 'at-last-edge'
    if f > e[-1]:
        return 'above'
    if any(f == v for v in e):
        return 'on-edge'
    return 'interior'


def arr(x):
    return np.array(x, dtype=float)      # None -> nan


def nan_split(x):
    a = arr(x)
    m = np.isnan(a)
    return np.where(m, 0.0, a).ravel().tolist(), m.ravel().astype(int).tolist(), list(a.shape)


def wt(a, mode):
    return a * a if mode == 'energy' else a


def frac_list(v):
    return [proto.fr(x) for x in np.asarray(v, dtype=float).ravel().tolist()]


# ---------------------------------------------------------------------------------------------
# C10

def _guard(fn):
    try:
        return fn()
    except Exception as ex:  # noqa
        return {'error': err_kind(ex), 'msg': str(ex)[:200]}


HHT_ORDERS = list(itertools.permutations(('dense', 'sparse', 'oned')))


def changed(now, pristine):
    """True when an array handed to the implementation no longer holds the values it was given."""
    return now.shape != pristine.shape or not np.array_equal(now, pristine, equal_nan=True)


def run_hht(F, A, e, mode, do_1d=True, seq=0, fdtype=None):
    """Call the three public entry points one after the other ON THE SAME ARRAY OBJECTS (as an analysis script
    does: "the dense spectrum, its sparse form and the one-dimensional marginal spectrum" of one data set), in the
    order `HHT_ORDERS[seq % 6]`, followed by a dense call in the OTHER mode, a second dense and a second sparse call;
    after every call the arrays are compared with a pristine copy. Every returned object is KEPT until the whole
    sequence is over and then read once more (`held`): a spectrum the caller still holds must not change because
    another spectrum was computed. `fdtype`: dtype of the frequency array handed in (default float64). JSON-able result."""
    from emd import spectra
    F0, A0, e0 = arr(F), arr(A), np.asarray(e, dtype=float)      # pristine: never handed to the implementation
    Fw, Aw, ew = F0.copy(), A0.copy(), e0.copy()                 # the caller's arrays: every call receives these
    if fdtype is not None:
        Fw = F0.astype(fdtype)
        if not np.array_equal(Fw.astype(float), F0, equal_nan=True):
            raise RuntimeError('harness: frequencies are not representable in %s' % fdtype)
    kept = {}

    def ser_dense(d):
        return {'shape': list(d.shape), 'v': np.asarray(d, dtype=float).ravel().tolist()}

    def ser_sparse(s):
        c = s if hasattr(s, 'row') and hasattr(s, 'col') else s.tocoo()     # "its sparse form": any scipy format
        return {'shape': list(c.shape), 'data': np.asarray(c.data, dtype=float).tolist(),
                'row': [int(v) for v in c.row], 'col': [int(v) for v in c.col],
                'toarray': np.asarray(s.toarray(), dtype=float).ravel().tolist()}

    def dense(lab, md=mode):
        kept[lab] = spectra.hilberthuang(Fw, Aw, ew, mode=md)
        return ser_dense(kept[lab])

    def sparse(lab):
        kept[lab] = spectra.hilberthuang(Fw, Aw, ew, mode=mode, return_sparse=True)
        return ser_sparse(kept[lab])

    def oned(lab):
        kept[lab] = spectra.hilberthuang_1d(Fw, Aw, ew, mode=mode)
        return ser_dense(kept[lab])

    fns = {'dense': dense, 'sparse': sparse, 'oned': oned,
           'dense_other': lambda lab: dense(lab, 'amplitude' if mode == 'energy' else 'energy')}
    order = [nm for nm in HHT_ORDERS[seq % len(HHT_ORDERS)] if do_1d or nm != 'oned']
    calls = [(nm, nm) for nm in order] + [('dense_other', 'dense_other'), ('dense_again', 'dense'), ('sparse_again', 'sparse')]
    out = {'order': [lab for lab, _ in calls], 'modified': {}}
    for lab, nm in calls:
        out[lab] = _guard(lambda: fns[nm](lab))
        for arg, now, pristine in (('infr', Fw, F0), ('inam', Aw, A0), ('freq_edges', ew, e0)):
            if arg not in out['modified'] and changed(now, pristine):
                out['modified'][arg] = lab
    # the results the caller still holds, read again after the whole sequence
    out['held'] = {}
    for lab, obj in kept.items():
        if 'error' in out[lab]:
            continue
        now = _guard(lambda: ser_sparse(obj) if lab.startswith('sparse') else ser_dense(obj))
        if now != out[lab] and not _same_nan(now, out[lab]):
            out['held'][lab] = now
    return out


def _same_nan(a, b):
    """equality of two serialised results that treats NaN cells as equal"""
    if set(a) != set(b) or a.get('shape') != b.get('shape'):
        return False
    for k in a:
        if k == 'shape':
            continue
        x, y = a[k], b[k]
        if not isinstance(x, list) or not isinstance(y, list) or len(x) != len(y):
            if x != y:
                return False
            continue
        if any(not (p == q or (p != p and q != q)) for p, q in zip(x, y)):
            return False
    return True


def hht_ops(F, A, e, mode, do_1d=True, name=None):
    # C10_MODEL_OP=HHTPIN selects the model of the pinned (pre-D8-repair) tree: a diagnosis aid only
    name = name or os.environ.get('C10_MODEL_OP', 'HHT')
    fv, fm, fs = nan_split(F)
    Aa = arr(A)
    ops = [proto.op(name, {'mode': mode}, [list(map(float, e)), fs, list(Aa.shape), fv, fm, Aa.ravel().tolist()])]
    if do_1d:
        ops.append(proto.op('HHT1D', {'mode': mode}, [list(map(float, e)), fs, fv, fm, Aa.ravel().tolist()]))
    return ops


def _same(impl_vals, model_vals):
    mv = model_vals or []
    return len(impl_vals) == len(mv) and all(proto.fr(a) == b for a, b in zip(impl_vals, mv))


def hht_compare(out, results, do_1d=True, outside=False):
    """Exact correspondence of dense, sparse triplets (as a multiset: the storage order of COO triplets is not
    observable through the matrix they denote) and the 1-D spectrum.  Where the model refuses an input the
    implementation must refuse it too - with ANY exception (the property fixes no exception class).  `outside`: the
    input is outside the property's quantifier (malformed shapes / edges, NaN frequencies, vector input): a difference
    in whether it is refused at all is not judged (skip)."""
    r = results[0]
    d, s = out['dense'], out['sparse']
    if r.status == 'err':
        kind = r.words[0]
        for nm, o in (('dense', d), ('sparse', s)):
            if 'error' not in o:
                if outside:
                    return 'skip:input outside the quantifier: the model refuses it (%s), the implementation returns a value' % kind
                return 'model: err %s; implementation %s: returned a value' % (kind, nm)
    elif r.ok:
        if 'error' in d or 'error' in s:
            if outside:
                return 'skip:input outside the quantifier: the implementation refuses it (%s / %s), the model does not' % (d.get('error'), s.get('error'))
            return 'model returns a spectrum; implementation raised %s / %s' % (d.get('error'), s.get('error'))
        nb, T = int(r.args['nb']), int(r.args['T'])
        if d['shape'] != [nb, T] or s['shape'] != [nb, T]:
            return 'shape: impl dense %s sparse %s, model [%d, %d]' % (d['shape'], s['shape'], nb, T)
        if not _same(d['v'], r.vecs[0]):
            return 'dense differs: impl %s model %s' % (d['v'][:24], r.raw[:200])
        impl_trip = sorted(zip(s['row'], s['col'], [proto.fr(v) for v in s['data']]))
        model_trip = sorted(zip([int(v) for v in r.vecs[1]], [int(v) for v in r.vecs[2]], list(r.vecs[3] or [])))
        if impl_trip != model_trip:
            return 'sparse triplets differ: impl rows %s cols %s data %s; model %s' % (s['row'][:12], s['col'][:12], s['data'][:12], r.raw[:240])
        for lab, key in (('dense_again', 'v'), ('sparse_again', 'toarray')):
            o = out.get(lab)
            if o is not None and 'error' in o and outside:
                return 'skip:input outside the quantifier: the implementation refuses it (%s), the model does not' % o['error']
            if o is not None and ('error' in o or o['shape'] != [nb, T] or not _same(o[key], r.vecs[0])):
                return '%s (call order %s) differs from the model: impl %s model %s' % (
                    lab, out.get('order'), o.get('error') or o[key][:24], r.raw[:200])
    else:
        return 'model answered %s' % r.raw[:100]
    if do_1d:
        r = results[1]
        o = out['oned']
        if r.status == 'err':
            if 'error' not in o:
                if outside:
                    return 'skip:input outside the quantifier: the model refuses it (%s), the 1-D implementation returns a value' % r.words[0]
                return 'model 1d: err %s; implementation: returned a value' % r.words[0]
        elif r.ok:
            if 'error' in o:
                if outside:
                    return 'skip:input outside the quantifier: the 1-D implementation refuses it (%s), the model does not' % o['error']
                return 'model returns a 1-D spectrum; implementation raised %s' % o['error']
            if o['shape'] != [int(r.args['nb']), int(r.args['M'])]:
                return '1d shape: impl %s model %s' % (o['shape'], r.raw[:60])
            if not _same(o['v'], r.vecs[0]):
                return '1d differs: impl %s model %s' % (o['v'][:24], r.raw[:200])
        else:
            return 'model answered %s' % r.raw[:100]
    return None


def brute_hht(F, A, e, mode):
    """Per-sample histogram in the property's words. F, A: 2-D arrays [T x M]."""
    T, M = F.shape
    nb = len(e) - 1
    dense = [[0.0] * T for _ in range(nb)]
    oned = [[0.0] * M for _ in range(nb)]
    total = 0.0
    for t in range(T):
        for j in range(M):
            b = bin_of(e, F[t, j])
            if b is not None:
                w = wt(float(A[t, j]), mode)
                dense[b][t] += w
                oned[b][j] += w
                total += w
    return dense, oned, total


def edges_assumption(e, what='edges'):
    """Validator of the theorems' hypothesis on the real edge vector (non-decreasing, finite)."""
    e = [float(v) for v in e]
    if any(v != v for v in e) or any(a > b for a, b in zip(e, e[1:])):
        return [Failure('assumption:%s-not-increasing' % what, str(e))]
    return []


def modified_failures(out):
    """The spectra are the spectra OF THE CALLER'S DATA: a call that changes an array it was handed makes every later
    spectrum of "the same" data a spectrum of different data (the caller cannot see that)."""
    return [Failure('input-modified:' + arg, "the caller's %s array no longer holds its values after the %s call "
                    '(calls made on the same array objects, in this order: %s)' % (arg, lab, out.get('order')))
            for arg, lab in sorted((out.get('modified') or {}).items())]


def nonliteral(fs):
    """mark failures as mechanism-level (never a property violation on their own)"""
    for f in fs:
        f.literal = False
    return fs


def hht_outside_quantifier(ndim, F):
    """inputs the quantifier ("frequency/amplitude arrays [time x IMFs]", finite or out-of-range frequencies) does not cover"""
    return ndim != 2 or bool(np.isnan(F).any())


def hht_holds(F, A, e, mode, out, do_1d=True):
    F = arr(F)
    A = arr(A)
    F_in_ndim = F.ndim
    if F.ndim == 1:
        F = F[:, None]
    if A.ndim == 1:
        A = A[:, None]
    e = [float(v) for v in e]
    T, M = F.shape
    nb = len(e) - 1
    # the property does not speak about side effects on the caller's arrays: mechanism-level only (what they do to
    # the spectra is judged literally by the *-repeat-ne-bruteforce / *-held-result-changed kinds below)
    fs = nonliteral(modified_failures(out))
    d, s = out['dense'], out['sparse']
    again = [(lab, out[lab]) for lab in ('dense_again', 'sparse_again') if lab in out]
    other = out.get('dense_other')
    for nm, o in (('dense', d), ('sparse', s)) + ((('1d', out['oned']),) if do_1d else ()) + tuple(again) + (
            (('dense_other', other),) if other is not None else ()):
        if 'error' in o:
            fs.append(Failure('raises:%s:%s' % (nm, o['error']), o.get('msg', '')))
    if any(f.kind.startswith('raises:') for f in fs):
        if hht_outside_quantifier(F_in_ndim, F):
            return []       # NaN frequencies / vector input are not in the quantifier: an error there is not judged (tagged)
        return fs
    fs += nonliteral(edges_assumption(e))       # hypothesis of the theorems about define_hist_bins, not C10's words
    exp_d, exp_1, total = brute_hht(F, A, e, mode)
    flat_d = [v for row in exp_d for v in row]
    if d['shape'] != [nb, T]:
        fs.append(Failure('dense-shape', 'got %s expected [%d, %d]' % (d['shape'], nb, T)))
    elif d['v'] != flat_d:
        # diagnose: which kind of sample was mis-binned
        kind = 'dense-ne-bruteforce'
        for t in range(T):
            below = sum(wt(float(A[t, j]), mode) for j in range(M)
                        if category(e, float(F[t, j])) in ('below', 'negative'))
            col_i = [d['v'][b * T + t] for b in range(nb)]
            col_e = [exp_d[b][t] for b in range(nb)]
            if col_i != col_e:
                if below != 0 and col_i[0] - col_e[0] == below and col_i[1:] == col_e[1:]:
                    kind = 'dense-ne-bruteforce:below-range-counted-in-first-bin'
                elif sum(col_i) > sum(col_e):
                    kind = 'dense-ne-bruteforce:extra-weight-in-time-column'
                elif sum(col_i) < sum(col_e):
                    kind = 'dense-ne-bruteforce:weight-missing-from-time-column'
                else:
                    kind = 'dense-ne-bruteforce:weight-in-wrong-bin'
                detail = 'time %d: freqs %s amps %s edges %s mode %s: got column %s expected %s' % (
                    t, F[t].tolist(), A[t].tolist(), e, mode, col_i, col_e)
                break
        fs.append(Failure(kind, detail))
    if s['shape'] != [nb, T]:
        fs.append(Failure('sparse-shape', 'got %s' % (s['shape'],)))
    else:
        if s['toarray'] != d['v']:
            fs.append(Failure('sparse-ne-dense', 'sparse.toarray() %s dense %s' % (s['toarray'][:20], d['v'][:20])))
        acc = [0.0] * (nb * T)
        bad = False
        for v, r, c in zip(s['data'], s['row'], s['col']):
            if not (0 <= r < nb and 0 <= c < T):
                bad = True
            else:
                acc[r * T + c] += v
        if bad or acc != flat_d:
            fs.append(Failure('sparse-triplets-ne-bruteforce', 'accumulated triplets %s expected %s' % (acc[:20], flat_d[:20])))
        if sum(s['data']) != total:
            fs.append(Failure('sparse-total-ne-inrange-total', 'sum(data)=%r in-range total=%r' % (sum(s['data']), total)))
    if sum(d['v']) != total:
        fs.append(Failure('dense-total-ne-inrange-total', 'sum(dense)=%r in-range total=%r' % (sum(d['v']), total)))
    # the same routine called again on the same arrays: still the spectrum of the same data
    for lab, o in again:
        got = o['v'] if lab == 'dense_again' else o['toarray']
        if o['shape'] != [nb, T] or got != flat_d:
            fs.append(Failure('%s-ne-bruteforce' % lab.replace('_again', '-repeat'),
                              'calls on the same arrays in the order %s, freqs %s amps %s edges %s mode %s: the repeated call gives %s '
                              '(total %r), the per-sample histogram of the data is %s (total %r)' % (
                                  out.get('order'), F.tolist()[:8], A.tolist()[:8], e, mode, got[:20], sum(got), flat_d[:20], total)))
    # a dense call in the other mode on the same arrays (held by the caller while the remaining calls are made)
    if other is not None:
        omode = 'amplitude' if mode == 'energy' else 'energy'
        exp_o = [v for row in brute_hht(F, A, e, omode)[0] for v in row]
        if other['shape'] != [nb, T] or other['v'] != exp_o:
            fs.append(Failure('dense-other-mode-ne-bruteforce', 'calls on the same arrays in the order %s, freqs %s amps %s edges %s: the '
                              'mode=%s call gives %s, the per-sample histogram is %s' % (
                                  out.get('order'), F.tolist()[:8], A.tolist()[:8], e, omode, other.get('v', [])[:20], exp_o[:20])))
    # spectra returned earlier and still held by the caller, read again after the later calls
    for lab, now in sorted((out.get('held') or {}).items()):
        key = 'toarray' if lab.startswith('sparse') else 'v'
        fs.append(Failure('%s-held-result-changed' % ('sparse' if lab.startswith('sparse') else '1d' if lab == 'oned' else 'dense'),
                          'calls on the same arrays in the order %s, freqs %s amps %s edges %s mode %s: the spectrum returned by the %s call '
                          'was %s; after the later calls the same returned object reads %s, which is no longer the per-sample histogram '
                          'of the data it was computed from' % (out.get('order'), F.tolist()[:8], A.tolist()[:8], e, mode, lab,
                                                                 out[lab].get(key, [])[:20], (now.get(key) or now.get('error') or [])[:20])))
    if do_1d:
        o = out['oned']
        flat_1 = [v for row in exp_1 for v in row]
        if o['shape'] != [nb, M]:
            fs.append(Failure('1d-shape', 'got %s expected [%d, %d]' % (o['shape'], nb, M)))
        else:
            if o['v'] != flat_1:
                cats = sorted({category(e, float(v)) for v in F.ravel()})
                fs.append(Failure('1d-ne-bruteforce', 'got %s expected %s (sample kinds %s)' % (o['v'][:20], flat_1[:20], cats)))
            if d['shape'] == [nb, T]:
                md = [sum(d['v'][b * T:(b + 1) * T]) for b in range(nb)]
                m1 = [sum(o['v'][b * M:(b + 1) * M]) for b in range(nb)]
                if md != m1:
                    fs.append(Failure('dense-marginal-ne-1d-marginal', 'sum over time of dense %s; sum over IMFs of 1-D %s' % (md, m1)))
    return fs


def hht_tags(F, e, mode):
    Fa = arr(F)
    t = ['mode=' + mode, 'nbins=%d' % (len(e) - 1), 'ndim=%d' % Fa.ndim]
    cats = {category([float(v) for v in e], float(v)) for v in Fa.ravel()}
    t += ['has:' + c for c in sorted(cats)]
    return t


# ---------------------------------------------------------------------------------------------
# C11

SQUASH = (('none', False), ('sum', 'sum'), ('mean', 'mean'))
SQ = dict(SQUASH)
HOLO_ORDERS = list(itertools.permutations(('none', 'sum', 'mean')))
PACK_LIMIT = 4096        # outputs with more cells are carried as (indices, values) of their non-zero cells


def pack(h):
    a = np.asarray(h, dtype=float)
    flat = a.ravel()
    o = {'shape': list(a.shape), 'type': type(h).__name__}
    if flat.size <= PACK_LIMIT:
        o['v'] = flat.tolist()
    else:
        nz = np.flatnonzero(flat != 0)          # (NaN != 0: kept)
        o['nz'] = [int(i) for i in nz]
        o['nzv'] = flat[nz].tolist()
    return o


def vals(o):
    """flat float array of a packed output"""
    if 'v' in o:
        return np.array(o['v'], dtype=float)
    a = np.zeros(int(np.prod(o['shape'])))
    a[np.array(o['nz'], dtype=int)] = o['nzv']
    return a


def other_mode(mode):
    return 'amplitude' if mode == 'energy' else 'energy'


def run_holo(F1, F2, A2, e1, e2, mode, seq=0):
    """All calls are made ON THE SAME ARRAY OBJECTS, one after the other: the three squash_time settings in the order
    HOLO_ORDERS[seq % 6] in the case's mode, one call in the other mode, and the first setting once more in the case's
    mode; after every call the arrays are compared with a pristine copy."""
    from emd import spectra
    P = [arr(F1), arr(F2), arr(A2), np.asarray(e1, dtype=float), np.asarray(e2, dtype=float)]   # pristine
    W = [x.copy() for x in P]                                                                 # the caller's arrays
    # memory layout of the caller's arrays (same logical values): C order, Fortran order (what a transposed view of a
    # [K x M x T] array is), or a strided view into a larger buffer - round 6, C11 patch 2 flattened inam2 in memory order
    layout = (seq + P[0].shape[0]) % 3
    if layout == 1:
        W = [np.asfortranarray(x) for x in W]
    elif layout == 2:
        def strided(x):
            big = np.zeros(tuple(2 * n for n in x.shape), dtype=x.dtype)
            v = big[tuple(slice(None, None, 2) for _ in x.shape)]
            v[...] = x
            return v
        W = [strided(x) for x in W]
    names = ('infr', 'infr2', 'inam2', 'freq_edges', 'freq_edges2')
    order = HOLO_ORDERS[seq % len(HOLO_ORDERS)]
    calls = [(nm, mode, nm) for nm in order] + [('other', other_mode(mode), order[1]), ('again', mode, order[0])]
    out = {'order': ['%s:%s/%s' % c for c in calls], 'modified': {}, 'layout': ('C', 'F', 'strided')[layout]}
    for lab, md, sq in calls:
        def go(md=md, sq=sq):
            h = spectra.holospectrum(W[0], W[1], W[2], W[3], W[4], mode=md, squash_time=SQ[sq])
            return dict(pack(h), squash=sq, mode=md)
        out[lab] = _guard(go)
        for arg, now, pristine in zip(names, W, P):
            if arg not in out['modified'] and changed(now, pristine):
                out['modified'][arg] = '%s:%s/%s' % (lab, md, sq)
    return out


def _holo_vecs(F1, F2, A2, e1, e2):
    f1v, f1m, s1 = nan_split(F1)
    f2v, f2m, s2 = nan_split(F2)
    A = arr(A2)
    return [list(map(float, e1)), list(map(float, e2)), s1, s2, list(A.shape), f1v, f1m, f2v, f2m, A.ravel().tolist()]


def holo_ops(F1, F2, A2, e1, e2, mode):
    vecs = _holo_vecs(F1, F2, A2, e1, e2)
    return [proto.op('HOLO', {'mode': mode, 'squash': nm}, vecs) for nm, _ in SQUASH]


def holo_coo_op(F1, F2, A2, e1, e2, mode):
    """the model's sparse entries (compact: one (time, folded column, weight) per sample)"""
    return proto.op('HOLOCOO', {'mode': mode, 'squash': 'none'}, _holo_vecs(F1, F2, A2, e1, e2))


def _cmp_one(nm, o, shp, mv, scale):
    """one implementation output against the model's values `mv` (Fractions) for squash setting nm"""
    if o['shape'] != shp:
        return 'shape impl %s model %s' % (o['shape'], shp)
    iv = vals(o).tolist()
    if len(mv) != len(iv):
        return '%d values vs %d' % (len(iv), len(mv))
    if nm == 'mean':
        # scipy forms sum(x * (1/T)): not exact unless T is a power of two -> rule 1 tolerance
        tol = 1e-9 * max(1.0, scale)
        bad = [i for i, (a, b) in enumerate(zip(iv, mv)) if not abs(proto.fr(a) - b) <= tol]
    else:
        bad = [i for i, (a, b) in enumerate(zip(iv, mv)) if not (a == a and proto.fr(a) == b)]
    if bad:
        i = bad[0]
        return 'cell %d impl %r model %s' % (i, iv[i], mv[i])
    return None


def holo_compare(out, results, T, scale):
    by_sq = {}
    for (nm, _), r in zip(SQUASH, results):
        o = out[nm]
        by_sq[nm] = r
        if r.status == 'err':
            if o.get('error') != r.words[0]:
                return 'squash=%s: model err %s; implementation %s' % (nm, r.words[0], o.get('error', 'returned a value'))
            continue
        if not r.ok:
            return 'squash=%s: model answered %s' % (nm, r.raw[:100])
        if 'error' in o:
            return 'squash=%s: model returns a spectrum; implementation raised %s (%s)' % (nm, o['error'], o.get('msg'))
        shp = [int(r.args['na']), int(r.args['nc'])]
        if nm == 'none':
            shp = [int(r.args['T'])] + shp
        d = _cmp_one(nm, o, shp, r.vecs[0] or [], scale)
        if d:
            return 'squash=%s: %s' % (nm, d)
    # the same setting called again on the same arrays (after a call in the other mode)
    o = out.get('again')
    if o is not None:
        nm = o.get('squash') or out['order'][0].split('/')[-1]
        r = by_sq[nm]
        if r.status == 'err':
            if o.get('error') != r.words[0]:
                return 'repeated squash=%s: model err %s; implementation %s' % (nm, r.words[0], o.get('error', 'returned a value'))
        elif 'error' in o:
            return 'repeated squash=%s (calls %s): implementation raised %s' % (nm, out['order'], o['error'])
        else:
            shp = [int(r.args['na']), int(r.args['nc'])]
            if nm == 'none':
                shp = [int(r.args['T'])] + shp
            d = _cmp_one(nm, o, shp, r.vecs[0] or [], scale)
            if d:
                return 'repeated squash=%s (calls on the same arrays: %s): %s' % (nm, out['order'], d)
    return None


def coo_reading(r):
    """The model's outputs read off its sparse entries: by Spectra.holo3d_eq cell [t][a][c] of the full output is the
    sum of the entries with row t and column (c+1) + (a+1)(L1+1) (C11.unfold_fold: the column determines (a, c));
    C11.holo_sum_eq / holo_mean_eq: the squashed outputs are its time sum / time mean.
    Returns (T, na, nc, {(t,a,c): Fraction}, {(a,c): Fraction})."""
    T, na, nc, L1 = (int(r.args[k]) for k in ('T', 'na', 'nc', 'L1'))
    full, sm = {}, {}
    for t, col, v in zip(r.vecs[0] or [], r.vecs[1] or [], r.vecs[2] or []):
        d2, d1 = divmod(int(col), L1 + 1)
        a, c = d2 - 1, d1 - 1
        if 0 <= a < na and 0 <= c < nc:
            full[(int(t), a, c)] = full.get((int(t), a, c), 0) + v
            sm[(a, c)] = sm.get((a, c), 0) + v
    return T, na, nc, full, sm


def holo_coo_vs_model(rc, results):
    """harness self-check on small cases: the reading of the sparse entries equals the model's own unfolded outputs"""
    if not rc.ok:
        if all(r.status == rc.status and r.words[:1] == rc.words[:1] for r in results):
            return None
        return 'HOLOCOO answered %s, HOLO answered %s' % (rc.raw[:80], [r.raw[:40] for r in results])
    if not (results[0].ok and results[1].ok and (results[2].ok or (int(rc.args['T']) == 0 and results[2].status == 'err'))):
        return 'HOLOCOO answered %s, HOLO answered %s' % (rc.raw[:80], [r.raw[:40] for r in results])
    T, na, nc, full, sm = coo_reading(rc)
    exp = [[Fraction(0)] * (na * nc) for _ in range(T)]
    for (t, a, c), v in full.items():
        exp[t][a * nc + c] = v
    if [v for row in exp for v in row] != list(results[0].vecs[0] or []):
        return 'sparse entries of the model read as a full array differ from the model full array: %s' % rc.raw[:200]
    es = [Fraction(0)] * (na * nc)
    for (a, c), v in sm.items():
        es[a * nc + c] = v
    if es != list(results[1].vecs[0] or []) or (results[2].ok and [v / T for v in es] != list(results[2].vecs[0] or [])):
        return 'sparse entries of the model read as time sum / mean differ from the model outputs: %s' % rc.raw[:200]
    return None


def holo_compare_coo(out, rc, scale):
    """correspondence through the sparse form (large bin sets: the unfolded model output would have ~10^5 cells)"""
    labs = [nm for nm, _ in SQUASH] + (['again'] if 'again' in out else [])
    if rc.status == 'err':
        for nm in labs:
            if out[nm].get('error') != rc.words[0]:
                return 'squash=%s: model err %s; implementation %s' % (nm, rc.words[0], out[nm].get('error', 'returned a value'))
        return None
    if not rc.ok:
        return 'model answered %s' % rc.raw[:100]
    T, na, nc, full, sm = coo_reading(rc)

    def dense(cells, shp):
        a = np.zeros(shp)
        for k, v in cells.items():
            if Fraction(float(v)) != v:
                return None
            a[k] = float(v)
        return a
    exp = {'none': dense(full, (T, na, nc)), 'sum': dense(sm, (na, nc))}
    if exp['none'] is None or exp['sum'] is None:
        return 'skip:model weight not a float'
    for lab in labs:
        o = out[lab]
        nm = o.get('squash', lab)
        if 'error' in o:
            if nm == 'mean' and T == 0 and o['error'] == 'ZeroDivisionError':
                continue
            return '%s squash=%s: model returns a spectrum; implementation raised %s (%s)' % (lab, nm, o['error'], o.get('msg'))
        shp = [T, na, nc] if nm == 'none' else [na, nc]
        if o['shape'] != shp:
            return '%s squash=%s: shape impl %s model %s' % (lab, nm, o['shape'], shp)
        got = vals(o).reshape(shp)
        if nm == 'mean':
            bad = np.argwhere(~(np.abs(got - exp['sum'] / T) <= 1e-9 * max(1.0, scale)))
        else:
            bad = np.argwhere(~(got == exp[nm]))
        if len(bad):
            k = tuple(bad[0].tolist())
            want = (exp['sum'] / T)[k] if nm == 'mean' else exp[nm][k]
            return '%s squash=%s (calls on the same arrays: %s): cell %s impl %r model %r; model sparse entries %s' % (
                lab, nm, out.get('order'), list(k), float(got[k]), float(want), rc.raw[:200])
    return None


def brute_holo(F1, F2, A2, e1, e2, mode):
    T, M = F1.shape
    K = F2.shape[2]
    na, nc = len(e2) - 1, len(e1) - 1
    full = np.zeros((T, na, nc))
    for t in range(T):
        for j in range(M):
            c = bin_of(e1, F1[t, j])
            for k in range(K):
                a = bin_of(e2, F2[t, j, k])
                if a is not None and c is not None:
                    full[t, a, c] += wt(float(A2[t, j, k]), mode)
    return full


def _squashed_ne(o, nm, exp_full, T, scale):
    """does output `o` for squash setting nm differ from the per-sample histogram `exp_full` [T x na x nc]? (str | None)"""
    shp = list(exp_full.shape) if nm == 'none' else list(exp_full.shape[1:])
    if o['shape'] != shp:
        return 'shape %s, expected %s' % (o['shape'], shp)
    got = vals(o).reshape(shp)
    if nm == 'mean':
        if T == 0:
            return None
        exact = [Fraction(v) / T for v in map(proto.fr, exp_full.sum(axis=0).ravel().tolist())] if got.size <= PACK_LIMIT else None
        if exact is not None:
            bad = [i for i, (a, b) in enumerate(zip(got.ravel().tolist(), exact))
                   if not abs(proto.fr(a) - b) <= Fraction(1, 10 ** 9) * Fraction(scale)]
            bad = [[int(x) for x in np.unravel_index(i, shp)] for i in bad[:1]]
        else:
            bad = np.argwhere(~(np.abs(got - exp_full.sum(axis=0) / T) <= 1e-9 * scale)).tolist()
        want = exp_full.sum(axis=0) / T
    else:
        want = exp_full if nm == 'none' else exp_full.sum(axis=0)
        bad = np.argwhere(~(got == want)).tolist()
    if len(bad):
        k = tuple(bad[0])
        return 'first differing cell %s got %r expected %r (%d cells differ)' % (list(k), float(got[k]), float(want[k]), len(bad))
    return None


def holo_holds(F1, F2, A2, e1, e2, mode, out):
    F1, F2, A2 = arr(F1), arr(F2), arr(A2)
    if F1.ndim == 1:
        F1 = F1[:, None]
    e1 = [float(v) for v in e1]
    e2 = [float(v) for v in e2]
    fs = modified_failures(out)
    extra = [lab for lab in ('other', 'again') if lab in out]
    for nm in [nm for nm, _ in SQUASH] + extra:
        if 'error' in out[nm]:
            fs.append(Failure('raises:%s:%s' % (nm, out[nm]['error']), out[nm].get('msg', '')))
    if any(f.kind.startswith('raises:') for f in fs):
        return fs
    T = F1.shape[0]
    na, nc = len(e2) - 1, len(e1) - 1
    fs += edges_assumption(e1, 'carrier-edges') + edges_assumption(e2, 'am-edges')
    exp = brute_holo(F1, F2, A2, e1, e2, mode)
    full, sm, mn = out['none'], out['sum'], out['mean']
    scale = max(1.0, float(np.max(np.abs(A2))) ** (2 if mode == 'energy' else 1) if A2.size else 1.0)
    shape_ok = True
    if full['shape'] != [T, na, nc]:
        shape_ok = False
        fs.append(Failure('holo-shape:full', 'got %s expected [time=%d, AM bins=%d, carrier bins=%d]' % (full['shape'], T, na, nc)))
    else:
        got = vals(full).reshape(T, na, nc)
        if not np.array_equal(got, exp):
            idx = np.argwhere(~(got == exp))[0].tolist()
            only_out = (exp == 0).all() or bool((got.sum() != exp.sum()))
            fs.append(Failure('holo-full-ne-bruteforce' + (':total-differs' if only_out else ':same-total-wrong-cell'),
                              'first differing cell [t,am,carrier]=%s got %r expected %r' % (idx, float(got[tuple(idx)]), float(exp[tuple(idx)]))))
    for nm, o in (('sum', sm), ('mean', mn)):
        if o['shape'] != [na, nc]:
            shape_ok = False
            fs.append(Failure('holo-shape:' + nm, 'got %s expected [%d, %d]' % (o['shape'], na, nc)))
    if shape_ok:
        # "the time-summed and time-averaged outputs equal the sum and mean over time of the full output"
        # (each the result of its own call on the same arrays)
        got = vals(full).reshape(T, na, nc)
        d = _squashed_ne(sm, 'sum', got, T, scale)
        if d:
            fs.append(Failure('holo-sum-ne-time-sum-of-full', 'calls %s: %s; sum output %s; full.sum(0) %s' % (
                out.get('order'), d, vals(sm)[:16].tolist(), got.sum(axis=0).ravel().tolist()[:16])))
        d = _squashed_ne(mn, 'mean', got, T, scale)
        if d:
            fs.append(Failure('holo-mean-ne-time-mean-of-full', 'calls %s: %s; mean output %s; full.mean(0) %s' % (
                out.get('order'), d, vals(mn)[:16].tolist(), got.mean(axis=0).ravel().tolist()[:16])))
        # each squashed output against the per-sample histogram of the data itself
        for nm, o in (('sum', sm), ('mean', mn)):
            d = _squashed_ne(o, nm, exp, T, scale)
            if d:
                fs.append(Failure('holo-%s-ne-bruteforce' % nm, 'calls %s: %s' % (out.get('order'), d)))
        # the remaining calls of the sequence on the same arrays: the other mode, and the first setting again
        if 'other' in out:
            o = out['other']
            md, nm = o.get('mode', other_mode(mode)), o.get('squash', 'sum')
            sc2 = max(1.0, float(np.max(np.abs(A2))) ** (2 if md == 'energy' else 1) if A2.size else 1.0)
            d = _squashed_ne(o, nm, brute_holo(F1, F2, A2, e1, e2, md), T, sc2)
            if d:
                fs.append(Failure('holo-other-mode-ne-bruteforce', 'calls on the same arrays %s: the mode=%s squash_time=%s call: %s' % (
                    out.get('order'), md, nm, d)))
        if 'again' in out:
            o = out['again']
            nm = o.get('squash', 'none')
            d = _squashed_ne(o, nm, exp, T, scale)
            if d:
                fs.append(Failure('holo-repeat-ne-bruteforce', 'calls on the same arrays %s: the repeated mode=%s squash_time=%s call: %s' % (
                    out.get('order'), mode, nm, d)))
    return fs
