"""C01 — classic sift is a complete additive decomposition of its input."""
import numpy as np

from common import proto
from common.framework import Failure, ImplError, Stream, err_kind
from props import _sift as S

ID = 'C01'
LEAN_MODULES = ['Proofs.C01']
REQUIRED = ['C01.sift_residual_inv', 'C01.sift_complete', 'C01.sift_complete_unless_cutshort', 'C01.sift_cutshort_cases',
            'C01.getNextImf_contract', 'C01.sift_getNextImf_complete', 'C01.sift_last_nonoscillatory', 'C01.sift_col_lengths',
            'C01.sift_pipeline_complete', 'C01.sift_pipeline_last_nonoscillatory',
            'C01.sift_getNextImf_complete_or_energy', 'C01.sift_getNextImf_complete_energy_silent',
            'C01.sift_getNextImf_cutshort_cases', 'C01.lastEnergyFires_of_none', 'C01.sift_last_nonoscillatory_or_energy',
            'C01.pipeline_envelopes_faithful', 'C01.pipeline_pad0_not_represented', 'C01.sift_pipeline_cutshort_cases',
            # the option model (C06) under the sift model: no energy threshold supplied => none at any extraction => complete
            # (seeded C01-7: fallback imf options gaining energy_thresh)
            'C01.sift_no_unrequested_energy_stop']
TRUSTED = ['the single-IMF extraction is an oracle table in the SIFT correspondence: row k holds the output and flag of the real '
           'public emd.sift.get_next_imf applied to the residual x - sum(c_0..c_{k-1}) computed by the harness; the model replays '
           'its own outer loop, recomputes every residual exactly and rejects the table (oracle-desync) if a residual drifts by more '
           'than 1e-9*max(1,|x|). The tie between get_next_imf and its model is the C04 correspondence (op GNI).',
           'exactness: the theorem gives sum(cols) = x exactly in Q; float rounding of the real sum is bounded by the instance check '
           '(tolerance 1e-9*max(1,|x|)) — modelled, not verified',
           'abs(next_imf).sum() < sift_thresh is compared exactly; cases within 1e-7 relative of the threshold are skipped and counted']
ASSUMPTIONS = ['extractor contract: get_next_imf without energy threshold returns its input bit-identically whenever it clears the '
               'continue flag (checked on every table row)',
               'interp_envelope returns None iff the signal has fewer than two strict interior maxima (upper) / minima (lower) '
               '(stream env_none: real interp_envelope vs the model count (op PEAKS) vs an independent counter)']
RULE = ('random signals of 10 families (noise, random walk, tones+trend, AM/FM, integer plateaus, constants, ramps, engineered '
        'few-extrema n=5..16, perfect IMFs, long ramps (n=200..2000, corpus 3000) with one short burst near one end: few extrema far '
        'from the other edge; pure / AM / FM tones in which one IMF dominates its layer) x stop rule {sd, rilling, fixed} x step {1, 1/2, 1/3, 1/4, random} x interpolation '
        '{splrep, pchip, mono_pchip} x pad_width {1,2,3,5}; mostly no cap / default threshold / no energy threshold (the quantifier '
        'of C01), plus cut-short variants (cap, large sift_thresh, energy threshold). Non-trivial: at least two components and a '
        'natural (flag) exit, or an extraction that lost its extrema after >= 1 mean removals; distinct by content hash. '
        'A block of cases relies on the built-in option defaults (imf_opts omitted / None / {}: no energy threshold was requested, so none may cut the sift short); '
        'a block stores the signal as int64 / int16 / uint8 / float32 instead of float64 (case values exactly representable). '
        'The library is handed fresh writable arrays and every verdict uses the pristine input. Not judged (skipped, tagged): time-outs. '
        'Mechanism-level (broken correspondence, never a replayable C01 violation): the extractor contract on get_next_imf, cap respect (C03), '
        'reproduction of a convergence error by the harness peeling, the whole env_none stream (assumption validator).')

IMPL_TIMEOUT = 40


def _cols(arr):
    arr = np.asarray(arr)
    return [S.fr_list(arr[:, i]) for i in range(arr.shape[1])]


# the documented defaults of sift() / get_next_imf(): what a call that omits imf_opts (or passes None / {}) asks for.  No energy
# threshold is among them: C01 exempts only an EXPLICITLY requested cut-short
DEFAULTS = {'stop_method': 'sd', 'sd_thresh': 0.1, 'env_step_size': 1, 'max_iters': 1000, 'interp_method': 'splrep',
            'pad_width': 2, 'energy_thresh': None}
STORAGE = ['int64', 'int16', 'uint8', 'float32']      # storage types of the input besides float64


def as_stored(x, dtype):
    """the values of x that are exactly representable in `dtype` (what case['x'] holds for a dtype case)"""
    a = np.asarray(x, dtype=float)
    if dtype.startswith('uint'):
        a = np.round(a) - min(0.0, float(np.min(np.round(a)))) if a.size else a
        return [float(v) for v in np.clip(a, 0, np.iinfo(dtype).max)]
    if dtype.startswith('int'):
        return [float(v) for v in np.clip(np.round(a), np.iinfo(dtype).min, np.iinfo(dtype).max)]
    return [float(np.dtype(dtype).type(v)) for v in a]


def _call_sift(x, o, thr, cap, call=None, dtype=None):
    """the real sift on a fresh WRITABLE copy (read-only inputs are C19's subject; an implementation may use its argument as
    scratch space): every verdict compares with the pristine case['x'].
    call: None = every option spelled out; 'omit' / 'none' / 'empty' = imf_opts left out / None / {} (the case's options are then
    the documented DEFAULTS).  dtype: the array type the signal is stored in (its values are case['x'] exactly)."""
    import emd
    X = np.array(x, dtype=float)
    if dtype not in (None, 'float64'):
        Xd = X.astype(dtype)
        if not np.array_equal(Xd.astype(float), X):
            raise RuntimeError('harness: case values are not representable as %s' % dtype)
        X = Xd
    kw = S.sift_kwargs(o, thr, cap)
    if call:
        if any(o.get(k) != v for k, v in DEFAULTS.items()):
            raise RuntimeError('harness: a default-options case must carry the documented defaults')
        del kw['imf_opts']
        if call == 'none':
            kw['imf_opts'] = None
        elif call == 'empty':
            kw['imf_opts'] = {}
        if call == 'omit':
            kw = {k: v for k, v in kw.items() if k in ('sift_thresh', 'max_imfs') and not (k == 'sift_thresh' and v == 1e-8)}
    return emd.sift.sift(X, **kw)


def dominant_tone(rng, n):
    """a pure / AM / FM tone (optionally on a faint trend): ONE IMF carries almost all the energy of its layer, so an energy-ratio
    stop - had anybody asked for one - would fire after the first extraction (round-4 seeded change: the fallback options used when
    imf_opts is omitted gained energy_thresh=50)"""
    t = np.arange(n, dtype=float)
    per = rng.uniform(6.0, 14.0)
    am = 1 + rng.choice([0.0, 0.3, 0.5]) * np.sin(2 * np.pi * t / n + rng.uniform(0, 6.28))
    fm = rng.choice([0.0, 0.2, 0.3]) * np.sin(2 * np.pi * t / n)
    x = am * np.sin(2 * np.pi * (t / per + fm) + rng.uniform(0, 6.28))
    return x * rng.choice([1.0, 1.0, 0.1, 20.0]) + rng.choice([0.0, 0.0, 0.02]) * t / n


def _call_gni(x, o, dtype=None):
    import emd
    X = np.array(x, dtype=float)
    if dtype not in (None, 'float64'):
        X = X.astype(dtype)
    return emd.sift.get_next_imf(X, envelope_opts=S.env_kwargs(o), extrema_opts=S.ext_kwargs(o), **S.imf_kwargs(o))


def _peel(x, o, layers, with_paths=True, dtype=None):
    """S.peel (manual peeling with the public get_next_imf, exit path of every layer) with writable inputs.
    dtype: storage type of the input signal: the FIRST extraction sees the signal as stored (exactly what sift() hands to
    get_next_imf; e.g. the SD metric of an int16 signal is evaluated in wrapped int16 arithmetic on the first iteration, which is
    a matter of the stopping rule (C04), not of C01); every later residual is float64 in sift() as well."""
    X = np.array(x, dtype=float)[:, None]
    rows = []
    r = X.copy()
    imf = None
    for k in range(layers):
        path = None
        try:
            if with_paths:
                ref = S.reference(r[:, 0].copy(), o, extra=0)
                e = ref['exit']
                path = 'truncated' if e is None else '%s@%s' % (e[0], '0' if e[1] == 0 else '>=1')
        except S.Timeout:
            raise           # the budget of the whole peeling: no table (skip:peeling-timeout), never a truncated one
        except Exception:  # noqa
            path = 'envelope-raises'
        rin = r[:, 0].copy()
        try:
            c, f = _call_gni(rin, o, dtype if k == 0 else None)
        except S.Timeout:
            raise
        except Exception as e:  # noqa
            rows.append((rin, None, False, err_kind(e), path))
            break
        c = np.asarray(c)
        rows.append((rin, c[:, 0].copy(), bool(f), None, path))
        imf = c if imf is None else np.concatenate((imf, c), axis=1)
        r = X - imf.sum(axis=1)[:, None]
    return rows


def burst_ramp(rng, n):
    """a monotone ramp carrying ONE short burst of 2-4 oscillations close to one end: the few extrema sit far from the other
    edge, so mirroring them out to it takes many rounds of the padding loop (round-3 seeded change: the loop gave up after 32
    rounds and reported 'no extrema', which ends the sift on an oscillating component)"""
    t = np.arange(n, dtype=float)
    x = rng.choice([0.5, 1.0, 3.0]) * t / n
    per = rng.choice([4, 5, 6, 8])
    ncyc = rng.choice([2, 3, 3, 4])
    m = min(per * ncyc, n - 4)
    start = rng.randint(2, max(2, min(30, n - m - 2)))
    b = np.arange(m)
    burst = rng.uniform(0.3, 1.0) * np.sin(2 * np.pi * b / per + rng.uniform(0, 6.28)) * np.hanning(m + 2)[1:-1]
    x[start:start + m] += burst
    if rng.random() < 0.5:
        x = x[::-1].copy()
    if rng.random() < 0.3:
        x = -x
    return x


class SiftRun(Stream):
    name = 'sift'

    def corpus(self):
        base = {'stop_method': 'sd', 'sd_thresh': 0.1, 'env_step_size': 1, 'max_iters': 1000, 'interp_method': 'splrep',
                'pad_width': 2, 'energy_thresh': None}
        c = []
        # D2 witness: 8 samples, rilling; the pinned tree returned one column and lost a residual of 2.0
        c.append({'x': [-0.61, -0.54, -0.88, 2.33, 1.75, 1.47, 1.42, 2.76],
                  'opts': dict(base, stop_method='rilling', rilling_thresh=[0.05, 1.0, 0.1], max_iters=50),
                  'thr': 1e-8, 'cap': None, 'family': 'corpus-d2'})
        c.append({'x': [0.356, -1.079, 0.524, -0.679, -1.243, -1.095, -1.282],
                  'opts': dict(base, stop_method='fixed', max_iters=5), 'thr': 1e-8, 'cap': None, 'family': 'corpus-d2'})
        c.append({'x': [0.0, 1.0, 2.0, 3.0, 4.0, 5.0], 'opts': dict(base), 'thr': 1e-8, 'cap': None, 'family': 'corpus-ramp'})
        c.append({'x': [2.0, 2.0, 2.0, 2.0, 2.0], 'opts': dict(base), 'thr': 1e-8, 'cap': None, 'family': 'corpus-const'})
        c.append({'x': [0.0, 0.0, 0.0, 0.0], 'opts': dict(base), 'thr': 1e-8, 'cap': None, 'family': 'corpus-zero'})
        t = np.arange(64)
        x = np.sin(2 * np.pi * 0.21 * t) + 0.5 * np.sin(2 * np.pi * 0.043 * t) + t / 40
        c.append({'x': S.fr_list(x), 'opts': dict(base), 'thr': 1e-8, 'cap': None, 'family': 'corpus-tones'})
        c.append({'x': S.fr_list(x), 'opts': dict(base), 'thr': 1e-8, 'cap': 2, 'family': 'corpus-cap'})
        c.append({'x': S.fr_list(x), 'opts': dict(base), 'thr': 30.0, 'cap': None, 'family': 'corpus-thr'})
        c.append({'x': S.fr_list(x), 'opts': dict(base, energy_thresh=20), 'thr': 1e-8, 'cap': None, 'family': 'corpus-energy'})
        # round-3 seeded change (padding loop gives up after 32 rounds): a ramp with one short burst near its start; reflecting the
        # 3 maxima / minima out to the far edge takes ~50 (n=400, period 6, pad 1) resp. ~40 (n=3000, period 24, pad 3) rounds
        for n, per, pad, stop in ((400, 6, 1, 'sd'), (3000, 24, 3, 'rilling')):
            t = np.arange(n)
            y = 3.0 * t / n
            m = int(2.5 * per)
            y[20:20 + m] += 0.5 * np.sin(2 * np.pi * np.arange(m) / per) * np.hanning(m)
            o = dict(base, pad_width=pad, stop_method=stop)
            if stop == 'rilling':
                o['rilling_thresh'] = [0.05, 0.5, 0.05]
            c.append({'x': S.fr_list(y), 'opts': o, 'thr': 1e-8, 'cap': None, 'family': 'corpus-burst-ramp'})
        # round-4 seeded changes: (1) imf_opts omitted / None / {} on an AM-FM tone must still be a complete decomposition (nobody
        # asked for an energy stop); (2) the same integer values stored as int64 / int16 / uint8 (and float32 storage) stay additive
        n = 400
        t = np.arange(n)
        y = (1 + .5 * np.sin(2 * np.pi * t / n)) * np.sin(2 * np.pi * (t / 9. + .3 * np.sin(2 * np.pi * t / n)))
        for call in ('omit', 'none', 'empty'):
            c.append({'x': S.fr_list(y), 'opts': dict(DEFAULTS), 'thr': 1e-8, 'cap': None, 'family': 'corpus-default-options', 'call': call})
        iv = [3, 7, 2, 9, 4, 8, 1, 6, 5, 10, 0, 7, 3, 9, 2, 8, 4, 6, 1, 5, 9, 2, 7, 3]
        for dt in STORAGE:
            c.append({'x': as_stored(iv, dt), 'opts': dict(base), 'thr': 1e-8, 'cap': None, 'family': 'corpus-storage', 'dtype': dt})
        c.append({'x': as_stored([v - 5 for v in iv], 'int16'), 'opts': dict(base, stop_method='fixed', max_iters=3, interp_method='pchip'),
                  'thr': 1e-8, 'cap': None, 'family': 'corpus-storage', 'dtype': 'int16'})
        return c

    def generate(self, rng, tier):
        for i in range(150 if tier == 'thorough' else 15):
            xo = S.gen_vanishing(rng)
            if xo is not None:
                yield {'x': S.fr_list(xo[0]), 'opts': dict(xo[1], energy_thresh=None), 'thr': 1e-8, 'cap': None, 'family': 'vanishing'}
        for i in range(120 if tier == 'thorough' else 12):
            n = rng.choice([200, 300, 400, 600] + ([1000, 2000] if tier == 'thorough' else []))
            o = S.gen_opts(rng, tier, allow_energy=False, family='burstramp')
            o['pad_width'] = rng.choice([1, 1, 2, 3])
            o['env_step_size'] = 1
            if o['interp_method'] != 'splrep':
                if rng.random() < 0.5:
                    o['interp_method'] = 'splrep'
                else:
                    n = min(n, 300)     # pchip sifts of long signals keep peeling rounding-level layers (dozens of them): keep them short
            if o['stop_method'] == 'fixed':
                o['max_iters'] = rng.choice([3, 5, 10])
            else:
                o['max_iters'] = 50
            yield {'x': S.fr_list(burst_ramp(rng, n)), 'opts': o, 'thr': 1e-8, 'cap': None, 'family': 'burstramp'}
        for i in range(150 if tier == 'thorough' else 16):
            # the built-in option defaults (imf_opts omitted / None / {}) on signals in which one IMF dominates its layer
            n = rng.choice([64, 128, 200, 400])
            x = dominant_tone(rng, n) if rng.random() < 0.8 else S.gen_signal(rng, rng.choice(['amfm', 'tones', 'noise']), n)
            yield {'x': S.fr_list(x), 'opts': dict(DEFAULTS), 'thr': 1e-8, 'cap': None, 'family': 'default-options',
                   'call': rng.choice(['omit', 'none', 'empty'])}
        for i in range(200 if tier == 'thorough' else 24):
            # the same real values held in an integer / single-precision array
            dt = rng.choice(STORAGE)
            n = rng.choice([12, 16, 24, 32, 48, 64])
            if dt == 'float32':
                x = S.gen_signal(rng, rng.choice(['noise', 'walk', 'tones', 'amfm', 'plateau']), n)
            else:
                fam = rng.choice(['plateau', 'int-walk', 'int-tones'])
                if fam == 'plateau':
                    x = np.round(S.gen_signal(rng, 'plateau', n))
                elif fam == 'int-walk':
                    x = np.cumsum([rng.randint(-4, 4) for _ in range(n)])
                else:
                    x = np.round(rng.choice([10, 40, 100]) * S.gen_signal(rng, 'tones', n))
            o = S.gen_opts(rng, tier, allow_energy=False, family='noise')
            o['env_step_size'] = 1
            if o['stop_method'] == 'fixed':
                o['max_iters'] = rng.choice([3, 5, 10])
            elif o['max_iters'] < 10:
                o['max_iters'] = 50
            yield {'x': as_stored(x, dt), 'opts': o, 'thr': 1e-8, 'cap': None, 'family': 'storage', 'dtype': dt}
        ncase = 4000 if tier == 'thorough' else 330
        nmax = 384 if tier == 'thorough' else 64
        for i in range(ncase):
            fam = rng.choice(['noise', 'noise', 'walk', 'walk', 'tones', 'tones', 'amfm', 'plateau', 'const', 'ramp',
                              'fewext', 'fewext', 'fewext', 'shortnoise', 'shortnoise', 'perfect'])
            if fam == 'shortnoise':
                n, f2 = rng.randint(5, 16), 'noise'
            else:
                n = rng.choice([8, 12, 16, 24, 32, 48, 64, nmax]) if rng.random() < 0.8 else rng.randint(3, nmax)
                f2 = fam
            o = S.gen_opts(rng, tier, allow_energy=False, family=f2)
            if o['env_step_size'] != 1 and n > 160:
                n = rng.randint(65, 160)      # small steps can yield > 100 components: keep legitimate runs short
            if o['stop_method'] == 'fixed' and n > 64 and o['max_iters'] > 10:
                o['max_iters'] = rng.choice([3, 5, 10])  # fixed counts give hundreds of components: keep runs short
            x = S.gen_signal(rng, f2, n)
            if o['stop_method'] != 'fixed' and o['max_iters'] < 10 and rng.random() < 0.8:
                o['max_iters'] = rng.choice([50, 1000])
            if len(x) > 128 and o['max_iters'] > 50 and o['stop_method'] == 'rilling':
                o['max_iters'] = 50
            thr, cap = 1e-8, None
            u = rng.random()
            if u < 0.10:
                cap = rng.randint(1, 5)
            elif u < 0.18:
                thr = rng.choice([0.5, 5.0, 1e-3]) * max(1.0, float(np.max(np.abs(x))))
            elif u < 0.23:
                o['energy_thresh'] = rng.choice([50, 20, 5])
            yield {'x': S.fr_list(x), 'opts': o, 'thr': thr, 'cap': cap, 'family': fam}

    def impl(self, case):
        x, o = np.array(case['x'], dtype=float), case['opts']
        out = {}
        try:
            with S.time_limit(IMPL_TIMEOUT):
                imf = _call_sift(x, o, case['thr'], case['cap'], call=case.get('call'), dtype=case.get('dtype'))
            imf = np.asarray(imf)
            out['res'] = {'shape': list(imf.shape), 'cols': _cols(imf) if imf.ndim == 2 else []}
            K = imf.shape[1] if imf.ndim == 2 else 0
        except Exception as e:  # noqa
            out['res'] = {'error': err_kind(e), 'msg': str(e)[:200]}
            K = 80
            if out['res']['error'] == 'Timeout':
                out['table_error'] = 'Timeout'
                return out
        try:
            with S.time_limit(IMPL_TIMEOUT):
                rows = _peel(x, o, K + 2, dtype=case.get('dtype'))
            out['table'] = [[S.fr_list(r), None if c is None else S.fr_list(c), f, err, path] for r, c, f, err, path in rows]
        except Exception as e:  # noqa
            out['table_error'] = err_kind(e)
        return out

    def ops(self, case, out):
        if isinstance(out, ImplError) or 'table' not in out:
            return []
        return [S.sift_op(case['x'], case['thr'], case['cap'], [tuple(r) for r in out['table']])]

    def compare(self, case, out, results):
        if isinstance(out, ImplError):
            return 'skip:timeout' if out['error'] == 'Timeout' else 'harness impl wrapper raised %s' % out['error']
        if 'table' not in out:
            return 'skip:peeling-timeout'
        res = out['res']
        r = results[0]
        x = np.array(case['x'], dtype=float)
        scale = S.scale_of(x)
        if r.status == 'bad-op':
            return 'model rejected the op (bad-op)'
        if r.status == 'oracle-desync':
            return 'oracle-desync (harness residual table inconsistent with the model): %s' % r.raw[:200]
        if r.status == 'err':
            if res.get('error') != r.words[0]:
                return 'model: extraction raises %s in layer %s; impl: %s' % (r.words[0], r.args.get('ncols'), res.get('error') or 'returned')
            return None
        if float(r.args['margin']) < S.TIE:
            return 'skip:near-tie'
        if 'error' in res:
            return 'model: %s; impl raised %s' % (r.raw[:80], res['error'])
        K = res['shape'][1] if len(res['shape']) == 2 else -1
        if r.args['exit'] == 'fuel':
            return 'model keeps sifting beyond %d layers; impl returned %d components' % (int(r.args['ncols']), K)
        if int(r.args['ncols']) != K:
            return 'column count: model %s (flag=%s cap=%s thr=%s), impl %d' % (r.args['ncols'], r.args['flag'], r.args['cap'], r.args['thr'], K)
        # columns of the real sift against the table columns the model used
        for k in range(K):
            if not S.close(res['cols'][k], out['table'][k][1], scale):
                return 'component %d of sift() differs from get_next_imf applied to the running residual' % k
        # residual x - sum as computed by the model from the table vs the real output
        mres = np.array([float(v) for v in r.vecs[0]]) if r.vecs and r.vecs[0] else np.zeros(len(x))
        ires = np.sum(np.array(res['cols']), axis=0) - x if K else -x
        if not S.close(mres, ires, scale):
            return 'sum(cols) - x differs between model and implementation'
        if int(r.args['flag']) == 1 and case['opts'].get('energy_thresh') is None and float(np.max(np.abs(ires))) > S.TOL * scale:
            return 'model exit by flag (complete by theorem) but implementation residual is %.3g' % float(np.max(np.abs(ires)))
        return None

    def holds(self, case, out):
        if isinstance(out, ImplError):
            if out['error'] == 'Timeout':
                return []          # run time is not C01's subject (C04 owns termination): skipped and tagged, see compare()
            # impl() catches everything the library raises: what arrives here is a problem of the harness wrapper itself
            return [Failure('harness-crashed:' + out['error'], out.get('msg', ''), literal=False)]
        res, o = out['res'], case['opts']
        x = np.array(case['x'], dtype=float)
        n = len(x)
        scale = S.scale_of(x)
        fs = []
        if 'error' in res:
            if res['error'] == 'Timeout':
                return []          # skipped and tagged (outer=raises:Timeout): C01 says nothing about run time
            if res['error'] == 'EMDSiftCovergeError':
                # the documented error of the extraction layer: C01 is vacuous (no components). That the harness's own peeling
                # hits the same error is a mechanism-level expectation (a differently rounded residual may differ on a borderline)
                if 'table' in out and not any(r[3] == 'EMDSiftCovergeError' for r in out['table']):
                    fs.append(Failure('converge-error-not-reproduced-by-peeling', '', literal=False))
                return fs
            return [Failure('raises:' + res['error'], res.get('msg', ''))]
        if len(res['shape']) != 2 or res['shape'][0] != n or res['shape'][1] < 1:
            return [Failure('wrong-shape', 'returned %s for %d samples' % (res['shape'], n))]
        cols = np.array(res['cols'])          # [K x n]
        K = cols.shape[0]
        if not np.all(np.isfinite(cols)):
            return [Failure('non-finite-output', '')]
        last = cols[-1]
        cut_cap = case['cap'] is not None and K == case['cap']
        cut_thr = float(np.sum(np.abs(last))) < case['thr']
        near_thr = abs(float(np.sum(np.abs(last))) - case['thr']) <= S.TIE * case['thr']
        cut_energy = o.get('energy_thresh') is not None
        err = float(np.max(np.abs(x - cols.sum(axis=0))))
        if not (cut_cap or cut_thr or cut_energy or near_thr):
            if err > S.TOL * scale:
                fs.append(Failure('sum-incomplete', 'not cut short (no cap hit, abs-sum of last component %.3g >= %.3g, no energy '
                                  'threshold) but max|x - sum(imf)| = %.3g with %d components' % (float(np.sum(np.abs(last))), case['thr'], err, K)))
            pk, tr = S.count_extrema(last)
            if pk >= 2 and tr >= 2:
                fs.append(Failure('last-component-oscillatory', 'natural end but the last component has %d maxima and %d minima' % (pk, tr)))
        if case['cap'] is not None and case['cap'] >= 1 and K > case['cap']:
            # C03's statement (C01 only uses "cap reached" as an excuse): mechanism-level here
            fs.append(Failure('more-components-than-cap', '%d > %d' % (K, case['cap']), literal=False))
        # extractor contract on the rows of the peeling table
        if 'table' in out and o.get('energy_thresh') is None:
            for k, (r, c, f, e, path) in enumerate(out['table']):
                if c is not None and not f and not np.array_equal(np.array(c), np.array(r)):
                    # an ASSUMPTION of the proof about the public helper, not C01's words about sift(): mechanism-level
                    fs.append(Failure('extractor-contract-broken:flag-cleared-on-modified-iterate',
                                      'layer %d: get_next_imf cleared the continue flag but its output differs from its input' % k,
                                      literal=False))
                    break
        return fs

    def tags(self, case, out):
        o = case['opts']
        t = ['family=' + case['family'], 'stop=' + o['stop_method'], 'interp=' + o['interp_method'], 'pad=%d' % o['pad_width'],
             'step=%s' % ('1' if o['env_step_size'] == 1 else '<1'),
             'cutshort-config=' + ('cap' if case['cap'] is not None else 'thr' if case['thr'] > 1e-8 else
                                    'energy' if o.get('energy_thresh') is not None else 'none'),
             'imf_opts=' + (case.get('call') or 'explicit'), 'dtype=' + (case.get('dtype') or 'float64')]
        if isinstance(out, ImplError):
            return t
        res = out['res']
        if 'error' in res:
            t.append('outer=raises:' + res['error'])
        else:
            K = res['shape'][1]
            t.append('ncols=%s' % (K if K <= 3 else '4-6' if K <= 6 else '>6'))
            x = np.array(case['x'], dtype=float)
            cols = np.array(res['cols'])
            last = cols[-1]
            if case['cap'] is not None and K == case['cap']:
                t.append('outer=cap')
            if float(np.sum(np.abs(last))) < case['thr']:
                t.append('outer=thresh')
            if 'table' in out and K <= len(out['table']) and out['table'][K - 1][1] is not None and not out['table'][K - 1][2]:
                t.append('outer=flag')
        for row in out.get('table', [])[: (res['shape'][1] if 'shape' in res else 99)]:
            if row[4]:
                t.append('extraction=' + row[4])
        return t

    def nontrivial(self, case, out):
        if isinstance(out, ImplError) or 'error' in out['res'] or 'table' not in out:
            return False
        K = out['res']['shape'][1]
        tab = out['table']
        flag_exit = K <= len(tab) and tab[K - 1][1] is not None and not tab[K - 1][2]
        vanish = any(r[4] == 'noext@>=1' for r in tab[:K])
        return (K >= 2 and flag_exit) or vanish

    def shrink(self, case):
        x, o = case['x'], case['opts']
        n = len(x)
        for cut in (n // 2, n // 4, 1):
            if 0 < cut and n - cut >= 3:
                yield dict(case, x=x[cut:])
                yield dict(case, x=x[:n - cut])
        if case.get('call'):
            return                  # a default-options case must keep the documented defaults
        if o['interp_method'] != 'splrep':
            yield dict(case, opts=dict(o, interp_method='splrep'))
        if o['pad_width'] != 2:
            yield dict(case, opts=dict(o, pad_width=2))
        if o['env_step_size'] != 1:
            yield dict(case, opts=dict(o, env_step_size=1))
        r = [round(v, 2) for v in x]
        if r != x and not case.get('dtype'):
            yield dict(case, x=r)


class EnvNone(Stream):
    """Assumption validator: interp_envelope is None iff fewer than two extrema of its kind (model: op PEAKS)."""
    name = 'env_none'

    def corpus(self):
        return [{'x': [0.0, 1.0, 0.0, 1.0, 0.0], 'pad': 2, 'interp': 'splrep'},      # 2 peaks, 1 trough
                {'x': [0.0, 1.0, 0.0, 0.0, 0.0], 'pad': 2, 'interp': 'splrep'},      # 1 peak
                {'x': [0.0, 1.0, 1.0, 0.0, 1.0, 0.0], 'pad': 2, 'interp': 'splrep'}, # plateau is not a strict maximum
                {'x': [1.0, 0.0, 1.0, 0.0, 1.0], 'pad': 1, 'interp': 'pchip'},
                {'x': [3.0, 3.0, 3.0], 'pad': 2, 'interp': 'splrep'}]

    def generate(self, rng, tier):
        for i in range(2000 if tier == 'thorough' else 300):
            fam = rng.choice(['noise', 'plateau', 'plateau', 'fewext', 'ramp', 'const', 'walk'])
            x = S.gen_signal(rng, fam, rng.randint(3, 14))
            yield {'x': S.fr_list(x), 'pad': rng.choice([1, 2, 3, 5]), 'interp': rng.choice(['splrep', 'pchip', 'mono_pchip'])}

    def impl(self, case):
        import emd
        x = np.array(case['x'], dtype=float)
        o = {'pad_width': case['pad'], 'interp_method': case['interp']}
        U = emd.sift.interp_envelope(x, mode='upper', extrema_opts=S.ext_kwargs(o), **S.env_kwargs(o))
        L = emd.sift.interp_envelope(x, mode='lower', extrema_opts=S.ext_kwargs(o), **S.env_kwargs(o))
        return {'unone': U is None, 'lnone': L is None, 'ulen': None if U is None else len(U), 'llen': None if L is None else len(L)}

    def ops(self, case, out):
        return [proto.op('SIFT-PEAKS', {}, [case['x']])]

    def compare(self, case, out, results):
        if isinstance(out, ImplError):
            return 'skip:timeout' if out['error'] == 'Timeout' else 'interp_envelope raised %s' % out['error']
        r = results[0]
        if not r.ok:
            return 'model: ' + r.raw[:80]
        if (int(r.args['peaks']) < 2) != out['unone'] or (int(r.args['troughs']) < 2) != out['lnone']:
            return 'model counts peaks=%s troughs=%s; interp_envelope None: upper=%s lower=%s' % (
                r.args['peaks'], r.args['troughs'], out['unone'], out['lnone'])
        return None

    def holds(self, case, out):
        # validator of an ASSUMPTION of the proof (how interp_envelope signals "no envelope"), not C01's own words: every kind
        # of this stream is mechanism-level (a failure counts as a broken correspondence, never as a replayable C01 violation)
        if isinstance(out, ImplError):
            return [] if out['error'] == 'Timeout' else [Failure('envelope-raises:' + out['error'], out['msg'], literal=False)]
        pk, tr = S.count_extrema(case['x'])
        fs = []
        if (pk < 2) != out['unone'] or (tr < 2) != out['lnone']:
            fs.append(Failure('envelope-none-condition', '%d maxima / %d minima but upper None=%s lower None=%s'
                              % (pk, tr, out['unone'], out['lnone']), literal=False))
        for k in ('ulen', 'llen'):
            if out[k] is not None and out[k] != len(case['x']):
                fs.append(Failure('envelope-length', '%s=%s for %d samples' % (k, out[k], len(case['x'])), literal=False))
        return fs

    def tags(self, case, out):
        if isinstance(out, ImplError):
            return ['raises']
        return ['upper=%s' % ('none' if out['unone'] else 'some'), 'lower=%s' % ('none' if out['lnone'] else 'some')]

    def nontrivial(self, case, out):
        return not isinstance(out, ImplError) and (out['unone'] != out['lnone'])


STREAMS = [SiftRun(), EnvNone()]
